#!/bin/bash
# usage: seedrun.sh <srcdir with patch.diff demo_test.go meta.json> <PROP-n> [check ids...]
# Confirms a seeded change written by an independent agent, in a scratch worktree of /repo HEAD (never in /repo):
#   1. patch applies; 2. the repository's existing tests pass with it (both modules);
#   3. the demo fails with the change and passes without it;
#   4. runs the listed checks (quick) against the mutated worktree via VERIF_REPO.
# Writes /verif/seeded/<PROP-n>/{patch.diff,demo_test.go,meta.agent.json,verification.log,check-<ID>.out,meta.json}.
set -u
export GOFLAGS=-mod=mod GOPROXY=off GOSUMDB=off GOTOOLCHAIN=local CGO_ENABLED=1
SRC=$1; NAME=$2; shift 2
WT=/tmp/sc-$NAME
OUT=/verif/seeded/$NAME
export TMPDIR=/dev/shm/sc-$NAME; mkdir -p $TMPDIR
mkdir -p $OUT
git -C /repo worktree remove --force $WT 2>/dev/null
git -C /repo worktree add -q $WT HEAD || exit 2
cp $SRC/patch.diff $OUT/patch.diff
cp $SRC/meta.json $OUT/meta.agent.json
cp $SRC/demo_test.go $OUT/demo_test.go
DEST=$(python3 -c "import json,sys;print(json.load(open('$SRC/meta.json'))['dest'])")
RUN=$(python3 -c "import json,sys;print(json.load(open('$SRC/meta.json')).get('demo_run','.'))")
RACE=$(python3 -c "import json,sys;m=json.load(open('$SRC/meta.json'));print('-race' if 'race' in str(m.get('demo_flags','')) else '')")
LOG=$OUT/verification.log; : > $LOG
( cd $WT && git apply $SRC/patch.diff ) >> $LOG 2>&1 || { echo "PATCH DOES NOT APPLY" | tee -a $LOG; exit 1; }
echo "== existing tests with the change" >> $LOG
# TestFBDNSDBBadPathDontWrite leaves a 10 s periodic reload running on a nil DB: on a loaded machine the
# dnsserver test binary is still alive when it fires and panics (unchanged tree too) - run it on its own
( cd $WT/dnsrocks && go test -vet=off -count=1 -ldflags=-checklinkname=0 -skip '^TestFBDNSDBBadPathDontWrite$' ./... ) >> $LOG 2>&1; T1=$?
( cd $WT/dnsrocks && go test -vet=off -count=1 -ldflags=-checklinkname=0 -run '^TestFBDNSDBBadPathDontWrite$' ./dnsserver ) >> $LOG 2>&1 || T1=1
( cd $WT/dnsrocks/go-cdb-mods && go test -vet=off -count=1 ./... ) >> $LOG 2>&1; T2=$?
MODDIR=$WT/$DEST; while [ ! -f $MODDIR/go.mod ]; do MODDIR=$(dirname $MODDIR); done
DEMOPKG=./$(realpath --relative-to=$MODDIR $WT/$DEST)
cp $SRC/demo_test.go $WT/$DEST/zz_seed_demo_test.go
echo "== demo with the change" >> $LOG
( cd $MODDIR && go test $RACE -vet=off -count=1 -ldflags=-checklinkname=0 -run "$RUN" $DEMOPKG ) >> $LOG 2>&1; D_WITH=$?
( cd $WT && git apply -R $SRC/patch.diff )
echo "== demo without the change" >> $LOG
( cd $MODDIR && go test $RACE -vet=off -count=1 -ldflags=-checklinkname=0 -run "$RUN" $DEMOPKG ) >> $LOG 2>&1; D_WITHOUT=$?
rm -f $WT/$DEST/zz_seed_demo_test.go
( cd $WT && git apply $SRC/patch.diff )
RES=""
for c in "$@"; do
  echo "== check $c against the mutated tree" >> $LOG
  s=$(date +%s)
  VERIF_REPO=$WT/dnsrocks VERIF_EVIDENCE=/tmp/ev-$NAME timeout 1800 /verif/check $c quick > $OUT/check-$c.out 2>&1; rc=$?
  grep -m3 "^VIOLATION" $OUT/check-$c.out >> $LOG
  tail -1 $OUT/check-$c.out >> $LOG
  RES="$RES $c:exit$rc($(( $(date +%s)-s ))s)"
  # keep outputs small
  head -c 20000 $OUT/check-$c.out > $OUT/check-$c.out.tmp && mv $OUT/check-$c.out.tmp $OUT/check-$c.out
done
echo "existing_tests_exit=$T1/$T2 demo_with=$D_WITH demo_without=$D_WITHOUT checks:$RES" | tee -a $LOG
git -C /repo worktree remove --force $WT; rm -rf /tmp/ev-$NAME $TMPDIR 2>/dev/null
exit 0
