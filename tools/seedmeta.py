#!/usr/bin/env python3
"""Writes /verif/seeded/<name>/meta.json from meta.agent.json + verification.log (the last line written by
tools/seedrun.sh) + check-<ID>.out. usage: seedmeta.py [name...] (default: all seeded dirs with a verification.log
in the seedrun format)"""
import json, os, re, sys
root = '/verif/seeded'
names = sys.argv[1:] or sorted(os.listdir(root))
for n in names:
    d = os.path.join(root, n)
    log = os.path.join(d, 'verification.log')
    ag = os.path.join(d, 'meta.agent.json')
    if not (os.path.exists(log) and os.path.exists(ag)):
        continue
    last = [l for l in open(log, errors='replace').read().splitlines() if l.startswith('existing_tests_exit=')]
    if not last:
        continue
    m = re.match(r'existing_tests_exit=(\S+) demo_with=(\d+) demo_without=(\d+) checks:(.*)', last[-1])
    if not m or '/' not in m.group(1):
        continue  # older seedcheck.sh format: meta.json was written by hand
    a = json.load(open(ag))
    checks = {}
    for c, rc, secs in re.findall(r'(C\d\d):exit(\d+)\((\d+)s\)', m.group(4)):
        fps = []
        out = os.path.join(d, 'check-%s.out' % c)
        if os.path.exists(out):
            fps = re.findall(r'^\s*fingerprint: (.*)$', open(out, errors='replace').read(), re.M)[:3]
        checks[c] = {'exit': int(rc), 'detected': rc == '1', 'wall_s_on_shared_machine': int(secs), 'first_fingerprints': fps}
    t1, t2 = m.group(1).split('/')
    meta = {
        'property': a.get('property', n[:3]),
        'summary': a.get('summary'),
        'needs': a.get('needs'),
        'files': a.get('files'),
        'origin': 'independent sub-agent given only the property text and a scratch worktree of /repo',
        'demo': {'file': 'demo_test.go', 'dest': a.get('dest'), 'run': a.get('demo_run'), 'flags': a.get('demo_flags', '')},
        'verified_by_me': {
            'existing_tests_pass_with_change': t1 == '0' and t2 == '0',
            'demo_fails_with_change': m.group(2) != '0',
            'demo_passes_without_change': m.group(3) == '0',
            'how': 'tools/seedrun.sh: scratch worktree of /repo HEAD; git apply patch.diff; go test ./... of both modules (dnsserver/TestFBDNSDBBadPathDontWrite run on its own, it leaves a 10 s reload timer behind); demo with and without the change; then ./check <ID> quick with VERIF_REPO pointing at the mutated worktree',
        },
        'checks': checks,
    }
    json.dump(meta, open(os.path.join(d, 'meta.json'), 'w'), indent=1)
    print(n, {c: v['detected'] for c, v in checks.items()}, 'tests', t1, t2, 'demo', m.group(2), m.group(3))
