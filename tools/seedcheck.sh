#!/bin/bash
# usage: seedcheck.sh <PROP> <n> <srcdir> <demo-dest-dir-rel-to-repo-root> <test-pkgs (quoted, rel to module dir of demo)> [check ids...]
# Confirms a seeded change in a scratch worktree: applies patch, existing tests pass, demo fails with / passes without,
# then runs the listed checks against the mutated worktree. Writes /verif/seeded/<PROP>-<n>/.
set -u
export GOFLAGS=-mod=mod GOPROXY=off GOSUMDB=off GOTOOLCHAIN=local
PROP=$1; N=$2; SRC=$3; DEMODIR=$4; PKGS=$5; shift 5
WT=/tmp/sc-$PROP-$N
OUT=/verif/seeded/$PROP-$N
mkdir -p $OUT
git -C /repo worktree remove --force $WT 2>/dev/null
git -C /repo worktree add -q $WT HEAD || exit 2
cp $SRC/patch.diff $OUT/patch.diff
cp $SRC/meta.json $OUT/meta.agent.json 2>/dev/null
DEMO=$(ls $SRC/demo*_test.go 2>/dev/null | head -1)
cp $DEMO $OUT/ 2>/dev/null
LOG=$OUT/verification.log; : > $LOG
( cd $WT && git apply $SRC/patch.diff ) >> $LOG 2>&1 || { echo "PATCH DOES NOT APPLY" | tee -a $LOG; exit 1; }
MODDIR=$WT/$DEMODIR; while [ ! -f $MODDIR/go.mod ]; do MODDIR=$(dirname $MODDIR); done
echo "== existing tests with the change ($PKGS)" >> $LOG
( cd $MODDIR && go test -vet=off -count=1 -ldflags=-checklinkname=0 $PKGS ) >> $LOG 2>&1; T_WITH=$?
mkdir -p $WT/$DEMODIR; cp $DEMO $WT/$DEMODIR/zz_seed_demo_test.go
DEMOPKG=./$(realpath --relative-to=$MODDIR $WT/$DEMODIR)
echo "== demo with the change" >> $LOG
( cd $MODDIR && go test -vet=off -count=1 -ldflags=-checklinkname=0 -run "${DEMO_RUN:-.}" $DEMOPKG ) >> $LOG 2>&1; D_WITH=$?
( cd $WT && git apply -R $SRC/patch.diff )
echo "== demo without the change" >> $LOG
( cd $MODDIR && go test -vet=off -count=1 -ldflags=-checklinkname=0 -run "${DEMO_RUN:-.}" $DEMOPKG ) >> $LOG 2>&1; D_WITHOUT=$?
rm -f $WT/$DEMODIR/zz_seed_demo_test.go
( cd $WT && git apply $SRC/patch.diff )
RES=""
for c in "$@"; do
  echo "== check $c against the mutated tree" >> $LOG
  VERIF_REPO=$WT/dnsrocks VERIF_EVIDENCE=/tmp/ev-$PROP-$N timeout 1500 /verif/check $c quick > $OUT/check-$c.out 2>&1; rc=$?
  grep -m3 "^VIOLATION\|fingerprint" $OUT/check-$c.out >> $LOG
  tail -1 $OUT/check-$c.out >> $LOG
  RES="$RES $c:exit$rc"
done
echo "existing_tests_exit=$T_WITH demo_with=$D_WITH demo_without=$D_WITHOUT checks:$RES" | tee -a $LOG
git -C /repo worktree remove --force $WT; rm -rf /tmp/ev-$PROP-$N
