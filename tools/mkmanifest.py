#!/usr/bin/env python3
"""Generates /verif/MANIFEST.json from the table below and validates it.
Edit CHECKS / NOT_APPLICABLE here, never MANIFEST.json by hand."""
import json, os, sys
ROOT = os.path.dirname(os.path.dirname(os.path.abspath(__file__)))
ALL = ["C%02d" % i for i in range(1, 21)]

# id -> (engine, technique, level text, level note, design ref)
CHECKS = {
 "C17": ("venum", "exhaustive small-scope enumeration of byte strings on the real quote/unquote and line codec",
         "All byte strings up to length 2 (quick) / 3 (thorough) and all strings of up to 4 / 5 tokens over a 40-token dangerous alphabet are run through the real Bquote/Bunquote (round trip, no separator emitted); the <=2 set is also placed in TXT and generic lines with both separators and read back through the real codec. Complete enumeration inside the bound, not sampling.",
         "strconv is executed, not modelled; strings beyond the bounds are outside the claim", "DESIGN.md §3 C17"),
 "C06": ("vsched", "explicit-state BFS over operation histories + exhaustive preemption-bounded interleaving exploration (stateless DFS with state-signature pruning) of the real db.DB/FBDNSDB code under a controlled scheduler",
         "Part 1: breadth-first search over all histories (depth 5 quick / 7 thorough) of acquire/use/release on 3 reader slots, partial and full reloads (ok, same backend, open error, validation failure on new and on same backend, timeout with late success/failure), stats and shutdown, each transition executed by the real instrumented code over recording backends; invariant in every state: no use after close, no double close, served/held backends open, nothing unreferenced left open. Part 2: all interleavings within 2 (quick) / 3 (thorough) preemptions of eight concurrent scenarios (readers x reloads x timeout race x shutdown), with deadlock and panic detection.",
         "backends are recording fakes of the db.DBI interface (they never free, so the search survives the event it looks for); the instrumenter's rewrite of sync/chan/select/context is trusted to preserve semantics (see DESIGN.md 1.1); schedules beyond the preemption bound and histories beyond the depth are outside the claim", "DESIGN.md §3 C06"),
 "C16": ("venum", "exhaustive small-scope enumeration of record sequences, crafted hash collisions and buffer-boundary lengths on the real CDB writer/reader/dump/make against an insertion-ordered map model",
         "Every ordered sequence of up to 4 (quick) / 5 (thorough) records over a 4-key x 3-value alphabet, generated databases up to 5000 / 40000 keys, crafted slot and full-hash collisions found by an exhaustive index of the hash over all strings of <=3 bytes (wrapping probe chains, absent colliding keys), all key/value lengths 0..700 / 0..2500 and lengths straddling 4096-byte reader buffers; each file written by the real writer, every present and absent key looked up, and Dump->Make compared byte for byte.",
         "offsets near 4 GiB, concurrent readers and behaviour after Close are outside the claim", "DESIGN.md §3 C16"),
 "C18": ("venum", "exhaustive small-scope enumeration of SVCB parameter lists on the real parser/marshaller against an RFC 9460 decoder written from the RFC and miekg's unpacker",
         "Every ordered list of up to 4 (quick) / 5 (thorough) distinct keys of the seven supported keys times every value of a 38-value per-key alphabet (boundary ports, address forms, alpn lengths 0/1/255/256, ech base64 forms, mandatory variants), repeated-key / unknown-key / structural lists, oversize values, and whole B/H lines through the real codec: accepted lists must decode to exactly the declared list with two independent decoders, statement-level rejections must be refused, ToText->FromText must reproduce the wire bytes; panics are violations.",
         "only values of the alphabet and lists within the bound; ech treated as opaque bytes", "DESIGN.md §3 C18"),
 "C05": ("vsched", "exhaustive preemption-bounded interleaving exploration (controlled scheduler, stateless DFS, state-signature pruning) of the real reload and query paths over generation-stamped databases",
         "For every single-reload script and the path-following two-reload scripts (quick; every script of length <=2 and a second query thread in thorough) over {full ok, partial with new content, partial without change, missing path, missing validation key on a new / on the same backend, slow open racing the timeout}, and both reload styles (new backend per reload as CDB; in-place catch-up as RocksDB), every interleaving within 2 (quick) / 3 (thorough) preemptions of the reload thread with the query thread(s) is executed on the real instrumented FBDNSDB/db.DB/cdbdriver code over real CDB files behind a proxy backend whose every call is a scheduling point; each response must come from one generation, never older than the last reload that returned before the query started, never from a failed reload, never going backwards, and partial reloads must follow the path last switched to.",
         "RocksDB-style in-place catch-up is modelled by a proxy switching which real CDB generation file it reads (real CatchWithPrimary is not executed); the instrumenter's rewrite is trusted; schedules beyond the preemption bound and scripts beyond length 2 are outside the claim", "DESIGN.md §3 C05"),
 "C12": ("vsched", "exhaustive enumeration of query/reload histories against a cache-less twin handler + preemption-bounded interleaving exploration of query vs reload/purge",
         "Part 1: every history of length <=3 (quick) / <=4 (thorough) over 17 queries built to collide in the cache key (locations, types, classes incl. the decimal-concatenation collision, EDNS/ECS, case, every response class) and full/partial reloads, replayed on a fresh pair of real handlers (cache on/off): responses must be equal at every step. Part 2: every interleaving within 2 / 3 preemptions of queries with reloads (swap + purge) on the instrumented handler with the cache enabled: a query started after a reload returned must be served the new generation.",
         "weighted answers excluded by construction; entry expiry (1000 s) not reached; keys outside the alphabet's collisions not covered", "DESIGN.md §3 C12"),
 "C03": ("venum", "exhaustive small-scope enumeration of subnet sets and map declarations against a brute-force longest-prefix oracle, on the real rearranger, compilers and location lookups",
         "Level A: every set of <=3 (quick) / <=4 (thorough) subnets from a 72-prefix alphabet (two binary prefix trees straddling byte boundaries, default routes, address-space edges) x 2 locations through the real codec/rearranger, interpreted by predecessor search, for 270 boundary clients. Level B: sets of <=2 compiled to CDB (combined and per-family prefix sets), RocksDB v1 and v2 in several map surroundings, looked up through the real ResolverLocation/EcsLocation. Level C: all <=3 subsets of 16 map declarations x query names: exact map first, else nearest enclosing wildcard map.",
         "subnets outside the alphabet and larger sets are outside the claim", "DESIGN.md §3 C03"),
 "C09": ("venum", "exhaustive enumeration of the per-line option lattice and of small data files on the real text codec, preprocessor and RocksDB compiler",
         "Part 1: for all 17 line types the full lattice of optional fields (absent/default/other), both separators, wildcard owners, locations, address forms, escaped bytes and numeric edges, under both key layouts and codec modes: parse, print, re-parse must give the same keys/values and the same text. Part 2: every data file of <=2 (quick) / <=3 (thorough) lines over a 25-line alphabet of % / Z / ordinary lines compiled to RocksDB v1/v2 before and after the real preprocessor: identical dumps.",
         "values outside the variant lists and larger files are outside the claim", "DESIGN.md §3 C09"),
}
NOT_YET = "check not built yet in this round (work in progress; see DESIGN.md §9 for the construction order)"
NOT_APPLICABLE = {}

def main():
    checks = []
    for pid in ALL:
        if pid not in CHECKS: continue
        eng, tech, text, note, ref = CHECKS[pid]
        checks.append({
            "property_id": pid,
            "quick_cmd": "./check %s quick" % pid,
            "thorough_cmd": "./check %s thorough" % pid,
            "evidence_file": "/verif/evidence/%s.json" % pid,
            "replay_cmd_template": "./check %s quick --replay {path}" % pid,
            "engine": eng,
            "level_claimed": {"category": "model_checking", "text": text, "design_ref": ref},
            "level_note": note,
            "technique": tech,
        })
    na = [{"property_id": p, "reason": NOT_APPLICABLE.get(p, NOT_YET)} for p in ALL if p not in CHECKS]
    m = {
        "version": 1,
        "setup_cmd": "./setup.sh",
        "hooks": {
            "guard": "verif",
            "enable": "go build -tags verif -overlay <generated> : instrumentation and accessors are generated from /repo's current working tree by harness/vrewrite at check time and supplied through -overlay; no hook lines are committed to /repo",
            "baseline_off_cmd": "for m in $(cat /w/out/gomods.txt); do MF=$(cd /repo/$m && . /w/out/goenv.sh && gomodflag); (cd /repo/$m && go test $MF -json -vet=off -count=1 -timeout 25m ./...); done",
            "source_commits": [],
            "add_only": True,
        },
        "engines": [
            {"name": "venum", "path": "harness/vlib", "serves_properties": [p for p in ALL if p in CHECKS and CHECKS[p][0] == "venum"], "kind_free_text": "small-scope exhaustive input enumeration against a reference model / differential oracle, on the real code"},
            {"name": "vsched", "path": "harness/zzverif/vsched", "serves_properties": [p for p in ALL if p in CHECKS and CHECKS[p][0] == "vsched"], "kind_free_text": "controlled cooperative scheduler + stateless DFS explorer with preemption bounding over the real code instrumented by harness/vrewrite"},
            {"name": "vbfs", "path": "harness/vlib", "serves_properties": [p for p in ALL if p in CHECKS and CHECKS[p][0] == "vbfs"], "kind_free_text": "explicit-state breadth-first search over operation histories; each transition executed by the real code"},
        ],
        "checks": checks,
        "not_applicable": na,
        "notes": "All checks: ./check <ID> <quick|thorough>; exit 0 held / 1 VIOLATION / 2 infrastructure error. Known findings: known_findings.json.",
    }
    out = os.path.join(ROOT, "MANIFEST.json")
    json.dump(m, open(out, "w"), indent=1)
    open(out, "a").write("\n")
    try:
        import jsonschema
        jsonschema.validate(m, json.load(open("/root/.vp/MANIFEST.schema.json")))
        print("MANIFEST.json valid;", len(checks), "checks,", len(na), "not claimed")
    except ImportError:
        print("jsonschema not importable; written unvalidated")

if __name__ == "__main__":
    main()
