#!/usr/bin/env python3
"""Generates /verif/MANIFEST.json from the table below and validates it.
Edit CHECKS / NOT_APPLICABLE here, never MANIFEST.json by hand."""
import json, os, sys
ROOT = os.path.dirname(os.path.dirname(os.path.abspath(__file__)))
ALL = ["C%02d" % i for i in range(1, 21)]

# id -> (engine, technique, level text, level note, design ref)
CHECKS = {
 "C17": ("venum", "exhaustive small-scope enumeration of byte strings on the real quote/unquote and line codec",
         "All byte strings up to length 2 (quick) / 3 (thorough) and all strings of up to 4 / 5 tokens over a 40-token dangerous alphabet are run through the real Bquote/Bunquote (round trip, no separator emitted); the <=2 set is also placed in TXT and generic lines with both separators and read back through the real codec. Complete enumeration inside the bound, not sampling.",
         "strconv is executed, not modelled; strings beyond the bounds are outside the claim", "DESIGN.md §3 C17"),
 "C06": ("vsched", "explicit-state BFS over operation histories + exhaustive preemption-bounded interleaving exploration (stateless DFS with state-signature pruning) of the real db.DB/FBDNSDB code under a controlled scheduler",
         "Part 1: breadth-first search over all histories (depth 5 quick / 7 thorough) of acquire/use/release on 3 reader slots, partial and full reloads (ok, same backend, open error, validation failure on new and on same backend, timeout with late success/failure), stats and shutdown, each transition executed by the real instrumented code over recording backends; invariant in every state: no use after close, no double close, served/held backends open, nothing unreferenced left open. Part 2: all interleavings within 2 (quick) / 3 (thorough) preemptions of eight concurrent scenarios (readers x reloads x timeout race x shutdown), with deadlock and panic detection.",
         "backends are recording fakes of the db.DBI interface (they never free, so the search survives the event it looks for); the instrumenter's rewrite of sync/chan/select/context is trusted to preserve semantics (see DESIGN.md 1.1); schedules beyond the preemption bound and histories beyond the depth are outside the claim", "DESIGN.md §3 C06"),
 "C16": ("venum", "exhaustive small-scope enumeration of record sequences, crafted hash collisions and buffer-boundary lengths on the real CDB writer/reader/dump/make against an insertion-ordered map model",
         "Every ordered sequence of up to 4 (quick) / 5 (thorough) records over a 4-key x 3-value alphabet, generated databases up to 5000 / 40000 keys, crafted slot and full-hash collisions found by an exhaustive index of the hash over all strings of <=3 bytes (wrapping probe chains, absent colliding keys), all key/value lengths 0..700 / 0..2500 and lengths straddling 4096-byte reader buffers; each file written by the real writer, every present and absent key looked up, and Dump->Make compared byte for byte.",
         "offsets near 4 GiB, concurrent readers and behaviour after Close are outside the claim", "DESIGN.md §3 C16"),
 "C18": ("venum", "exhaustive small-scope enumeration of SVCB parameter lists on the real parser/marshaller against an RFC 9460 decoder written from the RFC and miekg's unpacker",
         "Every ordered list of up to 4 (quick) / 5 (thorough) distinct keys of the seven supported keys times every value of a 38-value per-key alphabet (boundary ports, address forms, alpn lengths 0/1/255/256, ech base64 forms, mandatory variants), repeated-key / unknown-key / structural lists, oversize values, and whole B/H lines through the real codec: accepted lists must decode to exactly the declared list with two independent decoders, statement-level rejections must be refused, ToText->FromText must reproduce the wire bytes; panics are violations.",
         "only values of the alphabet and lists within the bound; ech treated as opaque bytes", "DESIGN.md §3 C18"),
 "C05": ("vsched", "exhaustive preemption-bounded interleaving exploration (controlled scheduler, stateless DFS, state-signature pruning) of the real reload and query paths over generation-stamped databases",
         "For every single-reload script and the path-following two-reload scripts (quick; every script of length <=2 and a second query thread in thorough) over {full ok, partial with new content, partial without change, missing path, missing validation key on a new / on the same backend, slow open racing the timeout}, and both reload styles (new backend per reload as CDB; in-place catch-up as RocksDB), every interleaving within 2 (quick) / 3 (thorough) preemptions of the reload thread with the query thread(s) is executed on the real instrumented FBDNSDB/db.DB/cdbdriver code over real CDB files behind a proxy backend whose every call is a scheduling point; each response must come from one generation, never older than the last reload that returned before the query started, never from a failed reload, never going backwards, and partial reloads must follow the path last switched to.",
         "RocksDB-style in-place catch-up is modelled by a proxy switching which real CDB generation file it reads (real CatchWithPrimary is not executed); the instrumenter's rewrite is trusted; schedules beyond the preemption bound and scripts beyond length 2 are outside the claim", "DESIGN.md §3 C05"),
 "C12": ("vsched", "exhaustive enumeration of query/reload histories against a cache-less twin handler + preemption-bounded interleaving exploration of query vs reload/purge",
         "Part 1: every history of length <=3 (quick) / <=4 (thorough) over 17 queries built to collide in the cache key (locations, types, classes incl. the decimal-concatenation collision, EDNS/ECS, case, every response class) and full/partial reloads, replayed on a fresh pair of real handlers (cache on/off): responses must be equal at every step. Part 2: every interleaving within 2 / 3 preemptions of queries with reloads (swap + purge) on the instrumented handler with the cache enabled: a query started after a reload returned must be served the new generation.",
         "weighted answers excluded by construction; entry expiry (1000 s) not reached; keys outside the alphabet's collisions not covered", "DESIGN.md §3 C12"),
 "C03": ("venum", "exhaustive small-scope enumeration of subnet sets and map declarations against a brute-force longest-prefix oracle, on the real rearranger, compilers and location lookups",
         "Level A: every set of <=3 (quick) / <=4 (thorough) subnets from a 72-prefix alphabet (two binary prefix trees straddling byte boundaries, default routes, address-space edges) x 2 locations through the real codec/rearranger, interpreted by predecessor search, for 270 boundary clients. Level B: sets of <=2 compiled to CDB (combined and per-family prefix sets), RocksDB v1 and v2 in several map surroundings, looked up through the real ResolverLocation/EcsLocation. Level C: all <=3 subsets of 16 map declarations x query names: exact map first, else nearest enclosing wildcard map.",
         "subnets outside the alphabet and larger sets are outside the claim", "DESIGN.md §3 C03"),
 "C09": ("venum", "exhaustive enumeration of the per-line option lattice and of small data files on the real text codec, preprocessor and RocksDB compiler",
         "Part 1: for all 17 line types the full lattice of optional fields (absent/default/other), both separators, wildcard owners, locations, address forms, escaped bytes and numeric edges, under both key layouts and codec modes: parse, print, re-parse must give the same keys/values and the same text. Part 2: every data file of <=2 (quick) / <=3 (thorough) lines over a 25-line alphabet of % / Z / ordinary lines compiled to RocksDB v1/v2 before and after the real preprocessor: identical dumps.",
         "values outside the variant lists and larger files are outside the claim", "DESIGN.md §3 C09"),
 "C01": ("venum", "exhaustive small-scope enumeration of data files x queries x clients x backends against an independent reference interpreter (dnsmodel), end to end through the real compilers and handler",
         "Every data file made of a fixed skeleton plus every subset of <=2 (quick) / <=3 (thorough) items of a 45-item record alphabet (all line types, default/explicit TTLs, locations, wildcards, nested zone, delegation with glue, sort-order neighbours), compiled with the real compilers to CDB / RocksDB v1 / v2 and served by the real handler for every name of a closed 123-name universe x 14 qtypes x 3 client locations; the response is compared with a reference interpreter written from the property statement (REFUSED / referral / authoritative answer set with TTLs and rdata / wildcard rules / NXDOMAIN / SOA on empty answers). RocksDB backends cover a stated sub-product in quick.",
         "the reference interpreter is hand-written from the statement and shares no code with dnsdata/db; names and values outside the alphabet, >3 interacting items, additional sections beyond soundness are outside the claim", "DESIGN.md §3 C01"),
 "C02": ("venum", "exhaustive small-scope differential enumeration: the same data file on CDB, RocksDB v1 and RocksDB v2 must give canonically equal responses",
         "Skeleton + every subset of <=2 items of a 45-item alphabet (pairs from a 22-item pool in quick; triples and compiler-option variants in thorough) x 40 names x 9 qtypes x up to 7 clients (incl. ECS) compiled by the real compilers to the three backends and served by the real handler; pairwise equality of canonical responses (a panic or missing response on one side is a disagreement).",
         "no reference model: a defect common to all three backends is invisible here (C01 covers that); shapes outside the alphabet are outside the claim", "DESIGN.md §3 C02"),
 "C04": ("venum", "exhaustive small-scope metamorphic enumeration: foreign-location edits of the data file must not change any response to a client",
         "For every base file (<=1 item quick / <=2 thorough), client location L, and every foreign edit (add/delete/change of a line tagged with another location on the queried name, its ancestors, zone cuts and glue hosts; subnets of maps no name selects, sorting before and after the applicable map): response(F) == response(edit(F)) for every query on all three backends.",
         "foreignness is decided from the generator's own declarations; shapes outside the alphabet are outside the claim", "DESIGN.md §3 C04"),
 "C07": ("venum", "exhaustive enumeration of small data files x compiler settings against the sequential line-by-line codec, plus a boundary grid of large files for the bulk loader; hang detection in subprocesses",
         "All files of <=3 (quick) / <=4 (thorough) lines over a 14-line alphabet (many values per key, duplicates, two maps, four rejected lines at every position) compiled under a 57-entry settings grid (workers x builder/batches x batch size x parallelism x v1/v2, CDB workers) with rotating sub-grids for longer files; the full dump of each produced store must equal the multiset the codec emits sequentially, and a rejected line must fail every setting. Large files around the 30000-record bucket boundary (record count, equal-key runs across each cut, 2/3 buckets incl. forced CPU counts). BatchNumParallel=0 settings run in subprocesses with idleness-based hang detection.",
         "goroutine schedules of the parallel parser are those the runtime produced (the schedule-exploration part of DESIGN C07 is not built); the large-file grid is a stated slice in quick (exhaustive=false there)", "DESIGN.md §3 C07"),
 "C08": ("vbfs", "explicit-state search over pairs and chains of preprocessed data files: every line diff in every order applied by the real ApplyDiff to the real RocksDB, compared with a fresh compile",
         "States are preprocessed files (multisets of lines incl. duplicates, two values under one key, Z with/without serial, '.' composite, nested subnets of one map so several range points move, located records); for every ordered pair and both key layouts the diff is applied in every order (<=24 orders) and the dump compared with a fresh compile of the target; faulty diffs (undeletable '-' lines, malformed lines) must fail and change nothing; BFS chains of depth 2/3.",
         "compile and apply use the same serial except in the serial-skew probe; diffs longer than 4 lines are tried in 24 orders only", "DESIGN.md §3 C08"),
 "C10": ("venum", "exhaustive enumeration of EDNS/ECS queries x map/subnet configurations x response classes x backends x cache on/off against a brute-force longest-prefix scope oracle",
         "26 client-subnet/resolver map configurations x 4 stores (CDB combined and per-family prefix sets, RocksDB v1, v2) x cache off/on (second ask hits the cache) x 1103 queries (no EDNS / EDNS with cookie / unknown option / ECS, families 1 and 2, source lengths on and off subnet boundaries, every response class incl. REFUSED and BADVERS): OPT iff asked, ECS iff asked and unchanged, scope = deciding declared subnet length / family default / 0, location falls back to the resolver.",
         "one ECS option per query, query scope 0; name-to-map search is C03's subject", "DESIGN.md §3 C10"),
 "C11": ("venum", "exhaustive enumeration of candidate sets x max-answer x EVERY scripted random draw sequence over an edge-value draw alphabet on the real serve path; rigorous interval bracketing of selection probabilities over a complete draw grid; interleaving exploration of the shared generator",
         "Part 1: candidate multisets of size 1-5 (weights 0,1,2,2^32-1, located/untagged) x max answer 1..8 x every sequence of key draws over {0,1,2^31,2^32-2,2^32-1} (shuffle draws varied separately) through the real compile+handler with the package's random source replaced by a scripted one: count, soundness, no repetition, no weight-0 address. Part 2: for 2-3 candidates and weights from {1,2,3,10} the full 64-cell-per-draw grid is evaluated at both corners of every cell on the real Wrs code, bracketing each win probability from below and above (not statistical). Part 3: all interleavings (<=3 preemptions) of 2-3 threads drawing from the locked source: values = first n outputs, no race.",
         "probability deviations below the bracket width (<=4.4%) are not detected; sets beyond 5 candidates and draws outside the alphabet are outside the claim", "DESIGN.md §3 C11"),
 "C13": ("venum", "exhaustive structured enumeration of wire-valid query messages x databases x backends on the real handler (and serve mux), with a well-formedness oracle",
         "Names (root, 63-byte label, 255-byte name, NUL and dot inside labels, case) x types x EDNS versions x 5 databases (normal, root zone, root delegation, empty, large RRsets) x 3 backends as a full product (12960 cells), each crossed with UDP size x DO x transport, 32 raw EDNS option lists, and a header group (opcode, question count, class, extra RR, client), every message packed and unpacked by miekg first: no panic, at most one message, packs, ID/question echoed, QR set, fits the advertised size or TC, BADVERS for EDNS version != 0, unknown options do not change the answer.",
         "header vs size/option dimensions are covered pairwise, not fully crossed; only messages miekg can pack", "DESIGN.md §3 C13"),
 "C14": ("vsched", "exhaustive preemption-bounded interleaving exploration of the real handler over real CDB and RocksDB backends with a vector-clock happens-before race check on every execution",
         "Seven thread sets (queries x full/partial reload x stats export x shutdown) on the instrumented real handler; CDB files and a real RocksDB (v2 keys, secondary) are opened by the repository's own drivers; every interleaving within 1-2 (quick) / 2-3 (thorough) preemptions is executed; on each execution every read/write of the watch-listed shared fields (IteratorPool.enabled, FBDNSDB.dnsdb, cacheGen, DBConfig.Path, DB.refCount, DB.destroyable, Stats.values, Stats.windows, slidingWindow.samples) is checked against the happens-before relation built only from the synchronisation actually performed; deadlocks and panics are detected.",
         "only watch-listed fields are race-checked (no free-running -race pass is part of the verdict); one RocksDB handle is shared by the executions of a process (reader state, iterator pool and driver are rebuilt per execution); full reloads to a second RocksDB directory are not explored", "DESIGN.md §3 C14"),
 "C15": ("vbfs", "explicit-state breadth-first search to a fixed point over Add/Del/batch/backup operations on a real RocksDB-backed store against a map-of-lists model",
         "Keys {k1,k2}, values {\"\",a,ab,b,ba}, <=3 values per key: all 24336 states reached; in every state every Add, Del and every batch of <=1 (quick) / <=2 (thorough) lines in every order with duplicates (plus one line more in small states) is executed on a real rdb.RDB and compared with the model (error/no-error, list order for Add/Del, additions-then-deletions for batches, failed ops change nothing); Find/ForEach/FindFirst agree; backup+restore (and a second backup generation) reproduce the map.",
         "values longer than 2 bytes, more than 3 values per key and concurrent writers are outside the claim", "DESIGN.md §3 C15"),
 "C19": ("vsched", "exhaustive enumeration of timed event histories under a virtual clock (one scheduler execution each), exhaustive enumeration of queries against recording stats/logger, and interleaving exploration with a linearizability oracle",
         "(a) every sequence of exactly 6 (quick) / 8 (thorough) events over {AddSample, Get, advance 25/35/61 s} on the real metrics.Stats with the real cleaner goroutine driven by a virtual 1-second ticker, judged every second against a (value, expiry) list; plus interleavings of Add/Add/Get with a cleaner pass. (b) 10 names x 8 qtypes x 6 clients x 4 EDNS forms x 5 serve modes x 3 backends with recording Stats and Logger: each counter and the log call must follow the message actually written. (c) all interleavings (<=2/3 preemptions) of counter and sample updates with Get on the real metrics.Stats, checked with porcupine and the happens-before race check.",
         "location classes default/fallback_default and reader-acquisition error paths are not exercised", "DESIGN.md §3 C19"),
 "C20": ("venum", "exhaustive enumeration of front-handler configurations x queries x transports against the in-process bare handler, over real loopback sockets",
         "15 (quick) / 91 (thorough) server configurations (whoami set/unset x refuse-ANY x max answer 1..3, backends, multiple listeners, cache) of a real fbserver.Server on loopback; 296 queries each over UDP (no EDNS, 600, 1232, 4096) and TCP plus malformed raw messages; every reply must equal what FBDNSDB.ServeDNS gives in process for the same wire query and transport (weighted sets as subset+count), TC when too large and complete over TCP, single HINFO for refused ANY, failure reply (and a live server) for question-less messages.",
         "one exchange at a time; a silent attempt is retried and only total silence is judged; kernel loopback behaviour is trusted", "DESIGN.md §3 C20"),
}
NOT_YET = "check not built yet in this round (work in progress; see DESIGN.md §9 for the construction order)"
NOT_APPLICABLE = {}

def main():
    checks = []
    for pid in ALL:
        if pid not in CHECKS: continue
        eng, tech, text, note, ref = CHECKS[pid]
        checks.append({
            "property_id": pid,
            "quick_cmd": "./check %s quick" % pid,
            "thorough_cmd": "./check %s thorough" % pid,
            "evidence_file": "/verif/evidence/%s.json" % pid,
            "replay_cmd_template": "./check %s quick --replay {path}" % pid,
            "engine": eng,
            "level_claimed": {"category": "model_checking", "text": text, "design_ref": ref},
            "level_note": note,
            "technique": tech,
        })
    na = [{"property_id": p, "reason": NOT_APPLICABLE.get(p, NOT_YET)} for p in ALL if p not in CHECKS]
    m = {
        "version": 1,
        "setup_cmd": "./setup.sh",
        "hooks": {
            "guard": "verif",
            "enable": "go build -tags verif -overlay <generated> : instrumentation and accessors are generated from /repo's current working tree by harness/vrewrite at check time and supplied through -overlay; no hook lines are committed to /repo",
            "baseline_off_cmd": "for m in $(cat /w/out/gomods.txt); do MF=$(cd /repo/$m && . /w/out/goenv.sh && gomodflag); (cd /repo/$m && go test $MF -json -vet=off -count=1 -timeout 25m ./...); done",
            "source_commits": [],
            "add_only": True,
        },
        "engines": [
            {"name": "venum", "path": "harness/vlib", "serves_properties": [p for p in ALL if p in CHECKS and CHECKS[p][0] == "venum"], "kind_free_text": "small-scope exhaustive input enumeration against a reference model / differential oracle, on the real code"},
            {"name": "vsched", "path": "harness/zzverif/vsched", "serves_properties": [p for p in ALL if p in CHECKS and CHECKS[p][0] == "vsched"], "kind_free_text": "controlled cooperative scheduler + stateless DFS explorer with preemption bounding over the real code instrumented by harness/vrewrite"},
            {"name": "vbfs", "path": "harness/vlib", "serves_properties": [p for p in ALL if p in CHECKS and CHECKS[p][0] == "vbfs"], "kind_free_text": "explicit-state breadth-first search over operation histories; each transition executed by the real code"},
        ],
        "checks": checks,
        "not_applicable": na,
        "notes": "All checks: ./check <ID> <quick|thorough>; exit 0 held / 1 VIOLATION / 2 infrastructure error. Known findings: known_findings.json.",
    }
    out = os.path.join(ROOT, "MANIFEST.json")
    json.dump(m, open(out, "w"), indent=1)
    open(out, "a").write("\n")
    try:
        import jsonschema
        jsonschema.validate(m, json.load(open("/root/.vp/MANIFEST.schema.json")))
        print("MANIFEST.json valid;", len(checks), "checks,", len(na), "not claimed")
    except ImportError:
        print("jsonschema not importable; written unvalidated")

if __name__ == "__main__":
    main()
