#!/usr/bin/env python3
"""Generates /verif/MANIFEST.json from the table below and validates it.
Edit CHECKS / NOT_APPLICABLE here, never MANIFEST.json by hand."""
import json, os, sys
ROOT = os.path.dirname(os.path.dirname(os.path.abspath(__file__)))
ALL = ["C%02d" % i for i in range(1, 21)]

# id -> (engine, technique, level text, level note, design ref)
CHECKS = {
 "C17": ("venum", "exhaustive small-scope enumeration of byte strings on the real quote/unquote and line codec",
         "All byte strings up to length 2 (quick) / 3 (thorough) and all strings of up to 4 / 5 tokens over a 40-token dangerous alphabet are run through the real Bquote/Bunquote (round trip, no separator emitted); the <=2 set is also placed in TXT and generic lines with both separators and read back through the real codec. Complete enumeration inside the bound, not sampling.",
         "strconv is executed, not modelled; strings beyond the bounds are outside the claim", "DESIGN.md §3 C17"),
}
NOT_YET = "check not built yet in this round (work in progress; see DESIGN.md §9 for the construction order)"
NOT_APPLICABLE = {}

def main():
    checks = []
    for pid in ALL:
        if pid not in CHECKS: continue
        eng, tech, text, note, ref = CHECKS[pid]
        checks.append({
            "property_id": pid,
            "quick_cmd": "./check %s quick" % pid,
            "thorough_cmd": "./check %s thorough" % pid,
            "evidence_file": "/verif/evidence/%s.json" % pid,
            "replay_cmd_template": "./check %s quick --replay {path}" % pid,
            "engine": eng,
            "level_claimed": {"category": "model_checking", "text": text, "design_ref": ref},
            "level_note": note,
            "technique": tech,
        })
    na = [{"property_id": p, "reason": NOT_APPLICABLE.get(p, NOT_YET)} for p in ALL if p not in CHECKS]
    m = {
        "version": 1,
        "setup_cmd": "./setup.sh",
        "hooks": {
            "guard": "verif",
            "enable": "go build -tags verif -overlay <generated> : instrumentation and accessors are generated from /repo's current working tree by harness/vrewrite at check time and supplied through -overlay; no hook lines are committed to /repo",
            "baseline_off_cmd": "for m in $(cat /w/out/gomods.txt); do MF=$(cd /repo/$m && . /w/out/goenv.sh && gomodflag); (cd /repo/$m && go test $MF -json -vet=off -count=1 -timeout 25m ./...); done",
            "source_commits": [],
            "add_only": True,
        },
        "engines": [
            {"name": "venum", "path": "harness/vlib", "serves_properties": [p for p in ALL if p in CHECKS and CHECKS[p][0] == "venum"], "kind_free_text": "small-scope exhaustive input enumeration against a reference model / differential oracle, on the real code"},
            {"name": "vsched", "path": "harness/zzverif/vsched", "serves_properties": [p for p in ALL if p in CHECKS and CHECKS[p][0] == "vsched"], "kind_free_text": "controlled cooperative scheduler + stateless DFS explorer with preemption bounding over the real code instrumented by harness/vrewrite"},
            {"name": "vbfs", "path": "harness/vlib", "serves_properties": [p for p in ALL if p in CHECKS and CHECKS[p][0] == "vbfs"], "kind_free_text": "explicit-state breadth-first search over operation histories; each transition executed by the real code"},
        ],
        "checks": checks,
        "not_applicable": na,
        "notes": "All checks: ./check <ID> <quick|thorough>; exit 0 held / 1 VIOLATION / 2 infrastructure error. Known findings: known_findings.json.",
    }
    out = os.path.join(ROOT, "MANIFEST.json")
    json.dump(m, open(out, "w"), indent=1)
    open(out, "a").write("\n")
    try:
        import jsonschema
        jsonschema.validate(m, json.load(open("/root/.vp/MANIFEST.schema.json")))
        print("MANIFEST.json valid;", len(checks), "checks,", len(na), "not claimed")
    except ImportError:
        print("jsonschema not importable; written unvalidated")

if __name__ == "__main__":
    main()
