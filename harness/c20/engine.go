package main

import (
	"context"
	"crypto/tls"
	"encoding/json"
	"fmt"
	"net"
	"os"
	"runtime"
	"sort"
	"strings"
	"time"

	"github.com/facebookincubator/dns/dnsrocks/dnsserver"
	"github.com/facebookincubator/dns/dnsrocks/dnsserver/stats"
	"github.com/facebookincubator/dns/dnsrocks/fbserver"
	"github.com/facebookincubator/dns/dnsrocks/metrics"
	"github.com/miekg/dns"

	"verifharness/dnsfix"
	"verifharness/vlib"
)

// nullExporter satisfies fbserver's metrics exporter interface.
type nullExporter struct{}

func (nullExporter) ConsumeStats(string, *metrics.Stats) error { return nil }

// recWriter is the recording dns.ResponseWriter of the in-process reference:
// it reports the transport, local and remote address of the real exchange and
// packs at write time exactly as the network writer does.
type recWriter struct {
	local, remote net.Addr
	wires         [][]byte
	packErr       error
}

func (w *recWriter) LocalAddr() net.Addr  { return w.local }
func (w *recWriter) RemoteAddr() net.Addr { return w.remote }
func (w *recWriter) WriteMsg(m *dns.Msg) error {
	b, err := m.Pack()
	if err != nil {
		w.packErr = err
		return err
	}
	w.wires = append(w.wires, b)
	return nil
}
func (w *recWriter) Write(b []byte) (int, error) {
	w.wires = append(w.wires, append([]byte(nil), b...))
	return len(b), nil
}
func (w *recWriter) Close() error        { return nil }
func (w *recWriter) TsigStatus() error   { return nil }
func (w *recWriter) TsigTimersOnly(bool) {}
func (w *recWriter) Hijack()             {}

// ConnectionState makes the writer a dns.ConnectionStater (the whoami handler asks
// a TCP writer for it): not a TLS connection.
func (w *recWriter) ConnectionState() *tls.ConnectionState { return nil }

type refResult struct {
	msg      *dns.Msg // nil = nothing written
	wire     []byte
	panicked interface{}
}

type engine struct {
	r           *vlib.Run
	cfg         config
	ref         *dnsserver.FBDNSDB
	progress    *os.File
	nextID      uint16
	resent      int64
	redials     int64
	samples     []map[string]string
	rawSamples  []map[string]string
	silent      int
	where       string
	resentWhere []string
}

// sampleQueries are the cases shown in the evidence samples.
var sampleQueries = map[string]bool{
	"huge.example.com/TXT": true, "w4.example.com/A": true, whoamiDomain + "/TXT": true, "example.com/ANY": true,
	"deleg.example.com/A": true, "manymx.example.com/MX": true, "geo.example.com/A+ecs4": true, "WwW.ExAmPlE.CoM/AAAA": true,
}

func (e *engine) id() uint16 {
	e.nextID++
	if e.nextID == 0 {
		e.nextID = 1
	}
	return e.nextID
}

func (e *engine) mark(where string) {
	e.where = where
	if e.progress != nil {
		b := make([]byte, 160)
		for i := range b {
			b[i] = ' '
		}
		copy(b, where)
		b[len(b)-1] = '\n'
		e.progress.WriteAt(b, 0)
	}
}

// bare runs the reference: the database handler alone, with the listener's
// max-answer value in the context, on the wire query as the server receives it.
func (e *engine) bare(wire []byte, local, remote net.Addr, maxAns int) (res refResult) {
	req := new(dns.Msg)
	if err := req.Unpack(wire); err != nil {
		vlib.Infra("harness query does not unpack: %v", err)
	}
	w := &recWriter{local: local, remote: remote}
	defer func() {
		if p := recover(); p != nil {
			res = refResult{panicked: p}
		}
	}()
	e.ref.ServeDNS(dnsserver.WithMaxAnswer(context.TODO(), maxAns), w, req)
	if len(w.wires) == 0 {
		return refResult{}
	}
	m := new(dns.Msg)
	if err := m.Unpack(w.wires[0]); err != nil {
		vlib.Infra("reference reply does not unpack: %v", err)
	}
	return refResult{msg: m, wire: w.wires[0]}
}

// render is the canonical text two replies are compared by.
func render(m *dns.Msg) string {
	if m == nil {
		return "<no reply>"
	}
	var q []string
	for _, x := range m.Question {
		q = append(q, x.Name)
	}
	return dnsfix.Canon(m) + "\n question as written: " + strings.Join(q, " ") +
		fmt.Sprintf("\n header: opcode=%d rd=%v ra=%v ad=%v cd=%v z=%v", m.Opcode, m.RecursionDesired, m.RecursionAvailable, m.AuthenticatedData, m.CheckingDisabled, m.Zero)
}

// bareFailure: a failure reply carrying no record (what the accept filter and
// dns.HandleFailed write).
func bareFailure(m *dns.Msg) bool {
	if !m.Response || !failureRcode(m.Rcode) || len(m.Answer) != 0 || len(m.Ns) != 0 {
		return false
	}
	for _, rr := range m.Extra {
		if rr.Header().Rrtype != dns.TypeOPT {
			return false
		}
	}
	return true
}

func isAddr(rr dns.RR) bool {
	t := rr.Header().Rrtype
	return t == dns.TypeA || t == dns.TypeAAAA
}

// splitAddrs returns the message without address records in the answer
// section, and the canonical address records by type.
func splitAddrs(m *dns.Msg) (*dns.Msg, map[uint16][]string) {
	c := m.Copy()
	c.Answer = nil
	addrs := map[uint16][]string{}
	for _, rr := range m.Answer {
		if isAddr(rr) {
			addrs[rr.Header().Rrtype] = append(addrs[rr.Header().Rrtype], dnsfix.CanonRR(rr))
		} else {
			c.Answer = append(c.Answer, rr)
		}
	}
	for k := range addrs {
		sort.Strings(addrs[k])
	}
	return c, addrs
}

func nonTrivial(m *dns.Msg) bool {
	return m != nil && (len(m.Answer) > 0 || len(m.Ns) > 0)
}

// completeFits reports whether the complete answer (records of the TCP reply,
// with the OPT of the UDP reply if any) fits in limit bytes when compressed.
func completeFits(full, udp *dns.Msg, limit int) (bool, int) {
	c := full.Copy()
	var extra []dns.RR
	for _, rr := range c.Extra {
		if rr.Header().Rrtype != dns.TypeOPT {
			extra = append(extra, rr)
		}
	}
	if o := udp.IsEdns0(); o != nil {
		extra = append(extra, dns.Copy(o))
	}
	c.Extra = extra
	c.Compress = true
	c.Truncated = false
	b, err := c.Pack()
	if err != nil {
		return true, 0
	}
	return len(b) <= limit, len(b)
}

type listener struct {
	spec     listenerSpec
	udp      *net.UDPAddr
	tcp      *net.TCPAddr
	handlers map[string]dns.Handler
}

func childMain(r *vlib.Run, cfgJSON string) {
	var cfg config
	if err := json.Unmarshal([]byte(cfgJSON), &cfg); err != nil {
		vlib.Infra("child config: %v", err)
	}
	dir := os.Getenv("VERIF_C20_DIR")
	dnsfix.Quiet(dir)
	e := &engine{r: r, cfg: cfg}
	if p := os.Getenv("VERIF_C20_PROGRESS"); p != "" {
		f, err := os.OpenFile(p, os.O_CREATE|os.O_RDWR|os.O_TRUNC, 0o644)
		if err != nil {
			vlib.Infra("progress file: %v", err)
		}
		e.progress = f
	}
	e.mark("startup")
	dbPath := os.Getenv("VERIF_C20_DB")

	// the reference: a bare handler on the same database, no cache
	ref, err := dnsserver.NewFBDNSDBBasic(dnsserver.HandlerConfig{AlwaysCompress: cfg.AlwaysCompress},
		dnsserver.DBConfig{Path: dbPath, Driver: cfg.Backend.Driver(), ReloadTimeout: time.Hour},
		dnsserver.CacheConfig{}, &dnsserver.DummyLogger{}, &stats.DummyStats{})
	if err != nil {
		vlib.Infra("reference handler: %v", err)
	}
	if err := ref.Load(); err != nil {
		vlib.Infra("reference handler load: %v", err)
	}
	e.ref = ref

	baseGoroutines := runtime.NumGoroutine()

	// the real server
	sc := fbserver.NewServerConfig()
	for _, l := range cfg.Listeners {
		if err := sc.IPAns.Set(fmt.Sprintf("%s,%d", l.IP, l.MaxAns)); err != nil {
			vlib.Infra("IPAns.Set: %v", err)
		}
	}
	sc.Port = 0
	sc.TCP = true
	sc.MaxTCPQueries = -1 // the command's default
	sc.TCPIdleTimeout = 120 * time.Second
	sc.ReadTimeout = 60 * time.Second
	sc.HandlerConfig.AlwaysCompress = cfg.AlwaysCompress
	sc.DBConfig = dnsserver.DBConfig{Path: dbPath, Driver: cfg.Backend.Driver(), ReloadTimeout: time.Hour}
	if cfg.Cache {
		sc.CacheConfig = dnsserver.CacheConfig{Enabled: true, LRUSize: 1 << 16}
		if cfg.CacheWRS {
			sc.CacheConfig.WRSTimeout = 3600
		}
	}
	if cfg.Whoami {
		sc.WhoamiDomain = whoamiDomain
	}
	sc.RefuseANY = cfg.RefuseANY
	srv := fbserver.NewServer(sc, &dnsserver.DummyLogger{}, &stats.DummyStats{}, nullExporter{})
	up := make(chan struct{}, 64)
	srv.NotifyStartedFunc = func() { up <- struct{}{} }
	if err := srv.Start(); err != nil {
		vlib.Infra("server start: %v", err)
	}
	for i := 0; i < 2*len(cfg.Listeners); i++ {
		select {
		case <-up:
		case <-time.After(60 * time.Second):
			vlib.Infra("server did not come up within 60 s")
		}
	}

	// find the listeners (overlay accessor)
	var ls []*listener
	for _, spec := range cfg.Listeners {
		ls = append(ls, &listener{spec: spec, handlers: map[string]dns.Handler{}})
	}
	for _, a := range srv.VerifAddrs() {
		var ip net.IP
		switch x := a.Addr.(type) {
		case *net.UDPAddr:
			ip = x.IP
		case *net.TCPAddr:
			ip = x.IP
		default:
			vlib.Infra("unexpected listener address %T", a.Addr)
		}
		if !ip.IsLoopback() {
			vlib.Infra("listener bound outside loopback: %v", a.Addr)
		}
		found := false
		for _, l := range ls {
			if net.ParseIP(l.spec.IP).Equal(ip) {
				found = true
				l.handlers[a.Net] = a.Handler
				switch x := a.Addr.(type) {
				case *net.UDPAddr:
					l.udp = x
				case *net.TCPAddr:
					l.tcp = x
				}
			}
		}
		if !found {
			vlib.Infra("listener %v matches no configured address", a.Addr)
		}
	}
	for _, l := range ls {
		if l.udp == nil || l.tcp == nil {
			vlib.Infra("listener %s: udp=%v tcp=%v", l.spec.IP, l.udp, l.tcp)
		}
	}

	ts := transports(r.Thorough())
	qs := querySet(r.Thorough())
	for _, l := range ls {
		e.runListener(l, qs, ts)
		guardPanics := e.runGuard(l)
		e.runMalformed(l, guardPanics)
		r.Add("listeners", 1)
	}
	e.mark("shutdown")
	srv.Shutdown()
	ref.Close()

	// hygiene: the ports must be free again and the goroutines gone
	for _, l := range ls {
		if pc, err := net.ListenPacket("udp", l.udp.String()); err != nil {
			r.Note("UDP port %v still bound after Shutdown: %v", l.udp, err)
			r.Add("ports_still_bound_after_shutdown", 1)
		} else {
			pc.Close()
		}
		if tl, err := net.Listen("tcp", l.tcp.String()); err != nil {
			r.Note("TCP port %v still bound after Shutdown: %v", l.tcp, err)
			r.Add("ports_still_bound_after_shutdown", 1)
		} else {
			tl.Close()
		}
	}
	leaked := 0
	for i := 0; i < 1000; i++ {
		leaked = runtime.NumGoroutine() - baseGoroutines
		if leaked <= 0 {
			break
		}
		time.Sleep(10 * time.Millisecond)
	}
	if leaked > 0 {
		r.Note("%d goroutines more than before the server was created, 10 s after Shutdown", leaked)
		r.Add("configs_with_goroutines_left_after_shutdown", 1)
	}
	if e.resent > 0 || e.redials > 0 {
		r.Note("retries: %d datagrams re-sent, %d TCP re-dials (never judged) %v", e.resent, e.redials, e.resentWhere)
	}
	// a deterministic, varied selection of the interesting cases of this configuration
	if n := len(e.rawSamples); n > 0 && cfg.Idx < 2 {
		r.Sample(e.rawSamples[(cfg.Idx*5+2)%n])
	}
	if n := len(e.samples); n > 0 {
		for _, k := range []int{cfg.Idx * 7, cfg.Idx*11 + 3, cfg.Idx*13 + 17} {
			r.Sample(e.samples[k%n])
		}
	}
	e.mark("done")
	r.Finish()
}

func transportAddrs(l *listener, t transport, u *udpClient, tc *tcpClient) (local, remote net.Addr) {
	if t.tcp {
		return l.tcp, tc.local
	}
	return l.udp, u.local
}

// send performs one exchange of a well-formed query, retrying on silence.
func (e *engine) send(l *listener, t transport, wire []byte, u *udpClient, tc *tcpClient, waits []time.Duration) []byte {
	if !t.tcp {
		before := u.resent
		resp, err := u.exchange(wire, waits)
		if u.resent > before && len(e.resentWhere) < 5 {
			e.resentWhere = append(e.resentWhere, fmt.Sprintf("%s (x%d, both replies arrived in the end: %v)", e.where, u.resent-before, u.lateDup > 0))
			u.lateDup = 0
		}
		e.resent += u.resent - before
		if err != nil {
			// the socket reported an error (e.g. port unreachable): treated as silence
			return nil
		}
		return resp
	}
	for _, wait := range waits {
		resp, err := tc.exchange(wire, wait)
		if err == nil && resp != nil {
			return resp
		}
		e.redials++
	}
	return nil
}

func (e *engine) violate(kind string, q string, t string, l *listener, detail string, extra map[string]interface{}) {
	rep := map[string]interface{}{"config": e.cfg, "listener": l.spec, "query": q, "transport": t}
	for k, v := range extra {
		rep[k] = v
	}
	e.r.Violate(kind+"/"+q+"/"+t, fmt.Sprintf("configuration %s, listener %s (max answer %d), query %s over %s\n%s", e.cfg.Name, l.spec.IP, l.spec.MaxAns, q, t, detail), rep)
}

func (e *engine) runListener(l *listener, qs []query, ts []transport) {
	r := e.r
	u, err := dialUDP(l.udp)
	if err != nil {
		vlib.Infra("dial udp %v: %v", l.udp, err)
	}
	defer u.close()
	tc := &tcpClient{server: l.tcp}
	defer tc.close()
	wd := strings.ToLower(whoamiDomain) + "."

	for _, q := range qs {
		type got struct {
			t    transport
			wire []byte
			msg  *dns.Msg
		}
		var gots []got
		for _, t := range ts {
			if !q.applicable(t) {
				continue
			}
			// after two verdicts of total silence (each after all retries) the remaining
			// cases of this configuration are not asked: bounds the run time against a
			// server that stopped answering, deterministically (by count, not by clock)
			if e.silent >= 2 {
				r.Add("cases_skipped_after_repeated_silence", 1)
				r.Exhaustive = false
				continue
			}
			if t.tcp {
				if tc.used >= 100 { // a fresh connection now and then
					tc.close()
				}
				if err := tc.connect(); err != nil {
					e.violate("noconnect", q.id(), t.String(), l, fmt.Sprintf("TCP connect to %v failed: %v", l.tcp, err), nil)
					continue
				}
			}
			local, remote := transportAddrs(l, t, u, tc)
			wire, err := q.build(t, e.id())
			if err != nil {
				vlib.Infra("query %s does not pack: %v", q.id(), err)
			}
			r.Add("cases", 1)
			e.mark(fmt.Sprintf("%s/%s", q.id(), t))

			// the statement's ANY clause has no condition on class, options or name case
			byANY := e.cfg.RefuseANY && q.qtype == dns.TypeANY
			byWhoami := !byANY && e.cfg.Whoami && strings.ToLower(q.name) == wd
			// a message with another opcode is not a query: the server may also reject it
			// (failure reply without records) or ignore it; if it answers, the answer must
			// still be what the chain calls for (HINFO only / whoami / the bare handler's)
			notQuery := q.opcode != dns.OpcodeQuery
			if notQuery {
				r.Add("cases_with_non_query_opcode", 1)
			}
			if q.class() != dns.ClassINET {
				r.Add("cases_with_non_IN_class", 1)
			}

			// the reference, before anything is sent: a query the bare handler panics on
			// would take the server process down
			ref := e.bare(wire, local, remote, l.spec.MaxAns)
			if ref.panicked != nil && !byANY && !byWhoami && !notQuery {
				e.violate("bare-panic", q.id(), t.String(), l, fmt.Sprintf("the bare handler panics: %v (not sent to the server)", ref.panicked), nil)
				continue
			}
			expectReply := byANY || byWhoami || ref.msg != nil
			if notQuery && ref.panicked != nil {
				// not sent: if the accept filter let it through it would take the server process down
				r.Add("non_query_cases_not_sent_bare_handler_panics", 1)
				continue
			}
			waits := udpWaits
			if !expectReply || notQuery {
				waits = shortWaits
			}
			respWire := e.send(l, t, wire, u, tc, waits)
			local, remote = transportAddrs(l, t, u, tc) // a re-dialled TCP connection has a new source port
			r.Add("socket_exchanges", 1)
			if respWire == nil {
				if notQuery {
					r.Add("non_query_cases_ignored_by_server", 1)
					r.Add("responses_compared", 1)
					r.Add("evaluations", 1)
				} else if expectReply {
					e.silent++
					e.violate("noreply", q.id(), t.String(), l, "no reply after all attempts; expected:\n"+render(ref.msg), nil)
				} else {
					r.Add("responses_compared", 1)
					r.Add("evaluations", 1)
				}
				continue
			}
			resp := new(dns.Msg)
			if err := resp.Unpack(respWire); err != nil {
				e.violate("garbled", q.id(), t.String(), l, fmt.Sprintf("reply does not unpack: %v (%d bytes)", err, len(respWire)), nil)
				continue
			}
			gots = append(gots, got{t, respWire, resp})
			r.Add("responses_compared", 1)
			r.Add("evaluations", 1)

			// (1) size
			if len(respWire) > t.limit() {
				e.violate("oversize", q.id(), t.String(), l, fmt.Sprintf("reply is %d bytes, the client can take %d", len(respWire), t.limit()), nil)
			}
			if resp.Truncated {
				r.Add("replies_with_tc", 1)
			}

			// (2) content
			switch {
			case notQuery && bareFailure(resp):
				r.Add("non_query_cases_rejected_with_failure", 1)
			case byANY:
				r.Add("cases_answered_by_any_refusal", 1)
				r.Add("distinct_nontrivial", 1)
				if p := checkHINFO(q, resp, true); p != "" {
					e.violate("any-refusal", q.id(), t.String(), l, p+"\ngot:\n"+render(resp), nil)
				}
			case byWhoami:
				r.Add("cases_answered_by_whoami", 1)
				if q.qtype == dns.TypeTXT {
					r.Add("distinct_nontrivial", 1)
				}
				if p := checkWhoami(q, t, local, remote, resp, true); p != "" {
					e.violate("whoami", q.id(), t.String(), l, p+"\ngot:\n"+render(resp), nil)
				}
			default:
				if !expectReply {
					e.violate("unexpected-reply", q.id(), t.String(), l, "the bare handler writes nothing; got:\n"+render(resp), nil)
					continue
				}
				if nonTrivial(ref.msg) {
					r.Add("distinct_nontrivial", 1)
				}
				// address sets larger than max answer are a random selection
				full := e.bare(wire, local, remote, 64)
				weighted := false
				var cands map[uint16][]string
				if full.msg != nil {
					_, cands = splitAddrs(full.msg)
					for _, c := range cands {
						if len(c) > l.spec.MaxAns {
							weighted = true
						}
					}
				}
				if !weighted {
					if a, b := render(resp), render(ref.msg); a != b {
						e.violate("differs", q.id(), t.String(), l, "over the transport:\n"+a+"\nbare handler:\n"+b, map[string]interface{}{"got": a, "want": b})
					}
				} else {
					r.Add("cases_with_weighted_selection", 1)
					if ref.msg.Truncated || resp.Truncated {
						vlib.Infra("data file shape not supported: weighted and truncated (%s)", q.id())
					}
					gm, ga := splitAddrs(resp)
					wm, _ := splitAddrs(ref.msg)
					if a, b := render(gm), render(wm); a != b {
						e.violate("differs", q.id(), t.String(), l, "apart from the selected addresses, over the transport:\n"+a+"\nbare handler:\n"+b, map[string]interface{}{"got": a, "want": b})
					}
					for _, typ := range []uint16{dns.TypeA, dns.TypeAAAA} {
						c := cands[typ]
						want := len(c)
						if want > l.spec.MaxAns {
							want = l.spec.MaxAns
						}
						in := map[string]bool{}
						for _, x := range c {
							in[x] = true
						}
						bad := len(ga[typ]) != want
						seen := map[string]bool{}
						for _, x := range ga[typ] {
							if !in[x] || seen[x] {
								bad = true
							}
							seen[x] = true
						}
						if bad {
							e.violate("weighted", q.id(), t.String(), l, fmt.Sprintf("%s records in the answer: %v\nwant %d distinct records out of the candidates %v", dns.TypeToString[typ], ga[typ], want, c), nil)
						}
					}
				}
			}
			if sampleQueries[q.id()] {
				e.samples = append(e.samples, map[string]string{"config": e.cfg.Name, "listener": l.spec.IP, "query": q.id(), "transport": t.String(),
					"reply_bytes": fmt.Sprint(len(respWire)), "reply": firstLine(render(resp))})
			}
		}

		// (3) truncation relation between the UDP replies and the complete TCP reply
		var full *got
		for i := range gots {
			if gots[i].t.tcp {
				full = &gots[i]
			}
		}
		if full != nil {
			r.Add("evaluations", 1)
			if full.msg.Truncated {
				e.violate("tcp-truncated", q.id(), "tcp", l, "the TCP reply has TC set:\n"+render(full.msg), nil)
			}
			for _, g := range gots {
				if g.t.tcp {
					continue
				}
				r.Add("evaluations", 1)
				fits, n := completeFits(full.msg, g.msg, g.t.limit())
				if !fits {
					r.Add("cases_complete_answer_exceeds_buffer", 1)
					if !g.msg.Truncated {
						e.violate("tc-missing", q.id(), g.t.String(), l, fmt.Sprintf("the complete answer (as given over TCP) needs %d bytes compressed, the client can take %d, but TC is clear:\n%s", n, g.t.limit(), render(g.msg)), nil)
					}
				}
			}
		}
	}
}

func firstLine(s string) string {
	if i := strings.Index(s, "\n"); i >= 0 {
		if j := strings.Index(s[i+1:], "\n"); j >= 0 {
			s = s[:i+1+j]
		}
	}
	if len(s) > 300 {
		s = s[:300] + "..."
	}
	return s
}

// checkHINFO: ANY under refusal = exactly one synthesized HINFO at the query
// name and nothing from the database.
func checkHINFO(q query, m *dns.Msg, strictQ bool) string {
	var p []string
	if m.Rcode != dns.RcodeSuccess {
		p = append(p, "rcode "+dns.RcodeToString[m.Rcode])
	}
	if !m.Response {
		p = append(p, "QR clear")
	}
	if strictQ && (len(m.Question) != 1 || !strings.EqualFold(m.Question[0].Name, q.name) || m.Question[0].Qtype != q.qtype || m.Question[0].Qclass != q.class()) {
		p = append(p, "question not echoed")
	}
	if len(m.Answer) != 1 {
		p = append(p, fmt.Sprintf("%d answer records, want exactly one HINFO", len(m.Answer)))
	}
	for _, rr := range m.Answer {
		if rr.Header().Rrtype != dns.TypeHINFO {
			p = append(p, "answer record of type "+dns.TypeToString[rr.Header().Rrtype])
		} else if !strings.EqualFold(rr.Header().Name, q.name) {
			p = append(p, "HINFO owner "+rr.Header().Name)
		}
	}
	if len(m.Ns) != 0 {
		p = append(p, "authority section not empty")
	}
	for _, rr := range m.Extra {
		if rr.Header().Rrtype != dns.TypeOPT {
			p = append(p, "additional section carries "+dns.TypeToString[rr.Header().Rrtype])
		}
	}
	if len(p) == 0 {
		return ""
	}
	return "ANY refusal is enabled: " + strings.Join(p, "; ")
}

// checkWhoami: the whoami name is answered by the whoami handler: NOERROR, for
// TXT the transport, source and destination of the exchange, for other types
// nothing; never database content.
func checkWhoami(q query, t transport, local, remote net.Addr, m *dns.Msg, strictQ bool) string {
	var p []string
	if m.Rcode != dns.RcodeSuccess {
		p = append(p, "rcode "+dns.RcodeToString[m.Rcode])
	}
	if !m.Response {
		p = append(p, "QR clear")
	}
	if strictQ && (len(m.Question) != 1 || !strings.EqualFold(m.Question[0].Name, q.name) || m.Question[0].Qtype != q.qtype || m.Question[0].Qclass != q.class()) {
		p = append(p, "question not echoed")
	}
	var texts []string
	for _, rr := range m.Answer {
		txt, ok := rr.(*dns.TXT)
		if !ok {
			p = append(p, "answer record of type "+dns.TypeToString[rr.Header().Rrtype]+" (database content?)")
			continue
		}
		if !strings.EqualFold(txt.Hdr.Name, q.name) {
			p = append(p, "TXT owner "+txt.Hdr.Name)
		}
		s := strings.Join(txt.Txt, "")
		if strings.Contains(s, dbMarker) {
			p = append(p, "database record in the answer: "+s)
		}
		texts = append(texts, s)
	}
	for _, rr := range append(append([]dns.RR{}, m.Ns...), m.Extra...) {
		if rr.Header().Rrtype != dns.TypeOPT {
			p = append(p, "record outside the answer section: "+dnsfix.CanonRR(rr))
		}
	}
	has := func(want string) bool {
		for _, s := range texts {
			if strings.EqualFold(s, want) {
				return true
			}
		}
		return false
	}
	if q.qtype == dns.TypeTXT && !m.Truncated {
		proto := "udp"
		if t.tcp {
			proto = "tcp"
		}
		for _, want := range []string{"protocol " + proto, "source " + remote.String(), "destination " + local.String()} {
			if !has(want) {
				p = append(p, fmt.Sprintf("no TXT %q", want))
			}
		}
		if strings.HasPrefix(q.extra, "ecs") {
			ok := false
			for _, s := range texts {
				if strings.HasPrefix(strings.ToLower(s), "ecs ") {
					ok = true
				}
			}
			if !ok {
				p = append(p, "no TXT describing the client subnet of the query")
			}
		}
	}
	if q.qtype != dns.TypeTXT && len(m.Answer) != 0 {
		p = append(p, fmt.Sprintf("%d answer records for a non-TXT type", len(m.Answer)))
	}
	if len(p) == 0 {
		return ""
	}
	return "whoami is enabled for this name: " + strings.Join(p, "; ")
}

func failureRcode(rc int) bool {
	return rc == dns.RcodeFormatError || rc == dns.RcodeServerFailure || rc == dns.RcodeNotImplemented || rc == dns.RcodeRefused
}

// runMalformed: messages without a question (and with two) over UDP and TCP:
// a failure reply or none, and the next query is answered.
func (e *engine) runMalformed(l *listener, guardPanics bool) {
	r := e.r
	probe := query{name: "www.example.com.", qtype: dns.TypeA}
	for _, t := range []transport{{size: 1232}, {tcp: true}} {
		for _, rm := range rawMessages(r.Thorough()) {
			if guardPanics && rm.qs == nil {
				// already reported by the in-process call; over the socket it would kill the server process
				r.Add("malformed_messages_not_sent_chain_panics", 1)
				continue
			}
			u, err := dialUDP(l.udp)
			if err != nil {
				vlib.Infra("dial udp: %v", err)
			}
			tc := &tcpClient{server: l.tcp}
			qid := "raw:" + rm.name
			e.mark(qid + "/" + t.String())
			wire := rm.wire(e.id())
			var resp []byte
			if t.tcp {
				resp, _ = tc.exchange(wire, 3*time.Second)
				tc.close()
			} else {
				resp, _ = u.exchange(wire, shortWaits)
			}
			r.Add("socket_exchanges", 1)
			r.Add("malformed_messages_sent", 1)
			r.Add("evaluations", 1)
			r.Add("cases", 1)
			if resp == nil {
				r.Add("malformed_messages_unanswered", 1)
			} else {
				m := new(dns.Msg)
				if err := m.Unpack(resp); err != nil {
					e.violate("malformed-garbled", qid, t.String(), l, fmt.Sprintf("reply does not unpack: %v", err), nil)
				} else if e.rawSamples = append(e.rawSamples, map[string]string{"config": e.cfg.Name, "listener": l.spec.IP, "query": qid, "transport": t.String(), "reply": firstLine(render(m))}); !m.Response || !failureRcode(m.Rcode) {
					why := "a message without a question"
					if rm.qs != nil && (!t.tcp || tc.connect() == nil) {
						// answering the first question exactly as the chain should (HINFO only under
						// ANY refusal, whoami, else the bare handler's answer) is also acceptable
						local, remote := transportAddrs(l, t, u, tc)
						why = e.byFirstQuestion(rm, wire, t, l, local, remote, m)
						tc.close()
					}
					if why != "" {
						e.violate("malformed", qid, t.String(), l, "neither a failure reply nor silence, and "+why+":\n"+render(m), nil)
					}
				}
			}
			// the server still answers
			if t.tcp {
				if err := tc.connect(); err != nil {
					e.violate("dead-after", qid, t.String(), l, fmt.Sprintf("cannot connect after the malformed message: %v", err), nil)
					u.close()
					continue
				}
			}
			local, remote := transportAddrs(l, t, u, tc)
			pw, _ := probe.build(t, e.id())
			ref := e.bare(pw, local, remote, l.spec.MaxAns)
			e.mark("probe-after-" + qid + "/" + t.String())
			got := e.send(l, t, pw, u, tc, udpWaits)
			r.Add("socket_exchanges", 1)
			r.Add("evaluations", 1)
			if got == nil {
				e.violate("dead-after", qid, t.String(), l, "the next query ("+probe.id()+") gets no reply", nil)
			} else {
				m := new(dns.Msg)
				if err := m.Unpack(got); err != nil || render(m) != render(ref.msg) {
					e.violate("differs-after", qid, t.String(), l, fmt.Sprintf("the next query (%s) is answered differently (unpack error %v):\n%s\nbare handler:\n%s", probe.id(), err, render(m), render(ref.msg)), nil)
				}
				r.Add("responses_compared", 1)
			}
			u.close()
			tc.close()
		}
	}
}

// byFirstQuestion judges a non-failure reply to a message that is not a plain
// one-question query (several questions, QR set): "" when it is what the first
// question alone calls for on this listener, else what is wrong with it.
func (e *engine) byFirstQuestion(rm rawMsg, wire []byte, t transport, l *listener, local, remote net.Addr, m *dns.Msg) string {
	first := query{name: rm.qs[0].Name, qtype: rm.qs[0].Qtype}
	switch {
	case e.cfg.RefuseANY && first.qtype == dns.TypeANY:
		return checkHINFO(first, m, false)
	case e.cfg.Whoami && strings.EqualFold(first.name, whoamiDomain+"."):
		return checkWhoami(first, t, local, remote, m, false)
	}
	ref := e.bare(wire, local, remote, l.spec.MaxAns)
	if ref.msg == nil {
		return "the bare handler writes nothing for it"
	}
	if a, b := render(m), render(ref.msg); a != b {
		return "it is not the bare handler's answer to the first question:\n" + b
	}
	return ""
}

// runGuard calls the handler chain installed on each listener in-process with
// question-less messages (what reaches it when the accept filter lets such a
// message through): it must not panic, and what it writes must be a failure.
func (e *engine) runGuard(l *listener) (panics bool) {
	r := e.r
	nets := make([]string, 0, len(l.handlers))
	for n := range l.handlers {
		nets = append(nets, n)
	}
	sort.Strings(nets)
	for _, n := range nets {
		h := l.handlers[n]
		for _, withOpt := range []bool{false, true} {
			m := new(dns.Msg)
			m.Id = e.id()
			if withOpt {
				m.SetEdns0(1232, false)
			}
			var local, remote net.Addr = l.udp, &net.UDPAddr{IP: net.ParseIP(l.spec.IP), Port: 40000}
			if n == "tcp" {
				local, remote = l.tcp, &net.TCPAddr{IP: net.ParseIP(l.spec.IP), Port: 40000}
			}
			w := &recWriter{local: local, remote: remote}
			qid := fmt.Sprintf("inprocess:zero-questions-opt%d", b2i(withOpt))
			e.mark(qid + "/" + n)
			r.Add("evaluations", 1)
			r.Add("cases", 1)
			r.Add("inprocess_guard_calls", 1)
			var pan interface{}
			func() {
				defer func() { pan = recover() }()
				h.ServeDNS(w, m)
			}()
			if pan != nil {
				e.violate("guard-panic", qid, n, l, fmt.Sprintf("the listener's handler chain panics on a message without a question: %v", pan), nil)
				panics = true
				continue
			}
			if len(w.wires) > 0 {
				rm := new(dns.Msg)
				if err := rm.Unpack(w.wires[0]); err != nil || !failureRcode(rm.Rcode) {
					e.violate("guard-reply", qid, n, l, fmt.Sprintf("reply to a message without a question is not a failure (unpack error %v):\n%s", err, render(rm)), nil)
				}
			}
		}
		// messages with several questions (what reaches the chain when the accept filter
		// lets them through): no panic; a failure, or the answer to the first question
		for _, raw := range rawMessages(false) {
			if raw.qs == nil {
				continue
			}
			wire := raw.wire(e.id())
			m := new(dns.Msg)
			if err := m.Unpack(wire); err != nil {
				vlib.Infra("harness message %s does not unpack: %v", raw.name, err)
			}
			t := transport{tcp: n == "tcp", size: 0}
			var local, remote net.Addr = l.udp, &net.UDPAddr{IP: net.ParseIP(l.spec.IP), Port: 40000}
			if t.tcp {
				local, remote = l.tcp, &net.TCPAddr{IP: net.ParseIP(l.spec.IP), Port: 40000}
			}
			w := &recWriter{local: local, remote: remote}
			qid := "inprocess:" + raw.name
			e.mark(qid + "/" + n)
			r.Add("evaluations", 1)
			r.Add("cases", 1)
			r.Add("inprocess_guard_calls", 1)
			var pan interface{}
			func() {
				defer func() { pan = recover() }()
				h.ServeDNS(w, m)
			}()
			if pan != nil {
				e.violate("guard-panic", qid, n, l, fmt.Sprintf("the listener's handler chain panics on a message with %d questions: %v", len(raw.qs), pan), nil)
				continue
			}
			if len(w.wires) == 0 {
				continue
			}
			got := new(dns.Msg)
			if err := got.Unpack(w.wires[0]); err != nil {
				e.violate("guard-reply", qid, n, l, fmt.Sprintf("reply does not unpack: %v", err), nil)
				continue
			}
			if bareFailure(got) {
				continue
			}
			if why := e.byFirstQuestion(raw, wire, t, l, local, remote, got); why != "" {
				e.violate("guard-reply", qid, n, l, fmt.Sprintf("reply to a message with %d questions is neither a failure nor the answer to the first question: %s\n%s", len(raw.qs), why, render(got)), nil)
			}
		}
	}
	return panics
}

// dumpBare prints the bare handler's answers for the closed set (debugging aid).
func dumpBare(dir string) {
	for _, be := range dnsfix.Backends {
		p, err := dnsfix.Compile(dir, be, dataText())
		if err != nil {
			fmt.Println("compile", be, err)
			continue
		}
		h, err := dnsfix.OpenHandler(be, p, dnsfix.HandlerOpts{})
		if err != nil {
			fmt.Println("open", be, err)
			continue
		}
		for _, q := range querySet(false) {
			for _, tcp := range []bool{false, true} {
				t := transport{tcp: tcp, size: 1232}
				wire, _ := q.build(t, 1)
				req := new(dns.Msg)
				req.Unpack(wire)
				res := h.Serve(req, "127.0.0.1", tcp, 2)
				fmt.Printf("== %s %s %s\n%s\n", be, q.id(), t, dnsfix.CanonResult(res))
			}
		}
		h.Close()
	}
}
