package main

import (
	"fmt"
	"net"
	"strings"

	"github.com/miekg/dns"
)

// whoamiDomain is the debug domain of the configurations that enable the
// whoami handler. The data file ALSO holds records at that name (and below it)
// so that "answered from the database" and "answered by whoami" are different
// observations in both directions.
const whoamiDomain = "whoami.example.com"

// dbMarker is the TXT text stored in the database at the whoami name.
const dbMarker = "from-database"

const (
	nBigTXT  = 12 // x 200 bytes: > 1232, < 4096
	nHugeTXT = 30 // x 200 bytes: > 4096
	nManyMX  = 80 // compressible RRset: > 1232 compressed
)

// dataText is the one fixed, rich data file every configuration serves.
// Well-formed on purpose (C01-C04 own the ill-formed shapes): every NS/MX
// target has at most one address per family, maps have both default routes.
func dataText() []byte {
	var sb strings.Builder
	w := func(f string, a ...interface{}) { fmt.Fprintf(&sb, f+"\n", a...) }
	// maps: resolver map m1 and client-subnet map e1, selected by geo.example.com only
	w(`%%lo,127.0.0.0/8,m1`)
	w(`%%l6,::1/128,m1`)
	w(`%%df,0.0.0.0/0,m1`)
	w(`%%df,::/0,m1`)
	w(`%%ea,10.0.0.0/8,e1`)
	w(`%%df,0.0.0.0/0,e1`)
	w(`%%df,::/0,e1`)
	w(`Mgeo.example.com,m1`)
	w(`8geo.example.com,e1`)
	// apex
	w(`Zexample.com,ns1.example.com,hostmaster.example.com,2024010101,7200,1800,604800,120,300,,`)
	w(`&example.com,198.51.100.1,ns1.example.com,3600,,`)
	w(`&example.com,198.51.100.2,ns2.example.com,3600,,`)
	w(`+ns1.example.com,2001:db8::53,3600,,`)
	w(`@example.com,192.0.2.25,mail.example.com,10,300,,`)
	w(`+mail.example.com,2001:db8::25,300,,`)
	w(`@example.com,,mx00.example.com,20,300,,`)
	w(`'example.com,v=spf1 -all,300,,`)
	// address sets of 1..4 candidates (weighted selection when max answer is smaller)
	w(`+www.example.com,192.0.2.10,300,,`)
	w(`+www.example.com,2001:db8::10,300,,`)
	w(`+w2.example.com,192.0.2.21,300,,`)
	w(`+w2.example.com,192.0.2.22,300,,`)
	w(`+w3.example.com,192.0.2.31,300,,,10`)
	w(`+w3.example.com,192.0.2.32,300,,,20`)
	w(`+w3.example.com,192.0.2.33,300,,,30`)
	w(`+w3.example.com,2001:db8::31,300,,`)
	w(`+w3.example.com,2001:db8::32,300,,`)
	for i := 1; i <= 4; i++ {
		w(`+w4.example.com,192.0.2.4%d,60,,,%d`, i, i*5)
		w(`+w4.example.com,2001:db8::4%d,60,,,%d`, i, 25-i*5)
	}
	// aliases
	w(`Calias.example.com,www.example.com,300,,`)
	w(`Cext.example.com,target.other.org,300,,`)
	// wildcard, empty non-terminals
	w(`+*.wild.example.com,192.0.2.70,300,,`)
	w(`'*.wild.example.com,wild-text,300,,`)
	w(`+a.b.example.com,192.0.2.71,300,,`)
	// delegation with in-bailiwick glue; nested authoritative zone
	w(`&deleg.example.com,203.0.113.1,ns.deleg.example.com,3600,,`)
	w(`+ns.deleg.example.com,2001:db8::d1,3600,,`)
	w(`Zsub.example.com,ns.sub.example.com,hostmaster.example.com,7,7200,1800,604800,120,300,,`)
	w(`&sub.example.com,198.51.100.3,ns.sub.example.com,3600,,`)
	w(`+x.sub.example.com,192.0.2.60,300,,`)
	// text, service binding
	w(`'txt.example.com,first string,300,,`)
	w(`'txt.example.com,second string,300,,`)
	w(`Hsvc.example.com,.,300,,1,alpn=h2`)
	w(`+svc.example.com,192.0.2.80,300,,`)
	// large answers
	for i := 0; i < nBigTXT; i++ {
		w(`'big.example.com,%s,300,,`, filler(i, 200))
	}
	for i := 0; i < nHugeTXT; i++ {
		w(`'huge.example.com,%s,300,,`, filler(100+i, 200))
	}
	for i := 0; i < nManyMX; i++ {
		w(`@manymx.example.com,,mx%02d.example.com,%d,300,,`, i, 10+i)
	}
	w(`+mx01.example.com,192.0.2.91,300,,`)
	w(`+mx01.example.com,2001:db8::91,300,,`)
	w(`+mx40.example.com,192.0.2.92,300,,`)
	w(`+mx79.example.com,192.0.2.93,300,,`)
	// location-dependent name (the client address matters)
	w(`+geo.example.com,192.0.2.41,300,,lo`)
	w(`+geo.example.com,192.0.2.46,300,,l6`)
	w(`+geo.example.com,192.0.2.49,300,,df`)
	w(`+geo.example.com,192.0.2.48,300,,ea`)
	w(`'geo.example.com,geo-lo,300,,lo`)
	w(`'geo.example.com,geo-l6,300,,l6`)
	w(`'geo.example.com,geo-df,300,,df`)
	w(`'geo.example.com,geo-ea,300,,ea`)
	// database content at and below the whoami name
	w(`+%s,192.0.2.99,300,,`, whoamiDomain)
	w(`'%s,%s,300,,`, whoamiDomain, dbMarker)
	w(`@%s,,mail.example.com,5,300,,`, whoamiDomain)
	w(`+under.%s,192.0.2.98,300,,`, whoamiDomain)
	w(`'under.%s,%s-under,300,,`, whoamiDomain, dbMarker)
	return []byte(sb.String())
}

// filler is a deterministic string of n characters [a-z0-9], different for
// every seed (so that nothing repeats and nothing compresses).
func filler(seed, n int) string {
	const al = "abcdefghijklmnopqrstuvwxyz0123456789"
	b := make([]byte, n)
	x := uint32(seed*2654435761 + 12345)
	for i := range b {
		x = x*1664525 + 1013904223
		b[i] = al[(x>>16)%uint32(len(al))]
	}
	return string(b)
}

// names is the closed name universe: every owner of the data file, the
// parents, absent siblings, names outside the served zones, and case variants.
func names() []string {
	l := []string{
		"example.com.", "www.example.com.", "w2.example.com.", "w3.example.com.", "w4.example.com.",
		"alias.example.com.", "ext.example.com.",
		"wild.example.com.", "x.wild.example.com.", "y.x.wild.example.com.",
		"b.example.com.", "a.b.example.com.",
		"deleg.example.com.", "below.deleg.example.com.", "ns.deleg.example.com.",
		"sub.example.com.", "x.sub.example.com.", "nope.sub.example.com.",
		"mail.example.com.", "ns1.example.com.", "ns2.example.com.",
		"txt.example.com.", "svc.example.com.",
		"big.example.com.", "huge.example.com.", "manymx.example.com.", "mx00.example.com.", "mx01.example.com.",
		"geo.example.com.",
		whoamiDomain + ".", "under." + whoamiDomain + ".", "nope.under." + whoamiDomain + ".",
		"nope.example.com.", "com.", ".", "other.org.",
		// case variants (the question must come back as asked)
		"WwW.ExAmPlE.CoM.", "X.Wild.Example.COM.", "HUGE.example.com.",
		"WhoAmI.Example.COM.", "Under.WhoAmI.example.com.",
	}
	return l
}

var qtypes = []uint16{dns.TypeA, dns.TypeAAAA, dns.TypeNS, dns.TypeSOA, dns.TypeMX, dns.TypeTXT, dns.TypeANY}

// transport of one exchange: UDP with an advertised buffer size (0 = no EDNS) or TCP.
type transport struct {
	tcp  bool
	size uint16
}

func (t transport) String() string {
	if t.tcp {
		return "tcp"
	}
	if t.size == 0 {
		return "udp-noedns"
	}
	return fmt.Sprintf("udp-%d", t.size)
}

// limit is the number of bytes the client can take over this transport.
func (t transport) limit() int {
	if t.tcp {
		return dns.MaxMsgSize
	}
	if t.size < dns.MinMsgSize {
		return dns.MinMsgSize
	}
	return int(t.size)
}

// query is one element of the closed query set.
type query struct {
	name   string
	qtype  uint16
	extra  string // "", "ecs4", "ecs4-nomatch", "ecs6", "do"
	weight int    // filled by the engine: number of address candidates
	// the header / question dimensions the front handlers (and the accept filter in
	// front of them) can look at; the zero values are an ordinary class IN QUERY
	clsSet bool
	qclass uint16 // question class when clsSet (class 0 is a member of the alphabet)
	opcode int    // header opcode (0 = QUERY)
	flag   string // one header bit set in the query: "", rd, ad, cd, aa, tc, ra, z
}

func (q query) class() uint16 {
	if q.clsSet {
		return q.qclass
	}
	return dns.ClassINET
}

func typeName(t uint16) string {
	if s, ok := dns.TypeToString[t]; ok && t != 0 {
		return s
	}
	return fmt.Sprintf("TYPE%d", t)
}

func className(c uint16) string {
	if s, ok := dns.ClassToString[c]; ok {
		return s
	}
	return fmt.Sprintf("CLASS%d", c)
}

func (q query) id() string {
	s := strings.TrimSuffix(q.name, ".")
	if s == "" {
		s = "root"
	}
	s += "/" + typeName(q.qtype)
	if q.extra != "" {
		s += "+" + q.extra
	}
	if c := q.class(); c != dns.ClassINET {
		s += "+class=" + className(c)
	}
	if q.opcode != dns.OpcodeQuery {
		s += fmt.Sprintf("+opcode=%d", q.opcode)
	}
	if q.flag != "" {
		s += "+" + q.flag
	}
	return s
}

// build packs the query for a transport with message id `id`.
func (q query) build(t transport, id uint16) ([]byte, error) {
	m := new(dns.Msg)
	m.Id = id
	m.Question = []dns.Question{{Name: q.name, Qtype: q.qtype, Qclass: q.class()}}
	m.Opcode = q.opcode
	switch q.flag {
	case "":
	case "rd":
		m.RecursionDesired = true
	case "ad":
		m.AuthenticatedData = true
	case "cd":
		m.CheckingDisabled = true
	case "aa":
		m.Authoritative = true
	case "tc":
		m.Truncated = true
	case "ra":
		m.RecursionAvailable = true
	case "z":
		m.Zero = true
	default:
		return nil, fmt.Errorf("unknown header flag %q", q.flag)
	}
	needOpt := q.extra != "" || (!t.tcp && t.size != 0)
	if needOpt {
		o := &dns.OPT{Hdr: dns.RR_Header{Name: ".", Rrtype: dns.TypeOPT}}
		sz := t.size
		if t.tcp || sz == 0 {
			sz = 1232 // an option forces EDNS; then a size must be advertised
		}
		o.SetUDPSize(sz)
		switch q.extra {
		case "ecs4":
			o.Option = append(o.Option, &dns.EDNS0_SUBNET{Code: dns.EDNS0SUBNET, Family: 1, SourceNetmask: 24, Address: net.ParseIP("10.1.2.0").To4()})
		case "ecs4-nomatch":
			o.Option = append(o.Option, &dns.EDNS0_SUBNET{Code: dns.EDNS0SUBNET, Family: 1, SourceNetmask: 24, Address: net.ParseIP("192.0.2.0").To4()})
		case "ecs6":
			o.Option = append(o.Option, &dns.EDNS0_SUBNET{Code: dns.EDNS0SUBNET, Family: 2, SourceNetmask: 56, Address: net.ParseIP("2001:db8:1:100::")})
		case "do":
			o.SetDo()
		}
		m.Extra = append(m.Extra, o)
	}
	return m.Pack()
}

// effective returns the transport as the server will see it for this query
// (an option forces EDNS even in the "no EDNS" column: those combinations are
// skipped by the engine instead).
func (q query) applicable(t transport) bool {
	if q.extra != "" && !t.tcp && t.size == 0 {
		return false
	}
	return true
}

// querySet is the closed set: names x types, plus a few option-carrying queries,
// plus the front-handler dimensions (frontSet).
func querySet(thorough bool) []query {
	var out []query
	for _, n := range names() {
		for _, t := range qtypes {
			out = append(out, query{name: n, qtype: t})
		}
	}
	for _, e := range []string{"ecs4", "ecs4-nomatch", "ecs6", "do"} {
		out = append(out, query{name: "geo.example.com.", qtype: dns.TypeA, extra: e})
		out = append(out, query{name: whoamiDomain + ".", qtype: dns.TypeTXT, extra: e})
	}
	out = append(out, query{name: "huge.example.com.", qtype: dns.TypeTXT, extra: "do"})
	// ANY with options (the refusal must not depend on them)
	out = append(out, query{name: "example.com.", qtype: dns.TypeANY, extra: "do"})
	out = append(out, query{name: "geo.example.com.", qtype: dns.TypeANY, extra: "ecs4"})
	out = append(out, query{name: "WhoAmI.Example.COM.", qtype: dns.TypeANY, extra: "ecs6"})
	return append(out, frontSet(thorough)...)
}

// The dimensions of a message the front handlers (fbserver/any.go, maxanswer.go,
// serve_mux.go, whoami/) and the accept filter in front of them look at or could
// look at, each crossed with every listener configuration and transport:
// question class, question type, opcode, header bits. (Question count: rawMessages;
// name case: names().)
var frontNames = []string{
	"example.com.", "www.example.com.", "WwW.ExAmPlE.CoM.", "w3.example.com.", "huge.example.com.", "nope.example.com.",
	whoamiDomain + ".", "WhoAmI.Example.COM.", "under." + whoamiDomain + ".", "other.org.",
}

var frontTypes = []uint16{dns.TypeA, dns.TypeTXT, dns.TypeANY}

func frontClasses(thorough bool) []uint16 {
	// every assigned class but IN, the reserved value 0, and (thorough) the neighbours and the private/last values
	l := []uint16{0, dns.ClassCSNET, dns.ClassCHAOS, dns.ClassHESIOD, dns.ClassNONE, dns.ClassANY}
	if thorough {
		l = append(l, 5, 253, 256, 65280, 65535)
	}
	return l
}

func frontOpcodes(thorough bool) []int {
	// IQUERY, STATUS, unassigned 3, NOTIFY (the one non-QUERY opcode the accept filter lets through), UPDATE, DSO, last
	l := []int{dns.OpcodeIQuery, dns.OpcodeStatus, 3, dns.OpcodeNotify, dns.OpcodeUpdate, 6, 15}
	if thorough {
		l = []int{1, 2, 3, 4, 5, 6, 7, 8, 9, 10, 11, 12, 13, 14, 15}
	}
	return l
}

// more question types: ordinary ones absent from qtypes, the meta / question-only types around ANY (255), and the ends
var frontMoreTypes = []uint16{
	dns.TypeCNAME, dns.TypePTR, dns.TypeHINFO, dns.TypeSRV, dns.TypeOPT, dns.TypeDS, dns.TypeDNSKEY, dns.TypeSVCB, dns.TypeHTTPS,
	dns.TypeIXFR, dns.TypeAXFR, dns.TypeMAILB, dns.TypeMAILA, 0, 256, 65535,
}

var frontFlags = []string{"rd", "ad", "cd", "aa", "tc", "ra", "z"}

func frontSet(thorough bool) []query {
	var out []query
	for _, c := range frontClasses(thorough) {
		for _, n := range frontNames {
			for _, t := range frontTypes {
				out = append(out, query{name: n, qtype: t, clsSet: true, qclass: c})
			}
		}
	}
	for _, op := range frontOpcodes(thorough) {
		ns := []string{"example.com.", "w3.example.com.", "WhoAmI.Example.COM."}
		if op == dns.OpcodeNotify {
			ns = frontNames // reaches the handler chain
		}
		for _, n := range ns {
			for _, t := range frontTypes {
				out = append(out, query{name: n, qtype: t, opcode: op})
			}
		}
	}
	// a non-QUERY opcode and a non-IN class together
	out = append(out, query{name: "example.com.", qtype: dns.TypeANY, opcode: dns.OpcodeNotify, clsSet: true, qclass: dns.ClassCHAOS})
	out = append(out, query{name: whoamiDomain + ".", qtype: dns.TypeTXT, opcode: dns.OpcodeNotify, clsSet: true, qclass: dns.ClassANY})
	for _, t := range frontMoreTypes {
		for _, n := range []string{"example.com.", "www.example.com.", "nope.example.com.", whoamiDomain + "."} {
			out = append(out, query{name: n, qtype: t})
		}
	}
	for _, f := range frontFlags {
		for _, q := range []query{
			{name: "w3.example.com.", qtype: dns.TypeA}, {name: "example.com.", qtype: dns.TypeANY},
			{name: whoamiDomain + ".", qtype: dns.TypeTXT}, {name: "huge.example.com.", qtype: dns.TypeTXT},
		} {
			q.flag = f
			out = append(out, q)
		}
	}
	return out
}

// malformed raw messages: no question at all, and more than one (the handlers
// look at Question[0] only: the first / a later question being ANY or the whoami
// name are separate cases); thorough: a message with QR set.
type rawMsg struct {
	name string
	wire func(id uint16) []byte
	qs   []dns.Question // the questions of a well-formed message with a question count other than 1
	qr   bool           // a response sent as if it were a query (the server may well ignore it)
}

func rawMessages(thorough bool) []rawMsg {
	hdr := func(id uint16, qd, ar uint16) []byte {
		return []byte{byte(id >> 8), byte(id), 0, 0, byte(qd >> 8), byte(qd), 0, 0, 0, 0, byte(ar >> 8), byte(ar)}
	}
	out := []rawMsg{
		{name: "zero-questions", wire: func(id uint16) []byte { return hdr(id, 0, 0) }},
		{name: "zero-questions-opt", wire: func(id uint16) []byte {
			// header + OPT pseudo record (root, type 41, udp 1232, ttl 0, rdlen 0)
			return append(hdr(id, 0, 1), 0, 0, 41, 0x04, 0xd0, 0, 0, 0, 0, 0, 0)
		}},
		{name: "qdcount-1-but-no-question", wire: func(id uint16) []byte { return hdr(id, 1, 0) }},
	}
	in := func(n string, t uint16) dns.Question { return dns.Question{Name: n, Qtype: t, Qclass: dns.ClassINET} }
	multi := func(name string, qs ...dns.Question) {
		out = append(out, rawMsg{name: name, qs: qs, wire: func(id uint16) []byte {
			m := new(dns.Msg)
			m.Id = id
			m.Question = qs
			b, err := m.Pack()
			if err != nil {
				panic(err)
			}
			return b
		}})
	}
	multi("two-questions", in("www.example.com.", dns.TypeA), in("www.example.com.", dns.TypeAAAA))
	multi("two-questions-any-first", in("example.com.", dns.TypeANY), in("www.example.com.", dns.TypeA))
	multi("two-questions-any-second", in("www.example.com.", dns.TypeA), in("example.com.", dns.TypeANY))
	multi("two-questions-whoami-first", in(whoamiDomain+".", dns.TypeTXT), in("www.example.com.", dns.TypeA))
	multi("two-questions-whoami-second", in("www.example.com.", dns.TypeA), in(whoamiDomain+".", dns.TypeTXT))
	multi("three-questions", in("www.example.com.", dns.TypeA), in("example.com.", dns.TypeANY), in(whoamiDomain+".", dns.TypeTXT))
	if thorough {
		for _, c := range []struct {
			name string
			q    dns.Question
		}{{"qr-set", in("www.example.com.", dns.TypeA)}, {"qr-set-any", in("example.com.", dns.TypeANY)}} {
			q := c.q
			out = append(out, rawMsg{name: c.name, qr: true, wire: func(id uint16) []byte {
				m := new(dns.Msg)
				m.Id = id
				m.Response = true
				m.Question = []dns.Question{q}
				b, err := m.Pack()
				if err != nil {
					panic(err)
				}
				return b
			}})
		}
	}
	return out
}
