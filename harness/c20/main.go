// C20: transport and plugin chain do not alter answers.
//
// A REAL fbserver.Server is started on loopback (port 0) for every front
// configuration {whoami unset/set} x {refuse-ANY off/on} x max answer {1,2,3}
// (TCP on), plus one configuration on RocksDB (v2 keys) and one with three
// listeners carrying different max-answer settings. Every query of a closed
// set is sent over UDP with several advertised buffer sizes and over TCP, one
// exchange at a time, and the reply is compared with what the bare database
// handler gives in-process for the same wire query on a writer reporting the
// same transport, local and remote address.
//
// Process layout: the parent compiles the data file once per backend and runs
// one child process per configuration (a panic in a server goroutine cannot be
// recovered: it must not take the check down with it; it is reported as a
// violation naming the exchange in flight).
package main

import (
	"bytes"
	"encoding/json"
	"fmt"
	"os"
	"os/exec"
	"path/filepath"
	"sort"
	"strconv"
	"strings"
	"sync"

	"verifharness/dnsfix"
	"verifharness/vlib"
)

type listenerSpec struct {
	IP     string `json:"ip"`
	MaxAns int    `json:"max_answer"`
}

type config struct {
	Idx            int            `json:"idx"`
	Name           string         `json:"name"`
	Whoami         bool           `json:"whoami"`
	RefuseANY      bool           `json:"refuse_any"`
	Listeners      []listenerSpec `json:"listeners"`
	Backend        dnsfix.Backend `json:"backend"`
	AlwaysCompress bool           `json:"always_compress"`
	Cache          bool           `json:"cache"`
	CacheWRS       bool           `json:"cache_weighted"` // cache weighted answers too (-cache-wrs-timeout > 0)
}

func b2i(b bool) int {
	if b {
		return 1
	}
	return 0
}

func mkConfig(whoami, any bool, ls []listenerSpec, be dnsfix.Backend, compress, cache bool) config {
	var lp []string
	for _, l := range ls {
		lp = append(lp, fmt.Sprintf("%s=%d", l.IP, l.MaxAns))
	}
	name := fmt.Sprintf("whoami%d-any%d-%s-%s", b2i(whoami), b2i(any), strings.Join(lp, "+"), be)
	if compress {
		name += "-compress"
	}
	if cache {
		name += "-cache"
	}
	return config{Name: name, Whoami: whoami, RefuseANY: any, Listeners: ls, Backend: be, AlwaysCompress: compress, Cache: cache}
}

// configs lists the configurations, simplest first (a violation seen in several
// configurations is reported for the first one only).
func configs(thorough bool) []config {
	var out []config
	one := func(n int) []listenerSpec { return []listenerSpec{{"127.0.0.1", n}} }
	multi := []listenerSpec{{"127.0.0.1", 1}, {"127.0.0.2", 2}, {"::1", 3}}
	bools := []bool{false, true}
	for _, w := range bools {
		for _, a := range bools {
			for n := 1; n <= 3; n++ {
				out = append(out, mkConfig(w, a, one(n), dnsfix.CDB, false, false))
			}
		}
	}
	out = append(out, mkConfig(true, false, one(3), dnsfix.RDBv2, false, false))
	out = append(out, mkConfig(true, true, multi, dnsfix.CDB, false, false))
	// the same three listeners in front of the response cache with weighted answers cached too
	// (-cache -cache-wrs-timeout N): the listeners share one handler and one cache
	cw := mkConfig(false, false, multi, dnsfix.CDB, false, true)
	cw.CacheWRS = true
	cw.Name += "wrs"
	out = append(out, cw)
	if thorough {
		for _, be := range []dnsfix.Backend{dnsfix.RDBv1, dnsfix.RDBv2} {
			for _, w := range bools {
				for _, a := range bools {
					for n := 1; n <= 3; n++ {
						out = append(out, mkConfig(w, a, one(n), be, false, false))
					}
				}
			}
			out = append(out, mkConfig(true, true, multi, be, false, false))
		}
		for _, be := range dnsfix.Backends {
			for _, w := range bools {
				for _, a := range bools {
					for n := 1; n <= 3; n++ {
						out = append(out, mkConfig(w, a, one(n), be, true, false))
					}
				}
			}
		}
		for _, w := range bools {
			for _, a := range bools {
				for n := 1; n <= 3; n++ {
					out = append(out, mkConfig(w, a, one(n), dnsfix.CDB, false, true))
				}
			}
		}
		out = append(out, mkConfig(true, false, multi, dnsfix.CDB, false, true))
		out = append(out, mkConfig(true, false, []listenerSpec{{"::1", 2}}, dnsfix.CDB, false, false))
		out = append(out, mkConfig(false, true, []listenerSpec{{"::1", 4}}, dnsfix.RDBv2, true, true))
	}
	// de-duplicate by name, keep order
	seen := map[string]bool{}
	var uniq []config
	for _, c := range out {
		if !seen[c.Name] {
			seen[c.Name] = true
			c.Idx = len(uniq)
			uniq = append(uniq, c)
		}
	}
	return uniq
}

func transports(thorough bool) []transport {
	sizes := []uint16{0, 600, 1232, 4096}
	if thorough {
		sizes = []uint16{0, 256, 512, 513, 600, 1231, 1232, 1233, 4096, 8192, 65535}
	}
	var out []transport
	for _, s := range sizes {
		out = append(out, transport{size: s})
	}
	return append(out, transport{tcp: true})
}

type childReport struct {
	Cov        map[string]interface{} `json:"cov"`
	Violations []vlib.Violation       `json:"violations"`
	Samples    []interface{}          `json:"samples"`
	Notes      []string               `json:"notes"`
	Exhaustive bool                   `json:"exhaustive"`
}

func main() {
	r := vlib.Start("C20")
	if s := os.Getenv("VERIF_C20_CONFIG"); s != "" {
		childMain(r, s)
		return
	}
	dir, clean := vlib.Scratch("c20")
	defer clean()
	dnsfix.Quiet(dir)

	cfgs := configs(r.Thorough())
	if only := os.Getenv("VERIF_C20_ONLY"); only != "" {
		// debugging / replay aid: run only the configurations whose name contains the string
		var sel []config
		for _, c := range cfgs {
			if strings.Contains(c.Name, only) {
				sel = append(sel, c)
			}
		}
		cfgs = sel
		r.Exhaustive = false
		r.Note("restricted to configurations matching %q", only)
	}
	if os.Getenv("VERIF_C20_DUMP") != "" {
		dumpBare(dir)
		clean()
		return
	}
	// compile the data file once per backend in use
	paths := map[dnsfix.Backend]string{}
	for _, c := range cfgs {
		if _, ok := paths[c.Backend]; !ok {
			p, err := dnsfix.Compile(dir, c.Backend, dataText())
			if err != nil {
				clean()
				vlib.Infra("compile %s: %v", c.Backend, err)
			}
			paths[c.Backend] = p
		}
	}

	reports := make([]*childReport, len(cfgs))
	crashes := make([]string, len(cfgs))
	par := vlib.Workers() / 2
	if par < 1 {
		par = 1
	}
	if par > 8 {
		par = 8
	}
	sem := make(chan struct{}, par)
	var wg sync.WaitGroup
	var mu sync.Mutex
	infra := ""
	for i := range cfgs {
		wg.Add(1)
		go func(i int) {
			defer wg.Done()
			sem <- struct{}{}
			defer func() { <-sem }()
			c := cfgs[i]
			cj, _ := json.Marshal(c)
			out := filepath.Join(dir, fmt.Sprintf("report-%d.json", i))
			prog := filepath.Join(dir, fmt.Sprintf("progress-%d", i))
			cdir := filepath.Join(dir, fmt.Sprintf("child-%d", i))
			os.MkdirAll(cdir, 0o755)
			cmd := exec.Command(os.Args[0], r.Tier)
			cmd.Env = append(os.Environ(), "VERIF_C20_CONFIG="+string(cj), "VERIF_C20_DB="+paths[c.Backend],
				"VERIF_C20_PROGRESS="+prog, "VERIF_C20_DIR="+cdir, "TMPDIR="+cdir,
				"VERIF_SHARD_OUT="+out, "VERIF_SHARD_IDX="+strconv.Itoa(i), "VERIF_SHARD_N="+strconv.Itoa(len(cfgs)), "VERIF_TIER="+r.Tier)
			var stderr bytes.Buffer
			cmd.Stdout = &stderr
			cmd.Stderr = &stderr
			err := cmd.Run()
			if err != nil {
				se := stderr.String()
				if strings.Contains(se, "INFRA-ERROR:") {
					mu.Lock()
					infra = fmt.Sprintf("configuration %s: %s", c.Name, lastLines(se, 5))
					mu.Unlock()
					return
				}
				p, _ := os.ReadFile(prog)
				crashes[i] = fmt.Sprintf("in flight: %s\nchild: %v\n%s", strings.TrimSpace(string(p)), err, crashHead(se))
				return
			}
			b, err := os.ReadFile(out)
			if err != nil {
				mu.Lock()
				infra = fmt.Sprintf("configuration %s wrote no report: %v\n%s", c.Name, err, lastLines(stderr.String(), 5))
				mu.Unlock()
				return
			}
			var rep childReport
			dec := json.NewDecoder(bytes.NewReader(b))
			dec.UseNumber()
			if err := dec.Decode(&rep); err != nil {
				mu.Lock()
				infra = fmt.Sprintf("configuration %s report: %v", c.Name, err)
				mu.Unlock()
				return
			}
			reports[i] = &rep
		}(i)
	}
	wg.Wait()
	if infra != "" {
		clean()
		vlib.Infra("%s", infra)
	}

	// merge, in configuration order
	firstSeen := map[string]bool{}
	completed := 0
	var samples []interface{}
	for i, rep := range reports {
		c := cfgs[i]
		if crashes[i] != "" {
			r.Exhaustive = false
			p, _ := os.ReadFile(filepath.Join(dir, fmt.Sprintf("progress-%d", i)))
			where := strings.TrimSpace(string(p))
			if where == "" {
				where = "startup"
			}
			key := "server-crash/" + where
			if !firstSeen[key] {
				firstSeen[key] = true
				r.Violate(key+"/"+c.Name, "the process running the server died (a panic in a server goroutine is not recoverable)\n"+crashes[i],
					map[string]interface{}{"config": c, "in_flight": where})
			}
			continue
		}
		completed++
		for k, v := range rep.Cov {
			if num, ok := v.(json.Number); ok {
				if iv, err := num.Int64(); err == nil {
					r.Add(k, iv)
				}
			}
		}
		sort.Slice(rep.Violations, func(a, b int) bool { return rep.Violations[a].Fingerprint < rep.Violations[b].Fingerprint })
		for _, v := range rep.Violations {
			// child fingerprints are "<kind>/<query>/<transport>"; the same case failing
			// in a later (less simple) configuration is not reported again
			if firstSeen[v.Fingerprint] {
				r.Add("violating_cases_repeated_in_later_configs", 1)
				continue
			}
			firstSeen[v.Fingerprint] = true
			r.Violate(v.Fingerprint+"/"+c.Name, v.Detail, v.Replay)
		}
		for j, s := range rep.Samples {
			if j < 3 && (len(cfgs) <= 16 || i%6 == 0 || j == 0) {
				samples = append(samples, s)
			}
		}
		for _, n := range rep.Notes {
			r.Note("%s: %s", c.Name, n)
		}
		if !rep.Exhaustive {
			r.Exhaustive = false
		}
	}

	// spread the bounded sample list over all configurations
	step := 1
	if len(samples) > 22 {
		step = (len(samples) + 21) / 22
	}
	for i := 0; i < len(samples); i += step {
		r.Sample(samples[i])
	}
	var cfgNames []string
	for _, c := range cfgs {
		cfgNames = append(cfgNames, c.Name)
	}
	var ts []string
	for _, t := range transports(r.Thorough()) {
		ts = append(ts, t.String())
	}
	r.Set("configurations", len(cfgs))
	r.Set("configurations_completed", completed)
	r.Set("configuration_names", cfgNames)
	r.Set("transports", ts)
	r.Set("names", len(names()))
	r.Set("qtypes", len(qtypes))
	r.Set("front_names", len(frontNames))
	r.Set("front_classes", len(frontClasses(r.Thorough())))
	r.Set("front_opcodes", len(frontOpcodes(r.Thorough())))
	r.Set("front_more_qtypes", len(frontMoreTypes))
	r.Set("front_header_flags", len(frontFlags))
	r.Set("front_dimension_queries", len(frontSet(r.Thorough())))
	r.Set("queries_in_closed_set", len(querySet(r.Thorough())))
	r.Set("raw_malformed_messages", len(rawMessages(r.Thorough())))
	r.Set("states", r.Int("cases"))
	r.Set("transitions", r.Int("socket_exchanges"))
	r.Set("traces_validated_against_impl", r.Int("responses_compared"))
	r.Set("rule", "every configuration of {whoami unset/set} x {refuse-ANY off/on} x max answer {1,2,3} on CDB with UDP+TCP listeners on 127.0.0.1 port 0, one configuration on RocksDB v2 keys, one with three listeners (127.0.0.1, 127.0.0.2, ::1) carrying max answer 1,2,3, and the same three listeners with the response cache on and weighted answers cached (thorough: all backends, always-compress, response cache, IPv6-only listener, more buffer sizes); "+
		"for each listener every query of the closed set (all names of the fixed data file incl. absent, out-of-zone, delegated, wildcard, >512/>1232/>4096-byte RRsets, whoami name in lower/mixed case and a name below it, x {A,AAAA,NS,SOA,MX,TXT,ANY}, plus ECS/DO variants incl. ANY with DO/ECS; plus the front-handler dimensions: 10 names (apex, single and weighted address sets, >4096-byte RRset, absent, out-of-zone, whoami name in two cases and a name below it) x {A,TXT,ANY} x question class {0,CS,CH,HS,NONE,ANY} (thorough: also 5,253,256,65280,65535); opcode {IQUERY,STATUS,3,NOTIFY,UPDATE,6,15} (thorough: 1..15) x {apex, weighted set, whoami name} x {A,TXT,ANY} and NOTIFY x all 10 names; NOTIFY with class CH/ANY; question types {CNAME,PTR,HINFO,SRV,OPT,DS,DNSKEY,SVCB,HTTPS,IXFR,AXFR,MAILB,MAILA,0,256,65535} x 4 names; one of the header bits {RD,AD,CD,AA,TC,RA,Z} set x 4 queries) x {UDP without EDNS, UDP with each advertised size, TCP}, one exchange at a time over real sockets with retry on silence; "+
		"oracle = canonical equality (dnsfix.Canon + exact question name; id ignored) with FBDNSDB.ServeDNS(WithMaxAnswer(n)) run in-process on the same wire query and a writer reporting the same transport/local/remote address (address sets with more candidates than max answer: subset of candidates and count); reply never larger than the client's buffer; TC set whenever the complete (TCP) answer cannot fit; TCP answer not truncated; ANY under refusal (whatever the class, options, name case) = exactly one HINFO at the query name, question echoed, nothing else; a message with a non-QUERY opcode may instead be rejected (failure reply without records) or ignored; the compared text includes opcode and the RD/RA/AD/CD/Z bits of the reply; whoami name = whoami handler's TXT protocol/source/destination and no database record; "+
		"malformed messages (no question; two and three questions with ANY / the whoami name as first or later question; thorough: QR set) over UDP and TCP get a failure reply or none - or, when there is a question, exactly what the first question calls for on that listener - and the next query is answered; the listener's handler chain called in-process with question-less and with several-question messages must not panic and must write a failure or the answer to the first question. "+
		"states = (configuration, listener, query, transport) cases; transitions = socket exchanges; non-trivial = cases whose expected reply carries at least one record in answer or authority")
	r.Assume = []string{
		"the kernel's loopback UDP/TCP delivery is trusted; a silent attempt is retried (deadlines 2, 4, 8 s) and only total silence is judged",
		"the in-process bare handler is a second FBDNSDB instance opened on the same database file",
		"weighted selections are compared as subset-and-count, not as a distribution (C11 owns that)",
		"TLS and DNSSEC front handlers are not configured",
		"a message whose opcode is not QUERY, or with a question count other than 1, or with QR set, is not a query in the sense of the statement: rejection or silence is accepted, database content where the chain should refuse is not",
	}
	clean()
	r.Finish()
}

func lastLines(s string, n int) string {
	l := strings.Split(strings.TrimSpace(s), "\n")
	if len(l) > n {
		l = l[len(l)-n:]
	}
	return strings.Join(l, "\n")
}

// crashHead extracts the panic headline and the first frames from a Go crash dump.
func crashHead(s string) string {
	l := strings.Split(s, "\n")
	for i, ln := range l {
		if strings.HasPrefix(ln, "panic:") || strings.HasPrefix(ln, "fatal error:") || strings.Contains(ln, "SIGSEGV") {
			end := i + 14
			if end > len(l) {
				end = len(l)
			}
			return strings.Join(l[i:end], "\n")
		}
	}
	return lastLines(s, 10)
}
