package main

import (
	"encoding/binary"
	"errors"
	"fmt"
	"io"
	"net"
	"time"
)

// Raw socket clients. One exchange at a time; a silent attempt is RETRIED with
// a longer deadline and never judged by itself. The deadlines only bound how
// long a broken server can stall the check; no verdict depends on how fast an
// answer arrives.

var udpWaits = []time.Duration{2 * time.Second, 4 * time.Second, 8 * time.Second}

// shortWaits is used for messages the server is allowed to ignore.
var shortWaits = []time.Duration{1 * time.Second, 2 * time.Second}

type udpClient struct {
	conn    *net.UDPConn
	local   *net.UDPAddr
	server  *net.UDPAddr
	buf     []byte
	resent  int64
	lateDup int64 // retried exchanges for which both replies eventually arrived
}

func dialUDP(server *net.UDPAddr) (*udpClient, error) {
	c, err := net.DialUDP("udp", nil, server)
	if err != nil {
		return nil, err
	}
	return &udpClient{conn: c, local: c.LocalAddr().(*net.UDPAddr), server: server, buf: make([]byte, 65536)}, nil
}

func (c *udpClient) close() { c.conn.Close() }

// exchange sends wire and returns the first datagram carrying the same
// message id (stale datagrams of earlier, retried exchanges are dropped).
// nil = no reply after all attempts.
func (c *udpClient) exchange(wire []byte, waits []time.Duration) ([]byte, error) {
	id := binary.BigEndian.Uint16(wire)
	for attempt, wait := range waits {
		if attempt > 0 {
			c.resent++
		}
		if _, err := c.conn.Write(wire); err != nil {
			return nil, fmt.Errorf("udp write: %w", err)
		}
		deadline := time.Now().Add(wait)
		for {
			c.conn.SetReadDeadline(deadline)
			n, err := c.conn.Read(c.buf)
			if err != nil {
				var ne net.Error
				if errors.As(err, &ne) && ne.Timeout() {
					break // next attempt
				}
				// ICMP port unreachable etc.: the listener is gone
				return nil, fmt.Errorf("udp read: %w", err)
			}
			if n >= 2 && binary.BigEndian.Uint16(c.buf) == id {
				out := append([]byte(nil), c.buf[:n]...)
				if attempt > 0 {
					// diagnostic only: does the reply to the earlier datagram show up too?
					c.conn.SetReadDeadline(time.Now().Add(300 * time.Millisecond))
					if m, err := c.conn.Read(c.buf); err == nil && m >= 2 && binary.BigEndian.Uint16(c.buf) == id {
						c.lateDup++
					}
				}
				return out, nil
			}
		}
	}
	return nil, nil
}

type tcpClient struct {
	server *net.TCPAddr
	conn   *net.TCPConn
	local  *net.TCPAddr
	used   int
	redial int64
}

func (c *tcpClient) close() {
	if c.conn != nil {
		c.conn.Close()
		c.conn = nil
	}
}

// connect makes sure there is a connection and returns its local address.
func (c *tcpClient) connect() error {
	if c.conn != nil {
		return nil
	}
	conn, err := net.DialTCP("tcp", nil, c.server)
	if err != nil {
		return err
	}
	c.conn = conn
	c.local = conn.LocalAddr().(*net.TCPAddr)
	c.used = 0
	return nil
}

var errClosed = errors.New("connection closed by server without a reply")

// exchange writes one length-prefixed message on the current connection and
// reads one reply. errClosed = the server closed the connection instead.
func (c *tcpClient) exchange(wire []byte, wait time.Duration) ([]byte, error) {
	if err := c.connect(); err != nil {
		return nil, err
	}
	out := make([]byte, 2+len(wire))
	binary.BigEndian.PutUint16(out, uint16(len(wire)))
	copy(out[2:], wire)
	c.conn.SetDeadline(time.Now().Add(wait))
	if _, err := c.conn.Write(out); err != nil {
		c.close()
		return nil, errClosed
	}
	c.used++
	var l [2]byte
	if _, err := io.ReadFull(c.conn, l[:]); err != nil {
		c.close()
		var ne net.Error
		if errors.As(err, &ne) && ne.Timeout() {
			return nil, nil
		}
		return nil, errClosed
	}
	resp := make([]byte, binary.BigEndian.Uint16(l[:]))
	if _, err := io.ReadFull(c.conn, resp); err != nil {
		c.close()
		return nil, fmt.Errorf("tcp short reply: %w", err)
	}
	return resp, nil
}
