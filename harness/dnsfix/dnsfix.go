// Package dnsfix is the shared fixture library for end-to-end checks: it
// compiles data-file text with the REAL compilers to CDB / RocksDB (v1 and v2
// keys), dumps the produced stores, opens the REAL handler on them and captures
// canonicalised responses. It contains no oracle.
package dnsfix

import (
	"bytes"
	"context"
	"flag"
	"fmt"
	"io"
	"log"
	"net"
	"os"
	"path/filepath"
	"sort"
	"strings"
	"sync/atomic"

	rocksdb "github.com/facebookincubator/dns/dnsrocks/cgo-rocksdb"
	"github.com/facebookincubator/dns/dnsrocks/dnsdata/cdb"
	"github.com/facebookincubator/dns/dnsrocks/dnsdata/rdb"
	"github.com/facebookincubator/dns/dnsrocks/dnsserver"
	"github.com/facebookincubator/dns/dnsrocks/dnsserver/stats"

	"github.com/miekg/dns"
	gocdb "github.com/repustate/go-cdb"
)

// Quiet silences the standard logger and sends glog output to files under
// logDir (a scratch directory that the caller removes); call it once, early.
func Quiet(logDir string) {
	log.SetOutput(io.Discard)
	flag.Set("logtostderr", "false")
	flag.Set("alsologtostderr", "false")
	flag.Set("stderrthreshold", "FATAL")
	flag.Set("log_dir", logDir)
	if !flag.Parsed() {
		flag.CommandLine.Parse([]string{})
	}
}

// Backend names a storage configuration.
type Backend int

const (
	CDB Backend = iota
	RDBv1
	RDBv2
)

func (b Backend) String() string { return [...]string{"cdb", "rdb-v1", "rdb-v2"}[b] }

// Driver is the db driver name for the backend.
func (b Backend) Driver() string {
	if b == CDB {
		return "cdb"
	}
	return "rocksdb"
}

var Backends = []Backend{CDB, RDBv1, RDBv2}

// Serial is the fixed codec serial used for every compile (mtime-independent).
const Serial = 1234567

// RDBOpts are compiler options for RocksDB; zero value = batches, 1 worker.
type RDBOpts struct {
	Workers          int
	UseBuilder       bool
	BatchSize        int
	BatchNumParallel int
}

var seq int64

// Compile compiles text for the backend into a fresh path below dir and
// returns that path (file for CDB, directory for RocksDB).
func Compile(dir string, b Backend, text []byte) (string, error) {
	return CompileOpts(dir, b, text, RDBOpts{Workers: 1, BatchNumParallel: 1}, 1)
}

// CompileOpts is Compile with explicit compiler settings.
func CompileOpts(dir string, b Backend, text []byte, o RDBOpts, cdbWorkers int) (string, error) {
	n := atomic.AddInt64(&seq, 1)
	switch b {
	case CDB:
		p := filepath.Join(dir, fmt.Sprintf("db%d.cdb", n))
		w, err := gocdb.NewWriter(p)
		if err != nil {
			return "", err
		}
		_, err = cdb.CreateCDBFromReader(bytes.NewReader(text), w, Serial, cdbWorkers)
		cerr := w.Close()
		if err != nil {
			os.Remove(p)
			return "", err
		}
		if cerr != nil {
			os.Remove(p)
			return "", cerr
		}
		return p, nil
	default:
		p := filepath.Join(dir, fmt.Sprintf("db%d.rdb", n))
		if err := os.MkdirAll(p, 0o755); err != nil {
			return "", err
		}
		if o.Workers <= 0 {
			o.Workers = 1
		}
		_, err := rdb.Compile(bytes.NewReader(text), Serial, p, rdb.CompilationOptions{
			NumCPU: o.Workers, UseV2KeySyntax: b == RDBv2, UseBuilder: o.UseBuilder,
			BatchNumParallel: o.BatchNumParallel, BatchSize: o.BatchSize,
		})
		if err != nil {
			os.RemoveAll(p)
			return "", err
		}
		return p, nil
	}
}

// Dump is a store read as key -> sorted multiset of values.
type Dump map[string][]string

// Equal reports whether two dumps hold the same map of multisets.
func (d Dump) Equal(o Dump) bool { return d.Diff(o) == "" }

// Diff describes the first few differences between two dumps ("" if equal).
func (d Dump) Diff(o Dump) string {
	var out []string
	keys := map[string]bool{}
	for k := range d {
		keys[k] = true
	}
	for k := range o {
		keys[k] = true
	}
	ks := make([]string, 0, len(keys))
	for k := range keys {
		ks = append(ks, k)
	}
	sort.Strings(ks)
	for _, k := range ks {
		a, b := d[k], o[k]
		if len(a) != len(b) || strings.Join(quoteAll(a), ",") != strings.Join(quoteAll(b), ",") {
			out = append(out, fmt.Sprintf("key %q: %q vs %q", k, a, b))
			if len(out) >= 4 {
				break
			}
		}
	}
	return strings.Join(out, "; ")
}

func quoteAll(a []string) []string {
	o := make([]string, len(a))
	for i, s := range a {
		o[i] = fmt.Sprintf("%q", s)
	}
	return o
}

// DumpCDB reads every (key,value) of a CDB file by sequential scan of the
// record area (independent of the hash tables).
func DumpCDB(path string) (Dump, error) {
	b, err := os.ReadFile(path)
	if err != nil {
		return nil, err
	}
	if len(b) < 2048 {
		return nil, fmt.Errorf("cdb too short: %d", len(b))
	}
	le := func(o int) int { return int(uint32(b[o]) | uint32(b[o+1])<<8 | uint32(b[o+2])<<16 | uint32(b[o+3])<<24) }
	end := len(b)
	for i := 0; i < 256; i++ { // records end where the first hash table begins
		if p := le(i * 8); p < end && le(i*8+4) > 0 {
			end = p
		}
	}
	if e0 := le(0); e0 < end {
		end = e0
	}
	d := Dump{}
	pos := 2048
	for pos < end {
		if pos+8 > len(b) {
			return nil, fmt.Errorf("cdb truncated record header at %d", pos)
		}
		kl, vl := le(pos), le(pos+4)
		pos += 8
		if pos+kl+vl > len(b) {
			return nil, fmt.Errorf("cdb truncated record at %d", pos)
		}
		k := string(b[pos : pos+kl])
		v := string(b[pos+kl : pos+kl+vl])
		pos += kl + vl
		d[k] = append(d[k], v)
	}
	for k := range d {
		sort.Strings(d[k])
	}
	return d, nil
}

// DumpRDB reads every key of a RocksDB directory with a raw iterator and
// splits each value into its length-prefixed chunks.
func DumpRDB(path string) (Dump, error) {
	opts := rocksdb.NewOptions()
	db, err := rocksdb.OpenDatabase(path, true, false, opts)
	if err != nil {
		opts.FreeOptions()
		return nil, err
	}
	ro := rocksdb.NewDefaultReadOptions()
	it := db.CreateIterator(ro)
	d := Dump{}
	var derr error
	for it.SeekToFirst(); it.IsValid(); it.Next() {
		k := string(it.Key())
		data := it.Value()
		for len(data) > 0 {
			if len(data) < 4 {
				derr = fmt.Errorf("key %q: truncated chunk header", k)
				break
			}
			n := int(uint32(data[0]) | uint32(data[1])<<8 | uint32(data[2])<<16 | uint32(data[3])<<24)
			if len(data) < 4+n {
				derr = fmt.Errorf("key %q: truncated chunk", k)
				break
			}
			d[k] = append(d[k], string(data[4:4+n]))
			data = data[4+n:]
		}
		if _, ok := d[k]; !ok && derr == nil {
			d[k] = []string{} // key present with empty value list
		}
	}
	if e := it.GetError(); e != nil && derr == nil {
		derr = e
	}
	it.FreeIterator()
	ro.FreeReadOptions()
	db.CloseDatabase()
	for k := range d {
		sort.Strings(d[k])
	}
	return d, derr
}

// DumpOf dumps the store at path for backend b.
func DumpOf(b Backend, path string) (Dump, error) {
	if b == CDB {
		return DumpCDB(path)
	}
	return DumpRDB(path)
}

// Handler wraps a real FBDNSDB over a compiled database.
type Handler struct {
	H       *dnsserver.FBDNSDB
	Backend Backend
	Path    string
}

// HandlerOpts configure OpenHandler.
type HandlerOpts struct {
	Cache         dnsserver.CacheConfig
	Logger        dnsserver.Logger
	Stats         stats.Stats
	ValidationKey []byte
}

// OpenHandler opens the real handler (no background goroutines) on path.
func OpenHandler(b Backend, path string, o HandlerOpts) (*Handler, error) {
	if o.Logger == nil {
		o.Logger = &dnsserver.DummyLogger{}
	}
	if o.Stats == nil {
		o.Stats = &stats.DummyStats{}
	}
	h, err := dnsserver.NewFBDNSDBBasic(dnsserver.HandlerConfig{}, dnsserver.DBConfig{
		Path: path, Driver: b.Driver(), ReloadTimeout: 1 << 40, ValidationKey: o.ValidationKey,
	}, o.Cache, o.Logger, o.Stats)
	if err != nil {
		return nil, err
	}
	if err := h.Load(); err != nil {
		return nil, err
	}
	return &Handler{H: h, Backend: b, Path: path}, nil
}

// Close shuts the handler's database.
func (h *Handler) Close() { h.H.Close() }

// Writer is a recording dns.ResponseWriter.
type Writer struct {
	Remote net.Addr
	TCP    bool
	Msgs   []*dns.Msg
	Raw    int
}

func (w *Writer) LocalAddr() net.Addr {
	if w.TCP {
		return &net.TCPAddr{IP: net.ParseIP("127.0.0.1"), Port: 53}
	}
	return &net.UDPAddr{IP: net.ParseIP("127.0.0.1"), Port: 53}
}
func (w *Writer) RemoteAddr() net.Addr        { return w.Remote }
func (w *Writer) WriteMsg(m *dns.Msg) error   { w.Msgs = append(w.Msgs, m.Copy()); return nil }
func (w *Writer) Write(b []byte) (int, error) { w.Raw++; return len(b), nil }
func (w *Writer) Close() error                { return nil }
func (w *Writer) TsigStatus() error           { return nil }
func (w *Writer) TsigTimersOnly(bool)         {}
func (w *Writer) Hijack()                     {}

// NewWriter makes a recording writer for a client address.
func NewWriter(remoteIP string, tcp bool) *Writer {
	ip := net.ParseIP(remoteIP)
	if tcp {
		return &Writer{Remote: &net.TCPAddr{IP: ip, Port: 40212}, TCP: true}
	}
	return &Writer{Remote: &net.UDPAddr{IP: ip, Port: 40212}}
}

// Result is what one ServeDNS call produced.
type Result struct {
	Msgs     []*dns.Msg // messages written (0 or more)
	Rcode    int        // returned rcode
	Err      error      // returned error
	Panicked interface{}
}

// Serve runs the real ServeDNS for one query message and records the outcome.
// A panic escaping ServeDNS is captured (it is the harness that decides what it means).
func (h *Handler) Serve(req *dns.Msg, remoteIP string, tcp bool, maxAns int) (res Result) {
	w := NewWriter(remoteIP, tcp)
	ctx := context.Background()
	if maxAns > 0 {
		ctx = dnsserver.WithMaxAnswer(ctx, maxAns)
	}
	defer func() {
		if p := recover(); p != nil {
			res.Panicked = p
			res.Msgs = w.Msgs
		}
	}()
	rc, err := h.H.ServeDNS(ctx, w, req)
	return Result{Msgs: w.Msgs, Rcode: rc, Err: err}
}

// Query builds a plain query message.
func Query(name string, qtype uint16) *dns.Msg {
	m := new(dns.Msg)
	m.SetQuestion(dns.Fqdn(name), qtype)
	m.RecursionDesired = false
	m.Id = 4242
	return m
}

// WithECS adds an OPT with a client-subnet option to the query.
func WithECS(m *dns.Msg, family uint16, srcLen uint8, addr net.IP) *dns.Msg {
	o := &dns.OPT{Hdr: dns.RR_Header{Name: ".", Rrtype: dns.TypeOPT}}
	o.SetUDPSize(4096)
	o.Option = append(o.Option, &dns.EDNS0_SUBNET{Code: dns.EDNS0SUBNET, Family: family, SourceNetmask: srcLen, Address: addr})
	m.Extra = append(m.Extra, o)
	return m
}

// Canon renders a response in a canonical, order-independent text form:
// rcode, flags, question, each section as a sorted list of RR strings with
// owner names lower-cased; OPT rendered separately with its options.
func Canon(m *dns.Msg) string {
	if m == nil {
		return "<no response>"
	}
	var sb strings.Builder
	fmt.Fprintf(&sb, "rcode=%s aa=%v tc=%v qr=%v", dns.RcodeToString[m.Rcode], m.Authoritative, m.Truncated, m.Response)
	for _, q := range m.Question {
		fmt.Fprintf(&sb, " q=%s/%d/%d", strings.ToLower(q.Name), q.Qtype, q.Qclass)
	}
	sec := func(name string, rrs []dns.RR) {
		var l []string
		for _, rr := range rrs {
			if o, ok := rr.(*dns.OPT); ok {
				l = append(l, canonOPT(o))
				continue
			}
			l = append(l, CanonRR(rr))
		}
		sort.Strings(l)
		fmt.Fprintf(&sb, "\n %s[%d]: %s", name, len(l), strings.Join(l, " | "))
	}
	sec("AN", m.Answer)
	sec("NS", m.Ns)
	sec("AR", m.Extra)
	return sb.String()
}

// CanonRR renders one RR with a lower-cased owner and single-space fields.
func CanonRR(rr dns.RR) string {
	c := dns.Copy(rr)
	c.Header().Name = strings.ToLower(c.Header().Name)
	return strings.Join(strings.Fields(c.String()), " ")
}

func canonOPT(o *dns.OPT) string {
	var l []string
	for _, e := range o.Option {
		switch x := e.(type) {
		case *dns.EDNS0_SUBNET:
			l = append(l, fmt.Sprintf("ECS(fam=%d src=%d scope=%d addr=%s)", x.Family, x.SourceNetmask, x.SourceScope, x.Address))
		default:
			l = append(l, fmt.Sprintf("opt%d(%s)", e.Option(), e.String()))
		}
	}
	return fmt.Sprintf("OPT(udp=%d ver=%d do=%v ext=%d %s)", o.UDPSize(), o.Version(), o.Do(), o.ExtendedRcode(), strings.Join(l, ","))
}

// CanonResult renders a whole Serve result.
func CanonResult(r Result) string {
	if r.Panicked != nil {
		return fmt.Sprintf("<PANIC %v>", r.Panicked)
	}
	if len(r.Msgs) == 0 {
		return fmt.Sprintf("<no response written; returned rcode=%d err=%v>", r.Rcode, r.Err)
	}
	var parts []string
	for _, m := range r.Msgs {
		parts = append(parts, Canon(m))
	}
	return strings.Join(parts, "\n---\n")
}
