// C01: served answers are exactly what the data file declares.
//
// Small-scope enumeration: every data file = skeleton (apex example.com with
// SOA+NS and the resolver-map plumbing) + every subset of <=k items of the
// combinable record alphabet, or + exactly one value-domain item (a boundary
// value of one rdata / name field; alphabet.go); every file is compiled with the REAL compilers
// for each of the three storage configurations, opened with the REAL handler and
// asked every query of the closed name universe x qtypes x clients. Each response
// is compared with the reference interpreter (model.go), which reads only the
// structured records emitted next to the text. Only minimal failing cases are
// reported.
package main

import (
	"fmt"
	"math/rand"
	"net"
	"os"
	"runtime/debug"
	"runtime/pprof"
	"sort"
	"strings"
	"sync"
	"sync/atomic"

	"github.com/facebookincubator/dns/dnsrocks/db"
	"github.com/miekg/dns"

	"verifharness/dnsfix"
	"verifharness/vlib"
)

const maxAnswer = 8

var stopProf = func() {}

// qtypes are asked of every file; nearQtypes (the numeric neighbours of every
// qtype that handler.go, db/answer*.go or db/utils.go treat specially: A 1, NS 2,
// CNAME 5, SOA 6, MX 15, AAAA 28, DS 43, HTTPS 65, ANY 255; and both ends of the
// range) only of the files that are asked the full name universe.
var qtypes = []uint16{tA, tAAAA, tNS, tSOA, tCNAME, tMX, tTXT, tSRV, tPTR, tSVCB, tHTTPS, tSPF, tPRIV, tANY, tDS}
var nearQtypes = []uint16{0, 3, 4, 14, 27, 29, 42, 44, 66, 254, 256, 65535}
var qtypesAll = append(append([]uint16{}, qtypes...), nearQtypes...)

type client struct {
	ip  string
	nip net.IP
}

// nearClient is the client that asks the nearQtypes: the located one, whose
// lookups read both its location's and the untagged records.
const nearClient = 0

var clients = []client{{"10.1.1.1", net.ParseIP("10.1.1.1")}, {"192.168.1.1", net.ParseIP("192.168.1.1")}, {"8.8.8.8", net.ParseIP("8.8.8.8")}}

// detSource is a deterministic, goroutine-safe random source whose draws never
// hit the edge value 0 of the weighted selection (that edge belongs to C11):
// with maxAnswer >= candidates every address candidate is then returned, so the
// answer as a set does not depend on the draws.
type detSource struct{ n uint64 }

func (s *detSource) next() uint64 {
	z := atomic.AddUint64(&s.n, 1) * 0x9e3779b97f4a7c15
	z = (z ^ (z >> 30)) * 0xbf58476d1ce4e5b9
	z = (z ^ (z >> 27)) * 0x94d049bb133111eb
	return z ^ (z >> 31)
}
func (s *detSource) Int63() int64   { return int64(s.next()>>1 | 1<<62) }
func (s *detSource) Uint64() uint64 { return s.next() | 1<<63 }
func (s *detSource) Seed(int64)     {}

// query builds a plain IN query (fixed id: no entropy is consumed per query).
func query(name string, qtype uint16) *dns.Msg {
	m := new(dns.Msg)
	m.Id = 4242
	m.Question = []dns.Question{{Name: name, Qtype: qtype, Qclass: dns.ClassINET}}
	return m
}

// file is one enumerated data file.
type file struct {
	skel  int
	items []int // indices into alphabet, ascending
	mask  mask
}

// mask is the set of items of a file (bits 126, 127: the skeleton).
type mask [2]uint64

func (m *mask) set(i int)           { m[i>>6] |= 1 << uint(i&63) }
func (m mask) subsetOf(o mask) bool { return m[0]&o[0] == m[0] && m[1]&o[1] == m[1] }

func (f *file) solo() bool {
	for _, i := range f.items {
		if alphabet[i].Solo {
			return true
		}
	}
	return false
}

func (f *file) ids() string {
	l := []string{}
	for _, i := range f.items {
		l = append(l, alphabet[i].ID)
	}
	sort.Strings(l)
	return strings.Join(append([]string{skeletons[f.skel].ID}, l...), "+")
}

func (f *file) text() string {
	var sb strings.Builder
	for _, l := range skeletons[f.skel].Lines {
		sb.WriteString(l + "\n")
	}
	for _, l := range plumbingLines {
		sb.WriteString(l + "\n")
	}
	for _, i := range f.items {
		for _, l := range alphabet[i].Lines {
			sb.WriteString(l + "\n")
		}
	}
	return sb.String()
}

func (f *file) world() *World {
	its := []*Item{&skeletons[f.skel]}
	for _, i := range f.items {
		its = append(its, &alphabet[i])
	}
	return newWorld(its)
}

// subsets of exactly size k of [0,n), lexicographic.
func subsets(n, k int, f func([]int)) {
	cur := make([]int, 0, k)
	var rec func(start int)
	rec = func(start int) {
		if len(cur) == k {
			f(append([]int(nil), cur...))
			return
		}
		for i := start; i < n; i++ {
			cur = append(cur, i)
			rec(i + 1)
			cur = cur[:len(cur)-1]
		}
	}
	rec(0)
}

type caseKey struct {
	b    uint8
	c    uint8
	q    uint32
	kind string
}

type failStore struct {
	mu sync.Mutex
	m  map[caseKey][]mask
}

// minimal records the failing case and reports whether no proper sub-file
// failed the same way (all smaller files have been processed before).
func (s *failStore) minimal(k caseKey, fm mask) bool {
	s.mu.Lock()
	defer s.mu.Unlock()
	for _, m := range s.m[k] {
		if m.subsetOf(fm) && m != fm {
			return false
		}
	}
	s.m[k] = append(s.m[k], fm)
	return true
}

type sample struct {
	File     string `json:"file"`
	Backend  string `json:"backend"`
	Query    string `json:"query"`
	Client   string `json:"client"`
	Expected string `json:"expected"`
	Observed string `json:"observed"`
}

// probes are asked of every file: the byte-order neighbours of the closest-key
// walk and the names at the size limits (extraQueryNames).
var probes = append([]string{"a.example.com.", "a-.example.com.", "a0.example.com.", "aa.example.com.", "ab.a.example.com.", "b.example.com."}, extraQueryNames...)

// caseVariants: an existing owner and a name under a wildcard, in mixed case.
var caseVariants = []string{"WWW.Example.COM.", "NX.W.EXAMPLE.COM."}

// shortName abbreviates the names at the size limits for fingerprints (the replay holds the full name).
func shortName(n string) string {
	if len(n) <= 64 {
		return n
	}
	return fmt.Sprintf("%s~%dlabels~%dbytes~%s", n[:8], strings.Count(n, "."), wireLen(n), n[len(n)-24:])
}

func uniq(a []int) []int {
	out := a[:0]
	for i, x := range a {
		if i == 0 || x != a[i-1] {
			out = append(out, x)
		}
	}
	return out
}

func main() {
	r := vlib.Start("C01")
	debug.SetGCPercent(400)
	dir, clean := vlib.Scratch("c01")
	dnsfix.Quiet(dir)
	db.SetRandForVerif(rand.New(&detSource{}))

	if p := os.Getenv("C01_PROF"); p != "" { // development only
		pf, _ := os.Create(p)
		pprof.StartCPUProfile(pf)
		defer pprof.StopCPUProfile()
		stopProf = pprof.StopCPUProfile
	}
	maxItems := r.Pick(2, 3)                      // optional items per file
	maxItemsSkelB := 1                            // with the composite-form skeleton
	if s := os.Getenv("C01_MAX_ITEMS"); s != "" { // development knob; recorded in the evidence when used
		fmt.Sscan(s, &maxItems)
		if maxItemsSkelB > maxItems {
			maxItemsSkelB = maxItems
		}
		r.Note("C01_MAX_ITEMS=%s", s)
		r.Exhaustive = false
	}
	// A RocksDB compile+open costs 1000x a CDB one. CDB gets every file. The v2 key
	// layout (own search code, db/answer_sorted.go) gets every file one item
	// smaller and, at full size, the files made of non-auxiliary items only; the
	// v1 layout (shares the search code of db/answer.go with CDB, only the driver
	// differs) gets every file one item smaller. Every sub-file of a file run on a
	// backend is run on that backend too, so minimality stays exact.
	anySize := map[dnsfix.Backend]int{dnsfix.CDB: maxItems, dnsfix.RDBv1: maxItems - 1, dnsfix.RDBv2: maxItems - 1}
	coreSize := map[dnsfix.Backend]int{dnsfix.CDB: maxItems, dnsfix.RDBv1: maxItems - 1, dnsfix.RDBv2: maxItems}
	runsOn := func(f *file, b dnsfix.Backend) bool {
		if len(f.items) <= anySize[b] {
			return true
		}
		if len(f.items) > coreSize[b] {
			return false
		}
		for _, i := range f.items {
			if alphabet[i].Aux {
				return false
			}
		}
		return true
	}

	var details *os.File
	if p := os.Getenv("C01_DETAILS"); p != "" { // development knob: dump every violation's detail
		details, _ = os.Create(p)
	}
	var detailsMu sync.Mutex

	all := []*Item{}
	for i := range skeletons {
		all = append(all, &skeletons[i])
	}
	for i := range alphabet {
		all = append(all, &alphabet[i])
	}
	if len(alphabet) > 120 {
		vlib.Infra("alphabet too large for the 128-bit file mask")
	}
	for _, n := range extraQueryNames {
		if !validName(n) || wireLen(n) > 255 {
			vlib.Infra("extra query name %q is not a valid name", n)
		}
	}
	// The closed name universe of the whole alphabet; files of more than
	// fullUniverseItems items are asked the names closed over their own records
	// plus fixed probes (byte-order neighbours, case variants), which are a subset of it.
	names := universe(all)
	nameIdx := map[string]int{}
	for i, n := range names {
		nameIdx[n] = i
	}
	for _, n := range append(append([]string{}, caseVariants...), extraQueryNames...) {
		if _, ok := nameIdx[n]; !ok {
			nameIdx[n] = len(names)
			names = append(names, n)
		}
	}
	allNames := make([]int, len(names))
	for i := range names {
		allNames[i] = i
	}
	// baseNames: the universe closed over the skeletons and the combinable (non-solo) items.
	var nonSolo []*Item
	for _, it := range all {
		if !it.Solo {
			nonSolo = append(nonSolo, it)
		}
	}
	var baseNames []int
	for _, n := range append(append(universe(nonSolo), caseVariants...), extraQueryNames...) {
		baseNames = append(baseNames, nameIdx[n])
	}
	sort.Ints(baseNames)
	baseNames = uniq(baseNames)
	fullUniverseItems := r.Pick(1, 2)
	if s := os.Getenv("C01_ONLY_ITEMS"); s != "" { // development knob: restrict the alphabet to the listed item ids
		keep := map[string]bool{}
		for _, id := range strings.Split(s, ",") {
			keep[id] = true
		}
		var sub []Item
		for _, it := range alphabet {
			if keep[it.ID] {
				sub = append(sub, it)
			}
		}
		fullAlphabet := alphabet
		alphabet = sub
		defer func() { alphabet = fullAlphabet }()
		r.Note("C01_ONLY_ITEMS=%s", s)
		r.Exhaustive = false
	}

	// files by size class
	classes := make([][]*file, maxItems+1)
	for skel := range skeletons {
		lim := maxItems
		if skel == 1 {
			lim = maxItemsSkelB
		}
		for k := 0; k <= lim; k++ {
			subsets(len(alphabet), k, func(s []int) {
				f := &file{skel: skel, items: s}
				f.mask.set(126 + skel)
				for _, i := range s {
					f.mask.set(i)
				}
				if f.solo() && (len(s) > 1 || skel != 0) { // value-domain items do not combine and do not depend on the form of the apex lines
					return
				}
				classes[k] = append(classes[k], f)
			})
		}
	}

	fails := &failStore{m: map[caseKey][]mask{}}
	var nFiles, nDBs, nQueries, nModel, nNontrivial, nFailing, nMinimal int64
	var classCount [5]int64
	var wildCount, locatedCount, nSkipped, nSoloFiles int64

	for k := 0; k <= maxItems; k++ {
		fl := classes[k]
		samples := make([]*sample, len(fl))
		vlib.ParallelFor(len(fl), func(fi int) {
			f := fl[fi]
			w := f.world()
			text := f.text()
			ids := f.ids()
			asked := baseNames
			qts := qtypesAll
			if len(f.items) == 0 {
				asked = allNames // the sub-file of every file, value-domain files included
			}
			if len(f.items) > fullUniverseItems || f.solo() {
				qts = qtypes
				its := []*Item{&skeletons[f.skel]}
				for _, i := range f.items {
					its = append(its, &alphabet[i])
				}
				asked = nil
				for _, n := range append(append(universe(its), probes...), caseVariants...) {
					i, ok := nameIdx[n]
					if !ok {
						vlib.Infra("name %q of a file is not in the universe", n)
					}
					asked = append(asked, i)
				}
				sort.Ints(asked)
				asked = uniq(asked)
			}
			exp := make([]*Expect, len(asked)*len(qts)*len(clients))
			var cc [5]int64
			var wc, lc, nontriv, sk int64
			for ai, ni := range asked {
				name := names[ni]
				for ti, qt := range qts {
					for ci := range clients {
						if ti >= len(qtypes) && ci != nearClient {
							continue
						}
						e := w.Resolve(name, qt, clients[ci].nip)
						exp[(ai*len(qts)+ti)*len(clients)+ci] = e
						if e.Skip {
							sk++
							continue
						}
						cc[e.Class]++
						if e.Class != exRefused && e.Class != exNXDomain {
							nontriv++
						}
						if e.Wildcard != "" {
							wc++
						}
						if e.Loc != "" {
							lc++
						}
					}
				}
			}
			atomic.AddInt64(&nFiles, 1)
			if f.solo() {
				atomic.AddInt64(&nSoloFiles, 1)
			}
			nAsked := int64(len(asked) * (len(qtypes)*len(clients) + len(qts) - len(qtypes)))
			atomic.AddInt64(&nModel, nAsked)
			atomic.AddInt64(&nSkipped, sk)
			atomic.AddInt64(&nNontrivial, nontriv)
			atomic.AddInt64(&wildCount, wc)
			atomic.AddInt64(&locatedCount, lc)
			for i := range cc {
				atomic.AddInt64(&classCount[i], cc[i])
			}
			buf := make([]byte, 4096)
			pick := (fi*7919 + k*131) % len(exp) // the sampled (query, client) of this file
			for exp[pick] == nil {
				pick = (pick + 1) % len(exp)
			}
			for _, b := range dnsfix.Backends {
				if !runsOn(f, b) {
					continue
				}
				path, err := dnsfix.Compile(dir, b, []byte(text))
				if err != nil {
					if fails.minimal(caseKey{b: uint8(b), kind: "compile"}, f.mask) {
						r.Violate(fmt.Sprintf("compile/%s/%s", b, ids), fmt.Sprintf("well-formed data file does not compile: %v\n%s", err, text), map[string]interface{}{"data": text, "backend": b.String()})
					}
					continue
				}
				h, err := dnsfix.OpenHandler(b, path, dnsfix.HandlerOpts{})
				if err != nil {
					os.RemoveAll(path)
					if fails.minimal(caseKey{b: uint8(b), kind: "open"}, f.mask) {
						r.Violate(fmt.Sprintf("open/%s/%s", b, ids), fmt.Sprintf("compiled database cannot be opened: %v\n%s", err, text), map[string]interface{}{"data": text, "backend": b.String()})
					}
					continue
				}
				atomic.AddInt64(&nDBs, 1)
				var served, failing, minimal int64
				for ai, ni := range asked {
					name := names[ni]
					for ti, qt := range qts {
						for ci := range clients {
							idx := (ai*len(qts)+ti)*len(clients) + ci
							e := exp[idx]
							if e == nil {
								continue
							}
							res := h.Serve(query(name, qt), clients[ci].ip, false, maxAnswer)
							served++
							v := compare(w, name, e, res, buf)
							if idx == pick && b == dnsfix.Backends[fi%len(dnsfix.Backends)] {
								samples[fi] = &sample{File: ids, Backend: b.String(), Query: name + " " + tname(qt), Client: clients[ci].ip, Expected: describe(e, name), Observed: dnsfix.CanonResult(res)}
							}
							if v.kind == "" {
								continue
							}
							failing++
							kind := strings.ReplaceAll(v.kind, "/", "-")
							if !fails.minimal(caseKey{b: uint8(b), c: uint8(ci), q: uint32(ni*len(qtypesAll) + ti), kind: kind}, f.mask) {
								continue
							}
							minimal++
							fp := fmt.Sprintf("answer/%s/%s/%s/%s/%s/%s", b, kind, ids, shortName(name), tname(qt), clients[ci].ip)
							detail := fmt.Sprintf("%s\nquery %s %s from %s on %s\nexpected: %s\nobserved: %s\ndata file:\n%s", v.detail, name, tname(qt), clients[ci].ip, b, describe(e, name), dnsfix.CanonResult(res), text)
							if details != nil {
								detailsMu.Lock()
								fmt.Fprintf(details, "== %s\n%s\n", fp, detail)
								detailsMu.Unlock()
							}
							r.Violate(fp, detail, map[string]interface{}{"data": text, "items": ids, "backend": b.String(), "qname": name, "qtype": tname(qt), "client": clients[ci].ip,
								"max_answer": maxAnswer, "kind": v.kind, "expected": describe(e, name), "observed": dnsfix.CanonResult(res)})
						}
					}
				}
				h.Close()
				os.RemoveAll(path)
				atomic.AddInt64(&nQueries, served)
				atomic.AddInt64(&nFailing, failing)
				atomic.AddInt64(&nMinimal, minimal)
			}
		})
		for _, s := range samples {
			if s != nil {
				r.Sample(s)
			}
		}
	}

	r.Set("states", nDBs)
	r.Set("transitions", nQueries)
	r.Set("evaluations", nQueries)
	r.Set("traces_validated_against_impl", nQueries)
	r.Set("distinct_nontrivial", nNontrivial)
	r.Set("data_files", nFiles)
	r.Set("model_evaluations", nModel)
	r.Set("alphabet_items", len(alphabet))
	r.Set("max_items_per_file", maxItems)
	r.Set("max_items_per_file_composite_skeleton", maxItemsSkelB)
	r.Set("rdb_v1_max_items_per_file", anySize[dnsfix.RDBv1])
	r.Set("rdb_v2_max_items_per_file", anySize[dnsfix.RDBv2])
	r.Set("rdb_v2_max_items_per_file_of_non_auxiliary_items", coreSize[dnsfix.RDBv2])
	nAux := 0
	for _, it := range alphabet {
		if it.Aux {
			nAux++
		}
	}
	r.Set("auxiliary_items", nAux)
	r.Set("names", len(names))
	r.Set("full_universe_for_files_up_to_items", fullUniverseItems)
	r.Set("qtypes", len(qtypes))
	r.Set("clients", len(clients))
	r.Set("backends", len(dnsfix.Backends))
	r.Set("max_answer", maxAnswer)
	r.Set("expected_refused", classCount[exRefused])
	r.Set("expected_referral", classCount[exReferral])
	r.Set("expected_nxdomain", classCount[exNXDomain])
	r.Set("expected_nodata", classCount[exNoData])
	r.Set("expected_answer", classCount[exAnswer])
	r.Set("expected_from_wildcard", wildCount)
	r.Set("expected_for_located_client", locatedCount)
	r.Set("failing_comparisons", nFailing)
	r.Set("minimal_failing_cases", nMinimal)
	nSolo := 0
	for _, it := range alphabet {
		if it.Solo {
			nSolo++
		}
	}
	r.Set("value_domain_items", nSolo)
	r.Set("value_domain_files", nSoloFiles)
	r.Set("names_asked_of_combinable_files", len(baseNames))
	r.Set("near_qtypes", len(nearQtypes))
	r.Set("not_compared_ds_at_delegation_point", nSkipped)
	r.Set("rule", fmt.Sprintf("data file = skeleton (apex example.com SOA+NS as Z+& lines, or as one '.' line for files of <=%d items; resolver maps Mexample.com/M*.example.com -> m1, %%aa 10/8, %%bb 192.168/16) + every subset of <=%d of the %d combinable alphabet items, or (Z+& skeleton only) + exactly one of the %d value-domain items (each item = text lines + hand-written structured records; combinable items include zone apexes and cuts whose SOA / NS / other records are split between a location and the untagged set; value-domain items put one value below, at and above every size boundary of the record encoders into one field: TXT of 1,126,127,128,253,254,255,256,381 bytes, labels of 63 bytes and names of 254/255 wire bytes as owner, wildcard parent, rdata name and expanded MX host, owners and wildcards 11-15 labels deep, MX preference 0/256/65535, SRV numbers 0 and 65533..65535, TTL 0/1/2^31-1, SOA numbers 0 and 2^32-5..2^32-1, SVCB alpn ids of 1/254/255 bytes, port 0/65535, priority 0/65535, generic rdata of 1 and 300 bytes); each file compiled by the real compilers for cdb (all files), rdb-v1 (files of <=%d items) and rdb-v2 (files of <=%d items, plus the files of %d items none of which is one of the %d auxiliary items, i.e. items whose key shape (owner, wildcard flag, location) repeats another item's and that play no part in additional-section processing), opened by the real handler and asked names x qtypes x clients with maxAnswer=%d: the two skeleton-only files are asked the closed universe of the whole alphabet (%d names: owners, targets, ancestors, a fresh sibling nx under every node, under-wildcard names, two case variants, and %d names at the size limits: 15 labels below a wildcard, 123 and 121 one-byte labels = 255 wire bytes below the apex and below a delegation, a 63-byte label below a wildcard); files of <=%d combinable items the universe closed over the combinable items (%d names); larger files and value-domain files the sub-universe closed over their own records plus 6 byte-order-neighbour probes, the size-limit names and the case variants, so every sub-file of a reported case was asked the same query. Qtypes: %d (all declared types, ANY, DS) x %d clients (located aa, located bb, unlocated) everywhere, plus %d neighbour qtypes (0,3,4,14,27,29,42,44,66,254,256,65535: adjacent to every qtype the server treats specially) from the aa client for the files asked a full universe. Each response compared with the reference interpreter. states = databases compiled and opened; transitions = evaluations = queries served and compared; distinct_nontrivial = (file, query, client) triples whose prescribed outcome is a referral, a NODATA or a positive answer (i.e. neither REFUSED nor NXDOMAIN); a failing case is reported only if no sub-file fails the same (backend, query, client, kind)", maxItemsSkelB, maxItems, len(alphabet)-nSolo, nSolo, anySize[dnsfix.RDBv1], anySize[dnsfix.RDBv2], coreSize[dnsfix.RDBv2], nAux, maxAnswer, len(names), len(extraQueryNames), fullUniverseItems, len(baseNames), len(qtypes), len(clients), len(nearQtypes)))
	r.Assume = []string{
		"the weighted-selection random source is replaced by a deterministic one that never draws the edge value 0 (C11 covers the draws); all address records have weight 1 and maxAnswer >= candidates, so the answer set is independent of the draws",
		"not compared (statement silent): additional section of positive answers beyond soundness, RR class, order within a section, qtype DS exactly at a delegation point (answered from the parent side by design; DS below a delegation and DS anywhere else are compared like every other qtype), ANY beyond answer being a sub-multiset of the visible records of the name, how a TXT text is cut into character-strings (only: the concatenation is the declared text and no character-string is empty)",
		"names outside the universe, more interacting items than the bound, value-domain items combined with other items, query class other than IN, EDNS/ECS queries are not covered",
	}
	clean()
	stopProf()
	r.Finish()
}
