// C01: served answers are exactly what the data file declares.
//
// Small-scope enumeration: every data file = skeleton (apex example.com with
// SOA+NS and the resolver-map plumbing) + every subset of <=k items of the
// record alphabet (alphabet.go); every file is compiled with the REAL compilers
// for each of the three storage configurations, opened with the REAL handler and
// asked every query of the closed name universe x qtypes x clients. Each response
// is compared with the reference interpreter (model.go), which reads only the
// structured records emitted next to the text. Only minimal failing cases are
// reported.
package main

import (
	"fmt"
	"math/rand"
	"net"
	"os"
	"runtime/debug"
	"runtime/pprof"
	"sort"
	"strings"
	"sync"
	"sync/atomic"

	"github.com/facebookincubator/dns/dnsrocks/db"
	"github.com/miekg/dns"

	"verifharness/dnsfix"
	"verifharness/vlib"
)

const maxAnswer = 8

var stopProf = func() {}

var qtypes = []uint16{tA, tAAAA, tNS, tSOA, tCNAME, tMX, tTXT, tSRV, tPTR, tSVCB, tHTTPS, tSPF, tPRIV, tANY}

type client struct {
	ip  string
	nip net.IP
}

var clients = []client{{"10.1.1.1", net.ParseIP("10.1.1.1")}, {"192.168.1.1", net.ParseIP("192.168.1.1")}, {"8.8.8.8", net.ParseIP("8.8.8.8")}}

// detSource is a deterministic, goroutine-safe random source whose draws never
// hit the edge value 0 of the weighted selection (that edge belongs to C11):
// with maxAnswer >= candidates every address candidate is then returned, so the
// answer as a set does not depend on the draws.
type detSource struct{ n uint64 }

func (s *detSource) next() uint64 {
	z := atomic.AddUint64(&s.n, 1) * 0x9e3779b97f4a7c15
	z = (z ^ (z >> 30)) * 0xbf58476d1ce4e5b9
	z = (z ^ (z >> 27)) * 0x94d049bb133111eb
	return z ^ (z >> 31)
}
func (s *detSource) Int63() int64   { return int64(s.next()>>1 | 1<<62) }
func (s *detSource) Uint64() uint64 { return s.next() | 1<<63 }
func (s *detSource) Seed(int64)     {}

// query builds a plain IN query (fixed id: no entropy is consumed per query).
func query(name string, qtype uint16) *dns.Msg {
	m := new(dns.Msg)
	m.Id = 4242
	m.Question = []dns.Question{{Name: name, Qtype: qtype, Qclass: dns.ClassINET}}
	return m
}

// file is one enumerated data file.
type file struct {
	skel  int
	items []int // indices into alphabet, ascending
	mask  uint64
}

func (f *file) ids() string {
	l := []string{}
	for _, i := range f.items {
		l = append(l, alphabet[i].ID)
	}
	sort.Strings(l)
	return strings.Join(append([]string{skeletons[f.skel].ID}, l...), "+")
}

func (f *file) text() string {
	var sb strings.Builder
	for _, l := range skeletons[f.skel].Lines {
		sb.WriteString(l + "\n")
	}
	for _, l := range plumbingLines {
		sb.WriteString(l + "\n")
	}
	for _, i := range f.items {
		for _, l := range alphabet[i].Lines {
			sb.WriteString(l + "\n")
		}
	}
	return sb.String()
}

func (f *file) world() *World {
	its := []*Item{&skeletons[f.skel]}
	for _, i := range f.items {
		its = append(its, &alphabet[i])
	}
	return newWorld(its)
}

// subsets of exactly size k of [0,n), lexicographic.
func subsets(n, k int, f func([]int)) {
	cur := make([]int, 0, k)
	var rec func(start int)
	rec = func(start int) {
		if len(cur) == k {
			f(append([]int(nil), cur...))
			return
		}
		for i := start; i < n; i++ {
			cur = append(cur, i)
			rec(i + 1)
			cur = cur[:len(cur)-1]
		}
	}
	rec(0)
}

type caseKey struct {
	b    uint8
	c    uint8
	q    uint32
	kind string
}

type failStore struct {
	mu sync.Mutex
	m  map[caseKey][]uint64
}

// minimal records the failing case and reports whether no proper sub-file
// failed the same way (all smaller files have been processed before).
func (s *failStore) minimal(k caseKey, mask uint64) bool {
	s.mu.Lock()
	defer s.mu.Unlock()
	for _, m := range s.m[k] {
		if m&mask == m && m != mask {
			return false
		}
	}
	s.m[k] = append(s.m[k], mask)
	return true
}

type sample struct {
	File     string `json:"file"`
	Backend  string `json:"backend"`
	Query    string `json:"query"`
	Client   string `json:"client"`
	Expected string `json:"expected"`
	Observed string `json:"observed"`
}

// probes are asked of every file: the byte-order neighbours of the closest-key walk.
var probes = []string{"a.example.com.", "a-.example.com.", "a0.example.com.", "aa.example.com.", "ab.a.example.com.", "b.example.com."}

// caseVariants: an existing owner and a name under a wildcard, in mixed case.
var caseVariants = []string{"WWW.Example.COM.", "NX.W.EXAMPLE.COM."}

func uniq(a []int) []int {
	out := a[:0]
	for i, x := range a {
		if i == 0 || x != a[i-1] {
			out = append(out, x)
		}
	}
	return out
}

func main() {
	r := vlib.Start("C01")
	debug.SetGCPercent(400)
	dir, clean := vlib.Scratch("c01")
	dnsfix.Quiet(dir)
	db.SetRandForVerif(rand.New(&detSource{}))

	if p := os.Getenv("C01_PROF"); p != "" { // development only
		pf, _ := os.Create(p)
		pprof.StartCPUProfile(pf)
		defer pprof.StopCPUProfile()
		stopProf = pprof.StopCPUProfile
	}
	maxItems := r.Pick(2, 3)                      // optional items per file
	maxItemsSkelB := 1                            // with the composite-form skeleton
	if s := os.Getenv("C01_MAX_ITEMS"); s != "" { // development knob; recorded in the evidence when used
		fmt.Sscan(s, &maxItems)
		if maxItemsSkelB > maxItems {
			maxItemsSkelB = maxItems
		}
		r.Note("C01_MAX_ITEMS=%s", s)
		r.Exhaustive = false
	}
	// A RocksDB compile+open costs 1000x a CDB one. CDB gets every file. The v2 key
	// layout (own search code, db/answer_sorted.go) gets every file one item
	// smaller and, at full size, the files made of non-auxiliary items only; the
	// v1 layout (shares the search code of db/answer.go with CDB, only the driver
	// differs) gets every file one item smaller. Every sub-file of a file run on a
	// backend is run on that backend too, so minimality stays exact.
	anySize := map[dnsfix.Backend]int{dnsfix.CDB: maxItems, dnsfix.RDBv1: maxItems - 1, dnsfix.RDBv2: maxItems - 1}
	coreSize := map[dnsfix.Backend]int{dnsfix.CDB: maxItems, dnsfix.RDBv1: maxItems - 1, dnsfix.RDBv2: maxItems}
	runsOn := func(f *file, b dnsfix.Backend) bool {
		if len(f.items) <= anySize[b] {
			return true
		}
		if len(f.items) > coreSize[b] {
			return false
		}
		for _, i := range f.items {
			if alphabet[i].Aux {
				return false
			}
		}
		return true
	}

	var details *os.File
	if p := os.Getenv("C01_DETAILS"); p != "" { // development knob: dump every violation's detail
		details, _ = os.Create(p)
	}
	var detailsMu sync.Mutex

	all := []*Item{}
	for i := range skeletons {
		all = append(all, &skeletons[i])
	}
	for i := range alphabet {
		all = append(all, &alphabet[i])
	}
	if len(alphabet) > 60 {
		vlib.Infra("alphabet too large for the 64-bit file mask")
	}
	// The closed name universe of the whole alphabet; files of more than
	// fullUniverseItems items are asked the names closed over their own records
	// plus fixed probes (byte-order neighbours, case variants), which are a subset of it.
	names := append(universe(all), caseVariants...)
	nameIdx := map[string]int{}
	for i, n := range names {
		nameIdx[n] = i
	}
	allNames := make([]int, len(names))
	for i := range names {
		allNames[i] = i
	}
	fullUniverseItems := r.Pick(1, 2)
	if s := os.Getenv("C01_ONLY_ITEMS"); s != "" { // development knob: restrict the alphabet to the listed item ids
		keep := map[string]bool{}
		for _, id := range strings.Split(s, ",") {
			keep[id] = true
		}
		var sub []Item
		for _, it := range alphabet {
			if keep[it.ID] {
				sub = append(sub, it)
			}
		}
		fullAlphabet := alphabet
		alphabet = sub
		defer func() { alphabet = fullAlphabet }()
		r.Note("C01_ONLY_ITEMS=%s", s)
		r.Exhaustive = false
	}

	// files by size class
	classes := make([][]*file, maxItems+1)
	for skel := range skeletons {
		lim := maxItems
		if skel == 1 {
			lim = maxItemsSkelB
		}
		for k := 0; k <= lim; k++ {
			subsets(len(alphabet), k, func(s []int) {
				f := &file{skel: skel, items: s, mask: 1 << uint(62+skel)}
				for _, i := range s {
					f.mask |= 1 << uint(i)
				}
				classes[k] = append(classes[k], f)
			})
		}
	}

	fails := &failStore{m: map[caseKey][]uint64{}}
	var nFiles, nDBs, nQueries, nModel, nNontrivial, nFailing, nMinimal int64
	var classCount [5]int64
	var wildCount, locatedCount int64

	for k := 0; k <= maxItems; k++ {
		fl := classes[k]
		samples := make([]*sample, len(fl))
		vlib.ParallelFor(len(fl), func(fi int) {
			f := fl[fi]
			w := f.world()
			text := f.text()
			ids := f.ids()
			asked := allNames
			if len(f.items) > fullUniverseItems {
				its := []*Item{&skeletons[f.skel]}
				for _, i := range f.items {
					its = append(its, &alphabet[i])
				}
				asked = nil
				for _, n := range append(append(universe(its), probes...), caseVariants...) {
					i, ok := nameIdx[n]
					if !ok {
						vlib.Infra("name %q of a file is not in the universe", n)
					}
					asked = append(asked, i)
				}
				sort.Ints(asked)
				asked = uniq(asked)
			}
			exp := make([]*Expect, len(asked)*len(qtypes)*len(clients))
			var cc [5]int64
			var wc, lc, nontriv int64
			for ai, ni := range asked {
				name := names[ni]
				for ti, qt := range qtypes {
					for ci := range clients {
						e := w.Resolve(name, qt, clients[ci].nip)
						exp[(ai*len(qtypes)+ti)*len(clients)+ci] = e
						cc[e.Class]++
						if e.Class != exRefused && e.Class != exNXDomain {
							nontriv++
						}
						if e.Wildcard != "" {
							wc++
						}
						if e.Loc != "" {
							lc++
						}
					}
				}
			}
			atomic.AddInt64(&nFiles, 1)
			atomic.AddInt64(&nModel, int64(len(asked)*len(qtypes)*len(clients)))
			atomic.AddInt64(&nNontrivial, nontriv)
			atomic.AddInt64(&wildCount, wc)
			atomic.AddInt64(&locatedCount, lc)
			for i := range cc {
				atomic.AddInt64(&classCount[i], cc[i])
			}
			buf := make([]byte, 4096)
			pick := (fi*7919 + k*131) % len(exp) // the sampled (query, client) of this file
			for _, b := range dnsfix.Backends {
				if !runsOn(f, b) {
					continue
				}
				path, err := dnsfix.Compile(dir, b, []byte(text))
				if err != nil {
					if fails.minimal(caseKey{b: uint8(b), kind: "compile"}, f.mask) {
						r.Violate(fmt.Sprintf("compile/%s/%s", b, ids), fmt.Sprintf("well-formed data file does not compile: %v\n%s", err, text), map[string]interface{}{"data": text, "backend": b.String()})
					}
					continue
				}
				h, err := dnsfix.OpenHandler(b, path, dnsfix.HandlerOpts{})
				if err != nil {
					os.RemoveAll(path)
					if fails.minimal(caseKey{b: uint8(b), kind: "open"}, f.mask) {
						r.Violate(fmt.Sprintf("open/%s/%s", b, ids), fmt.Sprintf("compiled database cannot be opened: %v\n%s", err, text), map[string]interface{}{"data": text, "backend": b.String()})
					}
					continue
				}
				atomic.AddInt64(&nDBs, 1)
				var served, failing, minimal int64
				for ai, ni := range asked {
					name := names[ni]
					for ti, qt := range qtypes {
						for ci := range clients {
							idx := (ai*len(qtypes)+ti)*len(clients) + ci
							e := exp[idx]
							res := h.Serve(query(name, qt), clients[ci].ip, false, maxAnswer)
							served++
							v := compare(w, name, e, res, buf)
							if idx == pick && b == dnsfix.Backends[fi%len(dnsfix.Backends)] {
								samples[fi] = &sample{File: ids, Backend: b.String(), Query: name + " " + tname(qt), Client: clients[ci].ip, Expected: describe(e, name), Observed: dnsfix.CanonResult(res)}
							}
							if v.kind == "" {
								continue
							}
							failing++
							kind := strings.ReplaceAll(v.kind, "/", "-")
							if !fails.minimal(caseKey{b: uint8(b), c: uint8(ci), q: uint32(ni*len(qtypes) + ti), kind: kind}, f.mask) {
								continue
							}
							minimal++
							fp := fmt.Sprintf("answer/%s/%s/%s/%s/%s/%s", b, kind, ids, name, tname(qt), clients[ci].ip)
							detail := fmt.Sprintf("%s\nquery %s %s from %s on %s\nexpected: %s\nobserved: %s\ndata file:\n%s", v.detail, name, tname(qt), clients[ci].ip, b, describe(e, name), dnsfix.CanonResult(res), text)
							if details != nil {
								detailsMu.Lock()
								fmt.Fprintf(details, "== %s\n%s\n", fp, detail)
								detailsMu.Unlock()
							}
							r.Violate(fp, detail, map[string]interface{}{"data": text, "items": ids, "backend": b.String(), "qname": name, "qtype": tname(qt), "client": clients[ci].ip,
								"max_answer": maxAnswer, "kind": v.kind, "expected": describe(e, name), "observed": dnsfix.CanonResult(res)})
						}
					}
				}
				h.Close()
				os.RemoveAll(path)
				atomic.AddInt64(&nQueries, served)
				atomic.AddInt64(&nFailing, failing)
				atomic.AddInt64(&nMinimal, minimal)
			}
		})
		for _, s := range samples {
			if s != nil {
				r.Sample(s)
			}
		}
	}

	r.Set("states", nDBs)
	r.Set("transitions", nQueries)
	r.Set("evaluations", nQueries)
	r.Set("traces_validated_against_impl", nQueries)
	r.Set("distinct_nontrivial", nNontrivial)
	r.Set("data_files", nFiles)
	r.Set("model_evaluations", nModel)
	r.Set("alphabet_items", len(alphabet))
	r.Set("max_items_per_file", maxItems)
	r.Set("max_items_per_file_composite_skeleton", maxItemsSkelB)
	r.Set("rdb_v1_max_items_per_file", anySize[dnsfix.RDBv1])
	r.Set("rdb_v2_max_items_per_file", anySize[dnsfix.RDBv2])
	r.Set("rdb_v2_max_items_per_file_of_non_auxiliary_items", coreSize[dnsfix.RDBv2])
	nAux := 0
	for _, it := range alphabet {
		if it.Aux {
			nAux++
		}
	}
	r.Set("auxiliary_items", nAux)
	r.Set("names", len(names))
	r.Set("full_universe_for_files_up_to_items", fullUniverseItems)
	r.Set("qtypes", len(qtypes))
	r.Set("clients", len(clients))
	r.Set("backends", len(dnsfix.Backends))
	r.Set("max_answer", maxAnswer)
	r.Set("expected_refused", classCount[exRefused])
	r.Set("expected_referral", classCount[exReferral])
	r.Set("expected_nxdomain", classCount[exNXDomain])
	r.Set("expected_nodata", classCount[exNoData])
	r.Set("expected_answer", classCount[exAnswer])
	r.Set("expected_from_wildcard", wildCount)
	r.Set("expected_for_located_client", locatedCount)
	r.Set("failing_comparisons", nFailing)
	r.Set("minimal_failing_cases", nMinimal)
	r.Set("rule", fmt.Sprintf("data file = skeleton (apex example.com SOA+NS as Z+& lines, or as one '.' line for files of <=%d items; resolver maps Mexample.com/M*.example.com -> m1, %%aa 10/8, %%bb 192.168/16) + every subset of <=%d of %d alphabet items (each item = text lines + hand-written structured records); each file compiled by the real compilers for cdb (all files), rdb-v1 (files of <=%d items) and rdb-v2 (files of <=%d items, plus the files of %d items none of which is one of the %d auxiliary items, i.e. items whose key shape (owner, wildcard flag, location) repeats another item's and that play no part in additional-section processing), opened by the real handler and asked every name of the closed universe (%d names: owners, targets, ancestors, a fresh sibling nx under every node, under-wildcard names, two case variants; files of more than %d items are asked the sub-universe closed over their own records plus 6 byte-order-neighbour probes and the case variants, so every sub-file of a reported case was asked the same query) x %d qtypes x %d clients with maxAnswer=%d; each response compared with the reference interpreter. states = databases compiled and opened; transitions = evaluations = queries served and compared; distinct_nontrivial = (file, query, client) triples whose prescribed outcome is a referral, a NODATA or a positive answer (i.e. neither REFUSED nor NXDOMAIN); a failing case is reported only if no sub-file fails the same (backend, query, client, kind)", maxItemsSkelB, maxItems, len(alphabet), anySize[dnsfix.RDBv1], anySize[dnsfix.RDBv2], coreSize[dnsfix.RDBv2], nAux, len(names), fullUniverseItems, len(qtypes), len(clients), maxAnswer))
	r.Assume = []string{
		"the weighted-selection random source is replaced by a deterministic one that never draws the edge value 0 (C11 covers the draws); all address records have weight 1 and maxAnswer >= candidates, so the answer set is independent of the draws",
		"not compared (statement silent): additional section of positive answers beyond soundness, RR class, order within a section, DS at a delegation, ANY beyond answer being a sub-multiset of the visible records of the name, TXT chunk boundaries",
		"names outside the universe, more interacting items than the bound, query class other than IN, EDNS/ECS queries are not covered",
	}
	clean()
	stopProf()
	r.Finish()
}
