package main

// Comparison of one real response with the model's expectation. Only what the
// property statement defines is compared; the first disagreement in a fixed
// priority order names the kind (so one defect maps to one kind).

import (
	"encoding/hex"
	"fmt"
	"sort"
	"strings"

	"github.com/miekg/dns"

	"verifharness/dnsfix"
)

// obsRR is a resource record of a real response, reduced to what is compared.
type obsRR struct {
	owner string // lower case
	typ   uint16
	ttl   uint32
	rdata string // uncompressed wire rdata; TXT: the concatenated text
}

func (o obsRR) String() string {
	return fmt.Sprintf("%s %d %s %s", o.owner, o.ttl, tname(o.typ), hex.EncodeToString([]byte(o.rdata)))
}

func tname(t uint16) string {
	if s, ok := typeName[t]; ok {
		return s
	}
	return fmt.Sprintf("TYPE%d", t)
}

func observe(rr dns.RR, buf []byte) (obsRR, error) {
	h := rr.Header()
	o := obsRR{owner: strings.ToLower(h.Name), typ: h.Rrtype, ttl: h.Ttl}
	if t, ok := rr.(*dns.TXT); ok {
		o.rdata = strings.Join(t.Txt, "")
		return o, nil
	}
	c := dns.Copy(rr)
	c.Header().Name = "."
	n, err := dns.PackRR(c, buf, 0, nil, false)
	if err != nil {
		return o, err
	}
	if n < 11 {
		return o, fmt.Errorf("short packed RR")
	}
	o.rdata = string(buf[11:n])
	return o, nil
}

func observeAll(rrs []dns.RR, buf []byte) ([]obsRR, error) {
	out := make([]obsRR, 0, len(rrs))
	for _, rr := range rrs {
		o, err := observe(rr, buf)
		if err != nil {
			return nil, fmt.Errorf("cannot re-pack %s: %v", rr.String(), err)
		}
		out = append(out, o)
	}
	return out, nil
}

func recAs(r *Rec, owner string) obsRR {
	return obsRR{owner: owner, typ: r.Type, ttl: r.TTL, rdata: r.RData}
}

// multiset difference helpers over obsRR.
func count(l []obsRR) map[obsRR]int {
	m := make(map[obsRR]int, len(l))
	for _, x := range l {
		m[x]++
	}
	return m
}

// diffKind classifies got vs want (as multisets): "" if equal.
func diffKind(got, want []obsRR) string {
	g, w := count(got), count(want)
	missing, extra, dup := 0, 0, 0
	for k, n := range w {
		switch {
		case g[k] == 0:
			missing++
		case g[k] > n:
			dup++
		case g[k] < n:
			missing++
		}
	}
	for k := range g {
		if w[k] == 0 {
			extra++
		}
	}
	switch {
	case missing == 0 && extra == 0 && dup == 0:
		return ""
	case missing == 0 && extra == 0:
		return "duplicate"
	case missing > 0 && extra == 0:
		return "missing"
	case missing == 0 && extra > 0:
		return "extra"
	}
	// both: is it only the TTL that differs?
	strip := func(l []obsRR) map[obsRR]int {
		m := map[obsRR]int{}
		for _, x := range l {
			x.ttl = 0
			m[x]++
		}
		return m
	}
	gs, ws := strip(got), strip(want)
	same := len(gs) == len(ws)
	for k, n := range ws {
		if gs[k] != n {
			same = false
		}
	}
	if same {
		return "ttl"
	}
	return "rdata"
}

// verdict of one comparison.
type verdict struct {
	kind   string // "" = agrees
	detail string
}

func rcodeName(rc int) string {
	if s, ok := dns.RcodeToString[rc]; ok {
		return s
	}
	return fmt.Sprintf("RCODE%d", rc)
}

// compare checks one real result against the expectation.
func compare(w *World, qname string, e *Expect, res dnsfix.Result, buf []byte) verdict {
	if res.Panicked != nil {
		return verdict{"panic", fmt.Sprintf("ServeDNS panicked: %v", res.Panicked)}
	}
	if len(res.Msgs) == 0 {
		return verdict{"no-response", fmt.Sprintf("no response written (returned rcode=%d err=%v)", res.Rcode, res.Err)}
	}
	if len(res.Msgs) > 1 {
		return verdict{"multiple-responses", fmt.Sprintf("%d responses written", len(res.Msgs))}
	}
	m := res.Msgs[0]
	lq := strings.ToLower(qname)
	if e.Skip {
		return verdict{}
	}
	if m.Rcode != e.Rcode() {
		return verdict{"rcode/want-" + rcodeName(e.Rcode()) + "-got-" + rcodeName(m.Rcode), "response code differs"}
	}
	if m.Authoritative != e.AA() {
		return verdict{fmt.Sprintf("aa/want-%v", e.AA()), "AA flag differs"}
	}
	an, err := observeAll(m.Answer, buf)
	if err != nil {
		return verdict{"unpackable", err.Error()}
	}
	ns, err := observeAll(m.Ns, buf)
	if err != nil {
		return verdict{"unpackable", err.Error()}
	}
	ar, err := observeAll(m.Extra, buf)
	if err != nil {
		return verdict{"unpackable", err.Error()}
	}
	switch e.Class {
	case exRefused:
		if len(an)+len(ns)+len(ar) > 0 {
			return verdict{"refused/sections-not-empty", "a REFUSED reply carries records although nothing is declared for the name"}
		}
		return verdict{}
	case exReferral:
		if len(an) > 0 {
			return verdict{"referral/answer-not-empty", "a referral carries an answer section"}
		}
		want := make([]obsRR, 0, len(e.NS))
		for _, r := range e.NS {
			want = append(want, recAs(r, e.Zone))
		}
		if k := diffKind(ns, want); k != "" {
			return verdict{"referral/ns-" + k, "authority section is not exactly the NS set of the closest delegation"}
		}
		// glue: sound, and at least one per family for every target that has declared visible addresses
		have := map[string]bool{}
		for _, x := range ar {
			if !declaredAddress(w, x, e.Loc) || !isTarget(e.NS, x.owner) {
				return verdict{"referral/glue-unsound", "additional record " + x.String() + " is not a declared visible address of an NS target"}
			}
			have[x.owner+"/"+tname(x.typ)] = true
		}
		for _, r := range e.NS {
			for _, t := range r.Targets {
				for _, a := range w.addresses(t, e.Loc) {
					if !have[t+"/"+tname(a.Type)] {
						return verdict{"referral/glue-missing", "no " + tname(a.Type) + " glue for " + t + " although one is declared and visible"}
					}
				}
			}
		}
		return verdict{}
	}
	// authoritative
	// A declared text is never empty in the alphabet, so its rdata is a sequence of
	// non-empty character-strings; how the text is cut into them is not compared.
	for _, rr := range m.Answer {
		if t, ok := rr.(*dns.TXT); ok {
			for _, cs := range t.Txt {
				if cs == "" {
					return verdict{"answer/txt-empty-string", fmt.Sprintf("TXT rdata holds an empty character-string that the declared text does not have (%d character-strings, %d bytes of text)", len(t.Txt), len(strings.Join(t.Txt, "")))}
				}
			}
		}
	}
	want := make([]obsRR, 0, len(e.Answer))
	for _, r := range e.Answer {
		want = append(want, recAs(r, lq))
	}
	if e.Any {
		wc := count(want)
		for k, n := range count(an) {
			if wc[k] < n {
				return verdict{"any/unsound", "ANY answer holds " + k.String() + " which is not a visible record of the name"}
			}
		}
	} else if k := diffKind(an, want); k != "" {
		return verdict{"answer/" + k, "answer section is not exactly the visible declared records of the name and type (or the CNAME at the name)"}
	}
	// authority: every record must be a visible SOA / NS of the zone; an empty answer needs the SOA
	zoneRecs := map[obsRR]bool{}
	for _, r := range e.SOA {
		zoneRecs[recAs(r, e.Zone)] = true
	}
	soaSeen := false
	soaTTL := false
	for _, x := range ns {
		if x.typ == tSOA && zoneRecs[x] {
			soaSeen = true
		} else if x.typ == tSOA && x.owner == e.Zone {
			y := x
			for _, r := range e.SOA {
				y.ttl = r.TTL
				if zoneRecs[y] {
					soaTTL = true
				}
			}
		}
	}
	if len(an) == 0 && !soaSeen {
		if soaTTL {
			return verdict{"authority/soa-ttl", "the zone's SOA in the authority section has another TTL than declared"}
		}
		return verdict{"authority/soa-missing", "empty authoritative answer without the zone's SOA in the authority section"}
	}
	for _, r := range e.NS {
		zoneRecs[recAs(r, e.Zone)] = true
	}
	for _, x := range ns {
		if !zoneRecs[x] {
			return verdict{"authority/unsound", "authority record " + x.String() + " is not a visible SOA/NS record of zone " + e.Zone}
		}
	}
	// additional: soundness only
	named := map[string]bool{lq: true}
	for _, l := range [][]dns.RR{m.Answer, m.Ns} {
		for _, rr := range l {
			switch x := rr.(type) {
			case *dns.NS:
				named[strings.ToLower(x.Ns)] = true
			case *dns.MX:
				named[strings.ToLower(x.Mx)] = true
			case *dns.SRV:
				named[strings.ToLower(x.Target)] = true
			case *dns.CNAME:
				named[strings.ToLower(x.Target)] = true
			case *dns.SVCB:
				named[strings.ToLower(x.Target)] = true
			case *dns.HTTPS:
				named[strings.ToLower(x.Target)] = true
			}
		}
	}
	for _, x := range ar {
		if !declaredAddress(w, x, e.Loc) || !named[x.owner] {
			return verdict{"additional/unsound", "additional record " + x.String() + " is not a declared visible address of a name in the message"}
		}
	}
	return verdict{}
}

func declaredAddress(w *World, x obsRR, loc string) bool {
	if x.typ != tA && x.typ != tAAAA {
		return false
	}
	for _, a := range w.addresses(x.owner, loc) {
		if recAs(a, x.owner) == x {
			return true
		}
	}
	return false
}

func isTarget(ns []*Rec, name string) bool {
	for _, r := range ns {
		for _, t := range r.Targets {
			if t == name {
				return true
			}
		}
	}
	return false
}

// describe renders the expectation for messages.
func describe(e *Expect, qname string) string {
	var sb strings.Builder
	if e.Skip {
		sb.WriteString("not compared (DS exactly at a delegation point is answered from the parent side); by the general rule: ")
	}
	fmt.Fprintf(&sb, "%s (client location %q", exName[e.Class], e.Loc)
	if e.Zone != "" {
		fmt.Fprintf(&sb, ", zone cut %s", e.Zone)
	}
	if e.Wildcard != "" {
		fmt.Fprintf(&sb, ", records of *.%s", e.Wildcard)
	}
	sb.WriteString(")")
	list := func(label string, rs []*Rec, owner string) {
		if len(rs) == 0 {
			return
		}
		var l []string
		for _, r := range rs {
			l = append(l, fmt.Sprintf("%s %d %s", owner, r.TTL, r.Show))
		}
		sort.Strings(l)
		fmt.Fprintf(&sb, "; %s: %s", label, strings.Join(l, " | "))
	}
	switch e.Class {
	case exReferral:
		list("authority", e.NS, e.Zone)
	case exAnswer:
		if e.Any {
			list("answer within", e.Answer, strings.ToLower(qname))
		} else {
			list("answer", e.Answer, strings.ToLower(qname))
		}
	case exNXDomain, exNoData:
		list("authority has", e.SOA, e.Zone)
	}
	return sb.String()
}
