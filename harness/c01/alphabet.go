package main

// The record alphabet of C01. Every item carries BOTH the data-file text and
// the structured records that the text declares (written by hand from the
// tinydns-data format description, not derived from the text), so that the
// reference interpreter never parses tinydns text and shares no code with
// dnsdata or db.

import (
	"encoding/binary"
	"net"
	"strings"
)

// DNS type numbers (kept local: the model does not depend on miekg).
const (
	tA     = 1
	tNS    = 2
	tCNAME = 5
	tSOA   = 6
	tPTR   = 12
	tMX    = 15
	tTXT   = 16
	tAAAA  = 28
	tSRV   = 33
	tDS    = 43
	tSVCB  = 64
	tHTTPS = 65
	tSPF   = 99
	tPRIV  = 65280
	tANY   = 255
)

var typeName = map[uint16]string{tA: "A", tNS: "NS", tCNAME: "CNAME", tSOA: "SOA", tPTR: "PTR", tMX: "MX", tTXT: "TXT",
	tAAAA: "AAAA", tSRV: "SRV", tSVCB: "SVCB", tHTTPS: "HTTPS", tSPF: "TYPE99", tPRIV: "TYPE65280", tANY: "ANY", tDS: "DS"}

// Default TTLs of the data format.
const (
	ttlSOA   = 2560
	ttlNS    = 259200
	ttlOther = 86400
)

// compileSerial is the serial handed to the compilers (dnsfix.Serial); a '.'
// line declares an SOA with the compiler's serial.
const compileSerial = 1234567

// Rec is one declared resource record.
type Rec struct {
	Owner   string // lower-case, fully qualified with trailing dot; for a wildcard record the name WITHOUT the "*." label
	Wild    bool   // record of "*.Owner"
	Type    uint16
	TTL     uint32
	RData   string // rdata exactly as it must appear in an answer (uncompressed wire form; TXT: the concatenated text)
	Loc     string // "" (visible to everyone) or a two-byte location id
	Show    string // presentation form, for messages only
	Targets []string
}

// MapDecl declares "names covered by Owner (exactly, or everything below when Wild) use resolver map ID".
type MapDecl struct {
	Owner string
	Wild  bool
	ID    string
}

// NetDecl declares "clients inside Net are in location Loc for map ID".
type NetDecl struct {
	Loc string
	Net *net.IPNet
	ID  string
}

// Item is one optional unit of the alphabet.
type Item struct {
	ID    string
	Lines []string
	Recs  []Rec
	Maps  []MapDecl
	Nets  []NetDecl
	Why   string
	Solo  bool // a value-domain item (boundary value of one rdata / name field): appears only in the files skeleton + this item
	Aux   bool // stored under a key shape (owner, wildcard flag, location) that another item already has and not consulted for additional-section processing: left out of the larger RocksDB files
}

func fq(n string) string {
	n = strings.ToLower(n)
	if n == "" || n == "." {
		return "."
	}
	if !strings.HasSuffix(n, ".") {
		n += "."
	}
	return n
}

func wireName(n string) string {
	n = fq(n)
	if n == "." {
		return "\x00"
	}
	var sb strings.Builder
	for _, l := range strings.Split(strings.TrimSuffix(n, "."), ".") {
		sb.WriteByte(byte(len(l)))
		sb.WriteString(l)
	}
	sb.WriteByte(0)
	return sb.String()
}

func u16(v int) string {
	var b [2]byte
	binary.BigEndian.PutUint16(b[:], uint16(v))
	return string(b[:])
}
func u32(v int) string {
	var b [4]byte
	binary.BigEndian.PutUint32(b[:], uint32(v))
	return string(b[:])
}

func owner(name string) (string, bool) {
	if strings.HasPrefix(name, "*.") {
		return fq(name[2:]), true
	}
	return fq(name), false
}

func rA(name, ip string, ttl uint32, loc string) Rec {
	o, w := owner(name)
	p := net.ParseIP(ip)
	if v4 := p.To4(); v4 != nil {
		return Rec{Owner: o, Wild: w, Type: tA, TTL: ttl, RData: string(v4), Loc: loc, Show: "A " + ip}
	}
	return Rec{Owner: o, Wild: w, Type: tAAAA, TTL: ttl, RData: string(p.To16()), Loc: loc, Show: "AAAA " + ip}
}

func rName(typ uint16, name, target string, ttl uint32, loc string) Rec {
	o, w := owner(name)
	return Rec{Owner: o, Wild: w, Type: typ, TTL: ttl, RData: wireName(target), Loc: loc, Show: typeName[typ] + " " + fq(target), Targets: []string{fq(target)}}
}

func rSOA(name, mname, rname string, ser, ref, ret, exp, min int, ttl uint32, loc string) Rec {
	return Rec{Owner: fq(name), Type: tSOA, TTL: ttl, Loc: loc,
		RData: wireName(mname) + wireName(rname) + u32(ser) + u32(ref) + u32(ret) + u32(exp) + u32(min),
		Show:  "SOA " + fq(mname) + " " + fq(rname)}
}

func rMX(name string, pref int, target string, ttl uint32, loc string) Rec {
	return Rec{Owner: fq(name), Type: tMX, TTL: ttl, Loc: loc, RData: u16(pref) + wireName(target), Show: "MX " + fq(target), Targets: []string{fq(target)}}
}

func rSRV(name string, pri, weight, port int, target string, ttl uint32, loc string) Rec {
	return Rec{Owner: fq(name), Type: tSRV, TTL: ttl, Loc: loc, RData: u16(pri) + u16(weight) + u16(port) + wireName(target), Show: "SRV " + fq(target), Targets: []string{fq(target)}}
}

func rTXT(name, text string, ttl uint32, loc string) Rec {
	o, w := owner(name)
	show := text
	if len(show) > 16 {
		show = show[:16] + "..."
	}
	return Rec{Owner: o, Wild: w, Type: tTXT, TTL: ttl, Loc: loc, RData: text, Show: "TXT " + show}
}

func rRaw(name string, typ uint16, raw string, ttl uint32, loc string) Rec {
	return Rec{Owner: fq(name), Type: typ, TTL: ttl, Loc: loc, RData: raw, Show: typeName[typ]}
}

// svcParam builds one SvcParam (RFC 9460 section 2.2: key, length, value).
func svcParam(key int, val string) string { return u16(key) + u16(len(val)) + val }

func rSVC(typ uint16, name string, prio int, target string, params string, ttl uint32, loc string) Rec {
	o, w := owner(name)
	return Rec{Owner: o, Wild: w, Type: typ, TTL: ttl, Loc: loc, RData: u16(prio) + wireName(target) + params, Show: typeName[typ] + " " + fq(target), Targets: []string{fq(target)}}
}

func cidr(s string) *net.IPNet {
	_, n, err := net.ParseCIDR(s)
	if err != nil {
		panic(err)
	}
	return n
}

var longText = strings.Repeat("0123456789abcdefghijklmnopqrstuvwxyzABCD", 5) // 200 bytes: three chunks in the data format

// textOf returns n bytes of text in which every 127-byte block starts with another letter.
func textOf(n int) string {
	var sb strings.Builder
	for i := 0; i < n; i++ {
		if i%127 == 0 {
			sb.WriteByte("ABCDEFGH"[(i/127)%8])
		} else {
			sb.WriteByte("0123456789abcdefghijklmnopqrstuvwxyz"[i%36])
		}
	}
	return sb.String()
}

// octal escapes a byte string for a data line (\ooo for every byte).
func octal(raw string) string {
	var sb strings.Builder
	for i := 0; i < len(raw); i++ {
		b := raw[i]
		sb.WriteByte('\\')
		sb.WriteByte('0' + b>>6)
		sb.WriteByte('0' + (b>>3)&7)
		sb.WriteByte('0' + b&7)
	}
	return sb.String()
}

// Names at the size limits of the DNS (labels of 63 bytes, names of 255 bytes in wire form).
var (
	label63 = strings.Repeat("l", 63)
	name255 = strings.Repeat("x", 63) + "." + strings.Repeat("y", 63) + "." + strings.Repeat("z", 63) + "." + strings.Repeat("w", 49) + ".example.com" // 64+64+64+50+13 = 255 bytes on the wire
	name254 = strings.Repeat("x", 63) + "." + strings.Repeat("y", 63) + "." + strings.Repeat("z", 63) + "." + strings.Repeat("v", 48) + ".example.com"
	deep15  = "a.b.c.d.e.f.g.h.i.j.k.l.deep.example.com" // 15 labels
	alpn255 = strings.Repeat("p", 255)
	alpn254 = strings.Repeat("q", 254)
	rawLong = func() string {
		b := make([]byte, 300)
		for i := range b {
			b[i] = byte(i * 7)
		}
		return string(b)
	}() // every byte value incl. 0x00 and 0xff
	maxU32   = 4294967295
	maxTTL31 = 2147483647
)

// wireLen is the length of a name in wire form.
func wireLen(n string) int { return len(wireName(n)) }

// validName: labels of 1..63 bytes, at most 255 bytes on the wire.
func validName(n string) bool {
	n = fq(n)
	if n == "." {
		return true
	}
	for _, l := range strings.Split(strings.TrimSuffix(n, "."), ".") {
		if len(l) == 0 || len(l) > 63 {
			return false
		}
	}
	return wireLen(n) <= 255
}

// extraQueryNames are asked of every file although nothing is declared at them
// (no closure over their ancestors): many labels, longest names and labels.
var extraQueryNames = []string{
	"l1.l2.l3.l4.l5.l6.l7.l8.l9.l10.l11.l12.w.example.com.", // 15 labels, 12 of them below a possible wildcard
	strings.Repeat("a.", 121) + "example.com.",              // 123 labels, 255 bytes on the wire, below the apex
	strings.Repeat("b.", 118) + "deleg.example.com.",        // 121 labels, 255 bytes, below a possible delegation
	strings.Repeat("m", 63) + ".w.example.com.",             // longest label, below a possible wildcard
}

// Skeletons: apex example.com (SOA+NS) and the location plumbing.
var plumbingLines = []string{
	"Mexample.com,m1",
	"M*.example.com,m1",
	"%aa,10.0.0.0/8,m1",
	"%bb,192.168.0.0/16,m1",
}
var plumbingMaps = []MapDecl{{fq("example.com"), false, "m1"}, {fq("example.com"), true, "m1"}}
var plumbingNets = []NetDecl{{"aa", cidr("10.0.0.0/8"), "m1"}, {"bb", cidr("192.168.0.0/16"), "m1"}}

var skeletons = []Item{
	{ID: "skelA",
		Lines: []string{
			"Zexample.com,a.ns.example.com,hostmaster.example.com,1,7200,1800,604800,120,300,,",
			"&example.com,192.0.2.53,a.ns.example.com,3600,,"},
		Recs: []Rec{
			rSOA("example.com", "a.ns.example.com", "hostmaster.example.com", 1, 7200, 1800, 604800, 120, 300, ""),
			rName(tNS, "example.com", "a.ns.example.com", 3600, ""),
			rA("a.ns.example.com", "192.0.2.53", 3600, "")}},
	{ID: "skelB", // composite form: derived SOA with default fields, name expansion a -> a.ns.example.com
		Lines: []string{".example.com,192.0.2.53,a,3600,,"},
		Recs: []Rec{
			rSOA("example.com", "a.ns.example.com", "hostmaster.example.com", compileSerial, 16384, 2048, 1048576, 2560, ttlSOA, ""),
			rName(tNS, "example.com", "a.ns.example.com", 3600, ""),
			rA("a.ns.example.com", "192.0.2.53", 3600, "")}},
}

// alphabet is ordered simplest first.
var alphabet = []Item{
	{ID: "www-a", Lines: []string{"+www.example.com,192.0.2.1,300,,"}, Recs: []Rec{rA("www.example.com", "192.0.2.1", 300, "")}, Why: "plain A, explicit TTL"},
	{ID: "www-a-aa", Lines: []string{"+www.example.com,192.0.2.2,,,aa"}, Recs: []Rec{rA("www.example.com", "192.0.2.2", ttlOther, "aa")}, Why: "default TTL, located"},
	{ID: "www-a-bb", Lines: []string{"+www.example.com,192.0.2.3,300,,bb"}, Recs: []Rec{rA("www.example.com", "192.0.2.3", 300, "bb")}, Why: "foreign location for an aa client"},
	{ID: "www-aaaa", Aux: true, Lines: []string{"+www.example.com,2001:db8::1,300,,"}, Recs: []Rec{rA("www.example.com", "2001:db8::1", 300, "")}, Why: "AAAA; NODATA for other types"},
	{ID: "apex-a", Aux: true, Lines: []string{"+example.com,192.0.2.80,,,"}, Recs: []Rec{rA("example.com", "192.0.2.80", ttlOther, "")}, Why: "address at the apex, default TTL"},
	{ID: "cname-c", Aux: true, Lines: []string{"Cc.example.com,www.example.com,,,"}, Recs: []Rec{rName(tCNAME, "c.example.com", "www.example.com", ttlOther, "")}, Why: "CNAME answered for every qtype; default TTL"},
	{ID: "wild-w", Lines: []string{"+*.w.example.com,192.0.2.10,300,,"}, Recs: []Rec{rA("*.w.example.com", "192.0.2.10", 300, "")}, Why: "wildcard"},
	{ID: "wild-w-aa", Lines: []string{"+*.w.example.com,192.0.2.11,300,,aa"}, Recs: []Rec{rA("*.w.example.com", "192.0.2.11", 300, "aa")}, Why: "located wildcard"},
	{ID: "wild-w-txt-bb", Lines: []string{"'*.w.example.com,bbonly,,,bb"}, Recs: []Rec{rTXT("*.w.example.com", "bbonly", ttlOther, "bb")}, Why: "wildcard that exists for one location only; other clients fall through to an outer wildcard"},
	{ID: "x-w", Lines: []string{"+x.w.example.com,192.0.2.12,300,,"}, Recs: []Rec{rA("x.w.example.com", "192.0.2.12", 300, "")}, Why: "own record beats the wildcard"},
	{ID: "plus-w", Lines: []string{"+c+d.w.example.com,192.0.2.13,300,,"}, Recs: []Rec{rA("c+d.w.example.com", "192.0.2.13", 300, "")}, Why: "owner with a non-wild-safe label"},
	{ID: "wild-apex-txt", Lines: []string{"'*.example.com,wild,300,,"}, Recs: []Rec{rTXT("*.example.com", "wild", 300, "")}, Why: "wildcard at the zone cut; must not reach into sub. or deleg."},
	{ID: "a-b", Lines: []string{"+a.b.example.com,192.0.2.20,300,,"}, Recs: []Rec{rA("a.b.example.com", "192.0.2.20", 300, "")}, Why: "empty non-terminal b"},
	{ID: "zone-sub", Lines: []string{".sub.example.com,192.0.2.54,a,3600,,"}, Recs: []Rec{
		rSOA("sub.example.com", "a.ns.sub.example.com", "hostmaster.sub.example.com", compileSerial, 16384, 2048, 1048576, 2560, ttlSOA, ""),
		rName(tNS, "sub.example.com", "a.ns.sub.example.com", 3600, ""),
		rA("a.ns.sub.example.com", "192.0.2.54", 3600, "")}, Why: "nested authoritative zone"},
	{ID: "x-sub", Lines: []string{"+x.sub.example.com,192.0.2.30,300,,"}, Recs: []Rec{rA("x.sub.example.com", "192.0.2.30", 300, "")}, Why: "data in the nested zone"},
	{ID: "wild-sub", Lines: []string{"+*.sub.example.com,192.0.2.31,300,,"}, Recs: []Rec{rA("*.sub.example.com", "192.0.2.31", 300, "")}, Why: "wildcard of the nested zone"},
	{ID: "deleg", Lines: []string{"&deleg.example.com,192.0.2.55,ns.deleg.example.com,3600,,"}, Recs: []Rec{
		rName(tNS, "deleg.example.com", "ns.deleg.example.com", 3600, ""),
		rA("ns.deleg.example.com", "192.0.2.55", 3600, "")}, Why: "delegation with in-bailiwick glue"},
	{ID: "deleg-aa", Lines: []string{"&deleg.example.com,,ns2.other.org,,,aa"}, Recs: []Rec{rName(tNS, "deleg.example.com", "ns2.other.org", ttlNS, "aa")}, Why: "located NS, default TTL, out-of-zone target, no glue"},
	{ID: "deleg-glue6", Aux: true, Lines: []string{"+ns.deleg.example.com,2001:db8::55,3600,,"}, Recs: []Rec{rA("ns.deleg.example.com", "2001:db8::55", 3600, "")}, Why: "second glue family"},
	{ID: "below-deleg", Lines: []string{"+below.deleg.example.com,192.0.2.40,300,,"}, Recs: []Rec{rA("below.deleg.example.com", "192.0.2.40", 300, "")}, Why: "occluded data below the cut"},
	{ID: "mx1", Lines: []string{"@example.com,192.0.2.60,mx1,10,300,,"}, Recs: []Rec{
		rMX("example.com", 10, "mx1.mx.example.com", 300, ""),
		rA("mx1.mx.example.com", "192.0.2.60", 300, "")}, Why: "MX with name expansion and its address"},
	{ID: "mx-mail", Aux: true, Lines: []string{"@example.com,,mail.example.com,20,,,"}, Recs: []Rec{rMX("example.com", 20, "mail.example.com", ttlOther, "")}, Why: "MX, explicit host, default TTL, no address"},
	{ID: "srv", Aux: true, Lines: []string{"S_s._tcp.example.com,192.0.2.61,srv1,443,1,2,,,"}, Recs: []Rec{
		rSRV("_s._tcp.example.com", 1, 2, 443, "srv1.srv._s._tcp.example.com", ttlOther, ""),
		rA("srv1.srv._s._tcp.example.com", "192.0.2.61", ttlOther, "")}, Why: "SRV with expansion; underscore labels; default TTL"},
	{ID: "arpa-zone", Lines: []string{".2.0.192.in-addr.arpa,,a.ns.example.com,,,"}, Recs: []Rec{
		rSOA("2.0.192.in-addr.arpa", "a.ns.example.com", "hostmaster.2.0.192.in-addr.arpa", compileSerial, 16384, 2048, 1048576, 2560, ttlSOA, ""),
		rName(tNS, "2.0.192.in-addr.arpa", "a.ns.example.com", ttlNS, "")}, Why: "second apex, all defaults, outside every map"},
	{ID: "ptr-1", Lines: []string{"^1.2.0.192.in-addr.arpa,www.example.com,,,"}, Recs: []Rec{rName(tPTR, "1.2.0.192.in-addr.arpa", "www.example.com", ttlOther, "")}, Why: "PTR, default TTL; REFUSED without its apex"},
	{ID: "paddr-p", Aux: true, Lines: []string{"=p.example.com,192.0.2.70,300,,"}, Recs: []Rec{
		rA("p.example.com", "192.0.2.70", 300, ""),
		rName(tPTR, "70.2.0.192.in-addr.arpa", "p.example.com", 300, "")}, Why: "composite A + PTR"},
	{ID: "txt", Aux: true, Lines: []string{"'txt.example.com,hello world,300,,"}, Recs: []Rec{rTXT("txt.example.com", "hello world", 300, "")}, Why: "TXT"},
	{ID: "txt-long", Aux: true, Lines: []string{"'txt.example.com," + longText + ",,,"}, Recs: []Rec{rTXT("txt.example.com", longText, ttlOther, "")}, Why: "200-byte text (chunked), default TTL"},
	{ID: "gen-99", Aux: true, Lines: []string{":gen.example.com,99,\\003abc,300,,"}, Recs: []Rec{rRaw("gen.example.com", tSPF, "\x03abc", 300, "")}, Why: "generic record of a known type"},
	{ID: "gen-65280", Aux: true, Lines: []string{":gen.example.com,65280,\\001\\002,,,"}, Recs: []Rec{rRaw("gen.example.com", tPRIV, "\x01\x02", ttlOther, "")}, Why: "generic record of an unknown type, default TTL"},
	{ID: "svcb", Aux: true, Lines: []string{"Bsvc.example.com,target.example.com,300,,1,alpn=h2;port=443"}, Recs: []Rec{
		rSVC(tSVCB, "svc.example.com", 1, "target.example.com", svcParam(1, "\x02h2")+svcParam(3, u16(443)), 300, "")}, Why: "SVCB"},
	{ID: "svcb-dttl", Aux: true, Lines: []string{"Bsvc.example.com,target.example.com,,,2,port=8443"}, Recs: []Rec{
		rSVC(tSVCB, "svc.example.com", 2, "target.example.com", svcParam(3, u16(8443)), ttlOther, "")}, Why: "SVCB with the TTL field left empty"},
	{ID: "https-www", Lines: []string{"Hwww.example.com,.,300,,1,alpn=h2|h3;ipv4hint=192.0.2.1"}, Recs: []Rec{
		rSVC(tHTTPS, "www.example.com", 1, ".", svcParam(1, "\x02h2\x02h3")+svcParam(4, "\xc0\x00\x02\x01"), 300, "")}, Why: "HTTPS with root target"},
	{ID: "https-wild-w", Lines: []string{"H*.w.example.com,svc.example.com,300,,1,port=8443"}, Recs: []Rec{
		rSVC(tHTTPS, "*.w.example.com", 1, "svc.example.com", svcParam(3, u16(8443)), 300, "")}, Why: "wildcard HTTPS"},
	{ID: "n-a", Lines: []string{"+a.example.com,192.0.2.81,300,,"}, Recs: []Rec{rA("a.example.com", "192.0.2.81", 300, "")}, Why: "byte-order neighbour"},
	{ID: "n-a-dash", Lines: []string{"+a-.example.com,192.0.2.82,300,,"}, Recs: []Rec{rA("a-.example.com", "192.0.2.82", 300, "")}, Why: "byte-order neighbour"},
	{ID: "n-a0", Lines: []string{"+a0.example.com,192.0.2.83,300,,"}, Recs: []Rec{rA("a0.example.com", "192.0.2.83", 300, "")}, Why: "byte-order neighbour"},
	{ID: "n-aa", Lines: []string{"+aa.example.com,192.0.2.84,300,,"}, Recs: []Rec{rA("aa.example.com", "192.0.2.84", 300, "")}, Why: "byte-order neighbour"},
	{ID: "n-ab-a", Lines: []string{"+ab.a.example.com,192.0.2.85,300,,"}, Recs: []Rec{rA("ab.a.example.com", "192.0.2.85", 300, "")}, Why: "byte-order neighbour below a"},
	{ID: "n-b", Lines: []string{"+b.example.com,192.0.2.86,300,,"}, Recs: []Rec{rA("b.example.com", "192.0.2.86", 300, "")}, Why: "byte-order neighbour; also the empty non-terminal of a-b"},
	{ID: "n-a-aa", Lines: []string{"+a.example.com,192.0.2.87,300,,aa"}, Recs: []Rec{rA("a.example.com", "192.0.2.87", 300, "aa")}, Why: "same name, location aa"},
	{ID: "n-a-bb", Lines: []string{"+a.example.com,192.0.2.88,300,,bb"}, Recs: []Rec{rA("a.example.com", "192.0.2.88", 300, "bb")}, Why: "same name, location bb"},
	{ID: "mixed-case", Aux: true, Lines: []string{"+MiXed.Example.COM,192.0.2.90,300,,"}, Recs: []Rec{rA("mixed.example.com", "192.0.2.90", 300, "")}, Why: "owner written in mixed case: names are case-insensitive"},
	{ID: "map-w", Lines: []string{"M*.w.example.com,m2", "%bb,10.0.0.0/8,m2"},
		Maps: []MapDecl{{fq("w.example.com"), true, "m2"}}, Nets: []NetDecl{{"bb", cidr("10.0.0.0/8"), "m2"}}, Why: "a closer wildcard map that re-locates the same client under w"},
	{ID: "zone-loc-aa", Lines: []string{
		"Zloc.example.com,a.ns.example.com,hostmaster.example.com,1,7200,1800,604800,120,,,aa",
		"&loc.example.com,,a.ns.example.com,3600,,aa"}, Recs: []Rec{
		rSOA("loc.example.com", "a.ns.example.com", "hostmaster.example.com", 1, 7200, 1800, 604800, 120, ttlSOA, "aa"),
		rName(tNS, "loc.example.com", "a.ns.example.com", 3600, "aa")}, Why: "a zone that exists only for one location; SOA default TTL"},

	// --- zone apex / zone cut records split between a location and the untagged set ---
	{ID: "apex-ns-aa", Lines: []string{"&example.com,,b.ns.example.com,3600,,aa"}, Recs: []Rec{rName(tNS, "example.com", "b.ns.example.com", 3600, "aa")},
		Why: "per-location NS at the main apex next to the untagged SOA+NS: the located client is still answered authoritatively"},
	{ID: "apex-soa-aa", Lines: []string{"Zexample.com,a.ns.example.com,hostmaster.example.com,9,7200,1800,604800,120,600,,aa"}, Recs: []Rec{
		rSOA("example.com", "a.ns.example.com", "hostmaster.example.com", 9, 7200, 1800, 604800, 120, 600, "aa")},
		Why: "per-location SOA at the main apex next to the untagged SOA+NS"},
	{ID: "apex-a-aa", Aux: true, Lines: []string{"+example.com,192.0.2.91,300,,aa"}, Recs: []Rec{rA("example.com", "192.0.2.91", 300, "aa")},
		Why: "located non-SOA/NS record at the apex: the apex has rows for the location, but neither SOA nor NS among them"},
	{ID: "zone-split-ns", Lines: []string{
		"Zsp.example.com,a.ns.example.com,hostmaster.example.com,5,7200,1800,604800,120,300,,",
		"&sp.example.com,,a.ns.example.com,3600,,aa",
		"&sp.example.com,,b.ns.example.com,3600,,bb"}, Recs: []Rec{
		rSOA("sp.example.com", "a.ns.example.com", "hostmaster.example.com", 5, 7200, 1800, 604800, 120, 300, ""),
		rName(tNS, "sp.example.com", "a.ns.example.com", 3600, "aa"),
		rName(tNS, "sp.example.com", "b.ns.example.com", 3600, "bb")},
		Why: "nested zone with a shared untagged SOA and per-location NS sets; no cut at all for an unlocated client"},
	{ID: "x-sp", Aux: true, Lines: []string{"+x.sp.example.com,192.0.2.32,300,,"}, Recs: []Rec{rA("x.sp.example.com", "192.0.2.32", 300, "")}, Why: "data below the split apex"},
	{ID: "zone-split-soa", Lines: []string{
		"&sq.example.com,,a.ns.example.com,3600,,",
		"Zsq.example.com,a.ns.example.com,hostmaster.example.com,7,7200,1800,604800,120,300,,aa"}, Recs: []Rec{
		rName(tNS, "sq.example.com", "a.ns.example.com", 3600, ""),
		rSOA("sq.example.com", "a.ns.example.com", "hostmaster.example.com", 7, 7200, 1800, 604800, 120, 300, "aa")},
		Why: "untagged NS with a per-location SOA: an authoritative zone for one location, a delegation for everyone else"},
	{ID: "x-sq", Aux: true, Lines: []string{"+x.sq.example.com,192.0.2.33,300,,"}, Recs: []Rec{rA("x.sq.example.com", "192.0.2.33", 300, "")}, Why: "data below the split cut (occluded for everyone but aa)"},

	// --- value domains: one value below, at and above every size boundary of the record encoders ---
	{ID: "txt-126", Solo: true, Lines: []string{"'t126.example.com," + textOf(126) + ",300,,"}, Recs: []Rec{rTXT("t126.example.com", textOf(126), 300, "")}, Why: "one byte less than a full 127-byte chunk"},
	{ID: "txt-127", Solo: true, Lines: []string{"'t127.example.com," + textOf(127) + ",300,,"}, Recs: []Rec{rTXT("t127.example.com", textOf(127), 300, "")}, Why: "exactly one full chunk"},
	{ID: "txt-128", Solo: true, Lines: []string{"'t128.example.com," + textOf(128) + ",300,,"}, Recs: []Rec{rTXT("t128.example.com", textOf(128), 300, "")}, Why: "one chunk and one byte"},
	{ID: "txt-253", Solo: true, Lines: []string{"'t253.example.com," + textOf(253) + ",300,,"}, Recs: []Rec{rTXT("t253.example.com", textOf(253), 300, "")}, Why: "one byte less than two chunks"},
	{ID: "txt-254", Solo: true, Lines: []string{"'*.t254.example.com," + textOf(254) + ",,,aa"}, Recs: []Rec{rTXT("*.t254.example.com", textOf(254), ttlOther, "aa")}, Why: "exactly two chunks; located wildcard (longest record head)"},
	{ID: "txt-255", Solo: true, Lines: []string{"'t255.example.com," + textOf(255) + ",300,,"}, Recs: []Rec{rTXT("t255.example.com", textOf(255), 300, "")}, Why: "longest single character-string of the wire format"},
	{ID: "txt-256", Solo: true, Lines: []string{"'t256.example.com," + textOf(256) + ",300,,"}, Recs: []Rec{rTXT("t256.example.com", textOf(256), 300, "")}, Why: "one byte more than a wire character-string holds"},
	{ID: "txt-381", Solo: true, Lines: []string{"'t381.example.com," + textOf(381) + ",300,,"}, Recs: []Rec{rTXT("t381.example.com", textOf(381), 300, "")}, Why: "exactly three chunks"},
	{ID: "txt-1", Solo: true, Lines: []string{"'t1.example.com,x,300,,"}, Recs: []Rec{rTXT("t1.example.com", "x", 300, "")}, Why: "shortest text"},
	{ID: "label-63", Solo: true, Lines: []string{"+" + label63 + ".example.com,192.0.2.101,300,,"}, Recs: []Rec{rA(label63+".example.com", "192.0.2.101", 300, "")}, Why: "owner with the longest label"},
	{ID: "wild-label-63", Solo: true, Lines: []string{"+*." + label63 + ".w.example.com,192.0.2.102,300,,"}, Recs: []Rec{rA("*."+label63+".w.example.com", "192.0.2.102", 300, "")}, Why: "wildcard below the longest label"},
	{ID: "name-255", Solo: true, Lines: []string{"+" + name255 + ",192.0.2.103,300,,"}, Recs: []Rec{rA(name255, "192.0.2.103", 300, "")}, Why: "owner of the longest name (255 bytes on the wire)"},
	{ID: "name-254", Solo: true, Lines: []string{"+" + name254 + ",192.0.2.104,300,,aa"}, Recs: []Rec{rA(name254, "192.0.2.104", 300, "aa")}, Why: "owner one byte shorter than the longest name, located"},
	{ID: "cname-to-255", Solo: true, Lines: []string{"Clong.example.com," + name255 + ",300,,"}, Recs: []Rec{rName(tCNAME, "long.example.com", name255, 300, "")}, Why: "rdata holding the longest name"},
	{ID: "mx-to-label-63", Solo: true, Lines: []string{"@mx63.example.com,192.0.2.105," + label63 + ",5,300,,"}, Recs: []Rec{
		rMX("mx63.example.com", 5, label63+".mx.mx63.example.com", 300, ""),
		rA(label63+".mx.mx63.example.com", "192.0.2.105", 300, "")}, Why: "name expansion of the longest label"},
	{ID: "deep-15", Solo: true, Lines: []string{"+" + deep15 + ",192.0.2.106,300,,"}, Recs: []Rec{rA(deep15, "192.0.2.106", 300, "")}, Why: "owner with 15 labels; 12 empty non-terminals"},
	{ID: "wild-deep", Solo: true, Lines: []string{"+*.e.f.g.h.i.j.k.l.deep.example.com,192.0.2.107,300,,"}, Recs: []Rec{rA("*.e.f.g.h.i.j.k.l.deep.example.com", "192.0.2.107", 300, "")}, Why: "wildcard 11 labels deep"},
	{ID: "mx-pref-0", Solo: true, Lines: []string{"@mxp.example.com,,mail.example.com,0,300,,"}, Recs: []Rec{rMX("mxp.example.com", 0, "mail.example.com", 300, "")}, Why: "smallest preference"},
	{ID: "mx-pref-max", Solo: true, Lines: []string{"@mxp.example.com,,mail.example.com,65535,300,,"}, Recs: []Rec{rMX("mxp.example.com", 65535, "mail.example.com", 300, "")}, Why: "largest preference"},
	{ID: "mx-pref-256", Solo: true, Lines: []string{"@mxp.example.com,,mail.example.com,256,300,,"}, Recs: []Rec{rMX("mxp.example.com", 256, "mail.example.com", 300, "")}, Why: "preference using the high byte only"},
	{ID: "srv-zero", Solo: true, Lines: []string{"S_z._tcp.example.com,,srv.example.com,0,0,0,300,,"}, Recs: []Rec{rSRV("_z._tcp.example.com", 0, 0, 0, "srv.example.com", 300, "")}, Why: "port, priority and weight 0; explicit target"},
	{ID: "srv-max", Solo: true, Lines: []string{"S_z._tcp.example.com,,srv.example.com,65535,65534,65533,300,,"}, Recs: []Rec{rSRV("_z._tcp.example.com", 65534, 65533, 65535, "srv.example.com", 300, "")}, Why: "largest port, priority and weight (distinct, so a swap shows)"},
	{ID: "ttl-0", Solo: true, Lines: []string{"+t0.example.com,192.0.2.108,0,,", "'t0.example.com,zero,0,,"}, Recs: []Rec{rA("t0.example.com", "192.0.2.108", 0, ""), rTXT("t0.example.com", "zero", 0, "")}, Why: "explicit TTL 0 is a declared TTL, not the default"},
	{ID: "ttl-1", Solo: true, Lines: []string{"+t1s.example.com,192.0.2.109,1,,", "Ct1c.example.com,www.example.com,1,,"}, Recs: []Rec{rA("t1s.example.com", "192.0.2.109", 1, ""), rName(tCNAME, "t1c.example.com", "www.example.com", 1, "")}, Why: "smallest positive TTL"},
	{ID: "ttl-max", Solo: true, Lines: []string{"+tmax.example.com,192.0.2.110,2147483647,,", "^tmax.example.com,www.example.com,2147483647,,", "&tmaxd.example.com,,ns.other.org,2147483647,,"}, Recs: []Rec{
		rA("tmax.example.com", "192.0.2.110", uint32(maxTTL31), ""), rName(tPTR, "tmax.example.com", "www.example.com", uint32(maxTTL31), ""),
		rName(tNS, "tmaxd.example.com", "ns.other.org", uint32(maxTTL31), "")}, Why: "largest TTL (2^31-1), also on a delegation"},
	{ID: "soa-max", Solo: true, Lines: []string{
		"Zsmax.example.com,a.ns.example.com,hostmaster.example.com,4294967295,4294967294,4294967293,4294967292,4294967291,2147483647,,",
		"&smax.example.com,,a.ns.example.com,3600,,"}, Recs: []Rec{
		rSOA("smax.example.com", "a.ns.example.com", "hostmaster.example.com", maxU32, maxU32-1, maxU32-2, maxU32-3, maxU32-4, uint32(maxTTL31), ""),
		rName(tNS, "smax.example.com", "a.ns.example.com", 3600, "")}, Why: "largest SOA numbers (distinct, so a swap shows)"},
	{ID: "soa-zero", Solo: true, Lines: []string{
		"Zszero.example.com,a.ns.example.com,hostmaster.example.com,0,0,0,0,0,0,,",
		"&szero.example.com,,a.ns.example.com,0,,"}, Recs: []Rec{
		rSOA("szero.example.com", "a.ns.example.com", "hostmaster.example.com", 0, 0, 0, 0, 0, 0, ""),
		rName(tNS, "szero.example.com", "a.ns.example.com", 0, "")}, Why: "explicit zeros in every numeric field are declared values, not defaults"},
	{ID: "svcb-alpn-255", Solo: true, Lines: []string{"Bsv1.example.com,target.example.com,300,,1,alpn=" + alpn255}, Recs: []Rec{
		rSVC(tSVCB, "sv1.example.com", 1, "target.example.com", svcParam(1, "\xff"+alpn255), 300, "")}, Why: "longest alpn id"},
	{ID: "svcb-alpn-254-1", Solo: true, Lines: []string{"Bsv1.example.com,target.example.com,300,,1,alpn=" + alpn254 + "|r"}, Recs: []Rec{
		rSVC(tSVCB, "sv1.example.com", 1, "target.example.com", svcParam(1, "\xfe"+alpn254+"\x01r"), 300, "")}, Why: "alpn ids of 254 bytes and of 1 byte; value of 257 bytes"},
	{ID: "svcb-port-0", Solo: true, Lines: []string{"Hsv2.example.com,target.example.com,300,,1,port=0"}, Recs: []Rec{
		rSVC(tHTTPS, "sv2.example.com", 1, "target.example.com", svcParam(3, u16(0)), 300, "")}, Why: "smallest port"},
	{ID: "svcb-port-max", Solo: true, Lines: []string{"Hsv2.example.com,target.example.com,300,,65535,port=65535"}, Recs: []Rec{
		rSVC(tHTTPS, "sv2.example.com", 65535, "target.example.com", svcParam(3, u16(65535)), 300, "")}, Why: "largest port and priority"},
	{ID: "svcb-alias", Solo: true, Lines: []string{"Bsv3.example.com,target.example.com,300,,0,"}, Recs: []Rec{
		rSVC(tSVCB, "sv3.example.com", 0, "target.example.com", "", 300, "")}, Why: "priority 0 (alias form), no parameters"},
	{ID: "svcb-to-255", Solo: true, Lines: []string{"Bsv4.example.com," + name255 + ",300,,1,port=443"}, Recs: []Rec{
		rSVC(tSVCB, "sv4.example.com", 1, name255, svcParam(3, u16(443)), 300, "")}, Why: "longest target name"},
	{ID: "gen-long", Solo: true, Lines: []string{":glong.example.com,65281," + octal(rawLong) + ",300,,"}, Recs: []Rec{rRaw("glong.example.com", 65281, rawLong, 300, "")}, Why: "300 bytes of generic rdata holding every kind of byte"},
	{ID: "gen-1", Solo: true, Lines: []string{":g1.example.com,65281,\\000,300,,"}, Recs: []Rec{rRaw("g1.example.com", 65281, "\x00", 300, "")}, Why: "one zero byte of generic rdata"},
}
