package main

// The record alphabet of C01. Every item carries BOTH the data-file text and
// the structured records that the text declares (written by hand from the
// tinydns-data format description, not derived from the text), so that the
// reference interpreter never parses tinydns text and shares no code with
// dnsdata or db.

import (
	"encoding/binary"
	"net"
	"strings"
)

// DNS type numbers (kept local: the model does not depend on miekg).
const (
	tA     = 1
	tNS    = 2
	tCNAME = 5
	tSOA   = 6
	tPTR   = 12
	tMX    = 15
	tTXT   = 16
	tAAAA  = 28
	tSRV   = 33
	tSVCB  = 64
	tHTTPS = 65
	tSPF   = 99
	tPRIV  = 65280
	tANY   = 255
)

var typeName = map[uint16]string{tA: "A", tNS: "NS", tCNAME: "CNAME", tSOA: "SOA", tPTR: "PTR", tMX: "MX", tTXT: "TXT",
	tAAAA: "AAAA", tSRV: "SRV", tSVCB: "SVCB", tHTTPS: "HTTPS", tSPF: "TYPE99", tPRIV: "TYPE65280", tANY: "ANY"}

// Default TTLs of the data format.
const (
	ttlSOA   = 2560
	ttlNS    = 259200
	ttlOther = 86400
)

// compileSerial is the serial handed to the compilers (dnsfix.Serial); a '.'
// line declares an SOA with the compiler's serial.
const compileSerial = 1234567

// Rec is one declared resource record.
type Rec struct {
	Owner   string // lower-case, fully qualified with trailing dot; for a wildcard record the name WITHOUT the "*." label
	Wild    bool   // record of "*.Owner"
	Type    uint16
	TTL     uint32
	RData   string // rdata exactly as it must appear in an answer (uncompressed wire form; TXT: the concatenated text)
	Loc     string // "" (visible to everyone) or a two-byte location id
	Show    string // presentation form, for messages only
	Targets []string
}

// MapDecl declares "names covered by Owner (exactly, or everything below when Wild) use resolver map ID".
type MapDecl struct {
	Owner string
	Wild  bool
	ID    string
}

// NetDecl declares "clients inside Net are in location Loc for map ID".
type NetDecl struct {
	Loc string
	Net *net.IPNet
	ID  string
}

// Item is one optional unit of the alphabet.
type Item struct {
	ID    string
	Lines []string
	Recs  []Rec
	Maps  []MapDecl
	Nets  []NetDecl
	Why   string
	Aux   bool // stored under a key shape (owner, wildcard flag, location) that another item already has and not consulted for additional-section processing: left out of the larger RocksDB files
}

func fq(n string) string {
	n = strings.ToLower(n)
	if n == "" || n == "." {
		return "."
	}
	if !strings.HasSuffix(n, ".") {
		n += "."
	}
	return n
}

func wireName(n string) string {
	n = fq(n)
	if n == "." {
		return "\x00"
	}
	var sb strings.Builder
	for _, l := range strings.Split(strings.TrimSuffix(n, "."), ".") {
		sb.WriteByte(byte(len(l)))
		sb.WriteString(l)
	}
	sb.WriteByte(0)
	return sb.String()
}

func u16(v int) string {
	var b [2]byte
	binary.BigEndian.PutUint16(b[:], uint16(v))
	return string(b[:])
}
func u32(v int) string {
	var b [4]byte
	binary.BigEndian.PutUint32(b[:], uint32(v))
	return string(b[:])
}

func owner(name string) (string, bool) {
	if strings.HasPrefix(name, "*.") {
		return fq(name[2:]), true
	}
	return fq(name), false
}

func rA(name, ip string, ttl uint32, loc string) Rec {
	o, w := owner(name)
	p := net.ParseIP(ip)
	if v4 := p.To4(); v4 != nil {
		return Rec{Owner: o, Wild: w, Type: tA, TTL: ttl, RData: string(v4), Loc: loc, Show: "A " + ip}
	}
	return Rec{Owner: o, Wild: w, Type: tAAAA, TTL: ttl, RData: string(p.To16()), Loc: loc, Show: "AAAA " + ip}
}

func rName(typ uint16, name, target string, ttl uint32, loc string) Rec {
	o, w := owner(name)
	return Rec{Owner: o, Wild: w, Type: typ, TTL: ttl, RData: wireName(target), Loc: loc, Show: typeName[typ] + " " + fq(target), Targets: []string{fq(target)}}
}

func rSOA(name, mname, rname string, ser, ref, ret, exp, min int, ttl uint32, loc string) Rec {
	return Rec{Owner: fq(name), Type: tSOA, TTL: ttl, Loc: loc,
		RData: wireName(mname) + wireName(rname) + u32(ser) + u32(ref) + u32(ret) + u32(exp) + u32(min),
		Show:  "SOA " + fq(mname) + " " + fq(rname)}
}

func rMX(name string, pref int, target string, ttl uint32, loc string) Rec {
	return Rec{Owner: fq(name), Type: tMX, TTL: ttl, Loc: loc, RData: u16(pref) + wireName(target), Show: "MX " + fq(target), Targets: []string{fq(target)}}
}

func rSRV(name string, pri, weight, port int, target string, ttl uint32, loc string) Rec {
	return Rec{Owner: fq(name), Type: tSRV, TTL: ttl, Loc: loc, RData: u16(pri) + u16(weight) + u16(port) + wireName(target), Show: "SRV " + fq(target), Targets: []string{fq(target)}}
}

func rTXT(name, text string, ttl uint32, loc string) Rec {
	o, w := owner(name)
	show := text
	if len(show) > 16 {
		show = show[:16] + "..."
	}
	return Rec{Owner: o, Wild: w, Type: tTXT, TTL: ttl, Loc: loc, RData: text, Show: "TXT " + show}
}

func rRaw(name string, typ uint16, raw string, ttl uint32, loc string) Rec {
	return Rec{Owner: fq(name), Type: typ, TTL: ttl, Loc: loc, RData: raw, Show: typeName[typ]}
}

// svcParam builds one SvcParam (RFC 9460 section 2.2: key, length, value).
func svcParam(key int, val string) string { return u16(key) + u16(len(val)) + val }

func rSVC(typ uint16, name string, prio int, target string, params string, ttl uint32, loc string) Rec {
	o, w := owner(name)
	return Rec{Owner: o, Wild: w, Type: typ, TTL: ttl, Loc: loc, RData: u16(prio) + wireName(target) + params, Show: typeName[typ] + " " + fq(target), Targets: []string{fq(target)}}
}

func cidr(s string) *net.IPNet {
	_, n, err := net.ParseCIDR(s)
	if err != nil {
		panic(err)
	}
	return n
}

var longText = strings.Repeat("0123456789abcdefghijklmnopqrstuvwxyzABCD", 5) // 200 bytes: three chunks in the data format

// Skeletons: apex example.com (SOA+NS) and the location plumbing.
var plumbingLines = []string{
	"Mexample.com,m1",
	"M*.example.com,m1",
	"%aa,10.0.0.0/8,m1",
	"%bb,192.168.0.0/16,m1",
}
var plumbingMaps = []MapDecl{{fq("example.com"), false, "m1"}, {fq("example.com"), true, "m1"}}
var plumbingNets = []NetDecl{{"aa", cidr("10.0.0.0/8"), "m1"}, {"bb", cidr("192.168.0.0/16"), "m1"}}

var skeletons = []Item{
	{ID: "skelA",
		Lines: []string{
			"Zexample.com,a.ns.example.com,hostmaster.example.com,1,7200,1800,604800,120,300,,",
			"&example.com,192.0.2.53,a.ns.example.com,3600,,"},
		Recs: []Rec{
			rSOA("example.com", "a.ns.example.com", "hostmaster.example.com", 1, 7200, 1800, 604800, 120, 300, ""),
			rName(tNS, "example.com", "a.ns.example.com", 3600, ""),
			rA("a.ns.example.com", "192.0.2.53", 3600, "")}},
	{ID: "skelB", // composite form: derived SOA with default fields, name expansion a -> a.ns.example.com
		Lines: []string{".example.com,192.0.2.53,a,3600,,"},
		Recs: []Rec{
			rSOA("example.com", "a.ns.example.com", "hostmaster.example.com", compileSerial, 16384, 2048, 1048576, 2560, ttlSOA, ""),
			rName(tNS, "example.com", "a.ns.example.com", 3600, ""),
			rA("a.ns.example.com", "192.0.2.53", 3600, "")}},
}

// alphabet is ordered simplest first.
var alphabet = []Item{
	{ID: "www-a", Lines: []string{"+www.example.com,192.0.2.1,300,,"}, Recs: []Rec{rA("www.example.com", "192.0.2.1", 300, "")}, Why: "plain A, explicit TTL"},
	{ID: "www-a-aa", Lines: []string{"+www.example.com,192.0.2.2,,,aa"}, Recs: []Rec{rA("www.example.com", "192.0.2.2", ttlOther, "aa")}, Why: "default TTL, located"},
	{ID: "www-a-bb", Lines: []string{"+www.example.com,192.0.2.3,300,,bb"}, Recs: []Rec{rA("www.example.com", "192.0.2.3", 300, "bb")}, Why: "foreign location for an aa client"},
	{ID: "www-aaaa", Aux: true, Lines: []string{"+www.example.com,2001:db8::1,300,,"}, Recs: []Rec{rA("www.example.com", "2001:db8::1", 300, "")}, Why: "AAAA; NODATA for other types"},
	{ID: "apex-a", Aux: true, Lines: []string{"+example.com,192.0.2.80,,,"}, Recs: []Rec{rA("example.com", "192.0.2.80", ttlOther, "")}, Why: "address at the apex, default TTL"},
	{ID: "cname-c", Aux: true, Lines: []string{"Cc.example.com,www.example.com,,,"}, Recs: []Rec{rName(tCNAME, "c.example.com", "www.example.com", ttlOther, "")}, Why: "CNAME answered for every qtype; default TTL"},
	{ID: "wild-w", Lines: []string{"+*.w.example.com,192.0.2.10,300,,"}, Recs: []Rec{rA("*.w.example.com", "192.0.2.10", 300, "")}, Why: "wildcard"},
	{ID: "wild-w-aa", Lines: []string{"+*.w.example.com,192.0.2.11,300,,aa"}, Recs: []Rec{rA("*.w.example.com", "192.0.2.11", 300, "aa")}, Why: "located wildcard"},
	{ID: "wild-w-txt-bb", Lines: []string{"'*.w.example.com,bbonly,,,bb"}, Recs: []Rec{rTXT("*.w.example.com", "bbonly", ttlOther, "bb")}, Why: "wildcard that exists for one location only; other clients fall through to an outer wildcard"},
	{ID: "x-w", Lines: []string{"+x.w.example.com,192.0.2.12,300,,"}, Recs: []Rec{rA("x.w.example.com", "192.0.2.12", 300, "")}, Why: "own record beats the wildcard"},
	{ID: "plus-w", Lines: []string{"+c+d.w.example.com,192.0.2.13,300,,"}, Recs: []Rec{rA("c+d.w.example.com", "192.0.2.13", 300, "")}, Why: "owner with a non-wild-safe label"},
	{ID: "wild-apex-txt", Lines: []string{"'*.example.com,wild,300,,"}, Recs: []Rec{rTXT("*.example.com", "wild", 300, "")}, Why: "wildcard at the zone cut; must not reach into sub. or deleg."},
	{ID: "a-b", Lines: []string{"+a.b.example.com,192.0.2.20,300,,"}, Recs: []Rec{rA("a.b.example.com", "192.0.2.20", 300, "")}, Why: "empty non-terminal b"},
	{ID: "zone-sub", Lines: []string{".sub.example.com,192.0.2.54,a,3600,,"}, Recs: []Rec{
		rSOA("sub.example.com", "a.ns.sub.example.com", "hostmaster.sub.example.com", compileSerial, 16384, 2048, 1048576, 2560, ttlSOA, ""),
		rName(tNS, "sub.example.com", "a.ns.sub.example.com", 3600, ""),
		rA("a.ns.sub.example.com", "192.0.2.54", 3600, "")}, Why: "nested authoritative zone"},
	{ID: "x-sub", Lines: []string{"+x.sub.example.com,192.0.2.30,300,,"}, Recs: []Rec{rA("x.sub.example.com", "192.0.2.30", 300, "")}, Why: "data in the nested zone"},
	{ID: "wild-sub", Lines: []string{"+*.sub.example.com,192.0.2.31,300,,"}, Recs: []Rec{rA("*.sub.example.com", "192.0.2.31", 300, "")}, Why: "wildcard of the nested zone"},
	{ID: "deleg", Lines: []string{"&deleg.example.com,192.0.2.55,ns.deleg.example.com,3600,,"}, Recs: []Rec{
		rName(tNS, "deleg.example.com", "ns.deleg.example.com", 3600, ""),
		rA("ns.deleg.example.com", "192.0.2.55", 3600, "")}, Why: "delegation with in-bailiwick glue"},
	{ID: "deleg-aa", Lines: []string{"&deleg.example.com,,ns2.other.org,,,aa"}, Recs: []Rec{rName(tNS, "deleg.example.com", "ns2.other.org", ttlNS, "aa")}, Why: "located NS, default TTL, out-of-zone target, no glue"},
	{ID: "deleg-glue6", Aux: true, Lines: []string{"+ns.deleg.example.com,2001:db8::55,3600,,"}, Recs: []Rec{rA("ns.deleg.example.com", "2001:db8::55", 3600, "")}, Why: "second glue family"},
	{ID: "below-deleg", Lines: []string{"+below.deleg.example.com,192.0.2.40,300,,"}, Recs: []Rec{rA("below.deleg.example.com", "192.0.2.40", 300, "")}, Why: "occluded data below the cut"},
	{ID: "mx1", Lines: []string{"@example.com,192.0.2.60,mx1,10,300,,"}, Recs: []Rec{
		rMX("example.com", 10, "mx1.mx.example.com", 300, ""),
		rA("mx1.mx.example.com", "192.0.2.60", 300, "")}, Why: "MX with name expansion and its address"},
	{ID: "mx-mail", Aux: true, Lines: []string{"@example.com,,mail.example.com,20,,,"}, Recs: []Rec{rMX("example.com", 20, "mail.example.com", ttlOther, "")}, Why: "MX, explicit host, default TTL, no address"},
	{ID: "srv", Aux: true, Lines: []string{"S_s._tcp.example.com,192.0.2.61,srv1,443,1,2,,,"}, Recs: []Rec{
		rSRV("_s._tcp.example.com", 1, 2, 443, "srv1.srv._s._tcp.example.com", ttlOther, ""),
		rA("srv1.srv._s._tcp.example.com", "192.0.2.61", ttlOther, "")}, Why: "SRV with expansion; underscore labels; default TTL"},
	{ID: "arpa-zone", Lines: []string{".2.0.192.in-addr.arpa,,a.ns.example.com,,,"}, Recs: []Rec{
		rSOA("2.0.192.in-addr.arpa", "a.ns.example.com", "hostmaster.2.0.192.in-addr.arpa", compileSerial, 16384, 2048, 1048576, 2560, ttlSOA, ""),
		rName(tNS, "2.0.192.in-addr.arpa", "a.ns.example.com", ttlNS, "")}, Why: "second apex, all defaults, outside every map"},
	{ID: "ptr-1", Lines: []string{"^1.2.0.192.in-addr.arpa,www.example.com,,,"}, Recs: []Rec{rName(tPTR, "1.2.0.192.in-addr.arpa", "www.example.com", ttlOther, "")}, Why: "PTR, default TTL; REFUSED without its apex"},
	{ID: "paddr-p", Aux: true, Lines: []string{"=p.example.com,192.0.2.70,300,,"}, Recs: []Rec{
		rA("p.example.com", "192.0.2.70", 300, ""),
		rName(tPTR, "70.2.0.192.in-addr.arpa", "p.example.com", 300, "")}, Why: "composite A + PTR"},
	{ID: "txt", Aux: true, Lines: []string{"'txt.example.com,hello world,300,,"}, Recs: []Rec{rTXT("txt.example.com", "hello world", 300, "")}, Why: "TXT"},
	{ID: "txt-long", Aux: true, Lines: []string{"'txt.example.com," + longText + ",,,"}, Recs: []Rec{rTXT("txt.example.com", longText, ttlOther, "")}, Why: "200-byte text (chunked), default TTL"},
	{ID: "gen-99", Aux: true, Lines: []string{":gen.example.com,99,\\003abc,300,,"}, Recs: []Rec{rRaw("gen.example.com", tSPF, "\x03abc", 300, "")}, Why: "generic record of a known type"},
	{ID: "gen-65280", Aux: true, Lines: []string{":gen.example.com,65280,\\001\\002,,,"}, Recs: []Rec{rRaw("gen.example.com", tPRIV, "\x01\x02", ttlOther, "")}, Why: "generic record of an unknown type, default TTL"},
	{ID: "svcb", Aux: true, Lines: []string{"Bsvc.example.com,target.example.com,300,,1,alpn=h2;port=443"}, Recs: []Rec{
		rSVC(tSVCB, "svc.example.com", 1, "target.example.com", svcParam(1, "\x02h2")+svcParam(3, u16(443)), 300, "")}, Why: "SVCB"},
	{ID: "svcb-dttl", Aux: true, Lines: []string{"Bsvc.example.com,target.example.com,,,2,port=8443"}, Recs: []Rec{
		rSVC(tSVCB, "svc.example.com", 2, "target.example.com", svcParam(3, u16(8443)), ttlOther, "")}, Why: "SVCB with the TTL field left empty"},
	{ID: "https-www", Lines: []string{"Hwww.example.com,.,300,,1,alpn=h2|h3;ipv4hint=192.0.2.1"}, Recs: []Rec{
		rSVC(tHTTPS, "www.example.com", 1, ".", svcParam(1, "\x02h2\x02h3")+svcParam(4, "\xc0\x00\x02\x01"), 300, "")}, Why: "HTTPS with root target"},
	{ID: "https-wild-w", Lines: []string{"H*.w.example.com,svc.example.com,300,,1,port=8443"}, Recs: []Rec{
		rSVC(tHTTPS, "*.w.example.com", 1, "svc.example.com", svcParam(3, u16(8443)), 300, "")}, Why: "wildcard HTTPS"},
	{ID: "n-a", Lines: []string{"+a.example.com,192.0.2.81,300,,"}, Recs: []Rec{rA("a.example.com", "192.0.2.81", 300, "")}, Why: "byte-order neighbour"},
	{ID: "n-a-dash", Lines: []string{"+a-.example.com,192.0.2.82,300,,"}, Recs: []Rec{rA("a-.example.com", "192.0.2.82", 300, "")}, Why: "byte-order neighbour"},
	{ID: "n-a0", Lines: []string{"+a0.example.com,192.0.2.83,300,,"}, Recs: []Rec{rA("a0.example.com", "192.0.2.83", 300, "")}, Why: "byte-order neighbour"},
	{ID: "n-aa", Lines: []string{"+aa.example.com,192.0.2.84,300,,"}, Recs: []Rec{rA("aa.example.com", "192.0.2.84", 300, "")}, Why: "byte-order neighbour"},
	{ID: "n-ab-a", Lines: []string{"+ab.a.example.com,192.0.2.85,300,,"}, Recs: []Rec{rA("ab.a.example.com", "192.0.2.85", 300, "")}, Why: "byte-order neighbour below a"},
	{ID: "n-b", Lines: []string{"+b.example.com,192.0.2.86,300,,"}, Recs: []Rec{rA("b.example.com", "192.0.2.86", 300, "")}, Why: "byte-order neighbour; also the empty non-terminal of a-b"},
	{ID: "n-a-aa", Lines: []string{"+a.example.com,192.0.2.87,300,,aa"}, Recs: []Rec{rA("a.example.com", "192.0.2.87", 300, "aa")}, Why: "same name, location aa"},
	{ID: "n-a-bb", Lines: []string{"+a.example.com,192.0.2.88,300,,bb"}, Recs: []Rec{rA("a.example.com", "192.0.2.88", 300, "bb")}, Why: "same name, location bb"},
	{ID: "mixed-case", Aux: true, Lines: []string{"+MiXed.Example.COM,192.0.2.90,300,,"}, Recs: []Rec{rA("mixed.example.com", "192.0.2.90", 300, "")}, Why: "owner written in mixed case: names are case-insensitive"},
	{ID: "map-w", Lines: []string{"M*.w.example.com,m2", "%bb,10.0.0.0/8,m2"},
		Maps: []MapDecl{{fq("w.example.com"), true, "m2"}}, Nets: []NetDecl{{"bb", cidr("10.0.0.0/8"), "m2"}}, Why: "a closer wildcard map that re-locates the same client under w"},
	{ID: "zone-loc-aa", Lines: []string{
		"Zloc.example.com,a.ns.example.com,hostmaster.example.com,1,7200,1800,604800,120,,,aa",
		"&loc.example.com,,a.ns.example.com,3600,,aa"}, Recs: []Rec{
		rSOA("loc.example.com", "a.ns.example.com", "hostmaster.example.com", 1, 7200, 1800, 604800, 120, ttlSOA, "aa"),
		rName(tNS, "loc.example.com", "a.ns.example.com", 3600, "aa")}, Why: "a zone that exists only for one location; SOA default TTL"},
}
