package main

// dnsmodel: the reference interpreter of DESIGN appendix A. It reads only the
// structured declarations of a data file (Rec / MapDecl / NetDecl) and states
// what the property statement prescribes for a query. It shares no code with
// the repository and knows nothing about storage keys or backends.

import (
	"net"
	"sort"
	"strings"
)

// World is one data file as the model sees it.
type World struct {
	rows  map[string][]*Rec // non-wildcard records by owner
	wrows map[string][]*Rec // records of "*.<key>"
	maps  []MapDecl
	nets  []NetDecl
}

func newWorld(items []*Item) *World {
	w := &World{rows: map[string][]*Rec{}, wrows: map[string][]*Rec{}}
	for _, it := range items {
		for i := range it.Recs {
			r := &it.Recs[i]
			if r.Wild {
				w.wrows[r.Owner] = append(w.wrows[r.Owner], r)
			} else {
				w.rows[r.Owner] = append(w.rows[r.Owner], r)
			}
		}
		w.maps = append(w.maps, it.Maps...)
		w.nets = append(w.nets, it.Nets...)
	}
	w.maps = append(w.maps, plumbingMaps...)
	w.nets = append(w.nets, plumbingNets...)
	return w
}

func parent(n string) string {
	if n == "." {
		return "."
	}
	i := strings.IndexByte(n, '.')
	if i+1 >= len(n) {
		return "."
	}
	return n[i+1:]
}

func firstLabel(n string) string {
	if n == "." {
		return ""
	}
	return n[:strings.IndexByte(n, '.')]
}

func wildsafe(label string) bool {
	for i := 0; i < len(label); i++ {
		c := label[i]
		if !(c >= 'a' && c <= 'z' || c >= '0' && c <= '9' || c == '-' || c == '_') {
			return false
		}
	}
	return true
}

// location: the resolver map that covers the name is the one declared for the
// name itself, else the wildcard map of the closest proper ancestor; inside the
// map the client is in the location of the longest declared prefix holding it.
func (w *World) location(client net.IP, name string) string {
	id := ""
	found := false
	for _, m := range w.maps {
		if !m.Wild && m.Owner == name {
			id, found = m.ID, true
		}
	}
	for n := name; !found && n != "."; {
		n = parent(n)
		for _, m := range w.maps {
			if m.Wild && m.Owner == n {
				id, found = m.ID, true
			}
		}
	}
	if !found {
		return ""
	}
	best, loc := -1, ""
	for _, s := range w.nets {
		if s.ID != id || !s.Net.Contains(client) {
			continue
		}
		if ones, _ := s.Net.Mask.Size(); ones > best {
			best, loc = ones, s.Loc
		}
	}
	return loc
}

func visible(rs []*Rec, loc string) []*Rec {
	var out []*Rec
	for _, r := range rs {
		if r.Loc == "" || r.Loc == loc {
			out = append(out, r)
		}
	}
	return out
}

func hasType(rs []*Rec, t uint16) bool {
	for _, r := range rs {
		if r.Type == t {
			return true
		}
	}
	return false
}

func ofType(rs []*Rec, t uint16) []*Rec {
	var out []*Rec
	for _, r := range rs {
		if r.Type == t {
			out = append(out, r)
		}
	}
	return out
}

// Expectation classes.
const (
	exRefused = iota
	exReferral
	exNXDomain
	exNoData
	exAnswer
)

var exName = [...]string{"refused", "referral", "nxdomain", "nodata", "answer"}

// Expect is what the statement prescribes for one (query, client).
type Expect struct {
	Class    int
	Loc      string
	Zone     string // zone cut ("" when refused)
	Wildcard string // "*.<this>" supplied the candidate records ("" if the name's own)
	Any      bool   // qtype ANY: the answer only has to be a sub-multiset of Answer
	Skip     bool   // qtype DS exactly at a delegation point: answered from the parent side by design (RFC 3658), the statement does not define it; only "one response, no panic" is checked
	Answer   []*Rec // records to appear in the answer section, owner = query name
	SOA      []*Rec // visible SOA records of the zone (one must be in authority when the answer is empty)
	NS       []*Rec // visible NS records of the zone cut (referral: authority is exactly these)
}

// Rcode / AA prescribed for a class.
func (e *Expect) Rcode() int {
	switch e.Class {
	case exRefused:
		return 5
	case exNXDomain:
		return 3
	}
	return 0
}
func (e *Expect) AA() bool { return e.Class >= exNXDomain }

// Resolve interprets one query.
func (w *World) Resolve(name string, qtype uint16, client net.IP) *Expect {
	name = strings.ToLower(name)
	loc := w.location(client, name)
	e := &Expect{Loc: loc}
	// zone cut: the closest enclosing name (the name itself included) with a visible NS record
	z := name
	for {
		if hasType(visible(w.rows[z], loc), tNS) {
			break
		}
		if z == "." {
			e.Class = exRefused
			return e
		}
		z = parent(z)
	}
	e.Zone = z
	zr := visible(w.rows[z], loc)
	e.NS = ofType(zr, tNS)
	e.SOA = ofType(zr, tSOA)
	if len(e.SOA) == 0 {
		e.Class = exReferral
		e.Skip = qtype == tDS && name == z
		return e
	}
	cand := visible(w.rows[name], loc)
	found := len(cand) > 0
	for n := name; !found && n != z && wildsafe(firstLabel(n)); {
		n = parent(n)
		if wr := visible(w.wrows[n], loc); len(wr) > 0 {
			cand, found = wr, true
			e.Wildcard = n
		}
	}
	if !found {
		e.Class = exNXDomain
		return e
	}
	for _, r := range cand {
		if r.Type == qtype || r.Type == tCNAME || qtype == tANY {
			e.Answer = append(e.Answer, r)
		}
	}
	e.Any = qtype == tANY
	if len(e.Answer) == 0 {
		e.Class = exNoData
	} else {
		e.Class = exAnswer
	}
	return e
}

// addresses returns the visible, declared (non-wildcard) address records of a name.
func (w *World) addresses(name, loc string) []*Rec {
	var out []*Rec
	for _, r := range visible(w.rows[strings.ToLower(name)], loc) {
		if r.Type == tA || r.Type == tAAAA {
			out = append(out, r)
		}
	}
	return out
}

// universe builds the closed name universe from every item of the alphabet.
func universe(all []*Item) []string {
	nodes := map[string]bool{}
	var add func(n string)
	add = func(n string) {
		if !validName(n) { // e.g. a label added in front of the longest name
			return
		}
		for {
			nodes[n] = true
			if n == "." {
				return
			}
			n = parent(n)
		}
	}
	for _, it := range all {
		for _, r := range it.Recs {
			add(r.Owner)
			if r.Wild {
				add("*." + r.Owner)             // the literal asterisk name
				add("r.nx." + r.Owner)          // two labels below the wildcard
				add("c+d." + trimRoot(r.Owner)) // a non-wild-safe label below the wildcard
				add("c+d.nx." + r.Owner)        // a non-wild-safe label two levels below it
			}
			for _, t := range r.Targets {
				add(t)
			}
		}
		for _, m := range it.Maps {
			add(m.Owner)
		}
	}
	add("other.org.")
	out := make([]string, 0, 2*len(nodes)+2)
	seen := map[string]bool{}
	for n := range nodes {
		out = append(out, n)
		seen[n] = true
	}
	for n := range nodes { // one fresh sibling under every node
		s := "nx." + trimRoot(n)
		if !seen[s] && validName(s) {
			seen[s] = true
			out = append(out, s)
		}
	}
	sort.Strings(out)
	return out
}

func trimRoot(n string) string {
	if n == "." {
		return ""
	}
	return n
}
