// vrewrite binds the repository's real code to the vsched scheduler without
// modifying /repo: it reads the CURRENT files of the listed packages, rewrites
// their synchronisation constructs to the zzverif shims and writes the
// instrumented copies plus an overlay.json for `go build -overlay`.
//
// Spec file (one directive per line, '#' comments):
//
//	instrument <pkgdir>...          rewrite sync/errgroup/go/chan/select/close in these packages
//	time <pkgdir>...                additionally rewrite time.Now/Since/NewTicker/Sleep and context.WithTimeout
//	lru <pkgdir>...                 rewrite the golang-lru import to the vlru shim
//	watch <pkgdir> <Type.field>...  wrap reads/writes of these struct fields in vsched.R / vsched.W
//	watchall <pkgdir>...            wrap EVERY addressable access to a struct field of a type declared in the
//	                                module, to a package-level variable of the module and to a local variable
//	                                captured by a function literal in vsched.RN / vsched.WN (happens-before
//	                                race check only, no scheduling point)
//	watchelems <pkgdir>...          (with watchall) additionally record slice/array element accesses x[i], the
//	                                writes of append and copy into backing arrays, and map reads/writes
//	yieldcalls <pkgdir> <Iface> <writeMethod,...>   a scheduling point before every method call on a value whose
//	                                static type is interface <Iface> declared in <pkgdir> (in every instrumented
//	                                package): listed methods are writes of the called object, the others reads
//	replacecall <pkgdir> <Func> <NewFunc>   calls of the package-level function <Func> inside <pkgdir> call <NewFunc>
//	                                (defined by an added file) instead: lets a harness substitute a constructor
//	setconst <pkgdir> <Name> <int>  give the package-level integer constant <Name> another value in the
//	                                instrumented copy (scaling a size constant down so that the behaviour at
//	                                and beyond it is inside a small bound; the evidence says so)
//	add <pkgdir> <harness-relative file>   add a file (tag verif) to a repo package
//	shims                           map harness/zzverif/* into the repo module (implied by instrument)
//
// Any construct it cannot express makes it exit non-zero (infrastructure error,
// never a verdict).
package main

import (
	"bytes"
	"encoding/json"
	"flag"
	"fmt"
	"go/ast"
	"go/format"
	"go/importer"
	"go/parser"
	"go/token"
	"go/types"
	"io"
	"os"
	"os/exec"
	"path/filepath"
	"sort"
	"strings"

	"golang.org/x/tools/go/ast/astutil"
)

const modPath = "github.com/facebookincubator/dns/dnsrocks"
const shimBase = modPath + "/zzverif/"

type spec struct {
	instrument map[string]bool
	timePkgs   map[string]bool
	lruPkgs    map[string]bool
	watch      map[string]map[string]bool // pkgdir -> "Type.field"
	watchAll   map[string]bool
	watchElems map[string]bool
	yieldIface map[string]map[string]bool // "<import path>.<Iface>" -> write methods
	replace    map[string]map[string]string // pkgdir -> func -> new func
	setconst   map[string]map[string]string // pkgdir -> const -> value
	add        [][2]string
}

func die(f string, a ...interface{}) {
	fmt.Fprintf(os.Stderr, "vrewrite: "+f+"\n", a...)
	os.Exit(2)
}

func readSpec(path string) *spec {
	b, err := os.ReadFile(path)
	if err != nil {
		die("%v", err)
	}
	s := &spec{instrument: map[string]bool{}, timePkgs: map[string]bool{}, lruPkgs: map[string]bool{}, watch: map[string]map[string]bool{}, watchAll: map[string]bool{}, watchElems: map[string]bool{}, yieldIface: map[string]map[string]bool{}, replace: map[string]map[string]string{}, setconst: map[string]map[string]string{}}
	for _, ln := range strings.Split(string(b), "\n") {
		if i := strings.IndexByte(ln, '#'); i >= 0 {
			ln = ln[:i]
		}
		f := strings.Fields(ln)
		if len(f) == 0 {
			continue
		}
		switch f[0] {
		case "instrument":
			for _, p := range f[1:] {
				s.instrument[p] = true
			}
		case "time":
			for _, p := range f[1:] {
				s.timePkgs[p] = true
				s.instrument[p] = true
			}
		case "lru":
			for _, p := range f[1:] {
				s.lruPkgs[p] = true
				s.instrument[p] = true
			}
		case "watch":
			if len(f) < 3 {
				die("bad watch line %q", ln)
			}
			if s.watch[f[1]] == nil {
				s.watch[f[1]] = map[string]bool{}
			}
			for _, w := range f[2:] {
				s.watch[f[1]][w] = true
			}
			s.instrument[f[1]] = true
		case "setconst":
			if len(f) != 4 {
				die("bad setconst line %q", ln)
			}
			if s.setconst[f[1]] == nil {
				s.setconst[f[1]] = map[string]string{}
			}
			s.setconst[f[1]][f[2]] = f[3]
			s.instrument[f[1]] = true
		case "replacecall":
			if len(f) != 4 {
				die("bad replacecall line %q", ln)
			}
			if s.replace[f[1]] == nil {
				s.replace[f[1]] = map[string]string{}
			}
			s.replace[f[1]][f[2]] = f[3]
			s.instrument[f[1]] = true
		case "yieldcalls":
			if len(f) != 4 {
				die("bad yieldcalls line %q", ln)
			}
			w := map[string]bool{}
			for _, m := range strings.Split(f[3], ",") {
				w[m] = true
			}
			s.yieldIface[modPath+"/"+f[1]+"."+f[2]] = w
			s.instrument[f[1]] = true
		case "watchelems":
			for _, p := range f[1:] {
				s.watchElems[p] = true
				s.watchAll[p] = true
				s.instrument[p] = true
			}
		case "watchall":
			for _, p := range f[1:] {
				s.watchAll[p] = true
				s.instrument[p] = true
			}
		case "add":
			if len(f) != 3 {
				die("bad add line %q", ln)
			}
			s.add = append(s.add, [2]string{f[1], f[2]})
		case "shims":
		default:
			die("unknown directive %q", f[0])
		}
	}
	return s
}

type listPkg struct {
	ImportPath string
	Dir        string
	Export     string
	GoFiles    []string
	CgoFiles   []string
}

func goList(repo string, pkgs []string) map[string]*listPkg {
	args := []string{"list", "-e", "-export", "-deps", "-json=ImportPath,Dir,Export,GoFiles,CgoFiles"}
	for _, p := range pkgs {
		args = append(args, "./"+p)
	}
	cmd := exec.Command("go", args...)
	cmd.Dir = repo
	cmd.Stderr = os.Stderr
	out, err := cmd.Output()
	if err != nil {
		die("go list failed: %v", err)
	}
	res := map[string]*listPkg{}
	dec := json.NewDecoder(bytes.NewReader(out))
	for {
		var p listPkg
		if err := dec.Decode(&p); err == io.EOF {
			break
		} else if err != nil {
			die("go list output: %v", err)
		}
		pp := p
		res[p.ImportPath] = &pp
	}
	return res
}

func main() {
	repo := flag.String("repo", "/repo/dnsrocks", "module directory under test")
	harness := flag.String("harness", "/verif/harness", "harness directory")
	out := flag.String("out", "", "output directory")
	specPath := flag.String("spec", "", "spec file")
	flag.Parse()
	if *out == "" || *specPath == "" {
		die("need -out and -spec")
	}
	sp := readSpec(*specPath)
	overlay := map[string]string{}

	// shims: virtual package directories inside the repo module
	shimDir := filepath.Join(*harness, "zzverif")
	filepath.Walk(shimDir, func(p string, info os.FileInfo, err error) error {
		if err == nil && !info.IsDir() && strings.HasSuffix(p, ".go") && !strings.HasSuffix(p, "_test.go") {
			rel, _ := filepath.Rel(shimDir, p)
			overlay[filepath.Join(*repo, "zzverif", rel)] = p
		}
		return nil
	})
	for _, a := range sp.add {
		src := filepath.Join(*harness, a[1])
		if _, err := os.Stat(src); err != nil {
			die("add: %v", err)
		}
		overlay[filepath.Join(*repo, a[0], "zz_verif_"+filepath.Base(a[1]))] = src
	}

	var pkgs []string
	for p := range sp.instrument {
		pkgs = append(pkgs, p)
	}
	sort.Strings(pkgs)
	if len(pkgs) > 0 {
		listed := goList(*repo, pkgs)
		fset := token.NewFileSet()
		lookup := func(path string) (io.ReadCloser, error) {
			lp := listed[path]
			if lp == nil || lp.Export == "" {
				return nil, fmt.Errorf("no export data for %s", path)
			}
			return os.Open(lp.Export)
		}
		imp := importer.ForCompiler(fset, "gc", lookup)
		for _, p := range pkgs {
			lp := listed[modPath+"/"+p]
			if lp == nil {
				die("package %s not listed", p)
			}
			if len(lp.CgoFiles) > 0 {
				die("package %s uses cgo; not supported", p)
			}
			rw := &rewriter{fset: fset, sp: sp, pkgdir: p, doTime: sp.timePkgs[p], doLRU: sp.lruPkgs[p], watch: sp.watch[p], watchAll: sp.watchAll[p], watchElems: sp.watchElems[p]}
			rw.load(lp, imp)
			for i, f := range rw.files {
				changed := rw.rewriteFile(f)
				if !changed {
					continue
				}
				dst := filepath.Join(*out, "src", p, filepath.Base(lp.GoFiles[i]))
				os.MkdirAll(filepath.Dir(dst), 0o755)
				var buf bytes.Buffer
				if err := format.Node(&buf, fset, f); err != nil {
					die("print %s: %v", lp.GoFiles[i], err)
				}
				if err := os.WriteFile(dst, buf.Bytes(), 0o644); err != nil {
					die("%v", err)
				}
				overlay[filepath.Join(lp.Dir, lp.GoFiles[i])] = dst
			}
			for c := range sp.setconst[p] {
				if !rw.replaced["const "+c] {
					die("setconst %s %s: no such constant with an initialiser found", p, c)
				}
			}
			for fn := range sp.replace[p] {
				if !rw.replaced[fn] {
					die("replacecall %s %s: no call of such a function found (renamed? the spec must follow the code)", p, fn)
				}
			}
			for w := range rw.watch {
				if !rw.watchHit[w] {
					die("watch %s %s: no access to such a field found (renamed? the watch-list must follow the code)", p, w)
				}
			}
		}
	}
	b, _ := json.MarshalIndent(map[string]interface{}{"Replace": overlay}, "", " ")
	os.MkdirAll(*out, 0o755)
	if err := os.WriteFile(filepath.Join(*out, "overlay.json"), b, 0o644); err != nil {
		die("%v", err)
	}
}

type rewriter struct {
	fset      *token.FileSet
	sp        *spec
	pkgdir    string
	doTime    bool
	doLRU     bool
	watch     map[string]bool
	watchHit  map[string]bool
	watchAll  bool
	watchElems bool
	replaced  map[string]bool
	captured  map[types.Object]bool // local variables referenced from a function literal that does not declare them
	autoN     int
	files     []*ast.File
	info      *types.Info
	needs     map[string]bool // shim imports needed by the current file
	tmpN      int
	generated map[ast.Expr]bool // expressions produced by rewriteWatched (their operand is a non-channel field)
	genType   map[ast.Expr]types.Type // static type of expressions generated by the blanket instrumentation
}

func (rw *rewriter) load(lp *listPkg, imp types.Importer) {
	rw.watchHit = map[string]bool{}
	rw.replaced = map[string]bool{}
	rw.genType = map[ast.Expr]types.Type{}
	for _, gf := range lp.GoFiles {
		f, err := parser.ParseFile(rw.fset, filepath.Join(lp.Dir, gf), nil, parser.ParseComments)
		if err != nil {
			die("parse: %v", err)
		}
		rw.files = append(rw.files, f)
	}
	rw.info = &types.Info{Types: map[ast.Expr]types.TypeAndValue{}, Uses: map[*ast.Ident]types.Object{}, Defs: map[*ast.Ident]types.Object{}, Selections: map[*ast.SelectorExpr]*types.Selection{}}
	conf := types.Config{Importer: imp, Error: func(err error) {}}
	conf.Check(lp.ImportPath, rw.fset, rw.files, rw.info) // best effort; errors tolerated
}

func (rw *rewriter) isChan(e ast.Expr) bool {
	tv, ok := rw.info.Types[e]
	if !ok || tv.Type == nil {
		return false
	}
	_, ok = tv.Type.Underlying().(*types.Chan)
	return ok
}

func (rw *rewriter) typeKnown(e ast.Expr) bool {
	tv, ok := rw.info.Types[e]
	return ok && tv.Type != nil && tv.Type != types.Typ[types.Invalid]
}

// pkgIdent reports whether id refers to the imported package with the given path.
func (rw *rewriter) pkgIdent(id *ast.Ident, path string) bool {
	if pn, ok := rw.info.Uses[id].(*types.PkgName); ok {
		return pn.Imported().Path() == path
	}
	return false
}

func sel(pkg, name string) *ast.SelectorExpr {
	return &ast.SelectorExpr{X: ast.NewIdent(pkg), Sel: ast.NewIdent(name)}
}

func call(pkg, name string, args ...ast.Expr) *ast.CallExpr {
	return &ast.CallExpr{Fun: sel(pkg, name), Args: args}
}

func (rw *rewriter) rewriteFile(f *ast.File) bool {
	changed := false
	rw.needs = map[string]bool{}

	// 1. import path rewriting (local names are preserved)
	for _, im := range f.Imports {
		path := strings.Trim(im.Path.Value, `"`)
		newPath, defName := "", ""
		switch {
		case path == "sync":
			newPath, defName = shimBase+"vsync", "sync"
		case path == "golang.org/x/sync/errgroup":
			newPath, defName = shimBase+"verrgroup", "errgroup"
		case path == "github.com/hashicorp/golang-lru" && rw.doLRU:
			newPath, defName = shimBase+"vlru", "lru"
		}
		if newPath != "" {
			im.Path.Value = `"` + newPath + `"`
			if im.Name == nil {
				im.Name = ast.NewIdent(defName)
			}
			changed = true
		}
	}

	// 2. statement/expression rewriting
	if rw.watchAll {
		rw.findCaptured(f)
	}
	if sc := rw.sp.setconst[rw.pkgdir]; sc != nil {
		for _, d := range f.Decls {
			gd, ok := d.(*ast.GenDecl)
			if !ok || gd.Tok != token.CONST {
				continue
			}
			for _, sp := range gd.Specs {
				vs := sp.(*ast.ValueSpec)
				for i, nm := range vs.Names {
					if v, ok := sc[nm.Name]; ok && i < len(vs.Values) {
						vs.Values[i] = &ast.BasicLit{Kind: token.INT, Value: v}
						rw.replaced["const "+nm.Name] = true
						changed = true
					}
				}
			}
		}
	}
	pre := func(c *astutil.Cursor) bool { return true }
	post := func(c *astutil.Cursor) bool {
		switch n := c.Node().(type) {
		case *ast.GoStmt:
			c.Replace(rw.rewriteGo(n))
			changed = true
		case *ast.SendStmt:
			c.Replace(&ast.ExprStmt{X: call("vsched", "Send", n.Chan, n.Value)})
			rw.needs["vsched"] = true
			changed = true
		case *ast.UnaryExpr:
			if n.Op == token.ARROW {
				// `v, ok := <-ch` is handled at the assignment; plain receive here
				if as, ok := c.Parent().(*ast.AssignStmt); ok && len(as.Lhs) == 2 && len(as.Rhs) == 1 && as.Rhs[0] == n {
					c.Replace(call("vsched", "Recv2", n.X))
				} else if vs, ok := c.Parent().(*ast.ValueSpec); ok && len(vs.Names) == 2 && len(vs.Values) == 1 {
					c.Replace(call("vsched", "Recv2", n.X))
				} else {
					c.Replace(call("vsched", "Recv", n.X))
				}
				rw.needs["vsched"] = true
				changed = true
			}
		case *ast.CallExpr:
			if len(rw.sp.yieldIface) > 0 && rw.yieldCall(n) {
				changed = true
			}
			if rw.watchElems && rw.autoBuiltin(n) {
				changed = true
			}
			if rep := rw.sp.replace[rw.pkgdir]; rep != nil {
				if id, ok := n.Fun.(*ast.Ident); ok && rep[id.Name] != "" {
					if fn, ok := rw.info.Uses[id].(*types.Func); ok && fn.Pkg() != nil && fn.Parent() == fn.Pkg().Scope() {
						n.Fun = ast.NewIdent(rep[id.Name])
						rw.replaced[id.Name] = true
						changed = true
					}
				}
			}
			if id, ok := n.Fun.(*ast.Ident); ok && id.Name == "close" && len(n.Args) == 1 {
				if _, isBuiltin := rw.info.Uses[id].(*types.Builtin); isBuiltin || rw.info.Uses[id] == nil {
					c.Replace(call("vsched", "Close", n.Args[0]))
					rw.needs["vsched"] = true
					changed = true
				}
			}
			if se, ok := n.Fun.(*ast.SelectorExpr); ok && rw.doTime {
				if id, ok := se.X.(*ast.Ident); ok {
					if rw.pkgIdent(id, "time") {
						switch se.Sel.Name {
						case "Now", "Since", "NewTicker", "Sleep":
							n.Fun = sel("vtime", se.Sel.Name)
							rw.needs["vtime"] = true
							changed = true
						case "After", "Tick", "NewTimer", "AfterFunc":
							// left on the real clock: code reaching this under an exploration blocks outside the
							// scheduler and is caught by the watchdog as an infrastructure error, never a verdict
							fmt.Fprintf(os.Stderr, "vrewrite: note: %s: time.%s left uninstrumented\n", rw.fset.Position(n.Pos()), se.Sel.Name)
						}
					}
				}
			}
			if se, ok := n.Fun.(*ast.SelectorExpr); ok {
				if id, ok := se.X.(*ast.Ident); ok && rw.pkgIdent(id, "context") {
					switch se.Sel.Name {
					case "WithTimeout":
						n.Fun = sel("vctx", "WithTimeout")
						rw.needs["vctx"] = true
						changed = true
					case "WithDeadline", "WithCancel":
						die("%s: context.%s is not supported by the instrumenter", rw.fset.Position(n.Pos()), se.Sel.Name)
					}
				}
			}
		case *ast.RangeStmt:
			if rw.isChan(n.X) {
				c.Replace(rw.rewriteRangeChan(n))
				changed = true
			} else if rw.generated[n.X] {
				// a watch wrapper around a (non-channel) field: plain range
			} else if !rw.typeKnown(n.X) {
				die("%s: cannot determine the type of the range operand (type check incomplete)", rw.fset.Position(n.Pos()))
			}
		case *ast.SelectStmt:
			c.Replace(rw.rewriteSelect(n))
			changed = true
		case *ast.SelectorExpr:
			if w := rw.watched(n); w != "" {
				if rw.rewriteWatched(c, n, w) {
					changed = true
				}
			} else if rw.watchAll && rw.autoSelector(c, n) {
				changed = true
			}
		case *ast.Ident:
			if rw.watchAll && rw.autoIdent(c, n) {
				changed = true
			}
		case *ast.IndexExpr:
			if rw.watchElems && rw.autoIndex(c, n) {
				changed = true
			}
		}
		return true
	}
	astutil.Apply(f, pre, post)

	if !changed {
		return false
	}
	// 3. imports for shims used by generated code
	for name := range rw.needs {
		astutil.AddNamedImport(rw.fset, f, name, shimBase+name)
	}
	// drop imports that became unused (time/context may no longer be referenced)
	for _, p := range []string{"time", "context"} {
		if !astutil.UsesImport(f, p) {
			astutil.DeleteImport(rw.fset, f, p)
		}
	}
	// 4. comments: keep only those before the package clause (build constraints,
	// licence) – comments inside rewritten code could be re-attached wrongly.
	var keep []*ast.CommentGroup
	for _, cg := range f.Comments {
		if cg.End() < f.Package {
			keep = append(keep, cg)
		}
	}
	f.Comments = keep
	ast.Inspect(f, func(n ast.Node) bool {
		switch x := n.(type) {
		case *ast.FuncDecl:
			x.Doc = nil
		case *ast.GenDecl:
			x.Doc = nil
		case *ast.Field:
			x.Doc, x.Comment = nil, nil
		case *ast.ValueSpec:
			x.Doc, x.Comment = nil, nil
		case *ast.TypeSpec:
			x.Doc, x.Comment = nil, nil
		case *ast.ImportSpec:
			x.Doc, x.Comment = nil, nil
		}
		return true
	})
	return true
}

func (rw *rewriter) tmp(prefix string) *ast.Ident {
	rw.tmpN++
	return ast.NewIdent(fmt.Sprintf("_v%s%d", prefix, rw.tmpN))
}

// go f(a, b)  =>  { _va1, _va2 := a, b; vsched.Go(func() { f(_va1, _va2) }) }
// (function value and arguments are evaluated at the go statement, as in Go)
func (rw *rewriter) rewriteGo(g *ast.GoStmt) ast.Stmt {
	rw.needs["vsched"] = true
	callExpr := g.Call
	if fl, ok := callExpr.Fun.(*ast.FuncLit); ok && len(callExpr.Args) == 0 {
		return &ast.ExprStmt{X: call("vsched", "Go", fl)}
	}
	var lhs, rhs []ast.Expr
	newArgs := make([]ast.Expr, len(callExpr.Args))
	for i, a := range callExpr.Args {
		id := rw.tmp("a")
		lhs = append(lhs, id)
		rhs = append(rhs, a)
		newArgs[i] = id
	}
	fun := callExpr.Fun
	// method values / function expressions: evaluate the receiver expression now when it is not a plain identifier chain
	inner := &ast.CallExpr{Fun: fun, Args: newArgs, Ellipsis: callExpr.Ellipsis}
	body := &ast.BlockStmt{List: []ast.Stmt{&ast.ExprStmt{X: inner}}}
	goCall := &ast.ExprStmt{X: call("vsched", "Go", &ast.FuncLit{Type: &ast.FuncType{Params: &ast.FieldList{}}, Body: body})}
	if len(lhs) == 0 {
		return goCall
	}
	return &ast.BlockStmt{List: []ast.Stmt{&ast.AssignStmt{Lhs: lhs, Tok: token.DEFINE, Rhs: rhs}, goCall}}
}

// for k := range ch { B }  =>  for { k, _vok := vsched.Recv2(ch); if !_vok { break }; B }
func (rw *rewriter) rewriteRangeChan(r *ast.RangeStmt) ast.Stmt {
	rw.needs["vsched"] = true
	ok := rw.tmp("ok")
	var key ast.Expr = ast.NewIdent("_")
	tok := token.DEFINE
	if r.Key != nil {
		key = r.Key
		tok = r.Tok
	}
	var recv ast.Stmt
	if tok == token.ASSIGN {
		// range with assignment to existing variable: declare ok separately
		recv = &ast.BlockStmt{}
		die("%s: range over channel with '=' is not supported", rw.fset.Position(r.Pos()))
	} else {
		recv = &ast.AssignStmt{Lhs: []ast.Expr{key, ok}, Tok: token.DEFINE, Rhs: []ast.Expr{call("vsched", "Recv2", r.X)}}
	}
	brk := &ast.IfStmt{Cond: &ast.UnaryExpr{Op: token.NOT, X: ok}, Body: &ast.BlockStmt{List: []ast.Stmt{&ast.BranchStmt{Tok: token.BREAK}}}}
	stmts := []ast.Stmt{recv, brk}
	if r.Key == nil {
		// nothing bound
	}
	stmts = append(stmts, r.Body.List...)
	return &ast.ForStmt{Body: &ast.BlockStmt{List: stmts}}
}

// select { case ...: B }  =>  switch _vs := vsched.Select(hasDefault, cases...); _vs.Index { case i: bind; B }
func (rw *rewriter) rewriteSelect(s *ast.SelectStmt) ast.Stmt {
	rw.needs["vsched"] = true
	selID := rw.tmp("sel")
	var cases []ast.Expr
	var clauses []ast.Stmt
	hasDefault := false
	idx := 0
	for _, cl := range s.Body.List {
		cc := cl.(*ast.CommClause)
		if cc.Comm == nil {
			hasDefault = true
			clauses = append(clauses, &ast.CaseClause{List: []ast.Expr{&ast.BasicLit{Kind: token.INT, Value: "-1"}}, Body: cc.Body})
			continue
		}
		var bind ast.Stmt
		switch c := cc.Comm.(type) {
		case *ast.ExprStmt: // case <-ch: (already rewritten to vsched.Recv(ch)) or case ch <- v: (vsched.Send(ch, v))
			if ce, ok := c.X.(*ast.CallExpr); ok {
				if se, ok := ce.Fun.(*ast.SelectorExpr); ok && se.Sel.Name == "Send" {
					if id, ok := se.X.(*ast.Ident); ok && id.Name == "vsched" {
						cases = append(cases, call("vsched", "SendCase", ce.Args...))
						break
					}
				}
			}
			ch := recvOperand(c.X)
			if ch == nil {
				die("%s: unsupported select case", rw.fset.Position(cc.Pos()))
			}
			cases = append(cases, call("vsched", "RecvCase", ch))
		case *ast.AssignStmt: // case v := <-ch / v, ok := <-ch / v = <-ch
			ch := recvOperand(c.Rhs[0])
			if ch == nil {
				die("%s: unsupported select case", rw.fset.Position(cc.Pos()))
			}
			cases = append(cases, call("vsched", "RecvCase", ch))
			fn := "SelRecv"
			if len(c.Lhs) == 2 {
				fn = "SelRecv2"
			}
			bind = &ast.AssignStmt{Lhs: c.Lhs, Tok: c.Tok, Rhs: []ast.Expr{call("vsched", fn, selID, ch)}}
		default:
			// send case: already rewritten to ExprStmt{vsched.Send(ch, v)}
			die("%s: unsupported select case", rw.fset.Position(cc.Pos()))
		}
		body := cc.Body
		if bind != nil {
			body = append([]ast.Stmt{bind}, body...)
			// a bound variable that is unused in the body would not compile: reference it
			if as := bind.(*ast.AssignStmt); as.Tok == token.DEFINE {
				for _, l := range as.Lhs {
					if id, ok := l.(*ast.Ident); ok && id.Name != "_" {
						body = append(body[:1], append([]ast.Stmt{&ast.AssignStmt{Lhs: []ast.Expr{ast.NewIdent("_")}, Tok: token.ASSIGN, Rhs: []ast.Expr{ast.NewIdent(id.Name)}}}, body[1:]...)...)
					}
				}
			}
		}
		clauses = append(clauses, &ast.CaseClause{List: []ast.Expr{&ast.BasicLit{Kind: token.INT, Value: fmt.Sprint(idx)}}, Body: body})
		idx++
	}
	hd := "false"
	if hasDefault {
		hd = "true"
	}
	args := append([]ast.Expr{ast.NewIdent(hd)}, cases...)
	init := &ast.AssignStmt{Lhs: []ast.Expr{selID}, Tok: token.DEFINE, Rhs: []ast.Expr{call("vsched", "Select", args...)}}
	return &ast.SwitchStmt{Init: init, Tag: &ast.SelectorExpr{X: selID, Sel: ast.NewIdent("Index")}, Body: &ast.BlockStmt{List: clauses}}
}

// recvOperand returns ch from an (already rewritten) vsched.Recv(ch)/Recv2(ch) call or a raw <-ch.
func recvOperand(e ast.Expr) ast.Expr {
	switch x := e.(type) {
	case *ast.CallExpr:
		if se, ok := x.Fun.(*ast.SelectorExpr); ok {
			if id, ok := se.X.(*ast.Ident); ok && id.Name == "vsched" && (se.Sel.Name == "Recv" || se.Sel.Name == "Recv2") {
				return x.Args[0]
			}
		}
	case *ast.UnaryExpr:
		if x.Op == token.ARROW {
			return x.X
		}
	case *ast.ParenExpr:
		return recvOperand(x.X)
	}
	return nil
}

// watched returns "Type.field" if n selects a watch-listed struct field.
func (rw *rewriter) watched(n *ast.SelectorExpr) string {
	if len(rw.watch) == 0 {
		return ""
	}
	s := rw.info.Selections[n]
	if s == nil || s.Kind() != types.FieldVal {
		return ""
	}
	recv := s.Recv()
	if p, ok := recv.(*types.Pointer); ok {
		recv = p.Elem()
	}
	named, ok := recv.(*types.Named)
	if !ok {
		return ""
	}
	// for promoted fields use the struct that declares the field
	name := named.Obj().Name() + "." + s.Obj().Name()
	if rw.watch[name] {
		return name
	}
	return ""
}

func (rw *rewriter) rewriteWatched(c *astutil.Cursor, n *ast.SelectorExpr, w string) bool {
	// Skip composite-literal keys and method-value/address-of contexts we cannot express.
	parent := c.Parent()
	if kv, ok := parent.(*ast.KeyValueExpr); ok && kv.Key == n {
		return false
	}
	if u, ok := parent.(*ast.UnaryExpr); ok && u.Op == token.AND {
		// &x.f escapes: treat as a write (conservative) – but keep the expression
		rw.watchHit[w] = true
		rw.needs["vsched"] = true
		// parent is &(...): replace whole parent is not possible from here; emit *W(&x.f) under & is fine: &*p == p
		c.Replace(&ast.StarExpr{X: call("vsched", "W", &ast.UnaryExpr{Op: token.AND, X: n}, strLit(w))})
		return true
	}
	write := false
	switch p := parent.(type) {
	case *ast.AssignStmt:
		for _, l := range p.Lhs {
			if l == n {
				write = true
			}
		}
	case *ast.IncDecStmt:
		write = p.X == n
	case *ast.IndexExpr:
		// x.f[i] = v / x.f[i]++ / delete handled below: need the grandparent; approximate by
		// looking at whether the IndexExpr is an assignment target via position scan
		if p.X == n && rw.indexIsWritten(p) {
			write = true
		}
	case *ast.CallExpr:
		if id, ok := p.Fun.(*ast.Ident); ok && id.Name == "delete" && len(p.Args) > 0 && p.Args[0] == n {
			write = true
		}
	}
	fn := "R"
	if write {
		fn = "W"
	}
	rw.watchHit[w] = true
	rw.needs["vsched"] = true
	if tv, ok := rw.info.Types[n]; ok && tv.Type != nil {
		if _, isChan := tv.Type.Underlying().(*types.Chan); isChan {
			die("%s: watch-listed field %s is a channel; not supported", rw.fset.Position(n.Pos()), w)
		}
	}
	wrapped := &ast.ParenExpr{X: &ast.StarExpr{X: call("vsched", fn, &ast.UnaryExpr{Op: token.AND, X: n}, strLit(w))}}
	if rw.generated == nil {
		rw.generated = map[ast.Expr]bool{}
	}
	rw.generated[wrapped] = true
	c.Replace(wrapped)
	return true
}

// written index expressions are collected lazily per file
func (rw *rewriter) indexIsWritten(ix *ast.IndexExpr) bool {
	for _, f := range rw.files {
		if ix.Pos() < f.Pos() || ix.Pos() > f.End() {
			continue
		}
		found := false
		ast.Inspect(f, func(n ast.Node) bool {
			switch s := n.(type) {
			case *ast.AssignStmt:
				for _, l := range s.Lhs {
					if l == ix {
						found = true
					}
				}
			case *ast.IncDecStmt:
				if s.X == ix {
					found = true
				}
			}
			return !found
		})
		return found
	}
	return false
}

func strLit(s string) ast.Expr { return &ast.BasicLit{Kind: token.STRING, Value: fmt.Sprintf("%q", s)} }

// ---- blanket race instrumentation (watchall) ----

// findCaptured records the local variables of f that are used inside a function literal which does not
// declare them: the only locals that two goroutines can share without going through a struct or a global.
func (rw *rewriter) findCaptured(f *ast.File) {
	if rw.captured == nil {
		rw.captured = map[types.Object]bool{}
	}
	var lits []*ast.FuncLit
	var visit func(n ast.Node) bool
	visit = func(n ast.Node) bool {
		switch x := n.(type) {
		case *ast.FuncLit:
			lits = append(lits, x)
			ast.Inspect(x.Body, visit)
			lits = lits[:len(lits)-1]
			return false
		case *ast.Ident:
			if len(lits) == 0 {
				return true
			}
			v, ok := rw.info.Uses[x].(*types.Var)
			if !ok || v.IsField() || v.Pkg() == nil || v.Parent() == nil || v.Parent() == v.Pkg().Scope() {
				return true
			}
			for _, fl := range lits {
				if v.Pos() < fl.Pos() || v.Pos() >= fl.End() {
					rw.captured[v] = true
				}
			}
		}
		return true
	}
	ast.Inspect(f, visit)
}

// skipType: synchronisation objects and channels are handled by their own shims; wrapping them would also
// hide their type from the channel rewrites.
func skipType(t types.Type) bool {
	if t == nil {
		return true
	}
	if _, ok := t.Underlying().(*types.Chan); ok {
		return true
	}
	if p, ok := t.(*types.Pointer); ok {
		t = p.Elem()
	}
	if n, ok := t.(*types.Named); ok && n.Obj().Pkg() != nil {
		switch n.Obj().Pkg().Path() {
		case "sync", "sync/atomic":
			return true
		}
	}
	return false
}

func inModule(pkg *types.Package) bool {
	return pkg != nil && (pkg.Path() == modPath || strings.HasPrefix(pkg.Path(), modPath+"/")) && !strings.Contains(pkg.Path(), "/zzverif/")
}

// accessKind classifies the use of expression n (child of parent): 0 = no event, 1 = read, 2 = write.
func (rw *rewriter) accessKind(parent ast.Node, n ast.Expr) int {
	switch p := parent.(type) {
	case *ast.UnaryExpr:
		if p.Op == token.AND {
			return 0 // taking the address is not an access
		}
	case *ast.AssignStmt:
		for _, l := range p.Lhs {
			if l == n {
				if p.Tok == token.DEFINE {
					return 0
				}
				return 2
			}
		}
	case *ast.IncDecStmt:
		if p.X == n {
			return 2
		}
	case *ast.RangeStmt:
		if p.Key == n || p.Value == n {
			return 0
		}
	case *ast.IndexExpr:
		// m[k] = v / m[k]++ writes the map; an element write of a slice or array only reads the header
		if p.X == n && rw.indexIsWritten(p) {
			if tv, ok := rw.info.Types[n]; ok && tv.Type != nil {
				if _, isMap := tv.Type.Underlying().(*types.Map); isMap {
					return 2
				}
			}
		}
	case *ast.CallExpr:
		if id, ok := p.Fun.(*ast.Ident); ok && id.Name == "delete" && len(p.Args) > 0 && p.Args[0] == n {
			return 2
		}
	}
	return 1
}

func (rw *rewriter) wrapAuto(c *astutil.Cursor, n ast.Expr, kind int, name string) bool {
	fn := "RN"
	if kind == 2 {
		fn = "WN"
	}
	rw.needs["vsched"] = true
	rw.autoN++
	wrapped := &ast.ParenExpr{X: &ast.StarExpr{X: call("vsched", fn, &ast.UnaryExpr{Op: token.AND, X: n}, strLit(name))}}
	if rw.generated == nil {
		rw.generated = map[ast.Expr]bool{}
	}
	rw.generated[wrapped] = true
	if t := rw.typeOf(n); t != nil {
		rw.genType[wrapped] = t
	}
	c.Replace(wrapped)
	return true
}

func (rw *rewriter) autoSelector(c *astutil.Cursor, n *ast.SelectorExpr) bool {
	// package-qualified variable of the module: pkg.Var
	if id, ok := n.X.(*ast.Ident); ok {
		if _, isPkg := rw.info.Uses[id].(*types.PkgName); isPkg {
			v, ok := rw.info.Uses[n.Sel].(*types.Var)
			if !ok || !inModule(v.Pkg()) || skipType(v.Type()) {
				return false
			}
			k := rw.accessKind(c.Parent(), n)
			if k == 0 {
				return false
			}
			return rw.wrapAuto(c, n, k, "var "+v.Pkg().Name()+"."+v.Name())
		}
	}
	s := rw.info.Selections[n]
	if s == nil || s.Kind() != types.FieldVal {
		return false
	}
	tv, ok := rw.info.Types[n]
	if !ok || !tv.Addressable() || skipType(tv.Type) {
		return false
	}
	fld, ok := s.Obj().(*types.Var)
	if !ok || !inModule(fld.Pkg()) {
		return false
	}
	recv := s.Recv()
	if p, ok := recv.(*types.Pointer); ok {
		recv = p.Elem()
	}
	tname := "struct"
	if named, ok := recv.(*types.Named); ok {
		tname = named.Obj().Name()
	}
	if kv, ok := c.Parent().(*ast.KeyValueExpr); ok && kv.Key == n {
		return false
	}
	k := rw.accessKind(c.Parent(), n)
	if k == 0 {
		return false
	}
	return rw.wrapAuto(c, n, k, tname+"."+fld.Name())
}

func (rw *rewriter) autoIdent(c *astutil.Cursor, id *ast.Ident) bool {
	v, ok := rw.info.Uses[id].(*types.Var)
	if !ok || v.IsField() || v.Pkg() == nil || skipType(v.Type()) {
		return false
	}
	switch p := c.Parent().(type) {
	case *ast.SelectorExpr:
		if p.Sel == id {
			return false
		}
	case *ast.KeyValueExpr:
		if p.Key == id {
			if _, isStructLit := rw.info.Uses[id].(*types.Var); isStructLit && v.IsField() {
				return false
			}
		}
	}
	name := ""
	switch {
	case v.Parent() == v.Pkg().Scope():
		if !inModule(v.Pkg()) {
			return false
		}
		name = "var " + v.Pkg().Name() + "." + v.Name()
	case rw.captured[v]:
		pos := rw.fset.Position(v.Pos())
		name = fmt.Sprintf("local %s (%s)", v.Name(), filepath.Base(pos.Filename))
	default:
		return false
	}
	k := rw.accessKind(c.Parent(), id)
	if k == 0 {
		return false
	}
	return rw.wrapAuto(c, id, k, name)
}

// yieldCall rewrites  x.M(args)  to  vsched.Pt(x, "Iface.M", write).M(args)  when the static type of x is a
// listed interface: a scheduling point on the called object between the evaluation of x and the call.
func (rw *rewriter) yieldCall(n *ast.CallExpr) bool {
	se, ok := n.Fun.(*ast.SelectorExpr)
	if !ok {
		return false
	}
	s := rw.info.Selections[se]
	if s == nil || s.Kind() != types.MethodVal {
		return false
	}
	named, ok := s.Recv().(*types.Named)
	if !ok || named.Obj().Pkg() == nil {
		return false
	}
	if _, isIface := named.Underlying().(*types.Interface); !isIface {
		return false
	}
	writes, ok := rw.sp.yieldIface[named.Obj().Pkg().Path()+"."+named.Obj().Name()]
	if !ok {
		return false
	}
	w := "false"
	if writes[se.Sel.Name] {
		w = "true"
	}
	rw.needs["vsched"] = true
	se.X = call("vsched", "Pt", se.X, strLit(named.Obj().Name()+"."+se.Sel.Name), ast.NewIdent(w))
	return true
}

// ---- element-level instrumentation (watchelems) ----

func (rw *rewriter) elemName(n ast.Node) string {
	p := n.Pos()
	switch x := n.(type) { // operands may already be generated nodes without a position
	case *ast.IndexExpr:
		p = x.Lbrack
	case *ast.CallExpr:
		p = x.Lparen
	}
	pos := rw.fset.Position(p)
	return "element (" + filepath.Base(pos.Filename) + ")"
}

// typeOf returns the recorded type of e, looking through the wrappers this instrumenter generated.
func (rw *rewriter) typeOf(e ast.Expr) types.Type {
	if tv, ok := rw.info.Types[e]; ok && tv.Type != nil {
		return tv.Type
	}
	if t, ok := rw.genType[e]; ok {
		return t
	}
	return nil
}

// autoIndex wraps x[i] for slices, arrays (addressable) and pointers to arrays as an element access, and for
// maps records a read/write of the map itself.
func (rw *rewriter) autoIndex(c *astutil.Cursor, n *ast.IndexExpr) bool {
	xt := rw.typeOf(n.X)
	if xt == nil {
		return false
	}
	k := rw.accessKind(c.Parent(), n)
	switch u := xt.Underlying().(type) {
	case *types.Map:
		// v := m[k] / v, ok := m[k] / m[k] = v / m[k]++ : wrap the map operand
		fn := "MapR"
		if k == 2 {
			fn = "MapW"
		}
		if _, isTypeParam := xt.(*types.TypeParam); isTypeParam {
			return false
		}
		rw.needs["vsched"] = true
		w := call("vsched", fn, n.X, strLit("map "+rw.elemName(n)))
		rw.genType[w] = xt
		n.X = w
		return true
	case *types.Slice:
		_ = u
	case *types.Array:
		if tv, ok := rw.info.Types[n.X]; !ok || !tv.Addressable() {
			return false
		}
	case *types.Pointer:
		if _, isArr := u.Elem().Underlying().(*types.Array); !isArr {
			return false
		}
	default:
		return false // strings, type parameters
	}
	if k == 0 {
		return false
	}
	et := rw.typeOf(n)
	if et != nil && skipType(et) {
		return false
	}
	return rw.wrapAuto(c, n, k, rw.elemName(n))
}

// autoBuiltin: append(a, xs...) writes a's backing array; copy(dst, src) writes dst and reads src.
func (rw *rewriter) autoBuiltin(n *ast.CallExpr) bool {
	id, ok := n.Fun.(*ast.Ident)
	if !ok {
		return false
	}
	if _, isBuiltin := rw.info.Uses[id].(*types.Builtin); !isBuiltin {
		return false
	}
	isSlice := func(e ast.Expr) bool {
		t := rw.typeOf(e)
		if t == nil {
			return false
		}
		_, ok := t.Underlying().(*types.Slice)
		if _, tp := t.(*types.TypeParam); tp {
			return false
		}
		return ok
	}
	wrap := func(fn string, e ast.Expr) ast.Expr {
		rw.needs["vsched"] = true
		w := call("vsched", fn, e, strLit(rw.elemName(n)))
		rw.genType[w] = rw.typeOf(e)
		return w
	}
	switch id.Name {
	case "append":
		if len(n.Args) == 0 || !isSlice(n.Args[0]) {
			return false
		}
		n.Args[0] = wrap("AppendW", n.Args[0])
		if n.Ellipsis.IsValid() && len(n.Args) == 2 && isSlice(n.Args[1]) {
			n.Args[1] = wrap("SliceR", n.Args[1])
		}
		return true
	case "delete":
		if len(n.Args) != 2 {
			return false
		}
		if t := rw.typeOf(n.Args[0]); t != nil {
			if _, isMap := t.Underlying().(*types.Map); isMap {
				if _, tp := t.(*types.TypeParam); !tp {
					rw.needs["vsched"] = true
					w := call("vsched", "MapW", n.Args[0], strLit("map "+rw.elemName(n)))
					rw.genType[w] = t
					n.Args[0] = w
					return true
				}
			}
		}
		return false
	case "copy":
		if len(n.Args) != 2 || !isSlice(n.Args[0]) {
			return false
		}
		n.Args[0] = wrap("SliceW", n.Args[0])
		if isSlice(n.Args[1]) {
			n.Args[1] = wrap("SliceR", n.Args[1])
		}
		return true
	}
	return false
}
