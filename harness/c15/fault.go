package main

import (
	"fmt"
	"strings"
	"sync/atomic"

	"github.com/facebookincubator/dns/dnsrocks/dnsdata/rdb"

	"verifharness/vlib"
)

// The native layer. rdb.RDB reaches RocksDB through the interface field RDB.db;
// exports/rdb_c15_fault.go puts a recording / faulting layer there. It gives the
// check two things the read API cannot give:
//
//   - "in one atomic step": RocksDB applies ONE native write (Put, Delete or one
//     write batch) completely or not at all, and nothing else is atomic. The layer
//     dumps the store immediately before every non-empty native write after the
//     first one of an operation: each such dump is a state of the map that a
//     reader, or a crash, can see. It must be the map before the operation or the
//     map after it.
//   - "a batch that fails changes nothing" (and the same for Add / Del): every
//     native call an operation makes is made to fail in turn; the operation must
//     then either report an error and leave the store as it was, or report
//     success and have had its full specified effect.

// trace is what the layer recorded about one operation.
type trace struct {
	calls         []rdb.NativeCallForVerif
	injected      bool
	nonEmpty      int                   // native writes carrying at least one operation
	intermediates []map[string][]string // decoded dumps taken between native writes
	dumpErr       error
}

func endTrace(fl *rdb.FaultDBIForVerif) trace {
	calls, injected, nonEmpty, inter, derr := fl.End()
	t := trace{calls: append([]rdb.NativeCallForVerif(nil), calls...), injected: injected, nonEmpty: nonEmpty, dumpErr: derr}
	for _, raw := range inter {
		d, err := decodeDump(raw)
		if err != nil && t.dumpErr == nil {
			t.dumpErr = err
		}
		t.intermediates = append(t.intermediates, d)
	}
	return t
}

func isWrite(method string) bool {
	return method == "Put" || method == "Delete" || method == "ExecuteBatch"
}

// writeCalls: native write calls of the operation, empty ones included.
func (t trace) writeCalls() int {
	n := 0
	for _, c := range t.calls {
		if isWrite(c.Method) {
			n++
		}
	}
	return n
}

func (t trace) String() string {
	p := make([]string, len(t.calls))
	for i, c := range t.calls {
		p[i] = fmt.Sprintf("%s(%d)", c.Method, c.N)
	}
	return strings.Join(p, " ")
}

// batchResult compares the store after a successful batch with the model:
// keys the batch names as multisets, the other keys exactly.
func batchResult(before, want content, touched [nKeys]bool, got content) (ok, strict bool) {
	ok, strict = true, true
	for k := 0; k < nKeys; k++ {
		if touched[k] {
			if !eqMultiset(got[k], want[k]) {
				ok = false
			}
			if !eqList(got[k], want[k]) {
				strict = false
			}
		} else if !eqList(got[k], before[k]) {
			ok = false
		}
	}
	return ok, strict
}

// successLegal: is `got` a store content the statement permits after operation o
// reported success on content `before`?
func successLegal(before content, o op, got content) bool {
	switch o.kind {
	case opAdd:
		return got.equal(modelAdd(before, o.e[0].k, valNames[o.e[0].v]))
	case opDel:
		acc, fails := modelDel(before, o.e[0].k, valNames[o.e[0].v])
		if fails {
			return false
		}
		for _, a := range acc {
			if got.equal(a) {
				return true
			}
		}
		return false
	default:
		want, touched, fails := modelBatch(before, o.e)
		if fails {
			return false
		}
		ok, _ := batchResult(before, want, touched, got)
		return ok
	}
}

// checkAtomic: every state the store went through between the native writes of
// the operation must be the state before it or the state after it.
func (w *worker) checkAtomic(before content, o op, got content, err error, tr trace) bool {
	if tr.nonEmpty > 1 {
		atomic.AddInt64(&w.ct.multiWriteOps, 1)
	}
	for {
		m := atomic.LoadInt64(&w.ct.maxNonEmptyWrites)
		if int64(tr.nonEmpty) <= m || atomic.CompareAndSwapInt64(&w.ct.maxNonEmptyWrites, m, int64(tr.nonEmpty)) {
			break
		}
	}
	if tr.dumpErr != nil {
		w.fs.add(failure{kind: "intermediate-dump-error", c: before, o: o, detail: fmt.Sprintf("store %s, operation %s: dump between native writes: %v", before, o, tr.dumpErr)})
		return false
	}
	atomic.AddInt64(&w.ct.evaluations, int64(len(tr.intermediates)))
	for i, d := range tr.intermediates {
		if eqDump(d, expectDump(before)) || eqDump(d, expectDump(got)) {
			continue
		}
		w.fs.add(failure{kind: "not-atomic", c: before, o: o,
			detail: fmt.Sprintf("store %s, operation %s: native calls %s; between non-empty native write %d and %d the store held %s, which is neither the map before the operation nor the map after it (%s): the operation is not one atomic step\nreturned error: %v", before, o, tr, i+1, i+2, dumpString(d), got, err)})
		return false
	}
	return true
}

// faultRuns: operation o on state s made the native calls tr.calls. Each of them
// fails in turn (GetMulti: in each slot of its error slice in turn).
func (w *worker) faultRuns(s state, o op, useCreateBatch bool, tr trace) {
	before := s.content()
	atomic.AddInt64(&w.ct.faultOps, 1)
	for k, call := range tr.calls {
		slots := 1
		if call.Method == "GetMulti" {
			slots = call.N
		}
		for j := 0; j < slots; j++ {
			if !w.install(s) {
				return
			}
			err, panicked, ft := w.apply(o, useCreateBatch, k+1, j)
			where := fmt.Sprintf("%s#%d", call.Method, k+1)
			if call.Method == "GetMulti" {
				where += fmt.Sprintf("[%d]", j)
			}
			if panicked != nil {
				w.fs.add(failure{kind: "fault-panic-" + where, c: before, o: o, detail: fmt.Sprintf("store %s, operation %s with native call %s failing: panic: %v", before, o, where, panicked)})
				w.hardReset()
				return
			}
			if !ft.injected || len(ft.calls) < k+1 || ft.calls[k] != call {
				vlib.Infra("C15: operation %s on %s made native calls %q, a second execution from the same content %q: not deterministic", o, before, tr.String(), ft.String())
			}
			got, problems := w.readLists()
			w.cur = got
			w.readProblems(got, problems)
			atomic.AddInt64(&w.ct.faultRuns, 1)
			atomic.AddInt64(&w.ct.evaluations, 1+nKeys)
			switch call.Method {
			case "Get":
				atomic.AddInt64(&w.ct.faultGet, 1)
			case "GetMulti":
				atomic.AddInt64(&w.ct.faultGetMulti, 1)
			case "Put":
				atomic.AddInt64(&w.ct.faultPut, 1)
			case "Delete":
				atomic.AddInt64(&w.ct.faultDelete, 1)
			case "ExecuteBatch":
				atomic.AddInt64(&w.ct.faultExecuteBatch, 1)
			}
			if len(before[0])+len(before[1]) == 0 && len(o.e) == 2 && o.e[0] == (entry{false, 0, 1}) && o.e[1].k == 1 && o.e[1].v == 3 {
				w.fs.sample(fmt.Sprintf("fault: %s --%s with native call %s failing--> %s, error %v; native calls %s", before, o, where, got, err, ft))
			}
			tail := fmt.Sprintf("\nnative calls of this execution: %s\nreturned error: %v\nstore afterwards: %s", ft, err, got)
			if err != nil {
				if !got.equal(before) || len(problems) > 0 {
					w.fs.add(failure{kind: "fault-effect-" + where, c: before, o: o,
						detail: fmt.Sprintf("store %s, operation %s with native call %s failing: the operation reported an error but changed the store (an operation that fails must change nothing)", before, o, where) + tail})
				}
				continue
			}
			// the native failure was not reported: then the operation must have done all it promises
			if successLegal(before, o, got) && len(problems) == 0 {
				atomic.AddInt64(&w.ct.faultSwallowedLegal, 1)
				continue
			}
			w.fs.add(failure{kind: "fault-swallowed-" + where, c: before, o: o,
				detail: fmt.Sprintf("store %s, operation %s with native call %s failing: the operation reported success, but the store is not what the operation must produce", before, o, where) + tail})
		}
	}
}
