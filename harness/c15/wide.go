package main

import (
	"fmt"
	"os"
	"path/filepath"
	"sort"
	"sync"
	"sync/atomic"

	"github.com/facebookincubator/dns/dnsrocks/dnsdata/rdb"

	"verifharness/vlib"
)

// The wide part: batches over MANY distinct keys and of MANY lines, around the
// size constant of the package (rdb.DefaultBatchSize, scaled down to S in this
// binary, see OVERLAY): every number n of distinct keys from 1 to 3S+1, three
// store contents, batch families that add, delete, mix, add-and-delete, replace
// and fail at every position, built with RDB.CreateBatch (capacity S lines) and
// on the zero Batch; for one key every number of lines from 1 to 3S+1. Each case
// is executed unfaulted (result against the model, atomicity) and then once per
// native call with that call failing (a failing batch changes nothing). The store
// is observed by a complete raw dump of the open database.

type wline struct {
	del      bool
	key, val string
}

func (l wline) String() string {
	sign := "+"
	if l.del {
		sign = "-"
	}
	return fmt.Sprintf("%s%s:%q", sign, l.key, l.val)
}

type wbatch struct {
	family string // add, del, mixed, adddel, replace, addx (one deletion without target), lines, flip
	ord    int    // addx: position of the failing deletion; lines/flip: number of lines
	lines  []wline
}

func (b wbatch) String() string {
	s := "batch["
	for i, l := range b.lines {
		if i > 0 {
			s += ","
		}
		s += l.String()
	}
	return s + "]"
}

type wpre struct {
	name string
	m    map[string][]string
}

func wkey(i int) string { return fmt.Sprintf("w%02d", i) }

// widePres: the store contents a wide case starts from. w00 is a bystander no batch names.
func widePres(n int) []wpre {
	full := map[string][]string{wkey(0): {"b"}}
	odd := map[string][]string{wkey(0): {"b"}}
	for i := 1; i <= n; i++ {
		full[wkey(i)] = []string{"a"}
		if i%2 == 1 {
			odd[wkey(i)] = []string{"a", "ab"}
		}
	}
	return []wpre{{"empty", map[string][]string{}}, {"full", full}, {"odd", odd}}
}

// wideBatches: the batch families over keys w01..wn. Lines are listed in DESCENDING key order
// (the implementation sorts them).
func wideBatches(n, maxLines int) []wbatch {
	var add, del, mixed, adddel, replace []wline
	for i := n; i >= 1; i-- {
		k := wkey(i)
		add = append(add, wline{false, k, "b"})
		del = append(del, wline{true, k, "a"})
		if i%2 == 1 {
			mixed = append(mixed, wline{true, k, "a"})
		} else {
			mixed = append(mixed, wline{false, k, "b"})
		}
		adddel = append(adddel, wline{false, k, "ba"}, wline{true, k, "ba"})
		replace = append(replace, wline{true, k, "a"}, wline{false, k, "b"})
	}
	out := []wbatch{{"add", 0, add}, {"del", 0, del}, {"mixed", 0, mixed}, {"adddel", 0, adddel}, {"replace", 0, replace}}
	for p := 1; p <= n; p++ {
		l := append([]wline(nil), add...)
		l = append(l, wline{true, wkey(p), "ba"}) // never present, not even after the additions
		out = append(out, wbatch{"addx", p, l})
	}
	if n == 1 {
		for L := 1; L <= maxLines; L++ {
			var lines, flip []wline
			for i := 0; i < L; i++ {
				lines = append(lines, wline{false, wkey(1), valNames[i%len(valNames)]})
				flip = append(flip, wline{i%2 == 1, wkey(1), "a"})
			}
			out = append(out, wbatch{"lines", L, lines}, wbatch{"flip", L, flip})
		}
	}
	return out
}

// wModel: all additions, then all deletions; fails (and changes nothing) if a deletion has no target.
func wModel(before map[string][]string, lines []wline) (want map[string][]string, touched map[string]bool, fails bool) {
	want = map[string][]string{}
	for k, l := range before {
		want[k] = append([]string(nil), l...)
	}
	touched = map[string]bool{}
	for _, l := range lines {
		touched[l.key] = true
		if !l.del {
			want[l.key] = append(want[l.key], l.val)
		}
	}
	for _, l := range lines {
		if !l.del {
			continue
		}
		found := -1
		for i, x := range want[l.key] {
			if x == l.val {
				found = i
				break
			}
		}
		if found < 0 {
			return before, touched, true
		}
		want[l.key] = append(want[l.key][:found:found], want[l.key][found+1:]...)
		if len(want[l.key]) == 0 {
			delete(want, l.key) // "and the key with its last value"
		}
	}
	return want, touched, false
}

// wResultOK: the dump after a successful batch against the model: same keys (a key without values must not
// exist), keys the batch names as multisets, the others exactly.
func wResultOK(want map[string][]string, touched map[string]bool, after map[string][]string) bool {
	if len(after) != len(want) {
		return false
	}
	for k, l := range after {
		wl, ok := want[k]
		if !ok || len(l) == 0 {
			return false
		}
		if touched[k] {
			if !eqMultiset(l, wl) {
				return false
			}
		} else if !eqList(l, wl) {
			return false
		}
	}
	return true
}

// wideFails keeps, per kind of disagreement / batch family / store content / way of building the batch, the
// SMALLEST failing case (fewest keys, then smallest ordinal).
type wideFails struct {
	mu sync.Mutex
	m  map[string]wideFail
}

type wideFail struct {
	n, ord int
	detail string
	how    map[string]interface{}
}

func (g *wideFails) add(kind string, n int, pre wpre, b wbatch, cb bool, detail string) {
	key := fmt.Sprintf("bigbatch-%s/%s/pre=%s/createbatch=%v", kind, b.family, pre.name, cb)
	g.mu.Lock()
	defer g.mu.Unlock()
	if old, ok := g.m[key]; ok && (old.n < n || (old.n == n && old.ord <= b.ord)) {
		return
	}
	g.m[key] = wideFail{n, b.ord, detail, map[string]interface{}{
		"kind": kind, "distinct_keys": n, "store_content": dumpString(pre.m), "batch": b.String(), "built_with_CreateBatch": cb,
		"how": "open rdb.NewRDB on an empty directory, Add the listed values, build the batch line by line, ExecuteBatch, dump every key (for fault-* kinds: with the named native call of RDB.db returning an error)",
	}}
}

func (g *wideFails) report(r *vlib.Run) int {
	keys := make([]string, 0, len(g.m))
	for k := range g.m {
		keys = append(keys, k)
	}
	sort.Strings(keys)
	fps := []string{}
	for _, k := range keys {
		f := g.m[k]
		fp := fmt.Sprintf("%s/n=%d", k, f.n)
		if f.ord > 0 {
			fp += fmt.Sprintf("/%d", f.ord)
		}
		fps = append(fps, fp)
		r.Violate(fp, f.detail, f.how)
	}
	r.Set("wide_smallest_failing_cases", fps)
	return len(keys)
}

func (w *worker) wdump() (map[string][]string, error) {
	raw, err := w.fl.DumpForVerif()
	if err != nil {
		return nil, err
	}
	return decodeDump(raw)
}

// wideInstall brings the store into content want with the store's own Add / Del and verifies it by a dump.
func (w *worker) wideInstall(want map[string][]string) bool {
	for attempt := 0; attempt < 2; attempt++ {
		cur, err := w.wdump()
		if err == nil && eqDump(cur, want) {
			return true
		}
		ok := err == nil
		seen := map[string]bool{}
		var keys []string
		for k := range cur {
			seen[k] = true
			keys = append(keys, k)
		}
		for k := range want {
			if !seen[k] {
				keys = append(keys, k)
			}
		}
		sort.Strings(keys)
		for _, k := range keys {
			if !ok {
				break
			}
			if l, has := cur[k]; has && eqList(l, want[k]) {
				continue
			}
			if l, has := cur[k]; has && len(l) == 0 {
				ok = false // a key without values: the store's own API cannot remove it
				break
			}
			for _, v := range cur[k] {
				if w.db.Del([]byte(k), []byte(v)) != nil {
					ok = false
				}
			}
			for _, v := range want[k] {
				if w.db.Add([]byte(k), []byte(v)) != nil {
					ok = false
				}
			}
		}
		if ok {
			if cur, err = w.wdump(); err == nil && eqDump(cur, want) {
				return true
			}
		}
		if attempt == 0 {
			w.hardReset()
		}
	}
	return false
}

func (w *worker) wideExec(b wbatch, cb bool, failAt, failIdx int) (err error, panicked interface{}, tr trace) {
	var bt *rdb.Batch
	if cb {
		bt = w.db.CreateBatch()
	} else {
		bt = new(rdb.Batch)
	}
	for _, l := range b.lines {
		if l.del {
			bt.Del([]byte(l.key), []byte(l.val))
		} else {
			bt.Add([]byte(l.key), []byte(l.val))
		}
	}
	w.fl.Begin(failAt, failIdx)
	func() {
		defer func() {
			if p := recover(); p != nil {
				panicked = p
			}
		}()
		err = w.db.ExecuteBatch(bt)
	}()
	tr = endTrace(w.fl)
	atomic.AddInt64(&w.ct.nativeCalls, int64(len(tr.calls)))
	return err, panicked, tr
}

// wideCase runs one batch on one store content: unfaulted, then with every native call failing in turn.
func (w *worker) wideCase(g *wideFails, n int, pre wpre, b wbatch, cb bool) (sample string) {
	bad := func(kind, f string, a ...interface{}) {
		g.add(kind, n, pre, b, cb, fmt.Sprintf("store %s, %s (%d distinct keys, built %s): ", dumpString(pre.m), b, n, map[bool]string{true: "with RDB.CreateBatch", false: "on the zero Batch"}[cb])+fmt.Sprintf(f, a...))
	}
	if !w.wideInstall(pre.m) {
		bad("install", "the store could not be brought into this content with its own Add / Del")
		return ""
	}
	atomic.AddInt64(&w.ct.wideCases, 1)
	err, panicked, tr := w.wideExec(b, cb, 0, 0)
	if panicked != nil {
		bad("panic", "panic: %v", panicked)
		w.hardReset()
		return ""
	}
	after, derr := w.wdump()
	atomic.AddInt64(&w.ct.evaluations, 2)
	want, touched, fails := wModel(pre.m, b.lines)
	tail := fmt.Sprintf("\nnative calls: %s\nreturned error: %v\nstore afterwards: %s (dump error: %v)", tr, err, dumpString(after), derr)
	good := derr == nil
	if derr != nil {
		bad("dump-error", "the store cannot be read back"+tail)
	}
	if fails {
		atomic.AddInt64(&w.ct.expectedFail, 1)
		if err == nil {
			bad("noerror", "the batch deletes a value that is absent after its additions: it must fail"+tail)
			good = false
		}
		if derr == nil && !eqDump(after, pre.m) {
			bad("failed-effect", "a failing batch must change nothing"+tail)
			good = false
		}
	} else {
		if err != nil {
			bad("error", "all additions then all deletions apply cleanly: the batch must succeed"+tail)
			good = false
		}
		if derr == nil && !wResultOK(want, touched, after) {
			bad("result", "want %s (named keys compared as multisets, other keys exactly, no key without values)"+tail, dumpString(want))
			good = false
		}
		if !eqDump(want, pre.m) {
			atomic.AddInt64(&w.ct.wideNontrivial, 1)
			atomic.AddInt64(&w.ct.nontrivial, 1)
		}
	}
	// one atomic step
	if tr.nonEmpty > 1 {
		atomic.AddInt64(&w.ct.multiWriteOps, 1)
	}
	for {
		m := atomic.LoadInt64(&w.ct.maxNonEmptyWrites)
		if int64(tr.nonEmpty) <= m || atomic.CompareAndSwapInt64(&w.ct.maxNonEmptyWrites, m, int64(tr.nonEmpty)) {
			break
		}
	}
	if tr.dumpErr != nil {
		bad("dump-error", "dump between native writes: %v", tr.dumpErr)
		good = false
	}
	atomic.AddInt64(&w.ct.evaluations, int64(len(tr.intermediates)))
	for i, d := range tr.intermediates {
		if derr != nil || eqDump(d, pre.m) || eqDump(d, after) {
			continue
		}
		bad("not-atomic", "between non-empty native write %d and %d the store held %s, which is neither the map before the batch nor the map after it: the batch is not one atomic step"+tail, i+1, i+2, dumpString(d))
		good = false
		break
	}
	sample = fmt.Sprintf("wide: %d keys, store %s --%s--> %s, error %v, native calls %s (matches the model: %v)", n, dumpString(pre.m), b, dumpString(after), err, tr, good)
	if !good {
		return sample
	}
	// every native call fails in turn
	for k, call := range tr.calls {
		slots := 1
		if call.Method == "GetMulti" {
			slots = call.N
		}
		for j := 0; j < slots; j++ {
			if !w.wideInstall(pre.m) {
				bad("install", "the store could not be brought back into this content with its own Add / Del")
				return sample
			}
			where := fmt.Sprintf("%s#%d", call.Method, k+1)
			if call.Method == "GetMulti" {
				where += fmt.Sprintf("[%d]", j)
			}
			ferr, fp, ft := w.wideExec(b, cb, k+1, j)
			if fp != nil {
				bad("fault-panic-"+call.Method, "with native call %s failing: panic: %v", where, fp)
				w.hardReset()
				return sample
			}
			if !ft.injected || len(ft.calls) < k+1 || ft.calls[k] != call {
				vlib.Infra("C15: %s on %s made native calls %q, a second execution from the same content %q: not deterministic", b, dumpString(pre.m), tr.String(), ft.String())
			}
			fa, fderr := w.wdump()
			atomic.AddInt64(&w.ct.wideFaultRuns, 1)
			atomic.AddInt64(&w.ct.evaluations, 2)
			ftail := fmt.Sprintf("\nnative calls of this execution: %s\nreturned error: %v\nstore afterwards: %s (dump error: %v)", ft, ferr, dumpString(fa), fderr)
			if ferr != nil {
				if fderr != nil || !eqDump(fa, pre.m) {
					bad("fault-effect-"+call.Method, "with native call %s failing the batch reported an error but changed the store (a batch that fails changes nothing)"+ftail, where)
				}
				continue
			}
			if fderr == nil && !fails && wResultOK(want, touched, fa) {
				atomic.AddInt64(&w.ct.faultSwallowedLegal, 1)
				continue
			}
			bad("fault-swallowed-"+call.Method, "with native call %s failing the batch reported success, but the store is not what the batch must produce"+ftail, where)
		}
	}
	return sample
}

// wideBackup: the store holding content m is closed, backed up, restored elsewhere; the copy must hold m.
func (w *worker) wideBackup(g *wideFails, n int, pre wpre) {
	none := wbatch{family: "backup"}
	if !w.wideInstall(pre.m) {
		g.add("install", n, pre, none, false, "the store could not be brought into content "+dumpString(pre.m))
		return
	}
	atomic.AddInt64(&w.ct.wideBackupCases, 1)
	w.seq++
	bdir := filepath.Join(w.base, fmt.Sprintf("wbk%d", w.seq))
	rdir := filepath.Join(w.base, fmt.Sprintf("wrs%d", w.seq))
	defer func() {
		os.RemoveAll(bdir)
		os.RemoveAll(rdir)
		if w.db == nil {
			w.open()
		}
	}()
	if err := w.db.Close(); err != nil {
		g.add("close-error", n, pre, none, false, fmt.Sprintf("Close: %v", err))
	}
	w.db = nil
	os.MkdirAll(bdir, 0o755)
	os.MkdirAll(rdir, 0o755)
	if err := rdb.Backup(w.dir, bdir); err != nil {
		g.add("backup-error", n, pre, none, false, fmt.Sprintf("rdb.Backup of a closed store holding %s: %v", dumpString(pre.m), err))
		return
	}
	if err := rdb.Restore(rdir, bdir); err != nil {
		g.add("restore-error", n, pre, none, false, fmt.Sprintf("rdb.Restore of a backup of %s: %v", dumpString(pre.m), err))
		return
	}
	atomic.AddInt64(&w.ct.evaluations, 2)
	atomic.AddInt64(&w.ct.rawDumps, 2)
	d, err := rawDump(rdir)
	if err != nil || !eqDump(d, pre.m) {
		src, serr := rawDump(w.dir)
		g.add("restore-mismatch", n, pre, none, false, fmt.Sprintf("restored directory holds %s err=%v; the backed-up store held %s (raw dump of the closed source: %s err=%v)", dumpString(d), err, dumpString(pre.m), dumpString(src), serr))
	}
}

type wideTask struct {
	n   int
	pre wpre
	cb  bool
}

// widePart runs all wide cases on the workers' stores (cleared first, cleared again afterwards: the final
// shutdown check then also proves that no wide key was left behind).
func widePart(r *vlib.Run, pool chan *worker, scale int) (violations int, maxKeys int) {
	maxKeys = 3*scale + 1
	var tasks []wideTask
	for n := 1; n <= maxKeys; n++ {
		for _, pre := range widePres(n) {
			for _, cb := range []bool{false, true} {
				tasks = append(tasks, wideTask{n, pre, cb})
			}
		}
	}
	g := &wideFails{m: map[string]wideFail{}}
	samples := make([]string, len(tasks))
	vlib.ParallelFor(len(tasks), func(i int) {
		w := <-pool
		defer func() { pool <- w }()
		t := tasks[i]
		if !w.install(state{}) {
			return
		}
		for bi, b := range wideBatches(t.n, maxKeys) {
			s := w.wideCase(g, t.n, t.pre, b, t.cb)
			if bi == i%5 {
				samples[i] = s
			}
		}
		if t.pre.name == "full" && !t.cb && os.Getenv("C15_NOBACKUP") == "" {
			w.wideBackup(g, t.n, t.pre)
		}
		if !w.wideInstall(map[string][]string{}) {
			w.hardReset()
		}
		w.cur = content{}
	})
	var keep []string
	for i, s := range samples {
		if s != "" && i%7 == 3 {
			keep = append(keep, s)
		}
	}
	r.Set("wide_samples", keep)
	return g.report(r), maxKeys
}
