package main

import (
	"fmt"
	"os"
	"path/filepath"
	"sort"
	"strings"
	"sync/atomic"
	"time"

	rocksdb "github.com/facebookincubator/dns/dnsrocks/cgo-rocksdb"
	"github.com/facebookincubator/dns/dnsrocks/dnsdata/rdb"

	"verifharness/vlib"
)

// counters (atomic)
type counters struct {
	transitions, evaluations, nontrivial, expectedFail, noops int64
	outOfBound, batchStrictOrder, batchChanged                int64
	hardResets, opens, rawDumps                               int64
	createBatchUsed, fullReads, keyRemovalChecks              int64
	backupCases, backupGen2Cases                              int64
	// native layer (fault.go)
	nativeCalls, multiWriteOps, maxNonEmptyWrites, maxWriteCallsOkBatch int64
	faultRuns, faultOps, faultSwallowedLegal                            int64
	faultGet, faultGetMulti, faultPut, faultDelete, faultExecuteBatch   int64
	wideCases, wideFaultRuns, wideBackupCases, wideNontrivial           int64
	aborted                                                             int32
}

// worker owns one long-lived real rdb.RDB in its own directory.
type worker struct {
	id   int
	base string // scratch sub-directory of this worker
	dir  string // RocksDB directory
	db   *rdb.RDB
	fl   *rdb.FaultDBIForVerif // recording / faulting layer between db and its native handle
	cur  content               // last complete observation made after the last write
	fs   *failureSet
	ct   *counters
	seq  int
}

func newWorker(id int, scratch string, fs *failureSet, ct *counters) *worker {
	w := &worker{id: id, base: filepath.Join(scratch, fmt.Sprintf("w%02d", id)), fs: fs, ct: ct}
	w.dir = filepath.Join(w.base, "db")
	if err := os.MkdirAll(w.dir, 0o755); err != nil {
		vlib.Infra("mkdir: %v", err)
	}
	w.open()
	return w
}

var timing = os.Getenv("C15_TIMING") != ""

func lap(name string, t *time.Time) {
	if timing {
		fmt.Fprintf(os.Stderr, "   %-12s %v\n", name, time.Since(*t))
		*t = time.Now()
	}
}

func (w *worker) open() {
	t := time.Now()
	defer lap("open", &t)
	db, err := rdb.NewRDB(w.dir)
	if err != nil {
		vlib.Infra("rdb.NewRDB(%s): %v", w.dir, err)
	}
	atomic.AddInt64(&w.ct.opens, 1)
	w.db = db
	w.fl = db.InjectFaultDBIForVerif()
}

// hardReset throws the directory away and starts from an empty store.
func (w *worker) hardReset() {
	w.countReset()
	if w.db != nil {
		w.db.Close()
		w.db = nil
	}
	os.RemoveAll(w.dir)
	if err := os.MkdirAll(w.dir, 0o755); err != nil {
		vlib.Infra("mkdir: %v", err)
	}
	w.open()
	w.cur = content{}
}

// observe reads every key of the alphabet through the public read API and
// returns the content plus a list of read-level problems. ForEach (on a fresh
// Context, so the read goes to the database) is the primary observation; with
// full, Find (fresh Context of its own) and FindFirst must agree with it.
func (w *worker) observe(full bool) (c content, problems []string) {
	c, problems = w.readLists()
	if full {
		problems = append(problems, w.checkFinds(c)...)
	}
	return c, problems
}

// readLists: ForEach on every key of the alphabet (one look-up cycle).
func (w *worker) readLists() (c content, problems []string) {
	ctx := rdb.NewContext()
	for k := 0; k < nKeys; k++ {
		var l []string
		err := w.db.ForEach(keyBytes[k], func(v []byte) error { l = append(l, string(v)); return nil }, ctx)
		if err != nil {
			problems = append(problems, fmt.Sprintf("foreach-error: ForEach(%s) after %d values: %v", keyNames[k], len(l), err))
		}
		c[k] = l
	}
	return c, problems
}

// checkFinds: Find on every key and FindFirst in both key orders must agree
// with what ForEach returned (nKeys+2 comparisons).
func (w *worker) checkFinds(c content) (problems []string) {
	ctx := rdb.NewContext()
	for k := 0; k < nKeys; k++ {
		l := c[k]
		v, err := w.db.Find(keyBytes[k], ctx)
		if len(l) == 0 {
			if err == nil {
				problems = append(problems, fmt.Sprintf("find-absent: Find(%s) = %q, nil on a key without values", keyNames[k], v))
			}
		} else if err != nil || string(v) != l[0] {
			problems = append(problems, fmt.Sprintf("find-first: Find(%s) = %q, %v; ForEach gives %q", keyNames[k], v, err, l))
		}
	}
	for _, ord := range [][2]int{{0, 1}, {1, 0}} {
		v, idx, err := w.db.FindFirst([][]byte{keyBytes[ord[0]], keyBytes[ord[1]]})
		wantIdx, wantV := -1, ""
		for i, k := range ord {
			if len(c[k]) > 0 {
				wantIdx, wantV = i, c[k][0]
				break
			}
		}
		if err != nil || idx != wantIdx || (wantIdx >= 0 && string(v) != wantV) || (wantIdx < 0 && v != nil) {
			problems = append(problems, fmt.Sprintf("findfirst: FindFirst(%s,%s) = %q, %d, %v; want %q, %d", keyNames[ord[0]], keyNames[ord[1]], v, idx, err, wantV, wantIdx))
		}
	}
	return problems
}

// contentKey is a cheap injective key of a content.
func contentKey(c content) string {
	return strings.Join(c[0], "\x00") + "\x01" + strings.Join(c[1], "\x00") + fmt.Sprintf("\x01%d,%d", len(c[0]), len(c[1]))
}

var keyBytes = [][]byte{[]byte(keyNames[0]), []byte(keyNames[1])}

func (w *worker) readProblems(c content, problems []string) {
	for _, p := range problems {
		kind := "read-" + p[:indexByte(p, ':')]
		w.fs.add(failure{kind: kind, c: c, detail: p + "\nstore content (ForEach): " + c.String()})
	}
}

func indexByte(s string, b byte) int {
	for i := 0; i < len(s); i++ {
		if s[i] == b {
			return i
		}
	}
	return len(s)
}

// install brings the real store into state s using the store's own Add/Del
// (clearing a key by deleting every value it was last seen to hold, then adding
// the target list in order) and verifies the result by reading it back.
// Returns false if the store could not be brought into s (recorded as failure).
func (w *worker) install(s state) bool {
	want := s.content()
	if w.cur.equal(want) {
		return true
	}
	for attempt := 0; attempt < 2; attempt++ {
		ok := true
		for k := 0; k < nKeys && ok; k++ {
			if eqList(w.cur[k], want[k]) {
				continue
			}
			key := keyBytes[k]
			start := 0
			if len(w.cur[k]) <= len(want[k]) && eqList(w.cur[k], want[k][:len(w.cur[k])]) {
				start = len(w.cur[k]) // only append the missing tail
			} else if x, one := oneDelAway(w.cur[k], want[k]); one && attempt == 0 {
				// one value too many: delete it (the read-back below decides whether that worked)
				start = len(want[k])
				if err := w.db.Del(key, []byte(x)); err != nil {
					w.fs.add(failure{kind: "install-del-error", c: w.cur, o: delOpOf(k, x),
						detail: fmt.Sprintf("Del(%s,%q) on a store last observed as %s failed: %v", keyNames[k], x, w.cur, err)})
					ok = false
				}
			} else {
				for _, v := range w.cur[k] {
					if err := w.db.Del(key, []byte(v)); err != nil {
						w.fs.add(failure{kind: "install-del-error", c: w.cur, o: delOpOf(k, v),
							detail: fmt.Sprintf("while clearing %s: Del(%s,%q) on a store last observed as %s failed: %v", keyNames[k], keyNames[k], v, w.cur, err)})
						ok = false
						break
					}
				}
			}
			for i := start; i < len(want[k]) && ok; i++ {
				if err := w.db.Add(key, []byte(want[k][i])); err != nil {
					w.fs.add(failure{kind: "install-add-error", c: want, detail: fmt.Sprintf("Add(%s,%q) failed: %v", keyNames[k], want[k][i], err)})
					ok = false
				}
			}
		}
		if ok {
			got, problems := w.observe(false)
			w.cur = got
			w.readProblems(got, problems)
			if got.equal(want) && len(problems) == 0 {
				return true
			}
			if attempt == 1 { // from an empty store, by Add only
				w.fs.add(failure{kind: "install-mismatch", c: want, detail: fmt.Sprintf("empty store, values added in list order; reading gives %s, want %s", got, want)})
			}
		}
		if attempt == 0 {
			w.hardReset()
		}
	}
	return false
}

// oneDelAway reports the value x such that removing the FIRST x from cur gives want.
func oneDelAway(cur, want []string) (string, bool) {
	if len(cur) != len(want)+1 {
		return "", false
	}
	i := 0
	for i < len(want) && cur[i] == want[i] {
		i++
	}
	x := cur[i]
	if !eqList(cur[i+1:], want[i:]) {
		return "", false
	}
	for j := 0; j < i; j++ {
		if cur[j] == x {
			// the store removes some occurrence; only the read-back can tell which. Use the shortcut only when unambiguous.
			return "", false
		}
	}
	return x, true
}

// delOpOf is only used to label an install failure with the value involved.
func delOpOf(k int, v string) op {
	for i, n := range valNames {
		if n == v {
			return op{opDel, []entry{{true, k, i}}}
		}
	}
	return op{}
}

// apply executes one operation on the real store; the native calls it makes are
// recorded, and the failAt-th of them (if > 0) is made to fail.
func (w *worker) apply(o op, useCreateBatch bool, failAt, failIdx int) (err error, panicked interface{}, tr trace) {
	w.fl.Begin(failAt, failIdx)
	err, panicked = w.exec(o, useCreateBatch)
	tr = endTrace(w.fl)
	atomic.AddInt64(&w.ct.nativeCalls, int64(len(tr.calls)))
	return err, panicked, tr
}

func (w *worker) exec(o op, useCreateBatch bool) (err error, panicked interface{}) {
	defer func() {
		if p := recover(); p != nil {
			panicked = p
		}
	}()
	switch o.kind {
	case opAdd:
		return w.db.Add(keyBytes[o.e[0].k], []byte(valNames[o.e[0].v])), nil
	case opDel:
		return w.db.Del(keyBytes[o.e[0].k], []byte(valNames[o.e[0].v])), nil
	default:
		var b *rdb.Batch
		if useCreateBatch {
			// CreateBatch pre-allocates 2 x DefaultBatchSize entries (scaled down in
			// this binary, see OVERLAY): used on every other transition, the zero
			// Batch on the rest.
			b = w.db.CreateBatch()
			atomic.AddInt64(&w.ct.createBatchUsed, 1)
		} else {
			b = new(rdb.Batch)
		}
		for _, e := range o.e {
			if e.del {
				b.Del([]byte(keyNames[e.k]), []byte(valNames[e.v]))
			} else {
				b.Add([]byte(keyNames[e.k]), []byte(valNames[e.v]))
			}
		}
		return w.db.ExecuteBatch(b), nil
	}
}

// step runs one transition from state s and checks it against the statement.
// It returns the observed successor content and whether it is a legal one.
// fullSeen (per expanded state) remembers which successor contents already had
// the Find/FindFirst agreement check: those are functions of the same bytes
// ForEach has just read, so they are compared once per distinct content and state.
func (w *worker) step(s state, o op, useCreateBatch bool, fullSeen map[string]bool, keyRemoval, faults bool) (content, bool) {
	if !w.install(s) {
		return content{}, false
	}
	before := s.content()
	atomic.AddInt64(&w.ct.transitions, 1)
	err, panicked, tr := w.apply(o, useCreateBatch, 0, 0)
	if panicked != nil {
		w.fs.add(failure{kind: "panic", c: before, o: o, detail: fmt.Sprintf("%s on %s panicked: %v", o, before, panicked)})
		w.hardReset()
		return content{}, false
	}
	got, problems := w.readLists()
	atomic.AddInt64(&w.ct.evaluations, 1+nKeys) // error outcome + each key's list
	if ck := contentKey(got); !fullSeen[ck] {
		fullSeen[ck] = true
		problems = append(problems, w.checkFinds(got)...)
		atomic.AddInt64(&w.ct.fullReads, 1)
		atomic.AddInt64(&w.ct.evaluations, nKeys+2)
	}
	w.cur = got
	w.readProblems(got, problems)
	fail := func(kind, f string, a ...interface{}) {
		w.fs.add(failure{kind: kind, c: before, o: o,
			detail: fmt.Sprintf("store %s, operation %s: ", before, o) + fmt.Sprintf(f, a...) + fmt.Sprintf("\nreturned error: %v\nstore afterwards: %s", err, got)})
	}
	legal := len(problems) == 0
	switch o.kind {
	case opAdd:
		want := modelAdd(before, o.e[0].k, valNames[o.e[0].v])
		if err != nil {
			fail("add-error", "Add must succeed")
			legal = false
		}
		if !got.equal(want) {
			fail("add-result", "want %s (value appended to the key's list, nothing else changed)", want)
			legal = false
		}
		atomic.AddInt64(&w.ct.nontrivial, 1)
	case opDel:
		acc, fails := modelDel(before, o.e[0].k, valNames[o.e[0].v])
		if fails {
			atomic.AddInt64(&w.ct.expectedFail, 1)
			if err == nil {
				fail("del-absent-noerror", "Del of an absent key/value must fail")
				legal = false
			}
			if !got.equal(before) {
				fail("del-absent-effect", "a failing Del must have no effect")
				legal = false
			}
		} else {
			atomic.AddInt64(&w.ct.nontrivial, 1)
			if err != nil {
				fail("del-error", "Del of a present value must succeed")
				legal = false
			}
			okRes := false
			for _, a := range acc {
				if got.equal(a) {
					okRes = true
				}
			}
			if !okRes {
				fail("del-result", "want one of %v (exactly one equal value removed, others in order, other key untouched)", acc)
				legal = false
			}
		}
	case opBatch:
		want, touched, fails := modelBatch(before, o.e)
		if fails {
			atomic.AddInt64(&w.ct.expectedFail, 1)
			if err == nil {
				fail("batch-noerror", "the batch deletes a value that is absent after its additions: it must fail")
				legal = false
			}
			if !got.equal(before) {
				fail("batch-failed-effect", "a failing batch must change nothing")
				legal = false
			}
		} else {
			if err != nil {
				fail("batch-error", "all additions then all deletions apply cleanly to the map: the batch must succeed")
				legal = false
			}
			okRes, strict := batchResult(before, want, touched, got)
			changed := false
			for k := 0; k < nKeys; k++ {
				if !eqMultiset(want[k], before[k]) {
					changed = true
				}
			}
			if nw := int64(tr.writeCalls()); nw > atomic.LoadInt64(&w.ct.maxWriteCallsOkBatch) && err == nil {
				atomic.StoreInt64(&w.ct.maxWriteCallsOkBatch, nw) // evidence only (monotone; a lost update between workers can only lower it)
			}
			if !okRes {
				fail("batch-result", "want %s (named keys compared as multisets, other keys exactly)", want)
				legal = false
			} else if strict {
				atomic.AddInt64(&w.ct.batchStrictOrder, 1)
			}
			if changed {
				atomic.AddInt64(&w.ct.nontrivial, 1)
				atomic.AddInt64(&w.ct.batchChanged, 1)
			} else {
				atomic.AddInt64(&w.ct.noops, 1)
			}
		}
	}
	// "in one atomic step": no state other than the one before and the one after
	// may ever be in the store (fault.go)
	if !w.checkAtomic(before, o, got, err, tr) {
		legal = false
	}
	if keyRemoval && legal && err == nil {
		// "(and the key with its last value)": when a successful operation leaves a
		// key it names without values, the key itself must be gone from the
		// database. Reading cannot tell an absent key from an empty value, so the
		// store is closed, dumped raw, and reopened.
		named := false
		for _, e := range o.e {
			if len(got[e.k]) == 0 {
				named = true
			}
		}
		if named {
			atomic.AddInt64(&w.ct.keyRemovalChecks, 1)
			ok := w.closeAndDumpOp("key-not-removed", got, before, o)
			if !ok {
				w.hardResetClosed()
				legal = false
			}
			w.open()
			if !ok {
				w.cur = content{}
			}
		}
	}
	// every native call of the operation fails in turn (fault.go); the store is
	// left in whatever the last fault run left (w.cur says what that is)
	if faults && legal {
		w.faultRuns(s, o, useCreateBatch, tr)
	}
	return got, legal
}

// ---- raw dump (ordered) -------------------------------------------------

// rawDump reads every key of a CLOSED RocksDB directory with a raw iterator,
// the way dnsfix.DumpRDB does, but keeps the chunk order.
func rawDump(path string) (map[string][]string, error) {
	opts := rocksdb.NewOptions()
	db, err := rocksdb.OpenDatabase(path, true, false, opts)
	if err != nil {
		opts.FreeOptions()
		return nil, err
	}
	ro := rocksdb.NewDefaultReadOptions()
	it := db.CreateIterator(ro)
	d := map[string][]string{}
	var derr error
	for it.SeekToFirst(); it.IsValid(); it.Next() {
		k := string(it.Key())
		l, err := decodeChunks(k, it.Value())
		d[k] = l
		if err != nil {
			derr = err
		}
	}
	if e := it.GetError(); e != nil && derr == nil {
		derr = e
	}
	it.FreeIterator()
	ro.FreeReadOptions()
	db.CloseDatabase()
	return d, derr
}

// decodeChunks splits a raw stored value into its values (<4 byte little-endian length><value>...).
func decodeChunks(k string, data []byte) ([]string, error) {
	l := []string{}
	for len(data) > 0 {
		if len(data) < 4 {
			return l, fmt.Errorf("key %q: truncated chunk header (%d stray bytes)", k, len(data))
		}
		n := int(uint32(data[0]) | uint32(data[1])<<8 | uint32(data[2])<<16 | uint32(data[3])<<24)
		if len(data) < 4+n {
			return l, fmt.Errorf("key %q: truncated chunk", k)
		}
		l = append(l, string(data[4:4+n]))
		data = data[4+n:]
	}
	return l, nil
}

// decodeDump decodes a raw dump of the open store (FaultDBIForVerif.DumpForVerif).
func decodeDump(raw map[string][]byte) (map[string][]string, error) {
	d := map[string][]string{}
	ks := make([]string, 0, len(raw))
	for k := range raw {
		ks = append(ks, k)
	}
	sort.Strings(ks)
	var derr error
	for _, k := range ks {
		l, err := decodeChunks(k, raw[k])
		d[k] = l
		if err != nil && derr == nil {
			derr = err
		}
	}
	return d, derr
}

func expectDump(c content) map[string][]string {
	m := map[string][]string{}
	for k := 0; k < nKeys; k++ {
		if len(c[k]) > 0 {
			m[keyNames[k]] = c[k]
		}
	}
	return m
}

func dumpString(m map[string][]string) string {
	ks := make([]string, 0, len(m))
	for k := range m {
		ks = append(ks, k)
	}
	sort.Strings(ks)
	s := "{"
	for i, k := range ks {
		if i > 0 {
			s += ";"
		}
		s += fmt.Sprintf("%q=%q", k, m[k])
	}
	return s + "}"
}

func eqDump(a, b map[string][]string) bool {
	if len(a) != len(b) {
		return false
	}
	for k, l := range a {
		o, ok := b[k]
		if !ok || !eqList(l, o) {
			return false
		}
	}
	return true
}

// closeAndDump closes the worker's store (Close flushes; the store writes
// without a log, so only a closed store is completely on disk), dumps the
// directory raw and compares with what the read API showed. The store is left
// CLOSED (w.db == nil); the caller reopens.
func (w *worker) closeAndDump(kind string, c content) bool {
	return w.closeAndDumpOp(kind, c, c, op{})
}

// closeAndDumpOp is closeAndDump for the store content `now` reached from
// content `c` by operation o (the failure is then filed under (c, o)).
func (w *worker) closeAndDumpOp(kind string, now, c content, o op) bool {
	t := time.Now()
	defer lap("rawdump", &t)
	err := w.db.Close()
	lap("close", &t)
	if err != nil {
		w.fs.add(failure{kind: "close-error", c: c, detail: fmt.Sprintf("Close: %v", err)})
	}
	w.db = nil
	atomic.AddInt64(&w.ct.rawDumps, 1)
	atomic.AddInt64(&w.ct.evaluations, 1)
	d, err := rawDump(w.dir)
	if err != nil || !eqDump(d, expectDump(now)) {
		pre := ""
		if o.kind != 0 {
			pre = fmt.Sprintf("store %s, operation %s: ", c, o)
		}
		w.fs.add(failure{kind: kind, c: c, o: o, detail: pre + fmt.Sprintf("raw dump of the closed store: %s err=%v; the read API showed %s (a key listed with no values exists in the database with an empty value)", dumpString(d), err, now)})
		return false
	}
	return true
}

// ---- backup / restore ---------------------------------------------------

// backupRestore: with the store in state s (closed, raw dump verified), take a
// backup into a fresh backup directory and restore it into another directory,
// the way cmd/dnsrocks-backuprdb does; the restored directory must hold exactly
// the same map (raw dump; with gen2 also through a real rdb.RDB opened on it). With gen2,
// the store is then modified and backed up again into the SAME backup directory
// and restored both into a fresh directory and over the first restored one: the
// latest backup must win.
func (w *worker) backupRestore(s state, gen2 bool) {
	if !w.install(s) {
		return
	}
	if timing {
		t0 := time.Now()
		defer func() { fmt.Fprintf(os.Stderr, "w%d backup case total %v\n", w.id, time.Since(t0)) }()
	}
	c := s.content()
	atomic.AddInt64(&w.ct.backupCases, 1)
	w.seq++
	bdir := filepath.Join(w.base, fmt.Sprintf("bk%d", w.seq))
	r1 := filepath.Join(w.base, fmt.Sprintf("rs%d-a", w.seq))
	r2 := filepath.Join(w.base, fmt.Sprintf("rs%d-b", w.seq))
	defer func() {
		os.RemoveAll(bdir)
		os.RemoveAll(r1)
		os.RemoveAll(r2)
		if w.db == nil {
			w.open()
		}
		got, problems := w.observe(true)
		w.cur = got
		w.readProblems(got, problems)
	}()
	if gen2 {
		if !w.closeAndDump("rawdump-mismatch", c) {
			w.hardResetClosed()
			return
		}
	} else {
		// plain case: the source is dumped only if the restored copy disagrees
		// (every database open costs ~17 short-lived threads inside RocksDB)
		if err := w.db.Close(); err != nil {
			w.fs.add(failure{kind: "close-error", c: c, detail: fmt.Sprintf("Close: %v", err)})
		}
		w.db = nil
	}
	if !w.backupInto(c, bdir, r1, "gen1", gen2) {
		if !gen2 {
			atomic.AddInt64(&w.ct.rawDumps, 1)
			if d, err := rawDump(w.dir); err != nil || !eqDump(d, expectDump(c)) {
				// the backup was faithful to a source that is itself wrong: file it there
				w.fs.remove(caseKey("restore-mismatch-gen1", c, op{}))
				w.fs.add(failure{kind: "rawdump-mismatch", c: c, detail: fmt.Sprintf("raw dump of the closed store: %s err=%v; the read API showed %s (a key listed with no values exists in the database with an empty value)", dumpString(d), err, c)})
				w.hardResetClosed()
			}
		}
		return
	}
	if !gen2 {
		return
	}
	atomic.AddInt64(&w.ct.backupGen2Cases, 1)
	// second generation: one more value under k2, closed again, backed up again
	w.open()
	o := op{opAdd, []entry{{false, 1, 4}}}
	if err := w.db.Add([]byte(keyNames[1]), []byte(valNames[4])); err != nil {
		w.fs.add(failure{kind: "add-error", c: c, o: o, detail: fmt.Sprintf("Add after reopen failed: %v", err)})
		return
	}
	c2 := modelAdd(c, 1, valNames[4])
	got, problems := w.observe(true)
	w.readProblems(got, problems)
	if !got.equal(c2) {
		w.fs.add(failure{kind: "reopen-add-result", c: c, o: o, detail: fmt.Sprintf("store %s closed, reopened, %s: reading gives %s, want %s", c, o, got, c2)})
		return
	}
	if !w.closeAndDump("rawdump-mismatch", c2) {
		w.hardResetClosed()
		return
	}
	if !w.backupInto(c2, bdir, r2, "gen2-fresh", true) {
		return
	}
	w.restoreCheck(c2, bdir, r1, "gen2-over", true)
}

func (w *worker) hardResetClosed() {
	os.RemoveAll(w.dir)
	os.MkdirAll(w.dir, 0o755)
	w.countReset()
}

// maxHardResets: a store that has to be thrown away this often is grossly
// broken; the search then stops early (exhaustive=false) and reports what it has.
const maxHardResets = 400

func (w *worker) countReset() {
	if atomic.AddInt64(&w.ct.hardResets, 1) >= maxHardResets {
		atomic.StoreInt32(&w.ct.aborted, 1)
	}
}

func (ct *counters) isAborted() bool { return atomic.LoadInt32(&ct.aborted) != 0 }

func (w *worker) backupInto(c content, bdir, rdir, tag string, openIt bool) bool {
	os.MkdirAll(bdir, 0o755)
	t := time.Now()
	err := rdb.Backup(w.dir, bdir)
	lap("backup", &t)
	if err != nil {
		w.fs.add(failure{kind: "backup-error-" + tag, c: c, detail: fmt.Sprintf("rdb.Backup of a closed store holding %s: %v", c, err)})
		return false
	}
	return w.restoreCheck(c, bdir, rdir, tag, openIt)
}

func (w *worker) restoreCheck(c content, bdir, rdir, tag string, openIt bool) bool {
	os.MkdirAll(rdir, 0o755)
	t := time.Now()
	defer lap("open+read+close restored", &t)
	err := rdb.Restore(rdir, bdir)
	lap("restore", &t)
	if err != nil {
		w.fs.add(failure{kind: "restore-error-" + tag, c: c, detail: fmt.Sprintf("rdb.Restore of a backup of %s: %v", c, err)})
		return false
	}
	atomic.AddInt64(&w.ct.evaluations, 2)
	d, err := rawDump(rdir)
	lap("rawdump rs", &t)
	if err != nil || !eqDump(d, expectDump(c)) {
		w.fs.add(failure{kind: "restore-mismatch-" + tag, c: c, detail: fmt.Sprintf("restored directory holds %s err=%v; the backed-up store held %s", dumpString(d), err, c)})
		return false
	}
	if !openIt {
		return true
	}
	// and through the real read path of a real RDB on the restored directory
	rd, err := rdb.NewRDB(rdir)
	if err != nil {
		w.fs.add(failure{kind: "restore-open-" + tag, c: c, detail: fmt.Sprintf("rdb.NewRDB on the restored directory: %v", err)})
		return false
	}
	atomic.AddInt64(&w.ct.opens, 1)
	saved := w.db
	w.db = rd
	got, problems := w.observe(true)
	w.db = saved
	rd.Close()
	w.readProblems(got, problems)
	if !got.equal(c) {
		w.fs.add(failure{kind: "restore-read-" + tag, c: c, detail: fmt.Sprintf("reading the restored store gives %s; the backed-up store held %s", got, c)})
		return false
	}
	return true
}

// shutdown closes the store and checks the directory holds nothing but what
// the read API last showed: any stray key written by any earlier operation of
// this worker would still be there (resets only ever touch the alphabet keys).
func (w *worker) shutdown() {
	if w.db == nil {
		return
	}
	w.closeAndDump("stray-or-lost-data-at-shutdown", w.cur)
}
