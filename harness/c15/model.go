package main

import (
	"fmt"
	"sort"
	"strings"
)

// The alphabet. Values: empty, prefixes of each other, equal-length neighbours.
var keyNames = []string{"k1", "k2"}
var valNames = []string{"", "a", "ab", "b", "ba"}

const nKeys = 2

// maxPerKey bounds the canonical state set: states with more values under one
// key are still produced and checked as *results* but are not expanded.
const maxPerKey = 3

// content is what a store holds under the alphabet keys: per key, the list of
// values in the order reading returns them. (Real strings: an observation of a
// broken store may contain values outside the alphabet.)
type content [nKeys][]string

func (c content) String() string {
	var p []string
	for k := 0; k < nKeys; k++ {
		q := make([]string, len(c[k]))
		for i, v := range c[k] {
			q[i] = fmt.Sprintf("%q", v)
		}
		p = append(p, keyNames[k]+"=["+strings.Join(q, ",")+"]")
	}
	return strings.Join(p, ";")
}

func (c content) clone() content {
	var o content
	for k := 0; k < nKeys; k++ {
		o[k] = append([]string(nil), c[k]...)
	}
	return o
}

func eqList(a, b []string) bool {
	if len(a) != len(b) {
		return false
	}
	for i := range a {
		if a[i] != b[i] {
			return false
		}
	}
	return true
}

func eqMultiset(a, b []string) bool {
	if len(a) != len(b) {
		return false
	}
	x := append([]string(nil), a...)
	y := append([]string(nil), b...)
	sort.Strings(x)
	sort.Strings(y)
	return eqList(x, y)
}

func (c content) equal(o content) bool {
	for k := 0; k < nKeys; k++ {
		if !eqList(c[k], o[k]) {
			return false
		}
	}
	return true
}

// state is the canonical key of a content over the alphabet: per key a string of
// value indexes ('0'+i).
type state [nKeys]string

func (s state) content() content {
	var c content
	for k := 0; k < nKeys; k++ {
		for i := 0; i < len(s[k]); i++ {
			c[k] = append(c[k], valNames[s[k][i]-'0'])
		}
	}
	return c
}

func (s state) less(o state) bool {
	for k := 0; k < nKeys; k++ {
		if len(s[k]) != len(o[k]) {
			return len(s[k]) < len(o[k])
		}
		if s[k] != o[k] {
			return s[k] < o[k]
		}
	}
	return false
}

// stateOf maps a content to its canonical state; inAlphabet is false if a value
// outside the alphabet occurs, inBound is false if a key holds > maxPerKey values.
func stateOf(c content) (s state, inAlphabet, inBound bool) {
	inAlphabet, inBound = true, true
	for k := 0; k < nKeys; k++ {
		var b []byte
		for _, v := range c[k] {
			idx := -1
			for i, n := range valNames {
				if n == v {
					idx = i
				}
			}
			if idx < 0 {
				inAlphabet = false
				continue
			}
			b = append(b, byte('0'+idx))
		}
		if len(c[k]) > maxPerKey {
			inBound = false
		}
		s[k] = string(b)
	}
	return
}

// entry is one line of a batch (or the argument of a single Add/Del).
type entry struct {
	del  bool
	k, v int
}

func (e entry) String() string {
	sign := "+"
	if e.del {
		sign = "-"
	}
	return fmt.Sprintf("%s%s:%q", sign, keyNames[e.k], valNames[e.v])
}

const (
	opAdd   = 'A'
	opDel   = 'D'
	opBatch = 'B'
)

type op struct {
	kind byte
	e    []entry // exactly one for Add/Del
}

func (o op) String() string {
	switch o.kind {
	case opAdd:
		return fmt.Sprintf("add(%s,%q)", keyNames[o.e[0].k], valNames[o.e[0].v])
	case opDel:
		return fmt.Sprintf("del(%s,%q)", keyNames[o.e[0].k], valNames[o.e[0].v])
	case opBatch:
		p := make([]string, len(o.e))
		for i, e := range o.e {
			p[i] = e.String()
		}
		return "batch[" + strings.Join(p, ",") + "]"
	}
	return "none"
}

func allEntries() []entry {
	var all []entry
	for _, del := range []bool{false, true} {
		for k := range keyNames {
			for v := range valNames {
				all = append(all, entry{del, k, v})
			}
		}
	}
	return all
}

// singles: every Add and every Del.
func singles() []op {
	var m []op
	for _, e := range allEntries() {
		kind := byte(opAdd)
		if e.del {
			kind = opDel
		}
		m = append(m, op{kind, []entry{e}})
	}
	return m
}

// batches: every batch that is a sequence (order matters, duplicates allowed)
// of exactly n add/del lines.
func batches(n int) []op {
	all := allEntries()
	var m []op
	var rec func(prefix []entry)
	rec = func(prefix []entry) {
		if len(prefix) == n {
			m = append(m, op{opBatch, append([]entry(nil), prefix...)})
			return
		}
		for _, e := range all {
			rec(append(prefix[:len(prefix):len(prefix)], e))
		}
	}
	rec(nil)
	return m
}

// ---- the reference model: the statement, nothing else ----

// modelAdd: "Add appends one value to a key's list".
func modelAdd(c content, k int, v string) content {
	n := c.clone()
	n[k] = append(n[k], v)
	return n
}

// modelDel: "Del removes exactly one equal value (and the key with its last
// value) and fails without effect if the key or value is absent". The statement
// does not say which of several equal values goes, so every single-occurrence
// removal (the others keeping their order) is acceptable.
func modelDel(c content, k int, v string) (acceptable []content, fails bool) {
	for i, x := range c[k] {
		if x == v {
			n := c.clone()
			n[k] = append(n[k][:i:i], c[k][i+1:]...)
			dup := false
			for _, a := range acceptable {
				if a.equal(n) {
					dup = true
				}
			}
			if !dup {
				acceptable = append(acceptable, n)
			}
		}
	}
	return acceptable, len(acceptable) == 0
}

// modelBatch: "equivalent to applying all its additions and then all its
// deletions to that map in one atomic step ... a batch that fails changes
// nothing". Result is to be compared per key as a multiset for keys the batch
// names (the implementation groups lines by key) and exactly for other keys.
func modelBatch(c content, es []entry) (n content, touched [nKeys]bool, fails bool) {
	n = c.clone()
	for _, e := range es {
		touched[e.k] = true
		if !e.del {
			n[e.k] = append(n[e.k], valNames[e.v])
		}
	}
	for _, e := range es {
		if !e.del {
			continue
		}
		found := -1
		for i, x := range n[e.k] {
			if x == valNames[e.v] {
				found = i
				break
			}
		}
		if found < 0 {
			return c.clone(), touched, true
		}
		n[e.k] = append(n[e.k][:found:found], n[e.k][found+1:]...)
	}
	return n, touched, false
}
