// C15: the RocksDB multi-value store behaves like a map of lists.
//
// Explicit-state breadth-first search over operation histories on REAL rdb.RDB
// objects over real RocksDB directories. Keys {k1,k2}; values {"", "a", "ab",
// "b", "ba"}; operations: every Add, every Del, every batch that is a sequence
// of <=2 (quick) / <=3 (thorough) add/del lines in every order with duplicates
// (through Batch.Add/Batch.Del/ExecuteBatch), and Backup+Restore into other
// directories. The state is the OBSERVED content of the real store (ForEach on
// every key of the alphabet); the reference model (model.go) says which
// successor observations and which error/no-error outcomes the statement
// permits. The search runs level by level to the fixed point of the canonical
// state set with <=3 values per key.
package main

import (
	"fmt"
	"os"
	"runtime/debug"
	"runtime/pprof"
	"sort"
	"sync/atomic"
	"time"

	"github.com/facebookincubator/dns/dnsrocks/dnsdata/rdb"

	"verifharness/dnsfix"
	"verifharness/vlib"
)

type stateResult struct {
	succ    []state
	sample  string
	skipped bool
}

func main() {
	r := vlib.Start("C15")
	scratch, clean := vlib.Scratch("c15")
	defer clean()
	dnsfix.Quiet(scratch)
	debug.SetGCPercent(100)
	verbose := os.Getenv("VERIF_VERBOSE") != ""
	if pf := os.Getenv("C15_PROF"); pf != "" {
		f, _ := os.Create(pf)
		pprof.StartCPUProfile(f)
		defer pprof.StopCPUProfile()
	}

	// Operation menu. In EVERY state (<=3 values per key): every Add, every Del,
	// every batch of <= baseBatch lines. In every state holding <= smallTotal values
	// in all additionally every batch of exactly baseBatch+1 lines.
	baseBatch := r.Pick(1, 2)
	maxBatch := baseBatch + 1
	const smallTotal = 4
	const smallPerKey = 2 // backup cases: states with <= 2 values per key
	// Backup+Restore at every state of depth <= backupDepth that has <= smallPerKey
	// values per key; with a second backup generation where the store holds
	// <= gen2Total values in all. (Every backup case costs 3 database opens, 9 with
	// the second generation, and an open costs ~17 short-lived threads inside
	// RocksDB: opens, not transitions, are what the time budget of a tier buys.)
	backupDepth := r.Pick(1, 2)
	gen2Total := r.Pick(1, 2)
	// rdb.DefaultBatchSize is scaled down in this binary (OVERLAY): CreateBatch is then as cheap as the zero
	// Batch and is used on every other batch transition
	scale := rdb.DefaultBatchSize
	if scale > 8 {
		vlib.Infra("C15: rdb.DefaultBatchSize = %d: the binary was built without harness/c15/OVERLAY", scale)
	}
	// native fault injection (fault.go): in every state with <= faultPerKey values per key, every operation of
	// <= faultLines lines (thorough: of any length where the state has <= 1 value per key)
	faultPerKey := r.Pick(1, 2)
	faultLines := 2
	baseOps := singles()
	for n := 0; n <= baseBatch; n++ {
		baseOps = append(baseOps, batches(n)...)
	}
	allOps := append(append([]op(nil), baseOps...), batches(maxBatch)...)

	fs := newFailureSet()
	ct := &counters{}
	fs.onFull = func() { atomic.StoreInt32(&ct.aborted, 1) }
	nw := vlib.Workers()
	pool := make(chan *worker, nw)
	var workers []*worker
	for i := 0; i < nw; i++ {
		w := newWorker(i, scratch, fs, ct)
		workers = append(workers, w)
		pool <- w
	}

	visited := map[state]int{{}: 0}
	frontier := []state{{}}
	var perDepth []int
	var skippedStates, smallStates, faultStates int64
	depth := 0
	for ; len(frontier) > 0; depth++ {
		t0 := time.Now()
		perDepth = append(perDepth, len(frontier))
		results := make([]stateResult, len(frontier))
		d := depth
		vlib.ParallelFor(len(frontier), func(i int) {
			w := <-pool
			defer func() { pool <- w }()
			s := frontier[i]
			if ct.isAborted() {
				results[i].skipped = true
				atomic.AddInt64(&skippedStates, 1)
				return
			}
			small := len(s[0]) <= smallPerKey && len(s[1]) <= smallPerKey
			total := len(s[0]) + len(s[1])
			if d <= backupDepth && small && os.Getenv("C15_NOBACKUP") == "" {
				w.backupRestore(s, total <= gen2Total)
			}
			if !w.install(s) {
				results[i].skipped = true
				atomic.AddInt64(&skippedStates, 1)
				return
			}
			seen := map[state]bool{}
			fullSeen := map[string]bool{}
			ops := baseOps
			if total <= smallTotal {
				ops = allOps
				atomic.AddInt64(&smallStates, 1)
			}
			// key-removal raw dumps (2 opens each) in the smallest states. thorough: <=1 value
			// per key (36 states), operations of <=2 lines; quick: <=1 value in all (11
			// states), operations of <=1 line, of <=2 lines in the empty store.
			tiny := len(s[0]) <= 1 && len(s[1]) <= 1 && (r.Thorough() || total <= 1)
			krLines := 2
			if !r.Thorough() && total == 1 {
				krLines = 1
			}
			fstate := len(s[0]) <= faultPerKey && len(s[1]) <= faultPerKey
			if fstate {
				atomic.AddInt64(&faultStates, 1)
			}
			sampleJ := (i * 7919) % len(ops)
			for j, o := range ops {
				if ct.isAborted() {
					results[i].skipped = true
					atomic.AddInt64(&skippedStates, 1)
					return
				}
				useCB := o.kind == opBatch && (i+j)%2 == 0 && os.Getenv("C15_NOCB") == ""
				faults := fstate && (len(o.e) <= faultLines || (r.Thorough() && len(s[0]) <= 1 && len(s[1]) <= 1)) && os.Getenv("C15_NOFAULTS") == ""
				got, legal := w.step(s, o, useCB, fullSeen, tiny && len(o.e) <= krLines, faults)
				if j == sampleJ {
					results[i].sample = fmt.Sprintf("depth %d: %s --%s--> %s (matches the model: %v)", d, s.content(), o, got, legal)
				}
				if !legal {
					continue
				}
				ns, inAlpha, inBound := stateOf(got)
				if !inAlpha {
					continue
				}
				if !inBound {
					atomic.AddInt64(&ct.outOfBound, 1)
					continue
				}
				if !seen[ns] {
					seen[ns] = true
					results[i].succ = append(results[i].succ, ns)
				}
			}
		})
		var next []state
		for i := range results {
			if results[i].sample != "" {
				r.Sample(results[i].sample)
			}
			for _, ns := range results[i].succ {
				if _, ok := visited[ns]; !ok {
					visited[ns] = depth + 1
					next = append(next, ns)
				}
			}
		}
		sort.Slice(next, func(a, b int) bool { return next[a].less(next[b]) })
		if verbose {
			fmt.Fprintf(os.Stderr, "depth %d: %d states, %d transitions so far, %d failures, %.1fs\n", depth, len(frontier), ct.transitions, len(fs.m), time.Since(t0).Seconds())
		}
		frontier = next
		if ct.isAborted() {
			r.Note("search stopped early at depth %d: the store had to be rebuilt %d times / %d failing cases recorded; it is grossly broken, the counts cover only what ran before", depth, ct.hardResets, len(fs.m))
			depth++
			break
		}
		if md := os.Getenv("C15_MAXDEPTH"); md != "" && fmt.Sprint(depth) == md {
			depth++
			break
		}
	}
	maxDepth := depth - 1

	// batches over many keys / of many lines, around the scaled size constant (wide.go)
	wideViolations, wideMaxKeys := 0, 0
	if !ct.isAborted() && os.Getenv("C15_NOWIDE") == "" {
		wideViolations, wideMaxKeys = widePart(r, pool, scale)
	}

	// every worker's directory must hold exactly what its store last showed
	for _, w := range workers {
		w.shutdown()
	}

	totalFail, minimal := fs.report(r)

	// the complete bounded state set, counted independently of the search
	full := 1
	{
		per, p := 0, 1
		for n := 0; n <= maxPerKey; n++ {
			per += p
			p *= len(valNames)
		}
		full = 1
		for k := 0; k < nKeys; k++ {
			full *= per
		}
	}
	r.Set("states", len(visited))
	r.Set("states_in_bound_total", full)
	r.Set("states_per_depth", perDepth)
	r.Set("max_depth", maxDepth)
	r.Set("frontier_emptied", len(frontier) == 0)
	r.Set("all_bounded_states_reached", len(visited) == full)
	r.Set("transitions", ct.transitions)
	r.Set("traces_validated_against_impl", ct.transitions+ct.backupCases+ct.backupGen2Cases+ct.faultRuns+ct.wideCases+ct.wideFaultRuns+ct.wideBackupCases)
	r.Set("evaluations", ct.evaluations)
	r.Set("distinct_nontrivial", ct.nontrivial)
	r.Set("transitions_expected_to_fail", ct.expectedFail)
	r.Set("batch_transitions_without_net_effect", ct.noops)
	r.Set("batch_transitions_changing_map", ct.batchChanged)
	r.Set("batch_results_also_equal_in_list_order", ct.batchStrictOrder)
	r.Set("successors_beyond_bound_checked_not_expanded", ct.outOfBound)
	r.Set("operations_per_state", len(baseOps))
	r.Set("operations_per_small_state", len(allOps))
	r.Set("small_states_le4_values_in_all", smallStates)
	r.Set("max_batch_lines_every_state", baseBatch)
	r.Set("max_batch_lines_small_states", maxBatch)
	r.Set("find_findfirst_agreement_checks", ct.fullReads)
	r.Set("key_removal_raw_dumps", ct.keyRemovalChecks)
	r.Set("max_values_per_key", maxPerKey)
	r.Set("keys", keyNames)
	r.Set("values", valNames)
	r.Set("backup_restore_cases", ct.backupCases)
	r.Set("backup_second_generation_cases", ct.backupGen2Cases)
	r.Set("backup_depth", backupDepth)
	r.Set("backup_second_generation_max_values", gen2Total)
	r.Set("raw_dumps_of_closed_store", ct.rawDumps)
	r.Set("hard_resets", ct.hardResets)
	r.Set("stopped_early_store_grossly_broken", ct.isAborted())
	r.Set("store_opens", ct.opens)
	r.Set("batches_built_with_CreateBatch", ct.createBatchUsed)
	r.Set("states_skipped_install_failed", skippedStates)
	r.Set("failing_cases_total", totalFail)
	r.Set("failing_cases_minimal", minimal)
	r.Set("DefaultBatchSize_scaled_to", scale)
	r.Set("native_calls_recorded", ct.nativeCalls)
	r.Set("max_native_write_calls_of_a_successful_batch", ct.maxWriteCallsOkBatch)
	r.Set("max_nonempty_native_writes_of_an_operation", ct.maxNonEmptyWrites)
	r.Set("operations_with_more_than_one_nonempty_native_write", ct.multiWriteOps)
	r.Set("fault_states", faultStates)
	r.Set("fault_max_values_per_key", faultPerKey)
	r.Set("fault_operations", ct.faultOps)
	r.Set("fault_runs", ct.faultRuns)
	r.Set("fault_runs_by_failing_native_call", map[string]int64{"Get": ct.faultGet, "GetMulti": ct.faultGetMulti, "Put": ct.faultPut, "Delete": ct.faultDelete, "ExecuteBatch": ct.faultExecuteBatch})
	r.Set("fault_runs_reporting_success_with_full_effect", ct.faultSwallowedLegal)
	r.Set("fault_samples", fs.sampleList())
	r.Set("wide_max_distinct_keys", wideMaxKeys)
	r.Set("wide_cases", ct.wideCases)
	r.Set("wide_cases_changing_map", ct.wideNontrivial)
	r.Set("wide_fault_runs", ct.wideFaultRuns)
	r.Set("wide_backup_restore_cases", ct.wideBackupCases)
	r.Set("wide_failing_groups", wideViolations)
	r.Set("rule", fmt.Sprintf("level-synchronous BFS from the empty store to the fixed point; state = content of keys {k1,k2} as read from the REAL store, canonical within <=%d values per key over 5 values (156^2 states). In every state: 10 Add, 10 Del and every sequence of 0..%d add/del lines as one batch; in every state holding <=%d values in all additionally every sequence of %d lines (order and duplicates included). Each operation is executed on a real rdb.RDB that was brought into the state with the store's own Add/Del and read back; afterwards the error/no-error outcome and ForEach on every key (Find/FindFirst agreement once per distinct successor content of a state) are compared with the model (Add: appended; Del: exactly one equal value gone, rest in order, fails without effect if absent; batch: all additions then all deletions, named keys compared as multisets, other keys exactly, fails iff a deletion has no target and then changes nothing). In the smallest states (thorough: <=1 value per key, 36 states, operations of <=2 lines; quick: <=1 value in all, 11 states, operations of <=1 line, <=2 lines in the empty store), after every successful operation that leaves a key it names without values the store is closed and dumped raw: the key must be gone. Successors with >%d values under a key are checked but not expanded. At every state of depth <=%d with <=%d values per key the store is closed, backed up with rdb.Backup and restored with rdb.Restore into another directory, which must hold the same map (ordered raw dump); where the store holds <=%d values in all, additionally: raw dump of the source, a real RDB opened on the restored copy, then one more Add, a second backup into the same backup directory, restored into a fresh and over the existing directory (the latest backup must win). NATIVE LAYER (every transition): a recording layer between rdb.RDB and its RocksDB handle (field RDB.db) records every native call of the operation; one atomic step = before every non-empty native write after the first one of an operation the whole store is dumped, and that intermediate map must be the map before or the map after the operation. FAULTS: in every state with <=%d values per key, for every operation of <=%d lines (thorough: of any length in states with <=1 value per key), every native call the operation makes (Get, GetMulti - once per slot of its error slice -, Put, Delete, ExecuteBatch) is made to fail in turn, a failing write not reaching RocksDB: the operation must report an error and leave the map as it was, or report success and have its full specified effect. WIDE PART, around the size constant rdb.DefaultBatchSize which is scaled from 100000 to %d in this binary: every number n=1..%d (3x+1) of distinct keys x store contents {empty; every key one value; odd keys two values; plus a bystander key} x batch families {n additions; n deletions; additions and deletions on alternating keys; add and delete the same value under every key; replace under every key; n additions plus one deletion without target at each position p=1..n} and, for one key, every number 1..%d of lines (all additions; add/delete alternating), each built with RDB.CreateBatch (capacity = the constant) and on the zero Batch, lines in descending key order: result against the model by a complete raw dump of the open store, atomicity as above, then every native call failing in turn as above; the store holding every key one value is also closed, backed up and restored for every n. nontrivial = transitions whose expected outcome is a changed map", maxPerKey, baseBatch, smallTotal, maxBatch, maxPerKey, backupDepth, smallPerKey, gen2Total, faultPerKey, faultLines, scale, wideMaxKeys, wideMaxKeys))
	r.Assume = []string{
		"RocksDB itself (memtable, flush, compaction, backup engine) is executed, not modelled",
		"the store's future behaviour depends only on the bytes under each key, which ForEach observes completely (a malformed tail is a ForEach error); equal observations are therefore merged although reached through different physical histories",
		"rdb.DefaultBatchSize is scaled from 100000 to " + fmt.Sprint(scale) + " in the instrumented copy this binary is built from (harness/c15/OVERLAY, setconst). In the repository the constant only sizes the two slices RDB.CreateBatch pre-allocates and is the compiler's default batch size (not used here); the property does not mention it - a batch of ANY size is one atomic step - so scaling it moves 'fewer / exactly as many / more lines and distinct keys than the constant' from 100000 into the bound without changing what is demanded. A size threshold that is NOT derived from this constant (a literal number) stays outside the bound",
		"batches are built with RDB.CreateBatch on every other batch transition (state index + operation index even) and on the zero rdb.Batch on the rest; the wide part uses both for every case",
		"a failing native write does not reach RocksDB (one native Put / Delete / write batch is applied completely or not at all: RocksDB's contract, not re-verified here); a failing native read returns an error instead of data. Failures inside rdb.Backup / rdb.Restore (which do not go through RDB.db) are not injected: the statement says nothing about a failing backup",
		"the rdb package is built with its sync / channel operations bound to the scheduler shims (the instrumenter scales constants only in packages it instruments); no exploration is active in this binary, so every shim delegates to the real primitive",
		"keys outside {k1,k2} are only looked for by raw dumps (at backup points and when each worker's store is finally closed)",
		"single writer at a time per store; concurrency of Add/Del/ExecuteBatch (writeMutex) is not explored here",
		"values longer than 2 bytes, more than 3 values per key, batches longer than the bound, and random long histories are outside the bound",
	}
	for _, knob := range []string{"C15_NOBACKUP", "C15_NOCB", "C15_MAXDEPTH", "C15_NOFAULTS", "C15_NOWIDE"} { // development knobs: never a full run
		if os.Getenv(knob) != "" {
			r.Exhaustive = false
			r.Note("development knob %s is set: this run does not cover the declared bound", knob)
		}
	}
	if fs.dropped > 0 || skippedStates > 0 || ct.isAborted() {
		r.Exhaustive = false
	}
	clean()
	pprof.StopCPUProfile()
	r.Finish()
}
