package main

import (
	"sort"
	"sync"

	"verifharness/vlib"
)

// failure is one disagreement between the real store and the statement:
// kind of disagreement, the content the store held, and the operation.
type failure struct {
	kind   string
	c      content
	o      op // kind 0 = no operation involved
	detail string
}

func (f failure) key() string { return caseKey(f.kind, f.c, f.o) }

func caseKey(kind string, c content, o op) string {
	return kind + "/" + o.String() + "/" + c.String()
}

const maxFailures = 20000

type failureSet struct {
	mu      sync.Mutex
	m       map[string]failure
	dropped int64
	onFull  func()
	samples map[string]bool // fault-run samples (a fixed few cases; sorted when reported)
}

func (fs *failureSet) sample(s string) {
	fs.mu.Lock()
	defer fs.mu.Unlock()
	if fs.samples == nil {
		fs.samples = map[string]bool{}
	}
	fs.samples[s] = true
}

func (fs *failureSet) sampleList() []string {
	l := make([]string, 0, len(fs.samples))
	for s := range fs.samples {
		l = append(l, s)
	}
	sort.Strings(l)
	return l
}

func newFailureSet() *failureSet { return &failureSet{m: map[string]failure{}} }

func (fs *failureSet) add(f failure) {
	fs.mu.Lock()
	defer fs.mu.Unlock()
	k := f.key()
	if _, ok := fs.m[k]; ok {
		return
	}
	if len(fs.m) >= maxFailures {
		fs.dropped++
		if fs.onFull != nil {
			fs.onFull()
		}
		return
	}
	fs.m[k] = f
}

func (fs *failureSet) remove(k string) {
	fs.mu.Lock()
	defer fs.mu.Unlock()
	delete(fs.m, k)
}

func subLists(l []string) [][]string {
	n := len(l)
	if n > 8 { // observation of a broken store: do not blow up
		return [][]string{l}
	}
	out := make([][]string, 0, 1<<uint(n))
	for mask := 0; mask < 1<<uint(n); mask++ {
		var s []string
		for i := 0; i < n; i++ {
			if mask&(1<<uint(i)) != 0 {
				s = append(s, l[i])
			}
		}
		out = append(out, s)
	}
	return out
}

func subOps(o op) []op {
	if o.kind != opBatch {
		return []op{o}
	}
	n := len(o.e)
	var out []op
	for mask := 0; mask < 1<<uint(n); mask++ {
		var es []entry
		for i := 0; i < n; i++ {
			if mask&(1<<uint(i)) != 0 {
				es = append(es, o.e[i])
			}
		}
		out = append(out, op{opBatch, es})
	}
	return out
}

// report sends the MINIMAL failures to the run: a failure is minimal if no
// proper sub-case (sub-sequence of each key's list, sub-sequence of the batch
// lines, same kind of disagreement) failed too. Exact, because every sub-case
// inside the bound was executed.
func (fs *failureSet) report(r *vlib.Run) (total, minimal int) {
	keys := make([]string, 0, len(fs.m))
	for k := range fs.m {
		keys = append(keys, k)
	}
	sort.Strings(keys)
	for _, k := range keys {
		f := fs.m[k]
		isMin := true
	search:
		for _, so := range subOps(f.o) {
			for _, l0 := range subLists(f.c[0]) {
				for _, l1 := range subLists(f.c[1]) {
					ck := caseKey(f.kind, content{l0, l1}, so)
					if ck == k {
						continue
					}
					if _, ok := fs.m[ck]; ok {
						isMin = false
						break search
					}
				}
			}
		}
		if isMin {
			minimal++
			r.Violate(k, f.detail, map[string]interface{}{
				"kind": f.kind, "store_content": f.c.String(), "operation": f.o.String(),
				"how": "open rdb.NewRDB on an empty directory, Add the listed values in order, apply the operation, read every key",
			})
		}
	}
	if fs.dropped > 0 {
		r.Note("failure table full: %d further failing cases were not recorded (minimality filter is then approximate)", fs.dropped)
	}
	return len(fs.m), minimal
}
