// C06: no database backend is used after close, closed twice, or leaked.
//
// Part 1 (vbfs): breadth-first search over operation histories; every
// transition runs the REAL FBDNSDB/db.DB code (instrumented, under the vsched
// scheduler on the default schedule, with the environment's answers – timeout
// fires, late completion – being part of the operation) over recording
// backends. Part 2 (vsched): all interleavings, up to a preemption bound, of
// concurrent readers, reloads, the reload timeout race and shutdown.
package main

import (
	"fmt"
	"os"
	"runtime"
	"sort"
	"strings"

	"github.com/facebookincubator/dns/dnsrocks/dnsserver"
	"github.com/facebookincubator/dns/dnsrocks/zzverif/vsched"

	"verifharness/dnsfix"
	"verifharness/vlib"
)

type outcome struct {
	enabled bool
	canon   string
	bad     []string
}

// replay builds a fresh system, applies hist, returns the outcome of the last op.
func replay(rocksLike bool, hist []string, log bool) (outcome, *vsched.Result) {
	var out outcome
	res := vsched.RunOnce(vsched.Config{LogEvents: log, MaxSteps: 5000}, nil, func() {
		s := newSys(rocksLike)
		out.enabled = true
		for _, op := range hist {
			if !s.apply(op) {
				out.enabled = false
				return
			}
		}
		out.canon = s.canon()
		out.bad = s.invariant()
	})
	for _, p := range res.Problems() {
		out.bad = append(out.bad, "scheduler:"+p)
	}
	return out, res
}

func bfs(r *vlib.Run, rocksLike bool, depth int) (states, transitions int64, maxDepth int, fixpoint bool) {
	kind := "cdb-like"
	if rocksLike {
		kind = "rocksdb-like"
	}
	seen := map[string]bool{}
	init, _ := replay(rocksLike, nil, false)
	seen[init.canon] = true
	frontier := [][]string{nil}
	states = 1
	for d := 1; d <= depth && len(frontier) > 0; d++ {
		var next [][]string
		for _, hist := range frontier {
			for _, op := range opNames {
				h := append(append([]string{}, hist...), op)
				o, _ := replay(rocksLike, h, false)
				if !o.enabled {
					continue
				}
				transitions++
				if len(o.bad) > 0 {
					// minimal by construction: BFS order + no expansion beyond a violating state
					fp := fmt.Sprintf("hist/%s/%s/%s", kind, strings.Join(o.bad, "+"), strings.Join(h, ","))
					_, res := replay(rocksLike, h, true)
					r.Violate(fp, fmt.Sprintf("backend %s; history %v; violated: %v; state: %s", kind, h, o.bad, o.canon),
						map[string]interface{}{"part": "history", "backend": kind, "history": h, "events": res.EventLog()})
					continue
				}
				if !seen[o.canon] {
					seen[o.canon] = true
					states++
					next = append(next, h)
					maxDepth = d
					r.Sample(map[string]interface{}{"backend": kind, "history": h, "state": o.canon})
				}
			}
		}
		frontier = next
		if os.Getenv("VERIF_DEBUG") != "" {
			fmt.Fprintf(os.Stderr, "bfs %s depth %d: states=%d transitions=%d frontier=%d\n", kind, d, states, transitions, len(frontier))
		}
	}
	return states, transitions, maxDepth, len(frontier) == 0
}

// ---- part 2: schedules ----

type scenario struct {
	name      string
	rocksLike bool
	pre       []string   // sequential prefix
	threads   [][]string // concurrent op lists
	env       string     // "", "complete-ok", "complete-err": an environment thread completes the slow open
}

var scenarios = []scenario{
	{name: "2readers-x-fullreload", threads: [][]string{{"acq0", "use0", "rel0"}, {"acq1", "use1", "rel1"}, {"reload-full-B"}}},
	{name: "reader-x-fullreload-x-shutdown", threads: [][]string{{"acq0", "use0", "rel0"}, {"reload-full-B"}, {"shutdown"}}},
	{name: "reader-x-partial-x-full (rocksdb-like)", rocksLike: true, threads: [][]string{{"acq0", "use0", "rel0"}, {"reload-partial"}, {"reload-full-B"}}},
	{name: "held-reader-x-reload-x-reload", pre: []string{"acq2"}, threads: [][]string{{"reload-full-B"}, {"reload-full-A", "rel2"}, {"acq0", "use0", "rel0"}}},
	{name: "timeout-race-late-ok", threads: [][]string{{"reload-full-slow"}, {"acq0", "use0", "rel0"}}, env: "ok"},
	{name: "timeout-race-late-err", threads: [][]string{{"reload-full-slow"}, {"acq0", "use0", "rel0"}}, env: "err"},
	{name: "timeout-race-then-reload (rocksdb-like)", rocksLike: true, threads: [][]string{{"reload-full-slow", "reload-partial"}, {"acq0", "use0", "rel0"}}, env: "ok"},
	{name: "stats-x-shutdown-x-reader", threads: [][]string{{"stats"}, {"shutdown"}, {"acq0", "use0", "rel0"}}},
	{name: "stats-x-shutdown (rocksdb-like)", rocksLike: true, threads: [][]string{{"stats", "stats"}, {"shutdown"}}},
	{name: "bad-reload-x-reader-x-stats", threads: [][]string{{"reload-full-bad"}, {"acq0", "use0", "rel0"}, {"stats"}}},
}

func runScenario(sc scenario) (func(), func(*vsched.Result) []string, *[]string) {
	var s *sys
	var finalBad []string
	body := func() {
		s = newSys(sc.rocksLike)
		if sc.env != "" {
			s.w.release["slow"] = "" // in flight until the completer (or the end of the scenario) completes it
		}
		for _, op := range sc.pre {
			s.apply(op)
		}
		var ts []*vsched.Thread
		for i, ops := range sc.threads {
			ops := ops
			ts = append(ts, vsched.GoNamed(fmt.Sprintf("T%d", i), false, func() {
				for _, op := range ops {
					s.applyConcurrent(op)
				}
			}))
		}
		if sc.env != "" {
			vsched.GoEnv("completer", func() {
				vsched.SyncOp(vsched.OpEnv, s.w, "slow-open-completes-"+sc.env, true, nil)
				s.w.release["slow"] = sc.env
			})
		}
		vsched.Join(ts...)
		if sc.env != "" {
			s.w.release["slow"] = sc.env // whatever is still in flight completes now
		}
		vsched.Quiesce()
		for i := range s.readers {
			if s.readers[i] != nil {
				s.readers[i].Close()
				s.readers[i] = nil
			}
		}
		finalBad = s.invariant()
	}
	check := func(res *vsched.Result) []string {
		bad := append([]string{}, finalBad...)
		for _, p := range res.Problems() {
			bad = append(bad, "scheduler:"+p)
		}
		if len(res.Problems()) > 0 && s != nil {
			bad = append(bad, s.w.bad...)
		}
		sort.Strings(bad)
		return dedup(bad)
	}
	return body, check, &finalBad
}

// applyConcurrent is apply without the per-op quiescence (threads overlap).
func (s *sys) applyConcurrent(op string) {
	switch {
	case op == "reload-full-slow":
		s.h.Reload(*dnsserver.NewFullReloadSignal("slow"))
	case len(op) == 4 && (strings.HasPrefix(op, "acq") || strings.HasPrefix(op, "use") || strings.HasPrefix(op, "rel")):
		i := int(op[3] - '0')
		switch op[:3] {
		case "acq":
			if r, err := s.h.AcquireReader(); err == nil {
				s.readers[i] = r
			}
		case "use":
			if s.readers[i] != nil {
				s.readers[i].ForEach([]byte("some-key"), func([]byte) error { return nil })
			}
		case "rel":
			if s.readers[i] != nil {
				s.readers[i].Close()
				s.readers[i] = nil
			}
		}
	case op == "reload-partial":
		s.h.Reload(*dnsserver.NewPartialReloadSignal())
	case strings.HasPrefix(op, "reload-full-"):
		s.h.Reload(*dnsserver.NewFullReloadSignal(strings.TrimPrefix(op, "reload-full-")))
	case op == "stats":
		s.h.ReportBackendStats()
	case op == "shutdown":
		s.h.Close()
		s.shutdown = true
	}
}

func main() {
	runtime.GOMAXPROCS(1) // hand-offs between scheduler threads are goroutine switches on one OS thread
	r := vlib.Start("C06")
	dir, clean := vlib.Scratch("c06")
	defer clean()
	dnsfix.Quiet(dir)

	if p := replayArg(); p != "" {
		doReplay(p)
		return
	}

	depth := r.Pick(5, 7)
	bound := r.Pick(2, 3)
	// work units: 0,1 = history search (CDB-like, RocksDB-like backends); 2.. = one schedule scenario each
	const K = 1 // each scenario's choice tree is split into K shards at its top level
	nUnits := 2 + K*len(scenarios)
	idx, n, isShard := r.Shard()
	if !isShard {
		r.ForkShards(nUnits)
	} else {
		for u := idx; u < nUnits; u += n {
			if u < 2 {
				rl := u == 1
				st, tr, md, fix := bfs(r, rl, depth)
				r.Add("history_states", st)
				r.Add("history_transitions", tr)
				r.Note("history search rocksLike=%v: states=%d transitions=%d max_depth=%d fixpoint=%v (depth bound %d)", rl, st, tr, md, fix, depth)
				continue
			}
			sc := scenarios[(u-2)/K]
			outcomes := map[string]bool{}
			var curCheck func(*vsched.Result) []string
			st := vsched.Explore(vsched.Config{Bound: bound, MaxSteps: 5000, Shard: (u - 2) % K, NShards: K}, func() (func(), func(*vsched.Result)) {
				body, check, _ := runScenario(sc)
				curCheck = check
				return body, func(res *vsched.Result) {
					bad := curCheck(res)
					outcomes[strings.Join(bad, "+")] = true
					if len(bad) > 0 {
						fp := fmt.Sprintf("sched/%s/%s", sc.name, strings.Join(bad, "+"))
						if !r.Has(fp) {
							body2, _, _ := runScenario(sc)
							lr := vsched.RunOnce(vsched.Config{LogEvents: true, MaxSteps: 5000}, res.Choices, body2)
							r.Violate(fp, fmt.Sprintf("scenario %s: %v (choices %v)", sc.name, bad, res.Choices),
								map[string]interface{}{"part": "schedule", "scenario": sc.name, "choices": res.Choices, "events": lr.EventLog()})
						}
					}
				}
			})
			r.Add("schedule_executions", st.Execs)
			r.Add("schedule_steps", st.Transitions)
			r.Add("schedule_pruned_subtrees", st.Pruned)
			r.Add("schedule_distinct_states", st.States)
			r.Add("schedule_distinct_outcomes", int64(len(outcomes)))
			if st.Capped || st.BoundCompleted < bound {
				r.Exhaustive = false
			}
			r.Note("scenario %q shard %d/%d: executions=%d pruned_subtrees=%d distinct_states=%d steps=%d bound_completed=%d max_choice_points=%d", sc.name, (u-2)%K, K, st.Execs, st.Pruned, st.States, st.Transitions, st.BoundCompleted, st.MaxPoints)
			if (u-2)%K == 0 {
				r.Sample(map[string]interface{}{"scenario": sc.name, "threads": sc.threads, "pre": sc.pre, "env": sc.env, "executions": st.Execs})
			}
		}
		r.Finish()
	}
	states, transitions := r.Int("history_states"), r.Int("history_transitions")
	execs, steps := r.Int("schedule_executions"), r.Int("schedule_steps")
	r.Set("schedule_preemption_bound", bound)
	r.Set("states", states+r.Int("schedule_distinct_states"))
	r.Set("transitions", transitions+steps)
	r.Set("traces_validated_against_impl", transitions+execs)
	r.Set("evaluations", transitions+execs)
	r.Set("distinct_nontrivial", states)
	r.Set("rule", "part 1: BFS over histories of the op alphabet "+strings.Join(opNames, " ")+"; every transition executes the real FBDNSDB/db.DB code over recording backends (CDB-like and RocksDB-like reload behaviour); states = distinct canonical states (served generation, its refcount/destroyable flag, what each of 3 reader slots pins, unreferenced-but-not-closed-once backends); invariant in every state: no use-after-close, no double close, served/held backends open, nothing unreferenced left open. part 2: every interleaving within the preemption bound of the listed concurrent scenarios, same invariant at the end plus deadlock/panic detection")
	r.Assume = []string{"backends are recording fakes implementing db.DBI (they never free, so the search survives the event it looks for); real RocksDB/CDB close semantics are not exercised here",
		"histories deeper than the bound and more than 3 concurrent readers are not covered"}
	r.Finish()
}

func replayArg() string {
	for i, a := range os.Args {
		if a == "--replay" && i+1 < len(os.Args) {
			return os.Args[i+1]
		}
	}
	return ""
}
