package main

import (
	"fmt"
	"os"
	"sort"
	"strings"

	"github.com/facebookincubator/dns/dnsrocks/db"
	"github.com/facebookincubator/dns/dnsrocks/dnsserver"
	"github.com/facebookincubator/dns/dnsrocks/dnsserver/stats"
	"github.com/facebookincubator/dns/dnsrocks/zzverif/vsched"
)

const nSlots = 3

// sys is one real FBDNSDB over the recording backends, plus the harness's view
// of what it has done to it.
type sys struct {
	w        *world
	h        *dnsserver.FBDNSDB
	readers  [nSlots]db.Reader
	shutdown bool
	log      []string
}

func newSys(rocksLike bool) *sys {
	w := &world{rocksLike: rocksLike, release: map[string]string{"slow": "ok"}}
	h, err := dnsserver.NewFBDNSDBBasic(dnsserver.HandlerConfig{}, dnsserver.DBConfig{Path: "A", Driver: "recording", ReloadTimeout: 1 << 40, ValidationKey: validationKey},
		dnsserver.CacheConfig{}, &dnsserver.DummyLogger{}, &stats.DummyStats{})
	if err != nil {
		panic(err)
	}
	h.SetDBForVerif(db.NewDBForVerif(w.open("A", true)))
	return &sys{w: w, h: h}
}

// ops of the history alphabet, simplest first.
var opNames = []string{
	"acq0", "use0", "rel0", "acq1", "use1", "rel1", "acq2", "use2", "rel2",
	"reload-partial", "reload-full-A", "reload-full-B", "reload-full-bad", "reload-full-missing",
	"reload-full-slow-ok", "reload-full-slow-timeout-late-ok", "reload-full-slow-timeout-late-err",
	"corrupt-served", "stats", "shutdown",
	// the database reload succeeds, then the removal of the processed signal file fails
	"reload-cleanupfail-B", "reload-cleanupfail-partial",
}

// notADir is a regular file used as control directory: removing "<file>/switchdb" fails with ENOTDIR.
// (The harness binary itself: no temporary file is needed.)
var notADir = func() string {
	p, err := os.Executable()
	if err != nil {
		panic(err)
	}
	return p
}()

// apply executes one op on the real code; returns false if it is not enabled in this state.
func (s *sys) apply(op string) bool {
	switch {
	case len(op) == 4 && strings.HasPrefix(op, "acq"):
		i := int(op[3] - '0')
		if s.readers[i] != nil {
			return false
		}
		if s.shutdown {
			// acquiring after shutdown is part of the alphabet (query racing shutdown)
		}
		r, err := s.h.AcquireReader()
		if err != nil {
			return true
		}
		s.readers[i] = r
	case len(op) == 4 && strings.HasPrefix(op, "use"):
		i := int(op[3] - '0')
		if s.readers[i] == nil {
			return false
		}
		s.readers[i].ForEach([]byte("some-key"), func([]byte) error { return nil })
	case len(op) == 4 && strings.HasPrefix(op, "rel"):
		i := int(op[3] - '0')
		if s.readers[i] == nil {
			return false
		}
		s.readers[i].Close()
		s.readers[i] = nil
	case op == "reload-partial":
		if s.shutdown {
			return false
		}
		s.h.Reload(*dnsserver.NewPartialReloadSignal())
	case op == "reload-full-slow-ok":
		if s.shutdown {
			return false
		}
		s.h.Reload(*dnsserver.NewFullReloadSignal("slow"))
	case strings.HasPrefix(op, "reload-full-slow-timeout-late-"):
		if s.shutdown {
			return false
		}
		// the open stays in flight: the only enabled action is the timeout; then the open completes late
		s.w.release["slow"] = ""
		err := s.h.Reload(*dnsserver.NewFullReloadSignal("slow"))
		if err == nil {
			s.w.bad = append(s.w.bad, "timed-out reload reported success")
		}
		s.w.release["slow"] = strings.TrimPrefix(op, "reload-full-slow-timeout-late-")
		vsched.Quiesce()
		s.w.release["slow"] = "ok"
	case strings.HasPrefix(op, "reload-cleanupfail-"):
		if s.shutdown {
			return false
		}
		s.h.SetControlPathForVerif(notADir)
		var err error
		if what := strings.TrimPrefix(op, "reload-cleanupfail-"); what == "partial" {
			err = s.h.Reload(*dnsserver.NewPartialReloadSignal())
		} else {
			err = s.h.Reload(*dnsserver.NewFullReloadSignal(what))
		}
		s.h.SetControlPathForVerif("")
		if err == nil {
			s.w.bad = append(s.w.bad, "harness: the signal file removal was expected to fail")
		}
	case strings.HasPrefix(op, "reload-full-"):
		if s.shutdown {
			return false
		}
		s.h.Reload(*dnsserver.NewFullReloadSignal(strings.TrimPrefix(op, "reload-full-")))
	case op == "corrupt-served":
		// environment: the served (RocksDB-like) database loses its validation key at the next catch-up
		if s.shutdown || !s.w.rocksLike {
			return false
		}
		in := s.h.DBForVerif().DBIForVerif().(*inst)
		if !in.valid {
			return false
		}
		in.valid = false
	case op == "stats":
		// also after shutdown: the statistics reporter is a periodic task that does not know about it
		s.h.ReportBackendStats()
	case op == "shutdown":
		if s.shutdown {
			return false
		}
		s.h.Close()
		s.shutdown = true
	default:
		panic("unknown op " + op)
	}
	vsched.Quiesce()
	return true
}

// invariant evaluates the property on the current state; returns violations (kinds).
func (s *sys) invariant() []string {
	var out []string
	out = append(out, s.w.bad...)
	served := s.h.DBForVerif()
	sin := served.DBIForVerif().(*inst)
	held := map[*inst]bool{}
	anyHeld := false
	for i, r := range s.readers {
		if r == nil {
			continue
		}
		anyHeld = true
		in := db.ReaderDBForVerif(r).DBIForVerif().(*inst)
		held[in] = true
		if in.closed > 0 {
			out = append(out, fmt.Sprintf("held-backend-closed:slot%d", i))
		}
	}
	if !s.shutdown && sin.closed > 0 {
		out = append(out, "served-backend-closed")
	}
	for _, in := range s.w.insts {
		if in.closed > 1 {
			out = append(out, "closed-twice")
		}
		if in.closed == 0 && !held[in] && !(in == sin && !s.shutdown) {
			// open, not served, not held by any reader: leaked (nothing can ever close it)
			out = append(out, "leak:"+in.path)
		}
	}
	_ = anyHeld
	sort.Strings(out)
	return dedup(out)
}

func dedup(a []string) []string {
	var o []string
	for i, x := range a {
		if i == 0 || x != a[i-1] {
			o = append(o, x)
		}
	}
	return o
}

// canon renders the property-relevant state. Backends that are closed exactly
// once and referenced by nothing are dropped (they cannot influence any future
// behaviour, and every event involving them was judged when it happened); the
// others are numbered in order of first reference (served, then slots).
func (s *sys) canon() string {
	idx := map[*inst]int{}
	widx := map[*db.DB]int{}
	var parts []string
	name := func(in *inst) string {
		if _, ok := idx[in]; !ok {
			idx[in] = len(idx)
		}
		return fmt.Sprintf("b%d(%s,valid=%v,closed=%d)", idx[in], in.path, in.valid, in.closed)
	}
	wname := func(d *db.DB) string {
		if _, ok := widx[d]; !ok {
			widx[d] = len(widx)
		}
		return fmt.Sprintf("w%d{%s rc=%d destroyable=%v}", widx[d], name(d.DBIForVerif().(*inst)), d.RefCountForVerif(), d.DestroyableForVerif())
	}
	parts = append(parts, "served="+wname(s.h.DBForVerif()), "path="+s.h.PathForVerif(), fmt.Sprintf("shutdown=%v", s.shutdown))
	for i, r := range s.readers {
		if r == nil {
			parts = append(parts, fmt.Sprintf("slot%d=-", i))
		} else {
			parts = append(parts, fmt.Sprintf("slot%d=%s", i, wname(db.ReaderDBForVerif(r))))
		}
	}
	var others []string
	for _, in := range s.w.insts {
		if _, ok := idx[in]; !ok && in.closed != 1 {
			others = append(others, fmt.Sprintf("unref(%s,closed=%d)", in.path, in.closed))
		}
	}
	sort.Strings(others)
	return strings.Join(append(parts, others...), " ")
}
