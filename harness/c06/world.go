package main

import (
	"errors"
	"fmt"
	"net"

	"github.com/facebookincubator/dns/dnsrocks/db"
	"github.com/facebookincubator/dns/dnsrocks/zzverif/vsched"
)

// world is the recording environment of one execution: every backend instance
// ever opened, and every lifecycle event that must not happen.
type world struct {
	insts     []*inst
	bad       []string          // lifecycle violations observed (use-after-close, double close)
	rocksLike bool              // Reload(samePath) catches up in place (RocksDB) instead of opening a new backend (CDB)
	release   map[string]string // slow path -> "" (blocked) | "ok" | "err"
	opened    int
}

var validationKey = []byte("validation-key")

// catalogue of database paths: behaviour of opening them.
type pathKind struct {
	exists bool // open succeeds
	valid  bool // holds the validation key
	slow   bool // open blocks until the environment completes it
}

var catalogue = map[string]pathKind{
	"A":       {exists: true, valid: true},
	"B":       {exists: true, valid: true},
	"bad":     {exists: true, valid: false},
	"missing": {exists: false},
	"slow":    {exists: true, valid: true, slow: true},
}

// inst is a recording db.DBI. It never frees anything, so the search survives
// the very events it is looking for.
type inst struct {
	w      *world
	id     int
	path   string
	valid  bool
	gen    int
	closed int
}

type rctx struct{}

func (rctx) Reset() {}

func (w *world) open(path string, valid bool) *inst {
	i := &inst{w: w, id: len(w.insts), path: path, valid: valid}
	w.insts = append(w.insts, i)
	return i
}

func (i *inst) touch(what string) {
	if i.closed > 0 {
		i.w.bad = append(i.w.bad, fmt.Sprintf("use-after-close:%s", what))
	}
}

func (i *inst) NewContext() db.Context                { return rctx{} }
func (i *inst) FreeContext(db.Context)                {}
func (i *inst) ClosestKeyFinder() db.ClosestKeyFinder { return nil }

func (i *inst) Find(key []byte, c db.Context) ([]byte, error) {
	vsched.Yield(i, "dbi.Find", false)
	i.touch("Find")
	return nil, nil
}

func (i *inst) ForEach(key []byte, f func([]byte) error, c db.Context) error {
	vsched.Yield(i, "dbi.ForEach", false)
	i.touch("ForEach")
	if string(key) == string(validationKey) && i.valid {
		return f([]byte{1})
	}
	return nil
}

func (i *inst) FindMap(domain, mtype []byte, c db.Context) ([]byte, error) {
	vsched.Yield(i, "dbi.FindMap", false)
	i.touch("FindMap")
	return nil, nil
}

func (i *inst) GetLocationByMap(ipnet *net.IPNet, mapID []byte, c db.Context) ([]byte, uint8, error) {
	vsched.Yield(i, "dbi.GetLocationByMap", false)
	i.touch("GetLocationByMap")
	return nil, 0, nil
}

func (i *inst) GetStats() map[string]int64 {
	vsched.Yield(i, "dbi.GetStats", false)
	i.touch("GetStats")
	return map[string]int64{}
}

func (i *inst) Close() error {
	vsched.Yield(i, "dbi.Close", true)
	i.closed++
	if i.closed > 1 {
		i.w.bad = append(i.w.bad, "double-close")
	}
	return nil
}

func (i *inst) Reload(path string) (db.DBI, error) {
	vsched.Yield(i, "dbi.Reload", true)
	i.touch("Reload")
	k, ok := catalogue[path]
	if !ok || !k.exists {
		return nil, errors.New("open: no such database")
	}
	if k.slow {
		// the open / catch-up is in flight until the environment completes it
		vsched.Block(i.w, "backend-open-completes", func() bool { return i.w.release[path] != "" })
		if i.w.release[path] == "err" {
			return nil, errors.New("open: late failure")
		}
	}
	if path == i.path && i.w.rocksLike {
		i.gen++ // catch-up in place
		return i, nil
	}
	i.w.opened++
	return i.w.open(path, k.valid), nil
}
