package main

import (
	"encoding/json"
	"fmt"
	"os"
	"strings"

	"github.com/facebookincubator/dns/dnsrocks/zzverif/vsched"
)

// doReplay re-executes a recorded violation without the explorer.
func doReplay(path string) {
	b, err := os.ReadFile(path)
	if err != nil {
		fmt.Fprintln(os.Stderr, err)
		os.Exit(2)
	}
	var f struct {
		Replay struct {
			Part     string   `json:"part"`
			Backend  string   `json:"backend"`
			History  []string `json:"history"`
			Scenario string   `json:"scenario"`
			Choices  []int    `json:"choices"`
		} `json:"replay"`
	}
	if err := json.Unmarshal(b, &f); err != nil {
		fmt.Fprintln(os.Stderr, err)
		os.Exit(2)
	}
	if f.Replay.Part == "history" {
		o, res := replay(f.Replay.Backend == "rocksdb-like", f.Replay.History, true)
		fmt.Println(strings.Join(res.EventLog(), "\n"))
		fmt.Printf("history %v -> violated %v\nstate %s\n", f.Replay.History, o.bad, o.canon)
		if len(o.bad) > 0 {
			fmt.Printf("VIOLATION property=C06 replay=%s\n", path)
			os.Exit(1)
		}
		os.Exit(0)
	}
	for _, sc := range scenarios {
		if sc.name == f.Replay.Scenario {
			body, check, _ := runScenario(sc)
			res := vsched.RunOnce(vsched.Config{LogEvents: true, MaxSteps: 5000}, f.Replay.Choices, body)
			bad := check(res)
			fmt.Println(strings.Join(res.EventLog(), "\n"))
			fmt.Printf("scenario %s choices %v -> violated %v\n", sc.name, f.Replay.Choices, bad)
			if len(bad) > 0 {
				fmt.Printf("VIOLATION property=C06 replay=%s\n", path)
				os.Exit(1)
			}
			os.Exit(0)
		}
	}
	fmt.Fprintln(os.Stderr, "unknown scenario")
	os.Exit(2)
}
