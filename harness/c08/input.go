package main

import (
	"errors"
	"fmt"
	"io"
	"strings"
	"sync/atomic"
	"testing/iotest"
)

// Failure modes of the diff INPUT itself. Every diff of the other phases is a
// list of complete LF-terminated lines handed over by a bytes.Reader; here the
// same diffs arrive the other ways a diff can arrive:
//
//   - mustFail: the diff cannot be applied - it cannot be read to its end (the
//     reader reports an error other than EOF after k bytes), or it has a line
//     that is no diff line at any length (over-long included), or bytes after
//     the last line that are no diff line. ApplyDiff must return an error and
//     the store must be exactly as it was.
//   - mustOK: a well-formed diff from a legal io.Reader (one byte per Read; the
//     last data together with io.EOF): must succeed and give compile(B).
//   - either: encodings of the same diff the statement says nothing about
//     (CRLF, no final newline, blank and '#' lines, a '#' line longer than the
//     scanner's token limit). Accepting and rejecting are both fine, but it is
//     all or nothing: success with compile(B), or an error with the store
//     exactly as it was.
const (
	mustFail = iota
	mustOK
	either
)

type inputCase struct {
	class  string
	want   int
	desc   string // how the input was built from the diff lines (replay recipe)
	valid  bool   // at least one valid diff line is delivered in full (and a newline after it) before the trouble
	reader func() io.Reader
}

var errBrokenInput = errors.New("verif: simulated I/O error while reading the diff")

// failAfter delivers data[:k] and then errBrokenInput - in the same Read call as
// the last bytes when together is true, in the next one otherwise.
type failAfter struct {
	data     []byte
	k, off   int
	together bool
}

func (r *failAfter) Read(p []byte) (int, error) {
	if r.off >= r.k {
		return 0, errBrokenInput
	}
	n := copy(p, r.data[r.off:r.k])
	r.off += n
	if r.together && r.off >= r.k {
		return n, errBrokenInput
	}
	return n, nil
}

// bufio.MaxScanTokenSize: a line of 65535 bytes plus its newline is the longest a default bufio.Scanner delivers
const scanLimit = 64 * 1024

func longLine(prefix string, n int) string {
	return prefix + strings.Repeat("x", n-len(prefix))
}

func abbreviate(l string) string {
	if len(l) > 200 {
		return fmt.Sprintf("%s...<a line of %d bytes, %q followed by 'x's>", l[:1], len(l), l[:1])
	}
	return l
}

func abbreviateAll(lines []string) []string {
	out := make([]string, len(lines))
	for i, l := range lines {
		out[i] = abbreviate(l)
	}
	return out
}

// positions returns the insertion points of a diff of n lines: all of them.
func positions(n int) []int {
	p := make([]int, n+1)
	for i := range p {
		p[i] = i
	}
	return p
}

// readCuts: the byte counts after which the reader breaks. every: all of 0..len;
// otherwise, for each line: in its middle, when it is complete but its newline
// is not, and just after its newline (plus 0).
func readCuts(lines []string, every bool) []int {
	total := len(diffText(lines))
	if every {
		c := make([]int, total+1)
		for i := range c {
			c[i] = i
		}
		return c
	}
	c := []int{0}
	off := 0
	for _, l := range lines {
		c = append(c, off+len(l)/2, off+len(l), off+len(l)+1)
		off += len(l) + 1
	}
	return c
}

// completeLines tells how many of the lines are delivered with their newline within the first k bytes.
func completeLines(lines []string, k int) int {
	off, n := 0, 0
	for _, l := range lines {
		off += len(l) + 1
		if off <= k {
			n++
		}
	}
	return n
}

// inputPlan builds the cases for one diff. full: the whole alphabet at every
// position (pairs of <=1-line files); every: every byte as a cut and every
// length at every position (thorough tier); !full: the reduced plan of every
// other pair (reader breaks after the last byte, over-long line after the last
// valid line).
func inputPlan(diff []string, full, every bool, rot int) []inputCase {
	text := diffText(diff)
	n := len(diff)
	var out []inputCase
	bytesReader := func(b []byte) func() io.Reader {
		return func() io.Reader { return strings.NewReader(string(b)) }
	}
	withLine := func(class string, want int, l string, pos int, what string) {
		lines := insertAt(diff, pos, l)
		out = append(out, inputCase{class: class, want: want, valid: pos > 0,
			desc:   fmt.Sprintf("%s inserted at position %d of %d, LF-terminated lines", what, pos, n),
			reader: bytesReader(diffText(lines))})
	}
	broken := func(k int, together bool) {
		how := "then, in the next Read, a non-EOF error"
		if together {
			how = "the last of them together with a non-EOF error in the same Read"
		}
		out = append(out, inputCase{class: "read-error", want: mustFail, valid: completeLines(diff, k) > 0,
			desc:   fmt.Sprintf("the reader delivers the first %d of the diff's %d bytes, %s", k, len(text), how),
			reader: func() io.Reader { return &failAfter{data: text, k: k, together: together} }})
	}
	if !full {
		broken(len(text), rot%2 == 0)
		withLine("long-line", mustFail, longLine("+", scanLimit), n, fmt.Sprintf("a '+xxx...' line of %d bytes (one more than a bufio.Scanner delivers)", scanLimit))
		return out
	}

	// the diff cannot be read to its end
	for _, k := range readCuts(diff, every) {
		broken(k, false)
		if k > 0 {
			broken(k, true)
		}
	}
	// a line that is no diff line, over-long: '+' followed by x's (record type 'x' does not exist, so it is
	// malformed at any length; from scanLimit bytes on the line scanner cannot even deliver it)
	for _, p := range positions(n) {
		for _, L := range []int{scanLimit, scanLimit + 4464} {
			withLine("long-line", mustFail, longLine("+", L), p, fmt.Sprintf("a '+xxx...' line of %d bytes", L))
		}
		if every || p == n {
			for _, L := range []int{scanLimit - 1, 2*scanLimit + 1} {
				withLine("long-line", mustFail, longLine("+", L), p, fmt.Sprintf("a '+xxx...' line of %d bytes", L))
			}
		}
	}
	// bytes after the last line that are no diff line and have no newline
	for _, g := range []string{"garbage", "\x00", "+"} {
		out = append(out, inputCase{class: "trailing-garbage", want: mustFail, valid: n > 0,
			desc:   fmt.Sprintf("all lines LF-terminated, then the bytes %q without a newline", g),
			reader: bytesReader(append(append([]byte{}, text...), g...))})
	}

	// legal readers
	out = append(out, inputCase{class: "one-byte-reads", want: mustOK, valid: n > 0, desc: "the reader delivers one byte per Read (iotest.OneByteReader)",
		reader: func() io.Reader { return iotest.OneByteReader(strings.NewReader(string(text))) }})
	out = append(out, inputCase{class: "data-with-eof", want: mustOK, valid: n > 0, desc: "the reader delivers the last bytes together with io.EOF (iotest.DataErrReader)",
		reader: func() io.Reader { return iotest.DataErrReader(strings.NewReader(string(text))) }})

	// other encodings of the same diff: all or nothing
	if n > 0 {
		out = append(out, inputCase{class: "crlf", want: either, valid: true, desc: "every line terminated by CR LF",
			reader: bytesReader([]byte(strings.Join(diff, "\r\n") + "\r\n"))})
		out = append(out, inputCase{class: "no-final-newline", want: either, valid: n > 1, desc: "the last line has no newline",
			reader: bytesReader(text[:len(text)-1])})
	}
	for _, p := range positions(n) {
		withLine("blank-line", either, "", p, "an empty line")
		withLine("blank-line", either, "\r", p, "a line holding only CR")
		withLine("comment-line", either, "# +a.example.com,1.1.1.9,3600", p, "a '#' line")
		if every || p == 0 || p == n {
			for _, L := range []int{scanLimit - 1, scanLimit} {
				withLine("long-comment", either, longLine("#", L), p, fmt.Sprintf("a '#xxx...' line of %d bytes", L))
			}
		}
	}
	return out
}

// bulkInputPlan: the same failure modes deep inside a diff of hundreds of
// lines: after the scanner's first buffer (4096 bytes) has been used up and
// refilled, and after more records than the batch was allocated for.
func bulkInputPlan(diff []string) []inputCase {
	text := diffText(diff)
	n := len(diff)
	var out []inputCase
	cuts := []int{len(text)}
	off := 0
	for i, l := range diff {
		off += len(l) + 1
		if i == n/2 || (off > 4096 && off-len(l)-1 <= 4096) {
			cuts = append(cuts, off, off-1) // after a line well inside the diff, with and without its newline
		}
	}
	for i, k := range cuts {
		k, together := k, i%2 == 1
		out = append(out, inputCase{class: "read-error", want: mustFail, valid: completeLines(diff, k) > 0,
			desc:   fmt.Sprintf("the reader delivers the first %d of the diff's %d bytes, then a non-EOF error (in the same Read: %v)", k, len(text), together),
			reader: func() io.Reader { return &failAfter{data: text, k: k, together: together} }})
	}
	for _, p := range []int{n / 2, n} {
		lines := insertAt(diff, p, longLine("+", scanLimit))
		b := diffText(lines)
		out = append(out, inputCase{class: "long-line", want: mustFail, valid: p > 0,
			desc:   fmt.Sprintf("a '+xxx...' line of %d bytes inserted at position %d of %d", scanLimit, p, n),
			reader: func() io.Reader { return strings.NewReader(string(b)) }})
	}
	out = append(out, inputCase{class: "one-byte-reads", want: mustOK, valid: n > 0, desc: "the reader delivers one byte per Read (iotest.OneByteReader)",
		reader: func() io.Reader { return iotest.OneByteReader(strings.NewReader(string(text))) }})
	if n > 0 {
		out = append(out, inputCase{class: "crlf", want: either, valid: true, desc: "every line terminated by CR LF",
			reader: func() io.Reader { return strings.NewReader(strings.Join(diff, "\r\n") + "\r\n") }})
	}
	return out
}

// runInput executes one input case through the session on compile(A) and
// judges it; the store is re-installed when the case changed it.
func (w *world) runInput(s *session, f *findings, li, a, b int, diff []string, ic inputCase, keys []string) {
	ca, cb := w.comp[li][a], w.comp[li][b]
	res := s.applyFrom(ic.reader())
	got, rerr := s.read(keys)
	atomic.AddInt64(&cnt.Applies, 1)
	atomic.AddInt64(&cnt.Evals, 1)
	atomic.AddInt64(&cnt.Input, 1)
	if ic.valid {
		atomic.AddInt64(&cnt.InputNontrivial, 1)
	}
	unchanged := rerr == nil && got.id() == ca.rawID
	isB := rerr == nil && diffExact(got, cb.ref) == ""
	kind := ""
	switch {
	case res.panicked != nil:
		kind = "fault-panic"
	case ic.want == mustFail && res.err == nil:
		kind = "fault-accepted"
	case res.err != nil && !unchanged:
		kind = "fault-mutated" // whatever the input, an error must leave the store as it was
	case ic.want == mustOK && res.err != nil:
		kind = "variant-error"
	case res.err == nil && !isB:
		kind = "variant-mismatch"
	}
	switch ic.want {
	case mustFail:
		atomic.AddInt64(&cnt.InputMustFail, 1)
	case mustOK:
		atomic.AddInt64(&cnt.InputMustOK, 1)
	default:
		atomic.AddInt64(&cnt.InputEither, 1)
		if res.err == nil {
			atomic.AddInt64(&cnt.InputEitherAccepted, 1)
		}
	}
	if kind != "" {
		A, B := w.states[a], w.states[b]
		wanted := map[int]string{mustFail: "must fail and leave the store as it was", mustOK: "must succeed and give compile(B)", either: "must either succeed and give compile(B) or fail and leave the store as it was"}[ic.want]
		det := fmt.Sprintf("%s: store compiled from %s, diff towards %s %q handed to ApplyDiff like this: %s (%s)\nApplyDiff: %s\nstore before vs after: %s; after vs compile(%s): %s %v",
			layouts[li], A.name, B.name, abbreviateAll(head(diff, 8)), ic.desc, wanted, res, orSame(diffExact(got, ca.ref)), B.name, orSame(diffExact(got, cb.ref)), rerr)
		f.add(&failure{kind: kind, sub: ic.class, li: li, path: []int{a, b}, detail: det, diffs: [][]string{abbreviateAll(diff)},
			how: "compile files[0].preprocessed with rdb.Compile (serial 1234567, UseV2KeySyntax per layout), rdb.NewUpdater(dir), then (*RDB).ApplyDiff(reader, 1234567) where the reader is built from diffs_applied_in_order[0] like this: " + ic.desc + "; compare a raw key/value dump before and after"})
	}
	if kind != "" || !unchanged {
		s.restore(keys, got, rerr == nil && res.panicked == nil)
	}
}
