package main

import (
	"fmt"
	"sort"
	"strings"

	"github.com/facebookincubator/dns/dnsrocks/dnsdata/rdb"
)

func (w *world) evidence(fams []family, b *bfs) {
	r := w.r
	outside := 0
	for k := range b.outside {
		if _, ok := b.visited[k]; !ok {
			outside++
		}
	}
	r.Set("states", len(b.visited)+outside)
	r.Set("bfs_store_contents_in_universe", len(b.visited))
	r.Set("store_contents_seen_outside_bfs_universe_checked_not_expanded", outside)
	nu := 0
	for _, s := range w.states {
		if b.inUniverse(s.idx) {
			nu++
		}
	}
	r.Set("bfs_universe_files", nu)
	r.Set("transitions", cnt.Applies)
	r.Set("traces_validated_against_impl", cnt.Applies)
	r.Set("evaluations", cnt.Evals)
	r.Set("distinct_nontrivial", cnt.SingleNontrivial+cnt.FaultyNontrivial+cnt.InputNontrivial)
	r.Set("data_files", len(w.states))
	var fs []string
	for _, f := range fams {
		fs = append(fs, f.String())
	}
	r.Set("file_families", fs)
	r.Set("alphabet_source_lines", len(alphabet))
	r.Set("key_layouts", len(layouts))
	r.Set("max_orders_per_diff", w.p.maxOrders)
	r.Set("file_pairs_x_layouts", cnt.Pairs)
	r.Set("pairs_with_every_order", cnt.PairsAllOrders)
	r.Set("pairs_with_selected_orders_only", cnt.PairsCapped)
	r.Set("max_diff_lines", cnt.MaxDiffLines)
	r.Set("valid_transitions_fresh_copy_file_api_full_dump", cnt.Strict)
	r.Set("valid_transitions_other_orders_in_session", cnt.Light)
	r.Set("valid_transitions_store_must_change", cnt.SingleNontrivial)
	r.Set("faulty_transitions", cnt.Faulty)
	r.Set("faulty_transitions_with_valid_lines_around", cnt.FaultyNontrivial)
	r.Set("bfs_chain_applies", cnt.Chain)
	r.Set("bfs_new_store_contents_per_depth", b.levels)
	r.Set("bfs_depth", w.p.bfsDepth)
	r.Set("fresh_copy_transition_max_source_lines_A_plus_B", w.p.strictMax)
	r.Set("every_faulty_line_at_every_position_for_small_pairs", w.p.allFaults)
	r.Set("walk_applies", cnt.Walk)
	r.Set("serial_skew_applies", cnt.Skew)
	r.Set("serial_skew_max_source_lines_of_A", w.p.skewMaxLines)
	r.Set("input_cases", cnt.Input)
	r.Set("input_cases_with_a_valid_line_delivered_first", cnt.InputNontrivial)
	r.Set("input_cases_must_fail", cnt.InputMustFail)
	r.Set("input_cases_must_succeed", cnt.InputMustOK)
	r.Set("input_cases_all_or_nothing", cnt.InputEither)
	r.Set("input_cases_all_or_nothing_that_the_implementation_accepted", cnt.InputEitherAccepted)
	r.Set("input_failures_through_the_file_entry_point", cnt.StrictFaulty)
	r.Set("bulk_files", len(bulkFiles))
	r.Set("bulk_valid_transitions", cnt.Bulk)
	r.Set("bulk_faulty_and_input_cases", cnt.BulkFaulty)
	r.Set("scanner_line_limit_bytes", scanLimit)
	r.Set("rdb_DefaultBatchSize_in_this_build", rdb.DefaultBatchSize)
	r.Set("full_raw_iterator_dumps", cnt.FullDumps)
	r.Set("sessions", cnt.Sessions)
	r.Set("session_copies_replaced_after_a_failing_case", cnt.Resets)
	lines := map[string]bool{}
	for _, s := range w.states {
		for _, l := range s.pre {
			lines[l] = true
		}
	}
	var ls []string
	for l := range lines {
		ls = append(ls, l)
	}
	sort.Strings(ls)
	r.Set("preprocessed_line_universe", ls)
	var al []string
	for _, a := range alphabet {
		al = append(al, a.id+"  "+a.text)
	}
	r.Set("alphabet", al)
	strictRule := fmt.Sprintf("pairs with <=%d source lines in A and B together", w.p.strictMax)
	faultRule := "the first faulty line of every class at every position of the diff"
	cutRule := "for every line: in its middle, when it is complete but its newline is not, and after its newline"
	fileRule := "the pairs of the empty file and the first one-line file"
	skewRule := fmt.Sprintf("every pure-deletion diff (B sub-multiset of A, A of <=%d source lines)", w.p.skewMaxLines)
	if w.p.allFaults {
		faultRule = "every faulty line at every position of the diff"
		cutRule = "after every byte"
		fileRule = "every pair of the empty file and a one-line file"
		skewRule = "every pure-deletion diff (B sub-multiset of A; bulk files included)"
	}
	var bn []string
	for _, bf := range bulkFiles {
		bn = append(bn, bulkName(bf))
	}
	r.Set("rule", fmt.Sprintf("data files = all multisets of source lines in the families [%s] of the %d-line alphabet, preprocessed by the real Codec.Preprocess (files with equal preprocessed form merged); "+
		"for every ordered pair of files (A,B) (incl. A=A, empty diff) x v1/v2 keys: the line diff A->B in every order when n!<=%d, else %d selected orders (identity, reversal, +before-, -before+, evenly spread lexicographic ranks). "+
		"For %s order 0 is applied as the tool does (fresh copy of rdb.Compile(A), rdb.ApplyDiff(file, dir) = open/apply/close) and the closed store is dumped with a raw iterator; all other cases run through one rdb.NewUpdater session per (layout, A) on a copy of compile(A): (*RDB).ApplyDiff, read back every key of A and B with (*RDB).ForEach, re-install compile(A)'s exact content (verified), full raw-iterator dump == compile(A) when the session is closed. "+
		"Oracle: content == dnsfix.DumpRDB(rdb.Compile(B)) as key -> multiset of values. "+
		"Faulty transitions (same session) = diff A->B plus one '-' line whose record is absent after the diff (absent key / absent value under a live key / one deletion too many; every preprocessed line of the one-line files plus two strangers) or one malformed line (bad op, unknown record type, op only, unquotable location, a data line without its +/- prefix, NUL / text / a line behind a byte order mark): for pairs of <=1-line files %s, for every other pair one undeletable and one malformed line after the last valid line (line rotating with the pair); must return an error and leave the exact content (value order included) unchanged. "+
		"Input cases (same session; the diff A->B in merge order): MUST FAIL and leave the exact content unchanged = the reader breaks with a non-EOF error after k bytes (k: %s; the error in the next Read and, for k>0, together with the last bytes), a '+xxx...' line (malformed at any length) of %d / %d bytes at every position and of %d / %d bytes after the last line (%d bytes is the longest line a bufio.Scanner delivers), the bytes 'garbage' / NUL / '+' after the last newline; MUST SUCCEED with compile(B) = one byte per Read, last bytes together with io.EOF; ALL OR NOTHING (success with compile(B), or an error with the exact content unchanged) = CRLF line ends, no final newline, an empty line / a lone CR / a '#' line at every position, a '#' line of %d / %d bytes before the first and after the last line; all of these for pairs of <=1-line files, for every other pair only 'reader breaks after the last byte' and 'over-long line after the last line'. "+
		"The same through the file entry point for %s: the diff path does not exist / is a directory / the file ends in an over-long line; fresh copy, rdb.ApplyDiff(path, dir), full dump == compile(A). "+
		"Bulk files [%s] (150, 75, 75 lines; two values under one key and a second key): paired with each other and the empty file, diffs of 25-150 lines (2-7 KB: the scanner's 4096-byte buffer is used up and refilled; more records than rdb.DefaultBatchSize, which this build scales down to %d, so the batch outgrows its allocation) in merge order, reversal, +before-, -before+, lexicographic ranks and round robin over the groups of equal lines (operations on one key always separated by operations on the other); an undeletable / malformed line in the middle and at the end, reader breaking in the middle (after the first 4096 bytes) and at the end, over-long line in the middle and at the end, one-byte reads, CRLF. "+
		"BFS: states are exact store contents (value order included), confined to files made of the lines that can share a key (a1 a2 soa dot soa2; only those can give a value order a fresh compile does not give; bulk files excluded); contents that differ from every fresh compile are rebuilt by replay and taken through the diff to every other file of that universe in every order, to depth %d. "+
		"Walks: one physical store taken through every sequence of %d files (empty and one-line files), open/apply/close per step, to depth %d. "+
		"Serial skew: %s applied through rdb.ApplyDiff(file) with a diff file whose mtime (= the serial ApplyDiff derives) differs from the compile serial, as happens in the field; must succeed and give compile(B). "+
		"states = distinct exact store contents seen (both layouts); transitions = real ApplyDiff executions; evaluations = content comparisons; non-trivial = valid transitions whose diff is non-empty, faulty ones whose diff has valid lines besides the faulty one, input cases in which a complete valid line is delivered before the trouble",
		strings.Join(fs, "; "), len(alphabet), w.p.maxOrders, w.p.maxOrders, strictRule, faultRule,
		cutRule, scanLimit, scanLimit+4464, scanLimit-1, 2*scanLimit+1, scanLimit-1, scanLimit-1, scanLimit,
		fileRule, strings.Join(bn, " "), rdb.DefaultBatchSize,
		w.p.bfsDepth, len(w.p.walkLines)+1, w.p.walkDepth, skewRule))
	r.Assume = []string{
		"both files of a diff are preprocessed with the same serial, and - except in the serial-skew phase - compile and ApplyDiff use that serial ('.' lines take that serial, Z lines carry explicit serials after preprocessing)",
		fmt.Sprintf("diffs with more than %d orders are tried in %d selected orders, not all n! (a declared bound, like the depth)", w.p.maxOrders, w.p.maxOrders),
		"RocksDB itself (cgo) is executed, not modelled; within a session the store is observed through (*RDB).ForEach on the keys of both files and re-installed with (*RDB).Add/Del (verified by reading back), the whole store is dumped with a raw iterator once per session and once per fresh-copy transition",
		"only the alphabet's record types (+ Z . % !), one subnet map; ApplyDiff exists for RocksDB only",
		fmt.Sprintf("the harness is built against a copy of package dnsdata/rdb in which the constant DefaultBatchSize is %d instead of 100000 (harness/c08/OVERLAY, `setconst`; `instrument` only routes the package's sync/chan/go constructs through shims that delegate to the real primitives, there is no scheduler in this check): the constant sizes the initial capacity of a batch's two slices (10 MB cleared per ApplyDiff otherwise) and the compiler's default batch size (never reached by these files); nothing else in ApplyDiff depends on it", rdb.DefaultBatchSize),
		"failures of the store underneath ApplyDiff (RocksDB read or write errors in GetMulti / ExecuteBatch) are not injected: only failures of the diff and of its reader",
		"an io.Reader error other than EOF counts as 'the diff cannot be applied' (the rest of the diff is unknown), including when it comes after the last byte of an otherwise complete diff",
	}
	// samples: a few real transitions, deterministic
	n := 0
	for _, st := range w.states {
		if !st.bulk {
			n++ // bulk files come last
		}
	}
	for _, i := range []int{1, n + 2, n*n/3 + 1, n*n/2 + 3, n*n - 2} {
		a, b := (i/n)%n, i%n
		d := lineDiff(w.states[a].pre, w.states[b].pre)
		p, complete := orders(d, w.p.maxOrders)
		r.Sample(map[string]interface{}{"from": w.states[a].name, "to": w.states[b].name, "diff": d, "orders_tried": len(p), "all_orders": complete})
	}
}
