package main

import (
	"encoding/gob"
	"fmt"
	"os"
	"os/exec"
	"path/filepath"
	"runtime"
	"runtime/pprof"
	"sync"

	"verifharness/vlib"
)

// Work is spread over OS processes, not goroutines: every RocksDB open maps and
// unmaps memory and starts threads; sixteen threads doing that in ONE address
// space serialise on the kernel's mmap lock (measured: 16 goroutines were no
// faster than 1 and burnt 15x the CPU). Each phase therefore re-executes this
// binary once per worker with a job file; a child runs the items
// i = shard (mod n) of that phase one after the other and writes what it
// counted and found; the parent merges. Which items exist and what each does
// never depends on the number of children.
const maxProcs = 8

type compGob struct {
	Dir string
	Raw rawDump
}

type failureGob struct {
	Kind, Sub string
	Li        int
	Path      []int
	Detail    string
	Diffs     [][]string
	How       string
}

type rawStateGob struct {
	Li           int
	ID           string
	Canon, Start int
	Hist         [][]string
	Path         []int
	Raw          rawDump
}

type job struct {
	Phase    string
	Shard, N int
	Scratch  string
	Fams     []family
	Comp     [][]compGob
	Frontier []rawStateGob // phase "bfs": the states to expand ...
	Dirs     []string      // ... and the directories they were rebuilt in
	Out      string
}

type compResult struct {
	Li, Si int
	Dir    string
	Raw    rawDump
	Ref    map[string][]string
}

type result struct {
	Comp     []compResult // phase "compile"
	Cnt      counters
	Failures []failureGob
	Offers   []rawStateGob
	Outside  []string
}

func toGob(s *rawState) rawStateGob {
	return rawStateGob{s.li, s.id, s.canon, s.start, s.hist, s.path, s.raw}
}

func fromGob(g rawStateGob) *rawState {
	return &rawState{li: g.Li, id: g.ID, canon: g.Canon, start: g.Start, hist: g.Hist, path: g.Path, raw: g.Raw}
}

func writeGob(path string, v interface{}) {
	fh, err := os.Create(path)
	if err != nil {
		vlib.Infra("shard file: %v", err)
	}
	if err := gob.NewEncoder(fh).Encode(v); err != nil {
		vlib.Infra("shard file %s: %v", path, err)
	}
	if err := fh.Close(); err != nil {
		vlib.Infra("shard file %s: %v", path, err)
	}
}

func readGob(path string, v interface{}) {
	fh, err := os.Open(path)
	if err != nil {
		vlib.Infra("shard file: %v", err)
	}
	defer fh.Close()
	if err := gob.NewDecoder(fh).Decode(v); err != nil {
		vlib.Infra("shard file %s: %v", path, err)
	}
}

// run executes fn(i) for every i in [0,total). In the parent it starts the
// children for this phase and merges their results into f, b and cnt; in a
// child it runs this child's share sequentially.
func (w *world) run(phase string, total int, f *findings, b *bfs, extra func(*job), fn func(i int)) {
	if w.child != nil {
		if w.child.Phase != phase {
			vlib.Infra("child for phase %s reached phase %s", w.child.Phase, phase)
		}
		for i := w.child.Shard; i < total; i += w.child.N {
			fn(i)
		}
		return
	}
	n := vlib.Workers()
	if n > maxProcs {
		n = maxProcs
	}
	if v := os.Getenv("VERIF_C08_PROCS"); v != "" { // development aid only; which items exist never depends on it
		fmt.Sscanf(v, "%d", &n)
	}
	if n > total {
		n = total
	}
	if n < 1 {
		return
	}
	base := job{Phase: phase, N: n, Scratch: w.scratch, Fams: w.fams}
	base.Comp = make([][]compGob, len(w.comp))
	for li := range w.comp {
		for _, c := range w.comp[li] {
			if phase == "compile" {
				break // nothing compiled yet: that is this phase's job
			}
			base.Comp[li] = append(base.Comp[li], compGob{c.dir, c.raw})
		}
	}
	if extra != nil {
		extra(&base)
	}
	var wg sync.WaitGroup
	errs := make([]error, n)
	for k := 0; k < n; k++ {
		j := base
		j.Shard = k
		j.Out = filepath.Join(w.scratch, fmt.Sprintf("out-%s-%d.gob", phase, k))
		jf := filepath.Join(w.scratch, fmt.Sprintf("job-%s-%d.gob", phase, k))
		writeGob(jf, &j)
		cmd := exec.Command(os.Args[0], w.r.Tier, "--c08-child", jf)
		// development aid: VERIF_C08_PIN=1 gives every worker process one CPU (fewer cross-CPU TLB shootdowns from
		// the constant mmap/munmap of RocksDB opens on an idle machine; much slower when the machine is shared,
		// because a pinned worker cannot move away from a busy CPU). Not the default.
		if ts, err := exec.LookPath("taskset"); err == nil && os.Getenv("VERIF_C08_PIN") != "" {
			cmd = exec.Command(ts, "-c", fmt.Sprint(k%runtime.NumCPU()), os.Args[0], w.r.Tier, "--c08-child", jf)
		}
		cmd.Stdout, cmd.Stderr = os.Stderr, os.Stderr
		cmd.Env = append(os.Environ(), "VERIF_WORKERS=1", "GOMAXPROCS=2")
		wg.Add(1)
		go func(k int) {
			defer wg.Done()
			errs[k] = cmd.Run()
		}(k)
	}
	wg.Wait()
	for k, e := range errs {
		if e != nil {
			vlib.Infra("worker process %d of phase %s failed: %v", k, phase, e)
		}
	}
	for k := 0; k < n; k++ {
		var res result
		out := filepath.Join(w.scratch, fmt.Sprintf("out-%s-%d.gob", phase, k))
		readGob(out, &res)
		os.Remove(out)
		os.Remove(filepath.Join(w.scratch, fmt.Sprintf("job-%s-%d.gob", phase, k)))
		cnt.merge(&res.Cnt)
		if w.onResult != nil {
			w.onResult(&res)
		}
		for _, g := range res.Failures {
			f.add(&failure{kind: g.Kind, sub: g.Sub, li: g.Li, path: g.Path, detail: g.Detail, diffs: g.Diffs, how: g.How})
		}
		if b != nil {
			for _, g := range res.Offers {
				b.offer(fromGob(g))
			}
			for _, k := range res.Outside {
				b.outside[k] = true
			}
		}
	}
}

func (c *counters) merge(o *counters) {
	m := c.MaxDiffLines
	if o.MaxDiffLines > m {
		m = o.MaxDiffLines
	}
	c.Applies += o.Applies
	c.Evals += o.Evals
	c.FullDumps += o.FullDumps
	c.Strict += o.Strict
	c.Light += o.Light
	c.SingleNontrivial += o.SingleNontrivial
	c.Pairs += o.Pairs
	c.PairsAllOrders += o.PairsAllOrders
	c.PairsCapped += o.PairsCapped
	c.Faulty += o.Faulty
	c.FaultyNontrivial += o.FaultyNontrivial
	c.Chain += o.Chain
	c.Walk += o.Walk
	c.Sessions += o.Sessions
	c.Resets += o.Resets
	c.Skew += o.Skew
	c.Input += o.Input
	c.InputNontrivial += o.InputNontrivial
	c.InputMustFail += o.InputMustFail
	c.InputMustOK += o.InputMustOK
	c.InputEither += o.InputEither
	c.InputEitherAccepted += o.InputEitherAccepted
	c.Bulk += o.Bulk
	c.BulkFaulty += o.BulkFaulty
	c.StrictFaulty += o.StrictFaulty
	c.MaxDiffLines = m
}

// childMain is the whole life of a worker process.
func childMain(r *vlib.Run, jobFile string) {
	var j job
	readGob(jobFile, &j)
	os.Setenv("TMPDIR", j.Scratch)
	dirPrefix = fmt.Sprintf("%s%d-", j.Phase, j.Shard)
	w := &world{r: r, scratch: j.Scratch, fams: j.Fams, child: &j, p: tierParams(r.Thorough())}
	if pf := os.Getenv("VERIF_C08_PPROF"); pf != "" { // development aid only
		fh, _ := os.Create(fmt.Sprintf("%s.%s.%d", pf, j.Phase, j.Shard))
		pprof.StartCPUProfile(fh)
		defer pprof.StopCPUProfile()
	}
	w.states = buildStates(r, j.Fams)
	if j.Phase == "compile" {
		w.compileAll()
		res := result{Cnt: cnt}
		for li := range w.comp {
			for si, c := range w.comp[li] {
				if c != nil {
					res.Comp = append(res.Comp, compResult{li, si, c.dir, c.raw, c.ref})
				}
			}
		}
		writeGob(j.Out, &res)
		pprof.StopCPUProfile()
		os.Exit(0)
	}
	w.comp = make([][]*compiled, len(j.Comp))
	for li := range j.Comp {
		if len(j.Comp[li]) != len(w.states) {
			vlib.Infra("worker sees %d data files, parent %d", len(w.states), len(j.Comp[li]))
		}
		for _, c := range j.Comp[li] {
			w.comp[li] = append(w.comp[li], &compiled{dir: c.Dir, ref: c.Raw.canon(), raw: c.Raw, rawID: c.Raw.id()})
		}
	}
	f := &findings{}
	b := newBFS(w)
	switch j.Phase {
	case "single":
		w.singleTransitions(f, b)
	case "bfs":
		fr := make([]*rawState, len(j.Frontier))
		for i, g := range j.Frontier {
			fr[i] = fromGob(g)
		}
		b.expand(f, fr, j.Dirs)
	default:
		vlib.Infra("unknown phase %q", j.Phase)
	}
	res := result{Cnt: cnt}
	for _, x := range f.all {
		res.Failures = append(res.Failures, failureGob{x.kind, x.sub, x.li, x.path, x.detail, x.diffs, x.how})
	}
	for _, s := range b.next {
		res.Offers = append(res.Offers, toGob(s))
	}
	for k := range b.outside {
		res.Outside = append(res.Outside, k)
	}
	writeGob(j.Out, &res)
	pprof.StopCPUProfile()
	os.Exit(0)
}
