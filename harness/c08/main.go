// C08: applying a diff gives the database of the new data file.
//
// States are data files: every multiset of <=k source lines over a small sharp
// alphabet, preprocessed by the REAL preprocessor. Transitions are the line
// diffs A->B between two preprocessed files, in every order of their lines
// (<=24 orders), applied by the REAL ApplyDiff to a copy of the REAL RocksDB
// compiled from A, for v1 and v2 keys; the result must equal the RocksDB
// compiled from B as a map key -> multiset of values. Faulty diffs (one
// undeletable "-" line or one malformed line at every position) and diffs whose
// INPUT fails (reader error after k bytes, over-long line, bytes after the last
// line; input.go) must return an error and leave the store untouched; other
// encodings of a diff (CRLF, blank and '#' lines, no final newline) are all or
// nothing. Bulk files give diffs of up to 150 lines (more records than the
// batch is allocated for - rdb.DefaultBatchSize is scaled down to 64 by this
// harness' OVERLAY - and more text than the line scanner's first buffer).
// Chains are searched breadth-first over the exact store content (value order
// included).
package main

import (
	"fmt"
	"os"
	"path/filepath"
	"runtime/debug"
	"runtime/pprof"
	"sort"
	"strings"
	"syscall"
	"time"

	"verifharness/dnsfix"
	"verifharness/vlib"
)

var layouts = []dnsfix.Backend{dnsfix.RDBv1, dnsfix.RDBv2}

// compiled is what is kept of compile(state) for one key layout.
type compiled struct {
	dir   string
	ref   dnsfix.Dump // dnsfix.DumpRDB of the fresh compile
	raw   rawDump
	rawID string
}

type world struct {
	r        *vlib.Run
	scratch  string
	states   []*state
	comp     [][]*compiled // [layout][state]
	timing   bool
	t0       time.Time
	fams     []family
	p        params
	child    *job          // non-nil in a worker process
	onResult func(*result) // parent: called with every worker result of the current phase
}

func (w *world) lap(what string) {
	if w.timing {
		var ru syscall.Rusage
		syscall.Getrusage(syscall.RUSAGE_SELF, &ru)
		fmt.Fprintf(os.Stderr, "[c08 %6.1fs wall, %6.1fs user, %6.1fs sys, applies %d] %s\n", time.Since(w.t0).Seconds(),
			float64(ru.Utime.Nano())/1e9, float64(ru.Stime.Nano())/1e9, cnt.Applies, what)
	}
}

// family is "all multisets of <=k lines over the given alphabet lines".
type family struct {
	Lines []int
	K     int
}

func firstLines(n int) []int {
	l := make([]int, n)
	for i := range l {
		l[i] = i
	}
	return l
}

func (f family) String() string {
	ids := make([]string, len(f.Lines))
	for i, x := range f.Lines {
		ids[i] = alphabet[x].id
	}
	return fmt.Sprintf("<=%d lines over {%s}", f.K, strings.Join(ids, " "))
}

// alphabet indices: a1=0 a2=1 soa=2 dot=3 soa2=4 n1=5 n2=6 aL=7 n3=8 wL=9
func tierParams(thorough bool) params {
	if !thorough {
		return params{
			// <=2 lines over a1 a2 soa soa2 n1 n2 (duplicates, two values under a key, a changed SOA, subnet
			// churn), plus the one-line files of dot (composite, serial-dependent) and aL (located)
			fams:      []family{{[]int{0, 1, 2, 4, 5, 6}, 2}, {[]int{3, 7}, 1}},
			maxOrders: 6, strictMax: 1, allFaults: false, bfsDepth: 2, walkDepth: 2, walkLines: []int{0, 5},
			skewMaxLines: 1,
		}
	}
	return params{
		// <=3 lines over the first 6 (the five lines that can share a key and n1), <=2 lines over all 10,
		// and all three nested subnets together
		fams:      []family{{firstLines(6), 3}, {firstLines(len(alphabet)), 2}, {[]int{5, 6, 8}, 3}},
		maxOrders: 24, strictMax: 3, allFaults: true, bfsDepth: 3, walkDepth: 3, walkLines: []int{0, 1, 2, 3, 5, 6},
		skewMaxLines: 1 << 30,
	}
}

func buildStates(r *vlib.Run, fams []family) []*state {
	var out []*state
	seen := map[string]*state{}
	seenSrc := map[string]bool{}
	merged := 0
	for _, fam := range fams {
		for _, pick := range multisets(len(fam.Lines), fam.K) {
			src := make([]int, len(pick))
			for i, x := range pick {
				src[i] = fam.Lines[x]
			}
			if seenSrc[srcName(src)] {
				continue
			}
			seenSrc[srcName(src)] = true
			pre, err := preprocess(srcText(src))
			if err != nil {
				vlib.Infra("preprocessor rejects source file %s: %v", srcName(src), err)
			}
			s := &state{src: src, name: srcName(src), preText: pre, pre: sortedCopy(splitLines(pre))}
			key := strings.Join(s.pre, "\n")
			if _, dup := seen[key]; dup {
				merged++
				continue
			}
			seen[key] = s
			s.idx = len(out)
			out = append(out, s)
		}
	}
	r.Set("source_multisets_with_same_preprocessed_file_merged", merged)
	for _, bf := range bulkFiles {
		var src []int
		for _, lc := range bf {
			for i := 0; i < lc[1]; i++ {
				src = append(src, lc[0])
			}
		}
		pre, err := preprocess(srcText(src))
		if err != nil {
			vlib.Infra("preprocessor rejects bulk file %s: %v", bulkName(bf), err)
		}
		s := &state{src: src, name: bulkName(bf), preText: pre, pre: sortedCopy(splitLines(pre)), bulk: true}
		if len(s.pre) != len(src) {
			vlib.Infra("bulk file %s: %d source lines preprocessed to %d lines (duplicates dropped?)", s.name, len(src), len(s.pre))
		}
		s.idx = len(out)
		out = append(out, s)
	}
	return out
}

func main() {
	r := vlib.Start("C08")
	for i, a := range os.Args {
		if a == "--c08-child" && i+1 < len(os.Args) {
			dnsfix.Quiet(filepath.Dir(os.Args[i+1]))
			debug.SetGCPercent(400)
			childMain(r, os.Args[i+1])
		}
	}
	scratch, clean := vlib.Scratch("c08")
	defer clean()
	dnsfix.Quiet(scratch)
	w := &world{r: r, scratch: scratch, timing: os.Getenv("VERIF_C08_TIMING") != "", t0: time.Now()}

	if pf := os.Getenv("VERIF_C08_PPROF"); pf != "" { // development aid only
		fh, _ := os.Create(pf)
		pprof.StartCPUProfile(fh)
		defer pprof.StopCPUProfile()
	}
	w.p = tierParams(r.Thorough())
	fams := w.p.fams
	if v := os.Getenv("VERIF_C08_FAM"); v != "" { // development aid only
		var n, k int
		fmt.Sscanf(v, "%d,%d", &n, &k)
		fams = []family{{firstLines(n), k}}
	}
	w.fams = fams
	w.states = buildStates(r, fams)
	w.lap(fmt.Sprintf("states: %d", len(w.states)))
	if len(os.Args) > 2 && os.Args[2] == "dump-states" {
		for _, s := range w.states {
			fmt.Printf("== %s\n%s", s.name, s.preText)
		}
		clean()
		return
	}
	checkAlphabetDisjoint(w)
	if dnsfix.Serial != dnsfixSerial {
		vlib.Infra("dnsfix.Serial changed")
	}

	w.compileAll()
	w.lap("compiled")

	f := &findings{}
	bfs := newBFS(w)
	w.singleTransitions(f, bfs)
	w.lap("single transitions (pairs: valid orders, faulty variants, input cases; walks; serial skew)")
	bfs.run(f, w.p.bfsDepth)
	w.lap("bfs chains")

	f.report(w)
	w.evidence(fams, bfs)
	pprof.StopCPUProfile()
	clean()
	r.Finish()
}

// compileAll compiles every data file for both key layouts with the real
// compiler and dumps the result twice (dnsfix.DumpRDB = the oracle's reference,
// and the harness' own order-preserving dump, which must agree with it). The
// work is spread over worker processes like every other phase.
func (w *world) compileAll() {
	n := len(w.states)
	w.comp = make([][]*compiled, len(layouts))
	for li := range layouts {
		w.comp[li] = make([]*compiled, n)
	}
	w.onResult = func(res *result) {
		for _, c := range res.Comp {
			w.comp[c.Li][c.Si] = &compiled{dir: c.Dir, ref: c.Ref, raw: c.Raw, rawID: c.Raw.id()}
		}
	}
	w.run("compile", len(layouts)*n, nil, nil, nil, func(i int) {
		li, si := i/n, i%n
		// dnsfix.Compile numbers its directories per process: compile in a directory private to this worker,
		// then give the store a name that is unique in the shared scratch
		dir, err := dnsfix.Compile(filepath.Join(w.scratch, "compile-"+dirPrefix), layouts[li], w.states[si].preText)
		if err != nil {
			vlib.Infra("compile %s %s: %v", layouts[li], w.states[si].name, err)
		}
		uniq := filepath.Join(w.scratch, fmt.Sprintf("comp-%d-%d.rdb", li, si))
		if err := os.Rename(dir, uniq); err != nil {
			vlib.Infra("rename %s: %v", dir, err)
		}
		dir = uniq
		ref, err := dnsfix.DumpRDB(dir)
		if err != nil {
			vlib.Infra("dump %s %s: %v", layouts[li], w.states[si].name, err)
		}
		raw, err := dumpRaw(dir)
		if err != nil {
			vlib.Infra("raw dump %s %s: %v", layouts[li], w.states[si].name, err)
		}
		if d := raw.canon().Diff(ref); d != "" {
			vlib.Infra("harness dump disagrees with dnsfix.DumpRDB on %s %s: %s", layouts[li], w.states[si].name, d)
		}
		w.comp[li][si] = &compiled{dir: dir, ref: ref, raw: raw, rawID: raw.id()}
	})
	w.onResult = nil
	if w.child != nil {
		return // a worker has only its share
	}
	for li := range layouts {
		for si, c := range w.comp[li] {
			if c == nil {
				vlib.Infra("no compile result for %s %s", layouts[li], w.states[si].name)
			}
		}
	}
}

// checkAlphabetDisjoint verifies the assumption the fault generator relies on:
// two different preprocessed lines never produce a common (key,value) record,
// so "-L" is undeletable exactly when L does not occur in the target file.
func checkAlphabetDisjoint(w *world) {
	for li := range layouts {
		owner := map[kv]string{}
		lines := map[string]bool{}
		for _, s := range w.states {
			for _, l := range s.pre {
				lines[l] = true
			}
		}
		ls := make([]string, 0, len(lines))
		for l := range lines {
			ls = append(ls, l)
		}
		sort.Strings(ls)
		for _, l := range ls {
			for _, kv := range recordsOf(layouts[li], l) {
				if o, ok := owner[kv]; ok && o != l {
					vlib.Infra("alphabet lines %q and %q share a record; fault classification would be wrong", o, l)
				}
				owner[kv] = l
			}
		}
	}
}
