package main

import (
	"bytes"
	"fmt"
	"io"
	"os"
	"path/filepath"
	"sort"
	"strings"
	"sync/atomic"
	"time"

	rocksdb "github.com/facebookincubator/dns/dnsrocks/cgo-rocksdb"
	"github.com/facebookincubator/dns/dnsrocks/dnsdata/rdb"

	"verifharness/dnsfix"
	"verifharness/vlib"
)

// rawDump is the exact logical content of a store: key -> values in stored
// order (dnsfix.Dump is the same with every value list sorted).
type rawDump map[string][]string

// dumpRaw reads every key of a RocksDB directory with a raw iterator and
// splits each value into its length-prefixed chunks, keeping their order.
func dumpRaw(path string) (rawDump, error) {
	opts := rocksdb.NewOptions()
	db, err := rocksdb.OpenDatabase(path, true, false, opts)
	if err != nil {
		opts.FreeOptions()
		return nil, err
	}
	ro := rocksdb.NewDefaultReadOptions()
	it := db.CreateIterator(ro)
	d := rawDump{}
	var derr error
	for it.SeekToFirst(); it.IsValid(); it.Next() {
		k := string(it.Key())
		data := it.Value()
		d[k] = []string{}
		for len(data) > 0 {
			if len(data) < 4 {
				derr = fmt.Errorf("key %q: truncated chunk header", k)
				break
			}
			n := int(uint32(data[0]) | uint32(data[1])<<8 | uint32(data[2])<<16 | uint32(data[3])<<24)
			if len(data) < 4+n {
				derr = fmt.Errorf("key %q: truncated chunk", k)
				break
			}
			d[k] = append(d[k], string(data[4:4+n]))
			data = data[4+n:]
		}
	}
	if e := it.GetError(); e != nil && derr == nil {
		derr = e
	}
	it.FreeIterator()
	ro.FreeReadOptions()
	db.CloseDatabase()
	return d, derr
}

// canon turns a raw dump into the property's notion of a database: key ->
// multiset (sorted list) of values.
func (d rawDump) canon() dnsfix.Dump {
	o := dnsfix.Dump{}
	for k, v := range d {
		o[k] = sortedCopy(v)
	}
	return o
}

// id is a stable identity of the exact content (order of values included).
func (d rawDump) id() string {
	ks := make([]string, 0, len(d))
	for k := range d {
		ks = append(ks, k)
	}
	sort.Strings(ks)
	var b strings.Builder
	for _, k := range ks {
		fmt.Fprintf(&b, "%q:", k)
		for _, v := range d[k] {
			fmt.Fprintf(&b, "%q,", v)
		}
		b.WriteByte(';')
	}
	return vlib.Hash(b.String())
}

var dirSeq int64
var dirPrefix = "w" // worker processes use their own prefix inside the shared scratch directory

// copyStore copies a closed RocksDB directory (everything but the info LOGs).
func copyStore(src, scratch string) string {
	dst := filepath.Join(scratch, fmt.Sprintf("%s%d.rdb", dirPrefix, atomic.AddInt64(&dirSeq, 1)))
	if err := os.Mkdir(dst, 0o755); err != nil {
		vlib.Infra("copyStore: %v", err)
	}
	ents, err := os.ReadDir(src)
	if err != nil {
		vlib.Infra("copyStore: %v", err)
	}
	for _, e := range ents {
		if e.IsDir() || strings.HasPrefix(e.Name(), "LOG") {
			continue
		}
		b, err := os.ReadFile(filepath.Join(src, e.Name()))
		if err != nil {
			vlib.Infra("copyStore: %v", err)
		}
		if err := os.WriteFile(filepath.Join(dst, e.Name()), b, 0o644); err != nil {
			vlib.Infra("copyStore: %v", err)
		}
	}
	return dst
}

type applyResult struct {
	err      error
	panicked interface{}
}

func (a applyResult) String() string {
	if a.panicked != nil {
		return fmt.Sprintf("PANIC: %v", a.panicked)
	}
	if a.err != nil {
		return "error: " + a.err.Error()
	}
	return "ok"
}

// applyReader applies a diff the way `dnsrocks-applyrdb -serial N < diff` does:
// rdb.NewUpdater + (*RDB).ApplyDiff + Close.
func applyReader(path string, diff []byte) (res applyResult) {
	db, err := rdb.NewUpdater(path)
	if err != nil {
		vlib.Infra("NewUpdater(%s): %v", path, err)
	}
	defer func() {
		if p := recover(); p != nil {
			res.panicked = p
		}
		if cerr := db.Close(); cerr != nil {
			vlib.Infra("closing updated database: %v", cerr)
		}
	}()
	res.err = db.ApplyDiff(bytes.NewReader(diff), dnsfix.Serial)
	return res
}

// applyFile applies a diff the way `dnsrocks-applyrdb -i file` does (package
// level rdb.ApplyDiff). That entry point takes the serial from the diff file's
// modification time, so the file is given the mtime that makes it the serial
// the stores were compiled with.
func applyFile(path string, diff []byte) (res applyResult) {
	return applyFileSerial(path, diff, dnsfix.Serial)
}

func applyFileSerial(path string, diff []byte, serial uint32) (res applyResult) {
	f := path + ".diff"
	if err := os.WriteFile(f, diff, 0o644); err != nil {
		vlib.Infra("write diff: %v", err)
	}
	mt := time.Unix(int64(serial), 0)
	if err := os.Chtimes(f, mt, mt); err != nil {
		vlib.Infra("chtimes diff: %v", err)
	}
	defer os.Remove(f)
	defer func() {
		if p := recover(); p != nil {
			res.panicked = p
		}
	}()
	res.err = rdb.ApplyDiff(f, path)
	return res
}

// ---------------------------------------------------------------- sessions

// session is one open updater (rdb.NewUpdater) on a private copy of a store
// whose exact content (base) is known. Diffs are applied through it with the
// real (*RDB).ApplyDiff, the outcome is read back through the same handle with
// the real (*RDB).ForEach over a declared set of keys, and the base content is
// re-installed between cases (verified by reading back; on any doubt the copy
// is thrown away and made afresh). A full raw-iterator dump is taken when the
// session is closed.
type session struct {
	scratch string
	src     string
	base    rawDump
	dir     string
	db      *rdb.RDB
	resets  int
}

func openSession(scratch, src string, base rawDump) *session {
	s := &session{scratch: scratch, src: src, base: base}
	s.open()
	return s
}

func (s *session) open() {
	s.dir = copyStore(s.src, s.scratch)
	db, err := rdb.NewUpdater(s.dir)
	if err != nil {
		vlib.Infra("NewUpdater(%s): %v", s.dir, err)
	}
	s.db = db
}

// apply runs the real ApplyDiff on the open handle.
func (s *session) apply(lines []string) (res applyResult) {
	return s.applyFrom(bytes.NewReader(diffText(lines)))
}

// applyFrom runs the real ApplyDiff on the open handle with the diff coming from r.
func (s *session) applyFrom(r io.Reader) (res applyResult) {
	defer func() {
		if p := recover(); p != nil {
			res.panicked = p
		}
	}()
	res.err = s.db.ApplyDiff(r, dnsfix.Serial)
	return res
}

// read returns the exact value lists of the given keys (absent keys are left out).
func (s *session) read(keys []string) (rawDump, error) {
	d := rawDump{}
	for _, k := range keys {
		var vals []string
		err := s.db.ForEach([]byte(k), func(v []byte) error { vals = append(vals, string(v)); return nil }, rdb.NewContext())
		if err != nil {
			return d, fmt.Errorf("key %q unreadable: %v", k, err)
		}
		if len(vals) > 0 {
			d[k] = vals
		}
	}
	return d, nil
}

func sameList(a, b []string) bool {
	if len(a) != len(b) {
		return false
	}
	for i := range a {
		if a[i] != b[i] {
			return false
		}
	}
	return true
}

// restore re-installs the base content on keys, given what is there now.
// It uses the store's own single-value Add/Del only as a tool: the result is
// verified by reading back, and if that fails the copy is replaced.
func (s *session) restore(keys []string, now rawDump, healthy bool) {
	ok := healthy
	if ok {
	outer:
		for _, k := range keys {
			if sameList(now[k], s.base[k]) {
				continue
			}
			for _, v := range now[k] {
				if s.db.Del([]byte(k), []byte(v)) != nil {
					ok = false
					break outer
				}
			}
			for _, v := range s.base[k] {
				if s.db.Add([]byte(k), []byte(v)) != nil {
					ok = false
					break outer
				}
			}
		}
	}
	if ok {
		got, err := s.read(keys)
		if err != nil {
			ok = false
		} else {
			for _, k := range keys {
				if !sameList(got[k], s.base[k]) {
					ok = false
					break
				}
			}
		}
	}
	if !ok {
		s.reset()
	}
}

func (s *session) reset() {
	s.db.Close()
	os.RemoveAll(s.dir)
	s.resets++
	s.open()
}

// close flushes and closes the handle, dumps the whole store with a raw
// iterator and removes the copy.
func (s *session) close() rawDump {
	if err := s.db.Close(); err != nil {
		vlib.Infra("closing updated database: %v", err)
	}
	d, err := dumpRaw(s.dir)
	if err != nil {
		vlib.Infra("dump after session: %v", err)
	}
	os.RemoveAll(s.dir)
	return d
}

// diffExact describes the difference between a store content and a reference
// as maps key -> multiset of values ("" when equal); unlike dnsfix.Dump.Diff it
// also tells a present key with an empty value list from an absent key.
func diffExact(got rawDump, want dnsfix.Dump) string {
	ks := map[string]bool{}
	for k := range got {
		ks[k] = true
	}
	for k := range want {
		ks[k] = true
	}
	all := make([]string, 0, len(ks))
	for k := range ks {
		all = append(all, k)
	}
	sort.Strings(all)
	var out []string
	for _, k := range all {
		g, gok := got[k]
		w, wok := want[k]
		if gok != wok || !sameList(sortedCopy(g), w) {
			gs, ws := "absent", "absent"
			if gok {
				gs = fmt.Sprintf("%q", sortedCopy(g))
			}
			if wok {
				ws = fmt.Sprintf("%q", w)
			}
			out = append(out, fmt.Sprintf("key %q: got %s, want %s", k, gs, ws))
			if len(out) >= 4 {
				break
			}
		}
	}
	return strings.Join(out, "; ")
}

func keysOf(ds ...map[string][]string) []string {
	m := map[string]bool{}
	for _, d := range ds {
		for k := range d {
			m[k] = true
		}
	}
	out := make([]string, 0, len(m))
	for k := range m {
		out = append(out, k)
	}
	sort.Strings(out)
	return out
}
