package main

import (
	"fmt"
	"os"
	"sort"
	"strings"
	"sync"
	"sync/atomic"
	"time"

	"github.com/facebookincubator/dns/dnsrocks/dnsdata/rdb"

	"verifharness/vlib"
)

// params are the tier's bounds.
type params struct {
	fams         []family
	maxOrders    int   // orders tried per diff: all n! when n! <= maxOrders, else maxOrders selected ones
	strictMax    int   // pairs with <= this many source lines in A and B together also get the fresh-copy/file-API/full-dump transition
	allFaults    bool  // pairs of <=1-line files: every faulty line (else the first line of each class) at every position; every byte as a read cut
	bfsDepth     int   // diffs in a BFS chain
	walkDepth    int   // diffs in a physical walk
	walkLines    []int // the walk universe is the empty file and the one-line files of these source lines
	skewMaxLines int   // serial skew: pure-deletion pairs whose file A has at most this many source lines
}

// ---------------------------------------------------------------- findings

type failure struct {
	kind   string // mismatch, apply-error, apply-panic, residue, fault-accepted, fault-mutated, fault-panic, chain-*, walk-*
	sub    string // fault class, "" otherwise
	li     int
	path   []int // state indices visited: A,B[,C[,D]]
	detail string
	diffs  [][]string // the diffs applied, in order (for the replay artefact)
	how    string     // replay recipe override ("" = default)
}

func (f *failure) group() string {
	return fmt.Sprintf("%s/%s/%d/%d", f.kind, f.sub, f.li, len(f.path))
}

type findings struct {
	mu  sync.Mutex
	all []*failure
}

func (f *findings) add(x *failure) {
	f.mu.Lock()
	f.all = append(f.all, x)
	f.mu.Unlock()
}

func (w *world) fingerprint(x *failure) string {
	p := []string{x.kind}
	if x.sub != "" {
		p = append(p, x.sub)
	}
	p = append(p, layouts[x.li].String())
	names := make([]string, len(x.path))
	for i, s := range x.path {
		names[i] = w.states[s].name
	}
	return strings.Join(p, "/") + "/" + strings.Join(names, "/to/")
}

// report keeps, per kind of disagreement and layout, only the minimal failing
// cases (no other failing case of the same kind whose every file is a
// sub-multiset of the corresponding file) and hands them to the run.
func (f *findings) report(w *world) {
	type item struct {
		fp string
		x  *failure
	}
	byFP := map[string]*failure{}
	for _, x := range f.all {
		fp := w.fingerprint(x)
		if o, ok := byFP[fp]; !ok || x.detail < o.detail {
			byFP[fp] = x
		}
	}
	var items []item
	for fp, x := range byFP {
		items = append(items, item{fp, x})
	}
	sort.Slice(items, func(i, j int) bool { return items[i].fp < items[j].fp })
	groups := map[string][]*failure{}
	for _, it := range items {
		groups[it.x.group()] = append(groups[it.x.group()], it.x)
	}
	dominated := func(x *failure) bool {
		for _, y := range groups[x.group()] {
			if y == x {
				continue
			}
			sub, same := true, true
			for i := range x.path {
				if !subMultiset(w.states[y.path[i]].src, w.states[x.path[i]].src) {
					sub = false
					break
				}
				if y.path[i] != x.path[i] {
					same = false
				}
			}
			if sub && !same {
				return true
			}
		}
		return false
	}
	// a chain / walk failure whose last step, taken from a fresh compile, already fails as a
	// single transition (or has a failing sub-case there) is the same defect seen again
	explained := func(x *failure) bool {
		if !strings.HasPrefix(x.kind, "chain-") && !strings.HasPrefix(x.kind, "walk-") {
			return false
		}
		from, to := w.states[x.path[len(x.path)-2]].src, w.states[x.path[len(x.path)-1]].src
		for _, it := range items {
			y := it.x
			if y.li == x.li && len(y.path) == 2 && (y.kind == "mismatch" || y.kind == "apply-error" || y.kind == "apply-panic") &&
				subMultiset(w.states[y.path[0]].src, from) && subMultiset(w.states[y.path[1]].src, to) {
				return true
			}
		}
		return false
	}
	nonMinimal, repeats := 0, 0
	for _, it := range items {
		if explained(it.x) {
			repeats++
			continue
		}
		if dominated(it.x) {
			nonMinimal++
			continue
		}
		if os.Getenv("VERIF_C08_LIST") != "" { // development aid: the run itself lists only the first 20 violations
			fmt.Fprintf(os.Stderr, "c08 reports %s\n", it.fp)
		}
		w.r.Violate(it.fp, it.x.detail, replayOf(w, it.x.li, it.x.path, it.x.diffs, it.x.how))
	}
	w.r.Set("failing_cases_total", len(items))
	w.r.Set("failing_cases_non_minimal_suppressed", nonMinimal)
	w.r.Set("failing_chain_cases_explained_by_a_single_transition", repeats)
}

// ---------------------------------------------------------------- counters

type counters struct {
	Applies, Evals           int64 // real ApplyDiff executions; content comparisons
	FullDumps                int64
	Strict, Light            int64 // valid single transitions: fresh copy + close + full dump / through a session
	SingleNontrivial         int64
	Pairs, PairsAllOrders    int64
	PairsCapped              int64
	Faulty, FaultyNontrivial int64
	Chain, Walk              int64
	MaxDiffLines             int64
	Sessions, Resets         int64
	Skew                     int64
	Input, InputNontrivial   int64 // input failure modes / encodings; of those, with a valid line delivered before the trouble
	InputMustFail            int64
	InputMustOK, InputEither int64
	InputEitherAccepted      int64
	Bulk, BulkFaulty         int64
	StrictFaulty             int64
}

const dnsfixSerial = 1234567 // == dnsfix.Serial (checked in main)
const dnsfixSerialSkewed = dnsfixSerial + 1

var cnt counters

func atomicMax(p *int64, v int64) {
	for {
		o := atomic.LoadInt64(p)
		if v <= o || atomic.CompareAndSwapInt64(p, o, v) {
			return
		}
	}
}

// ---------------------------------------------------------------- strict step

// strictStep applies lines to the closed store in dir the way the command line
// tool does (open, ApplyDiff, close) and returns the outcome and the exact
// content afterwards from a raw-iterator dump.
func (w *world) strictStep(dir string, lines []string, viaFile bool) (applyResult, rawDump) {
	var res applyResult
	if viaFile {
		res = applyFile(dir, diffText(lines))
	} else {
		res = applyReader(dir, diffText(lines))
	}
	atomic.AddInt64(&cnt.Applies, 1)
	raw, err := dumpRaw(dir)
	if err != nil {
		vlib.Infra("dump after ApplyDiff failed (store unreadable): %v", err)
	}
	atomic.AddInt64(&cnt.FullDumps, 1)
	atomic.AddInt64(&cnt.Evals, 1)
	return res, raw
}

func replayOf(w *world, li int, path []int, diffs [][]string, how string) map[string]interface{} {
	if how == "" {
		how = "compile files[0].preprocessed with rdb.Compile (serial 1234567, UseV2KeySyntax per layout), then rdb.NewUpdater(dir).ApplyDiff(diff, 1234567) for each diff, then compare a raw key/value dump with rdb.Compile of the last file"
	}
	files := []map[string]interface{}{}
	for _, s := range path {
		files = append(files, map[string]interface{}{"name": w.states[s].name, "source": splitLines(srcText(w.states[s].src)), "preprocessed": w.states[s].pre})
	}
	return map[string]interface{}{"layout": layouts[li].String(), "files": files, "diffs_applied_in_order": diffs,
		"how": how}
}

// ---------------------------------------------------------------- outcome bookkeeping for one (A,B)

type verdicts struct {
	kind     string
	firstBad []string
	bad      []string
	tried    int
}

var rank = map[string]int{"": 0, "mismatch": 1, "apply-error": 2, "apply-panic": 3}

func (v *verdicts) note(kind string, lines []string, what string) {
	if rank[kind] > rank[v.kind] {
		v.kind, v.firstBad, v.bad = kind, lines, nil
	}
	if kind == v.kind {
		v.bad = append(v.bad, what)
	}
}

// judge classifies one valid transition; it returns true when the store has
// exactly the wanted multisets.
func (v *verdicts) judge(res applyResult, got rawDump, readErr error, want *compiled, lines []string, mode string) bool {
	v.tried++
	switch {
	case res.panicked != nil:
		v.note("apply-panic", lines, fmt.Sprintf("%s %q: %s", mode, lines, res))
	case res.err != nil:
		v.note("apply-error", lines, fmt.Sprintf("%s %q: %s", mode, lines, res))
	case readErr != nil:
		v.note("mismatch", lines, fmt.Sprintf("%s %q: %v", mode, lines, readErr))
	default:
		if d := diffExact(got, want.ref); d != "" {
			v.note("mismatch", lines, fmt.Sprintf("%s %q: after-apply vs fresh compile: %s", mode, lines, d))
		} else {
			return true
		}
	}
	return false
}

func head(s []string, n int) []string {
	if len(s) > n {
		return s[:n]
	}
	return s
}

// ---------------------------------------------------------------- faults

type fault struct {
	class string
	line  string
	keys  []string // keys its records would touch (both '-' classes); nil for malformed lines
}

// malformed lines: rejected by the diff-entry parser or by the line codec.
var malformed = []fault{
	{"bad-op", "*+a.example.com,1.1.1.9,3600", nil},
	{"bad-op", " +a.example.com,1.1.1.9,3600", nil},
	{"bad-type", "+?a.example.com,1.1.1.9,3600", nil},
	{"bad-type", "-?a.example.com,1.1.1.9,3600", nil},
	{"op-only", "+", nil},
	{"op-only", "-", nil},
	{"bad-location", "++a.example.com,1.1.1.9,3600,,\\", nil},
	// a data line that lost its '+'/'-' prefix (the first byte of the record is then taken for the operation)
	{"no-op-prefix", "+a.example.com,1.1.1.9,3600", nil},
	{"no-op-prefix", "Zexample.com,ns.example.com,admin.example.com,42,7200,1800,604800,300,120,,", nil},
	{"no-op-prefix", "a.example.com,1.1.1.9,3600", nil},
	{"not-a-line", "\x00", nil},
	{"not-a-line", "garbage", nil},
	{"not-a-line", "\xef\xbb\xbf++a.example.com,1.1.1.9,3600", nil}, // a valid line behind a UTF-8 byte order mark
}

// undeletable lines that are in no data file at all
const strangerKeyLine = "+nokey.example.com,9.9.9.9,3600"
const strangerValueLine = "+a.example.com,9.9.9.9,3600"

func (w *world) faultsFor(li, a, b int, universe []string) []fault {
	A, B := w.states[a], w.states[b]
	cntIn := func(s *state, l string) int {
		c := 0
		for _, x := range s.pre {
			if x == l {
				c++
			}
		}
		return c
	}
	var out []fault
	for _, l := range append([]string{strangerKeyLine, strangerValueLine}, universe...) {
		if cntIn(B, l) > 0 {
			continue // deletable: the target file still has it
		}
		var keys []string
		known := false
		for _, r := range recordsOf(layouts[li], l) {
			keys = append(keys, r.key)
			if _, ok := w.comp[li][a].ref[r.key]; ok {
				known = true
			}
			if _, ok := w.comp[li][b].ref[r.key]; ok {
				known = true
			}
		}
		class := "del-absent-key"
		if cntIn(A, l) > 0 {
			class = "del-once-too-often"
		} else if known {
			class = "del-absent-value"
		}
		out = append(out, fault{class, "-" + l, keys})
	}
	return append(out, malformed...)
}

func insertAt(lines []string, pos int, l string) []string {
	out := make([]string, 0, len(lines)+1)
	out = append(out, lines[:pos]...)
	out = append(out, l)
	return append(out, lines[pos:]...)
}

func orSame(s string) string {
	if s == "" {
		return "same multisets (value order changed)"
	}
	return s
}

// ---------------------------------------------------------------- all transitions out of compile(A)

// faultPlan says which faulty lines go where for the pair (a,b).
func (w *world) faultPlan(li, a, b int, diff []string, universe []string) (out []struct {
	ft  fault
	pos []int
}) {
	A, B := w.states[a], w.states[b]
	faults := w.faultsFor(li, a, b, universe)
	nd := len(faults) - len(malformed)
	small := len(A.src) <= 1 && len(B.src) <= 1
	seenClass := map[string]bool{}
	for fi, ft := range faults {
		var pos []int
		switch {
		case small:
			// pairs of <=1-line files: at every position of the diff; quick tier: the first line of every class
			if !w.p.allFaults {
				if seenClass[ft.class] {
					continue
				}
				seenClass[ft.class] = true
			}
			for p := 0; p <= len(diff); p++ {
				pos = append(pos, p)
			}
		default:
			// every other pair: one undeletable and one malformed line (rotating through the
			// lines with the pair), after all valid lines - where a writer that does not wait
			// for the end of the diff has already written everything else
			if !(fi == (a+b)%nd || fi == nd+(a+b)%len(malformed)) {
				continue
			}
			pos = []int{len(diff)}
		}
		out = append(out, struct {
			ft  fault
			pos []int
		}{ft, pos})
	}
	return out
}

// part is one family of independent work items of a phase.
type part struct {
	n  int
	fn func(i int)
}

// singleTransitions is the phase of everything that starts from a fresh
// compile: the pair transitions (sessions and fresh-copy items), the physical
// walks and the serial-skew items, spread over the worker processes together.
func (w *world) singleTransitions(f *findings, bfs *bfs) {
	parts := []part{w.pairTransitions(f, bfs), w.walks(f), w.serialSkew(f)}
	total := 0
	for _, p := range parts {
		total += p.n
	}
	w.run("single", total, f, bfs, nil, func(i int) {
		for _, p := range parts {
			if i < p.n {
				p.fn(i)
				return
			}
			i -= p.n
		}
	})
}

func (w *world) pairTransitions(f *findings, bfs *bfs) part {
	n := len(w.states)
	// universe of lines that can be asked to be deleted: every preprocessed line of a one-line file
	uni := map[string]bool{}
	for _, s := range w.states {
		if len(s.src) == 1 {
			for _, l := range s.pre {
				uni[l] = true
			}
		}
	}
	var universe []string
	for l := range uni {
		universe = append(universe, l)
	}
	sort.Strings(universe)
	w.r.Set("faulty_deletable_line_universe", len(universe))

	var strictPairs [][2]int
	for a, A := range w.states {
		for b, B := range w.states {
			if !A.bulk && !B.bulk && len(A.src)+len(B.src) <= w.p.strictMax {
				strictPairs = append(strictPairs, [2]int{a, b})
			}
		}
	}

	// one work item per (layout, A): one session on a copy of compile(A) serves every B; then one work item
	// per (layout, pair of small files) for the fresh-copy transition
	return part{len(layouts)*n + len(layouts)*len(strictPairs), func(i int) {
		if i >= len(layouts)*n {
			i -= len(layouts) * n
			sp := strictPairs[i/len(layouts)]
			w.strictPair(f, bfs, i%len(layouts), sp[0], sp[1])
			return
		}
		li, a := i/n, i%n
		A := w.states[a]
		ca := w.comp[li][a]
		s := openSession(w.scratch, ca.dir, ca.raw)
		atomic.AddInt64(&cnt.Sessions, 1)
		for b := 0; b < n; b++ {
			B := w.states[b]
			cb := w.comp[li][b]
			if A.bulk || B.bulk {
				// bulk files are paired with each other and with the empty file only
				if (A.bulk || len(A.src) == 0) && (B.bulk || len(B.src) == 0) {
					w.bulkPair(s, f, bfs, li, a, b)
				}
				continue
			}
			diff := lineDiff(A.pre, B.pre)
			perms, complete := orders(diff, w.p.maxOrders)
			atomic.AddInt64(&cnt.Pairs, 1)
			if complete {
				atomic.AddInt64(&cnt.PairsAllOrders, 1)
			} else {
				atomic.AddInt64(&cnt.PairsCapped, 1)
			}
			atomicMax(&cnt.MaxDiffLines, int64(len(diff)))
			nontrivial := int64(0)
			if len(diff) > 0 {
				nontrivial = 1
			}
			var v verdicts

			// (1) the statement, literally (fresh copy of compile(A), the tool's own sequence): order 0 of the
			// pairs of small files is a work item of its own, see strictPair
			rest := perms
			if len(A.src)+len(B.src) <= w.p.strictMax {
				rest = perms[1:]
			}

			// (2) the (other) orders, then the faulty variants, through the session
			keys := keysOf(ca.ref, cb.ref)
			for _, p := range rest {
				lines := permute(diff, p)
				res := s.apply(lines)
				got, rerr := s.read(keys)
				atomic.AddInt64(&cnt.Applies, 1)
				atomic.AddInt64(&cnt.Evals, 1)
				atomic.AddInt64(&cnt.Light, 1)
				atomic.AddInt64(&cnt.SingleNontrivial, nontrivial)
				if v.judge(res, got, rerr, cb, lines, "session") {
					if id := got.id(); id != cb.rawID {
						bfs.offer(&rawState{li: li, id: id, canon: b, start: a, hist: [][]string{lines}, path: []int{a, b}})
					}
				}
				s.restore(keys, got, rerr == nil && res.panicked == nil)
			}
			if v.kind != "" {
				det := fmt.Sprintf("%s: %s -> %s: %d of %d orders fail\n%s", layouts[li], A.name, B.name, len(v.bad), v.tried, strings.Join(head(v.bad, 4), "\n"))
				f.add(&failure{kind: v.kind, li: li, path: []int{a, b}, detail: det, diffs: [][]string{v.firstBad}})
			}

			for _, fp := range w.faultPlan(li, a, b, diff, universe) {
				for _, pos := range fp.pos {
					w.runFault(s, f, li, a, b, diff, fp.ft, pos, keys)
				}
			}

			// (2b) failure modes of the diff input itself, and other encodings of the same diff
			small := len(A.src) <= 1 && len(B.src) <= 1
			for _, ic := range inputPlan(diff, small, small && w.p.allFaults, a+b) {
				if v.kind != "" && ic.want != mustFail {
					continue // the plain diff already fails for this pair: another encoding of it would only repeat that
				}
				w.runInput(s, f, li, a, b, diff, ic, keys)
			}
		}

		// (3) close the session: the whole store, read with a raw iterator, must be exactly compile(A) again
		final := s.close()
		atomic.AddInt64(&cnt.FullDumps, 1)
		atomic.AddInt64(&cnt.Evals, 1)
		atomic.AddInt64(&cnt.Resets, int64(s.resets))
		if final.id() != ca.rawID {
			det := fmt.Sprintf("%s: session on compile(%s): every case was undone on the keys it could touch, yet the closed store differs from compile(%s): %s",
				layouts[li], A.name, A.name, orSame(diffExact(final, ca.ref)))
			f.add(&failure{kind: "residue", li: li, path: []int{a}, detail: det})
		}
	}}
}

// strictPair is the statement, literally: a fresh copy of compile(A), the
// tool's own sequence open/ApplyDiff(file)/close, a full raw-iterator dump,
// against dnsfix.DumpRDB(compile(B)); then, for some pairs, the failure modes of
// the diff file.
func (w *world) strictPair(f *findings, bfs *bfs, li, a, b int) {
	A, B := w.states[a], w.states[b]
	ca, cb := w.comp[li][a], w.comp[li][b]
	diff := lineDiff(A.pre, B.pre)
	perms, _ := orders(diff, w.p.maxOrders)
	lines := permute(diff, perms[0])
	dir := copyStore(ca.dir, w.scratch)
	res, raw := w.strictStep(dir, lines, true)
	os.RemoveAll(dir)
	atomic.AddInt64(&cnt.Strict, 1)
	if len(diff) > 0 {
		atomic.AddInt64(&cnt.SingleNontrivial, 1)
	}
	var v verdicts
	if v.judge(res, raw, nil, cb, lines, "file-api") {
		if id := raw.id(); id != cb.rawID {
			bfs.offer(&rawState{li: li, id: id, canon: b, start: a, hist: [][]string{lines}, path: []int{a, b}})
		}
	}
	if v.kind != "" {
		det := fmt.Sprintf("%s: %s -> %s: fresh copy, rdb.ApplyDiff(file, dir), full dump\n%s", layouts[li], A.name, B.name, strings.Join(head(v.bad, 4), "\n"))
		f.add(&failure{kind: v.kind, li: li, path: []int{a, b}, detail: det, diffs: [][]string{v.firstBad}})
	}
	if w.fileFaultPair(a, b) {
		w.fileInputFaults(f, li, a, b, diff)
	}
}

// runFault applies diff with the faulty line ft inserted at pos through the
// session on compile(A): it must fail and leave the store exactly as it was.
func (w *world) runFault(s *session, f *findings, li, a, b int, diff []string, ft fault, pos int, keys []string) {
	ca := w.comp[li][a]
	fkeys := keys
	if len(ft.keys) > 0 {
		extra := map[string][]string{}
		for _, k := range ft.keys {
			extra[k] = nil
		}
		fkeys = keysOf(map[string][]string{}, extra, toMap(keys))
	}
	lines := insertAt(diff, pos, ft.line)
	res := s.apply(lines)
	got, rerr := s.read(fkeys)
	atomic.AddInt64(&cnt.Applies, 1)
	atomic.AddInt64(&cnt.Evals, 1)
	atomic.AddInt64(&cnt.Faulty, 1)
	if len(diff) > 0 {
		atomic.AddInt64(&cnt.FaultyNontrivial, 1)
	}
	kind := ""
	switch {
	case res.panicked != nil:
		kind = "fault-panic"
	case res.err == nil:
		kind = "fault-accepted"
	case rerr != nil || got.id() != ca.rawID:
		kind = "fault-mutated"
	}
	if kind != "" {
		det := fmt.Sprintf("%s: store compiled from %s, diff towards %s with faulty line %q (%s) at position %d of %d: %q\nApplyDiff: %s\nstore before vs after: %s %v",
			layouts[li], w.states[a].name, w.states[b].name, ft.line, ft.class, pos, len(diff), head(lines, 12), res, orSame(diffExact(got, ca.ref)), rerr)
		f.add(&failure{kind: kind, sub: ft.class, li: li, path: []int{a, b}, detail: det, diffs: [][]string{lines}})
	}
	if kind != "" || got.id() != ca.rawID {
		s.restore(fkeys, got, rerr == nil && res.panicked == nil)
	}
}

func toMap(keys []string) map[string][]string {
	m := make(map[string][]string, len(keys))
	for _, k := range keys {
		m[k] = nil
	}
	return m
}

// bulkPair: the diff between two bulk files (or a bulk file and the empty
// file) in the bulk orders, with faulty lines and input failures deep inside it.
func (w *world) bulkPair(s *session, f *findings, bfs *bfs, li, a, b int) {
	A, B := w.states[a], w.states[b]
	ca, cb := w.comp[li][a], w.comp[li][b]
	diff := lineDiff(A.pre, B.pre)
	perms := [][]int{nthPerm(len(diff), 0)}
	if len(diff) > 1 {
		perms = bulkOrders(diff)
	}
	atomic.AddInt64(&cnt.Pairs, 1)
	if len(diff) > 1 {
		atomic.AddInt64(&cnt.PairsCapped, 1)
	} else {
		atomic.AddInt64(&cnt.PairsAllOrders, 1)
	}
	atomicMax(&cnt.MaxDiffLines, int64(len(diff)))
	keys := keysOf(ca.ref, cb.ref)
	var v verdicts
	for _, p := range perms {
		lines := permute(diff, p)
		res := s.apply(lines)
		got, rerr := s.read(keys)
		atomic.AddInt64(&cnt.Applies, 1)
		atomic.AddInt64(&cnt.Evals, 1)
		atomic.AddInt64(&cnt.Bulk, 1)
		if len(diff) > 0 {
			atomic.AddInt64(&cnt.SingleNontrivial, 1)
		}
		if v.judge(res, got, rerr, cb, head(lines, 12), "session") {
			if id := got.id(); id != cb.rawID {
				bfs.offer(&rawState{li: li, id: id, canon: b, start: a, hist: [][]string{lines}, path: []int{a, b}})
			}
		}
		s.restore(keys, got, rerr == nil && res.panicked == nil)
	}
	if v.kind != "" {
		det := fmt.Sprintf("%s: %s -> %s (%d diff lines): %d of %d orders fail\n%s", layouts[li], A.name, B.name, len(diff), len(v.bad), v.tried, strings.Join(head(v.bad, 2), "\n"))
		f.add(&failure{kind: v.kind, li: li, path: []int{a, b}, detail: det, diffs: [][]string{v.firstBad}})
	}
	if len(diff) == 0 {
		return
	}
	// faulty lines in the middle of the diff and after its last line
	faults := []fault{{"del-absent-key", "-" + strangerKeyLine, nil}, {"del-absent-value", "-" + strangerValueLine, nil}, malformed[(a+b)%len(malformed)]}
	if len(B.src) == 0 {
		faults = append(faults, fault{"del-once-too-often", "-" + A.pre[0], nil})
	}
	for i := range faults {
		if faults[i].line[0] == '-' && len(faults[i].line) > 1 && faults[i].class[:3] == "del" {
			for _, r := range recordsOf(layouts[li], faults[i].line[1:]) {
				faults[i].keys = append(faults[i].keys, r.key)
			}
		}
		for _, pos := range []int{len(diff) / 2, len(diff)} {
			w.runFault(s, f, li, a, b, diff, faults[i], pos, keys)
			atomic.AddInt64(&cnt.BulkFaulty, 1)
		}
	}
	for _, ic := range bulkInputPlan(diff) {
		if v.kind != "" && ic.want != mustFail {
			continue // the plain diff already fails for this pair
		}
		w.runInput(s, f, li, a, b, diff, ic, keys)
		atomic.AddInt64(&cnt.BulkFaulty, 1)
	}
}

// fileFaultPair: the pairs whose input failures are also tried through the file
// entry point (fresh copy, rdb.ApplyDiff(path, dir), full dump): the pairs of the
// empty file and a one-line file - in the quick tier only the first one-line file.
func (w *world) fileFaultPair(a, b int) bool {
	A, B := w.states[a], w.states[b]
	if A.bulk || B.bulk || len(A.src)+len(B.src) != 1 {
		return false
	}
	return w.p.allFaults || a+b == 1
}

// fileInputFaults: failure modes of the diff FILE given to the tool's entry
// point rdb.ApplyDiff(diffpath, dbpath) (open store, open file, derive serial,
// apply, close): must fail and leave the closed store, dumped in full, exactly
// as compile(A).
func (w *world) fileInputFaults(f *findings, li, a, b int, diff []string) {
	ca := w.comp[li][a]
	type fc struct {
		class, desc string
		mk          func(path string)
	}
	mt := time.Unix(int64(dnsfixSerial), 0)
	cases := []fc{
		{"file-missing", "the diff path does not exist", func(string) {}},
		{"file-is-directory", "the diff path is a directory (it can be opened; reading it fails)", func(p string) {
			if err := os.Mkdir(p, 0o755); err != nil {
				vlib.Infra("mkdir: %v", err)
			}
			os.Chtimes(p, mt, mt)
		}},
		{"file-long-line", fmt.Sprintf("the diff file holds the diff lines and then a '+xxx...' line of %d bytes", scanLimit), func(p string) {
			if err := os.WriteFile(p, diffText(insertAt(diff, len(diff), longLine("+", scanLimit))), 0o644); err != nil {
				vlib.Infra("write diff: %v", err)
			}
			os.Chtimes(p, mt, mt)
		}},
	}
	for _, c := range cases {
		dir := copyStore(ca.dir, w.scratch)
		path := dir + ".diff"
		c.mk(path)
		var res applyResult
		func() {
			defer func() {
				if p := recover(); p != nil {
					res.panicked = p
				}
			}()
			res.err = rdb.ApplyDiff(path, dir)
		}()
		os.RemoveAll(path)
		raw, err := dumpRaw(dir)
		os.RemoveAll(dir)
		if err != nil {
			vlib.Infra("dump after ApplyDiff failed (store unreadable): %v", err)
		}
		atomic.AddInt64(&cnt.Applies, 1)
		atomic.AddInt64(&cnt.FullDumps, 1)
		atomic.AddInt64(&cnt.Evals, 1)
		atomic.AddInt64(&cnt.StrictFaulty, 1)
		kind := ""
		switch {
		case res.panicked != nil:
			kind = "fault-panic"
		case res.err == nil:
			kind = "fault-accepted"
		case raw.id() != ca.rawID:
			kind = "fault-mutated"
		}
		if kind != "" {
			det := fmt.Sprintf("%s: fresh copy of the store compiled from %s, rdb.ApplyDiff(diffpath, dir) for the diff towards %s %q where %s\nApplyDiff: %s\nstore before vs after (full dump): %s",
				layouts[li], w.states[a].name, w.states[b].name, diff, c.desc, res, orSame(diffExact(raw, ca.ref)))
			f.add(&failure{kind: kind, sub: c.class, li: li, path: []int{a, b}, detail: det, diffs: [][]string{abbreviateAll(diff)},
				how: "compile files[0].preprocessed with rdb.Compile (serial 1234567), then rdb.ApplyDiff(diffpath, dir) where " + c.desc + " (mtime 1234567); compare a raw key/value dump before and after"})
		}
	}
}

// ---------------------------------------------------------------- BFS over exact store contents

type rawState struct {
	li    int
	id    string
	canon int        // the data file this store is equal to as a map of multisets
	start int        // compile(start) is the initial store of the history
	hist  [][]string // diffs applied, in order
	path  []int      // start, then the target of every diff
	raw   rawDump    // filled in when the state is rebuilt
}

func (s *rawState) histKey() string {
	return fmt.Sprintf("%03d|%v|%q", len(s.hist), s.path, s.hist)
}

type bfs struct {
	w       *world
	mu      sync.Mutex
	visited map[string]int       // layout/id -> depth first seen (0 = a fresh compile)
	next    map[string]*rawState // candidates for the next level, smallest history kept
	levels  []int                // new states per depth
	outside map[string]bool      // contents seen (and checked) that are outside the BFS universe
}

func newBFS(w *world) *bfs {
	b := &bfs{w: w, visited: map[string]int{}, next: map[string]*rawState{}, outside: map[string]bool{}}
	for li := range layouts {
		for _, c := range w.comp[li] {
			b.visited[fmt.Sprintf("%d/%s", li, c.rawID)] = 0
		}
	}
	b.levels = []int{len(b.visited)}
	return b
}

// inUniverse: the BFS is confined to files made of lines that can share a key
// with another line (only those can produce a value order that a fresh compile
// does not produce).
func (b *bfs) inUniverse(si int) bool {
	if b.w.states[si].bulk {
		return false
	}
	for _, x := range b.w.states[si].src {
		if x >= shareKey {
			return false
		}
	}
	return true
}

func (b *bfs) offer(s *rawState) {
	k := fmt.Sprintf("%d/%s", s.li, s.id)
	if !b.inUniverse(s.start) || !b.inUniverse(s.canon) {
		b.mu.Lock()
		b.outside[k] = true
		b.mu.Unlock()
		return
	}
	b.mu.Lock()
	defer b.mu.Unlock()
	if _, ok := b.visited[k]; ok {
		return
	}
	if o, ok := b.next[k]; !ok || s.histKey() < o.histKey() {
		b.next[k] = s
	}
}

// takeLevel moves the candidates into visited and returns them in a stable order.
func (b *bfs) takeLevel(depth int) []*rawState {
	b.mu.Lock()
	defer b.mu.Unlock()
	var ks []string
	for k := range b.next {
		ks = append(ks, k)
	}
	sort.Strings(ks)
	var out []*rawState
	for _, k := range ks {
		b.visited[k] = depth
		out = append(out, b.next[k])
	}
	b.next = map[string]*rawState{}
	b.levels = append(b.levels, len(out))
	return out
}

// run expands the search to maxDepth diffs: every store content first reached
// at depth d-1 (different, in value order, from every fresh compile and every
// content seen before) is rebuilt by replaying its history on a copy of the
// compiled start store (open/apply/close per diff, full dump compared with the
// content recorded when it was found) and then taken through the diff to every
// other data file in every order.
func (b *bfs) run(f *findings, maxDepth int) {
	w := b.w
	frontier := b.takeLevel(1)
	for depth := 2; depth <= maxDepth && len(frontier) > 0; depth++ {
		dirs := make([]string, len(frontier))
		vlib.ParallelFor(len(frontier), func(i int) {
			s := frontier[i]
			dir := copyStore(w.comp[s.li][s.start].dir, w.scratch)
			var raw rawDump
			for _, d := range s.hist {
				var res applyResult
				res, raw = w.strictStep(dir, d, false)
				atomic.AddInt64(&cnt.Chain, 1)
				if res.err != nil || res.panicked != nil {
					vlib.Infra("nondeterminism: replay of %v %q failed: %s", s.path, s.hist, res)
				}
			}
			if raw.id() != s.id {
				vlib.Infra("nondeterminism: replay of %v %q gives another store content than when it was first seen", s.path, s.hist)
			}
			s.raw = raw
			dirs[i] = dir
		})
		b.expand(f, frontier, dirs)
		for _, d := range dirs {
			os.RemoveAll(d)
		}
		frontier = b.takeLevel(depth)
	}
	// contents first seen at the last depth were compared with the fresh compile when they
	// were produced, but are not expanded
	b.w.r.Set("bfs_unexpanded_contents_at_depth_bound", len(frontier))
}

// expand takes every frontier state (rebuilt in dirs) through the diff to every
// other file of the universe in every order; one session per state.
func (b *bfs) expand(f *findings, frontier []*rawState, dirs []string) {
	w := b.w
	w.run("bfs", len(frontier), f, b, func(j *job) {
		for _, s := range frontier {
			j.Frontier = append(j.Frontier, toGob(s))
		}
		j.Dirs = dirs
	}, func(i int) {
		s := frontier[i]
		ss := openSession(w.scratch, dirs[i], s.raw)
		atomic.AddInt64(&cnt.Sessions, 1)
		for c := range w.states {
			if c == s.canon || !b.inUniverse(c) {
				continue
			}
			C := w.states[c]
			cc := w.comp[s.li][c]
			diff := lineDiff(w.states[s.canon].pre, C.pre)
			perms, _ := orders(diff, w.p.maxOrders)
			path := append(append([]int{}, s.path...), c)
			keys := keysOf(s.raw, cc.ref)
			var v verdicts
			for _, p := range perms {
				lines := permute(diff, p)
				res := ss.apply(lines)
				got, rerr := ss.read(keys)
				atomic.AddInt64(&cnt.Applies, 1)
				atomic.AddInt64(&cnt.Evals, 1)
				atomic.AddInt64(&cnt.Chain, 1)
				if v.judge(res, got, rerr, cc, lines, "session") {
					if id := got.id(); id != cc.rawID {
						b.offer(&rawState{li: s.li, id: id, canon: c, start: s.start, hist: append(append([][]string{}, s.hist...), lines), path: path})
					}
				}
				ss.restore(keys, got, rerr == nil && res.panicked == nil)
			}
			if v.kind != "" {
				det := fmt.Sprintf("%s: store reached by %s (diffs %q), then towards %s: %d of %d orders fail\n%s", layouts[s.li], w.pathNames(s.path), s.hist, C.name, len(v.bad), v.tried, strings.Join(head(v.bad, 4), "\n"))
				f.add(&failure{kind: "chain-" + v.kind, li: s.li, path: path, detail: det, diffs: append(append([][]string{}, s.hist...), v.firstBad)})
			}
		}
		final := ss.close()
		atomic.AddInt64(&cnt.FullDumps, 1)
		atomic.AddInt64(&cnt.Evals, 1)
		atomic.AddInt64(&cnt.Resets, int64(ss.resets))
		if final.id() != s.id {
			det := fmt.Sprintf("%s: session on the store reached by %s (diffs %q): every case was undone, yet the closed store differs from that state: %s", layouts[s.li], w.pathNames(s.path), s.hist, orSame(diffExact(final, s.raw.canon())))
			f.add(&failure{kind: "chain-residue", li: s.li, path: s.path, detail: det, diffs: s.hist})
		}
	})
}

func (w *world) pathNames(p []int) string {
	n := make([]string, len(p))
	for i, s := range p {
		n[i] = w.states[s].name
	}
	return strings.Join(n, " -> ")
}

// ---------------------------------------------------------------- physical walks

// walks takes ONE physical store through every sequence of data files of the
// small universe (files of <=1 source line) with the tool's own sequence
// open/ApplyDiff/close per step and without recompiling in between, so that
// whatever RocksDB keeps besides the logical content (tombstones, several SST
// files, manifests) is along for the ride.
func (w *world) walks(f *findings) part {
	var small []int
	for _, s := range w.states {
		ok := len(s.src) == 0
		for _, l := range w.p.walkLines {
			if len(s.src) == 1 && s.src[0] == l {
				ok = true
			}
		}
		if ok {
			small = append(small, s.idx)
		}
	}
	depth := w.p.walkDepth
	w.r.Set("walk_files", len(small))
	w.r.Set("walk_depth", depth)
	m := len(small)
	// one work item per (layout, first file, second file); deeper steps are iterated inside
	return part{len(layouts) * m * m, func(i int) {
		li := i / (m * m)
		a, b := small[(i/m)%m], small[i%m]
		if a == b {
			return
		}
		base := copyStore(w.comp[li][a].dir, w.scratch)
		defer os.RemoveAll(base)
		d1 := lineDiff(w.states[a].pre, w.states[b].pre)
		if !w.walkStep(f, li, base, []int{a, b}, [][]string{d1}) {
			return
		}
		var rec func(dir string, path []int, diffs [][]string)
		rec = func(dir string, path []int, diffs [][]string) {
			if len(path) > depth {
				return
			}
			last := path[len(path)-1]
			for _, c := range small {
				if c == last {
					continue
				}
				d := lineDiff(w.states[last].pre, w.states[c].pre)
				if len(path)%2 == 0 { // alternate the line order from step to step
					for x, y := 0, len(d)-1; x < y; x, y = x+1, y-1 {
						d[x], d[y] = d[y], d[x]
					}
				}
				nd := copyStore(dir, w.scratch)
				np := append(append([]int{}, path...), c)
				nds := append(append([][]string{}, diffs...), d)
				if w.walkStep(f, li, nd, np, nds) {
					rec(nd, np, nds)
				}
				os.RemoveAll(nd)
			}
		}
		rec(base, []int{a, b}, [][]string{d1})
	}}
}

func (w *world) walkStep(f *findings, li int, dir string, path []int, diffs [][]string) bool {
	res, raw := w.strictStep(dir, diffs[len(diffs)-1], false)
	atomic.AddInt64(&cnt.Walk, 1)
	target := w.comp[li][path[len(path)-1]]
	kind, what := "", ""
	switch {
	case res.panicked != nil || res.err != nil:
		kind, what = "walk-apply-error", res.String()
	default:
		if d := diffExact(raw, target.ref); d != "" {
			kind, what = "walk-mismatch", "after-apply vs fresh compile: "+d
		}
	}
	if kind == "" {
		return true
	}
	if len(path) == 2 {
		return false // a failing first step is a single transition, reported by pairTransitions
	}
	det := fmt.Sprintf("%s: one store taken through %s with diffs %q: %s", layouts[li], w.pathNames(path), diffs, what)
	f.add(&failure{kind: kind, li: li, path: path, detail: det, diffs: (diffs)})
	return false
}

// ---------------------------------------------------------------- serial skew

// serialSkew applies every pure-deletion diff (B a sub-multiset of A) through
// the file entry point with a diff file whose modification time - hence the
// serial ApplyDiff derives - differs from the serial the store was compiled
// with. That is what `dnsrocks-applyrdb -i diff` does in the field (the diff
// file is newer than the data file the store was compiled from). Preprocessed
// files are supposed to be independent of the serial (the preprocessor pins it
// into Z lines), so the deletion must go through and give compile(B).
func (w *world) serialSkew(f *findings) part {
	n := len(w.states)
	var items [][2]int
	for a := 0; a < n; a++ {
		for b := 0; b < n; b++ {
			if a != b && isSubLines(w.states[b].pre, w.states[a].pre) && len(w.states[a].src) <= w.p.skewMaxLines {
				items = append(items, [2]int{a, b})
			}
		}
	}
	w.r.Set("serial_skew_pure_deletion_pairs", len(items))
	return part{len(layouts) * len(items), func(i int) {
		li, a, b := i/len(items), items[i%len(items)][0], items[i%len(items)][1]
		diff := lineDiff(w.states[a].pre, w.states[b].pre)
		dir := copyStore(w.comp[li][a].dir, w.scratch)
		res := applyFileSerial(dir, diffText(diff), dnsfixSerialSkewed)
		atomic.AddInt64(&cnt.Applies, 1)
		atomic.AddInt64(&cnt.Skew, 1)
		raw, err := dumpRaw(dir)
		os.RemoveAll(dir)
		if err != nil {
			vlib.Infra("dump after ApplyDiff failed: %v", err)
		}
		atomic.AddInt64(&cnt.FullDumps, 1)
		atomic.AddInt64(&cnt.Evals, 1)
		what := ""
		switch {
		case res.panicked != nil || res.err != nil:
			what = res.String()
		default:
			if d := diffExact(raw, w.comp[li][b].ref); d != "" {
				what = "after-apply vs compile of the remaining lines: " + d
			}
		}
		if what != "" {
			det := fmt.Sprintf("%s: store compiled from %s with serial %d; deletion diff %q towards %s applied with rdb.ApplyDiff(file) whose mtime gives serial %d: %s",
				layouts[li], w.states[a].name, dnsfixSerial, diff, w.states[b].name, dnsfixSerialSkewed, what)
			f.add(&failure{kind: "serial-skew", li: li, path: []int{a, b}, detail: det, diffs: [][]string{diff},
				how: "compile files[0].preprocessed with rdb.Compile serial 1234567; write the diff to a file, os.Chtimes it to unix time 1234568, rdb.ApplyDiff(diffpath, dir)"})
		}
	}}
}

func isSubLines(sub, sup []string) bool {
	i := 0
	for _, x := range sup {
		if i < len(sub) && sub[i] == x {
			i++
		}
	}
	return i == len(sub)
}
