package main

import (
	"bytes"
	"fmt"
	"sort"
	"strings"

	"github.com/facebookincubator/dns/dnsrocks/dnsdata"

	"verifharness/dnsfix"
)

// srcLine is one optional line of a SOURCE data file.
type srcLine struct{ id, text string }

// The source alphabet, simplest first. It contains:
//   - two different values under one key (a1, a2) and, because files are
//     multisets, the same line twice (two identical values under one key);
//   - a Z line without serial (normalised by the preprocessor to the codec
//     serial) and the same SOA with an explicit serial (a *changed* record: same
//     key, other value); a "." line (composite: SOA *and* NS - two values under
//     the Z lines' key from one line - plus glue A under another key; its SOA
//     takes the serial handed to compile / ApplyDiff, the preprocessor leaves
//     the line alone);
//   - source-level % lines of ONE map, nested (10/8 aa > 10.1/16 bb > 10.1.0/24
//     aa) so that adding/removing one moves several derived '!' range-point lines
//     at once (values change, and keys too since they carry the mask length);
//   - a located record (aL: same owner as a1/a2, another key in both layouts)
//     and a located wildcard AAAA (wL).
//
// The first shareKey lines are the ones that share a key with another line.
var alphabet = []srcLine{
	{"a1", "+a.example.com,1.1.1.1,3600"},
	{"a2", "+a.example.com,1.1.1.2,3600"},
	{"soa", "Zexample.com,ns.example.com,admin.example.com,,7200,1800,604800,300,120,,"},
	{"dot", ".example.com,10.0.0.53,ns.example.com,3600"},
	{"soa2", "Zexample.com,ns.example.com,admin.example.com,42,7200,1800,604800,300,120,,"},
	{"n1", "%aa,10.0.0.0/8,m1"},
	{"n2", "%bb,10.1.0.0/16,m1"},
	{"aL", "+a.example.com,1.1.1.3,3600,,aa"},
	{"n3", "%aa,10.1.0.0/24,m1"},
	{"wL", "+*.w.example.com,2001:db8::1,300,,bb"},
}

// lines 0..shareKey-1 can put several values under one key; the others never do
const shareKey = 5

// state is one data file: a multiset of source lines and its preprocessed form.
type state struct {
	idx     int
	src     []int    // sorted indices into alphabet (with repetition)
	name    string   // ids joined by "_" ("empty" for the empty file)
	preText []byte   // exactly what the real preprocessor wrote
	pre     []string // its lines, sorted (the file as a multiset)
	bulk    bool     // one of bulkFiles: paired only with the other bulk files and the empty file
}

// bulkFiles are data files with many copies of a few lines (alphabet index,
// copies): two values under one key and a second key, 150 / 75 lines, and a
// file that differs from both by additions AND deletions under both keys. The
// diffs between them (and the empty file) carry 75-150 records - more than
// rdb.DefaultBatchSize as scaled down in this harness' OVERLAY (64), so the
// batch outgrows its allocation - and 2-7 KB of text, so the line scanner's
// first buffer (4096 bytes) is used up, shifted and refilled.
var bulkFiles = [][][2]int{
	{{0, 50}, {1, 50}, {4, 50}},
	{{0, 25}, {1, 25}, {4, 25}},
	{{0, 50}, {2, 25}},
}

func bulkName(bf [][2]int) string {
	p := make([]string, len(bf))
	for i, lc := range bf {
		p[i] = fmt.Sprintf("%sx%d", alphabet[lc[0]].id, lc[1])
	}
	return strings.Join(p, "_")
}

// bulkOrders: the line orders tried for a bulk diff: merge order (equal lines
// adjacent), its reversal, all '+' before all '-', all '-' before all '+', a few
// lexicographic ranks, and round robin over the groups of equal lines (two
// operations on one key are then always separated by operations on the other
// key, and '+' and '-' lines alternate).
func bulkOrders(diff []string) [][]int {
	perms, _ := orders(diff, 6)
	var groups [][]int
	for i, l := range diff {
		if i > 0 && diff[i-1] == l {
			groups[len(groups)-1] = append(groups[len(groups)-1], i)
		} else {
			groups = append(groups, []int{i})
		}
	}
	var rr []int
	for j := 0; len(rr) < len(diff); j++ {
		for _, g := range groups {
			if j < len(g) {
				rr = append(rr, g[j])
			}
		}
	}
	for _, p := range perms {
		if fmt.Sprint(p) == fmt.Sprint(rr) {
			return perms
		}
	}
	return append(perms, rr)
}

func srcName(src []int) string {
	if len(src) == 0 {
		return "empty"
	}
	p := make([]string, len(src))
	for i, x := range src {
		p[i] = alphabet[x].id
	}
	return strings.Join(p, "_")
}

func srcText(src []int) []byte {
	var b bytes.Buffer
	for _, x := range src {
		b.WriteString(alphabet[x].text)
		b.WriteByte('\n')
	}
	return b.Bytes()
}

// preprocess runs the REAL preprocessor configured as cmd/dnsrocks-preproc
// does (ranger on, no prefix sets, no % output) with the fixed serial.
func preprocess(src []byte) ([]byte, error) {
	codec := new(dnsdata.Codec)
	codec.Acc.Ranger.Enable()
	codec.Acc.NoPrefixSets = true
	codec.NoRnetOutput = true
	codec.Serial = dnsfix.Serial
	var out bytes.Buffer
	if err := codec.Preprocess(bytes.NewReader(src), &out); err != nil {
		return nil, err
	}
	return out.Bytes(), nil
}

func splitLines(b []byte) []string {
	var l []string
	for _, s := range strings.Split(string(b), "\n") {
		if s != "" {
			l = append(l, s)
		}
	}
	return l
}

// multisets enumerates all multisets of size <= k over n symbols, by size then
// lexicographically.
func multisets(n, k int) [][]int {
	var out [][]int
	for size := 0; size <= k; size++ {
		cur := make([]int, size)
		var rec func(pos, from int)
		rec = func(pos, from int) {
			if pos == size {
				out = append(out, append([]int(nil), cur...))
				return
			}
			for x := from; x < n; x++ {
				cur[pos] = x
				rec(pos+1, x)
			}
		}
		rec(0, 0)
	}
	return out
}

// subMultiset reports a ⊆ b for sorted int multisets.
func subMultiset(a, b []int) bool {
	i := 0
	for _, x := range b {
		if i < len(a) && a[i] == x {
			i++
		}
	}
	return i == len(a)
}

// lineDiff returns the diff A->B of two sorted line multisets in the order a
// merge of the two sorted files gives ("-" lines of A only, "+" lines of B only).
func lineDiff(a, b []string) []string {
	var d []string
	i, j := 0, 0
	for i < len(a) || j < len(b) {
		switch {
		case j >= len(b) || (i < len(a) && a[i] < b[j]):
			d = append(d, "-"+a[i])
			i++
		case i >= len(a) || b[j] < a[i]:
			d = append(d, "+"+b[j])
			j++
		default:
			i++
			j++
		}
	}
	return d
}

func factorial(n int) int {
	f := 1
	for i := 2; i <= n; i++ {
		f *= i
		if f > 1<<40 {
			return f
		}
	}
	return f
}

// nthPerm returns the permutation of 0..n-1 with lexicographic rank r.
func nthPerm(n, r int) []int {
	items := make([]int, n)
	for i := range items {
		items[i] = i
	}
	out := make([]int, 0, n)
	for i := n; i >= 1; i-- {
		f := factorial(i - 1)
		q := r / f
		r = r % f
		out = append(out, items[q])
		items = append(items[:q], items[q+1:]...)
	}
	return out
}

// orders returns the line orders tried for a diff of n lines: all n! when
// n! <= cap; otherwise cap distinct ones: identity, reversal, "all + before
// all -" and "all - before all +" (each stable), then lexicographic ranks
// spread evenly over [0, n!). complete tells whether all orders are present.
func orders(diff []string, cap int) (perms [][]int, complete bool) {
	n := len(diff)
	if n <= 1 {
		return [][]int{nthPerm(n, 0)}, true
	}
	if f := factorial(n); f <= cap {
		for r := 0; r < f; r++ {
			perms = append(perms, nthPerm(n, r))
		}
		return perms, true
	}
	seen := map[string]bool{}
	add := func(p []int) {
		k := fmt.Sprint(p)
		if !seen[k] && len(perms) < cap {
			seen[k] = true
			perms = append(perms, p)
		}
	}
	id := nthPerm(n, 0)
	add(id)
	rev := make([]int, n)
	for i := range rev {
		rev[i] = n - 1 - i
	}
	add(rev)
	var plus, minus []int
	for i, l := range diff {
		if l[0] == '+' {
			plus = append(plus, i)
		} else {
			minus = append(minus, i)
		}
	}
	add(append(append([]int{}, plus...), minus...))
	add(append(append([]int{}, minus...), plus...))
	f := factorial(n)
	for i := 1; len(perms) < cap && i < 4*cap; i++ {
		add(nthPerm(n, int(int64(i)*int64(f)/int64(4*cap))%f))
	}
	return perms, false
}

func permute(diff []string, p []int) []string {
	out := make([]string, len(p))
	for i, x := range p {
		out[i] = diff[x]
	}
	return out
}

func diffText(lines []string) []byte {
	if len(lines) == 0 {
		return nil
	}
	return []byte(strings.Join(lines, "\n") + "\n")
}

func sortedCopy(a []string) []string {
	b := append([]string(nil), a...)
	sort.Strings(b)
	return b
}

type kv struct{ key, value string }

// recordsOf converts one preprocessed line with the real codec, configured as
// the RocksDB compiler configures it. Used only for the harness' own sanity
// check of the alphabet and to name fault classes; never as an oracle.
func recordsOf(b dnsfix.Backend, line string) []kv {
	c := new(dnsdata.Codec)
	c.Serial = dnsfix.Serial
	c.Acc.Ranger.Enable()
	c.Acc.NoPrefixSets = true
	c.NoRnetOutput = true
	c.Features.UseV2Keys = b == dnsfix.RDBv2
	m, err := c.ConvertLn([]byte(line))
	if err != nil {
		panic(fmt.Sprintf("alphabet line %q does not convert: %v", line, err))
	}
	out := make([]kv, len(m))
	for i, r := range m {
		out[i] = kv{string(r.Key), string(r.Value)}
	}
	return out
}
