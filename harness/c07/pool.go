package main

import (
	"fmt"
	"os"
	"sync"
	"sync/atomic"
	"time"

	"verifharness/vlib"
)

// outcome of one (file, setting) as seen by the parent.
type cellOutcome struct {
	Done    bool
	Res     execRes
	Hang    bool // child blocked: no answer and no activity, killed
	Crashed bool // child died while running this cell
	Info    string
}

type cell struct{ j, s int }

// pool runs (file, setting) cells in executor children and survives children
// that hang or die: the offending cell is recorded and the rest of the child's
// share is re-run in a fresh child.
type pool struct {
	dir      string
	idle     time.Duration
	hangs    int64 // children killed for not answering
	maxHangs int64 // give up (exhaustive=false) after that many
	children int64
	cells    int64
	gaveUp   int32
	mu       sync.Mutex
	infra    []string
	sem      chan struct{} // bounds the number of executor children alive
}

func newPool(dir string) *pool {
	return &pool{dir: dir, idle: 30 * time.Second, maxHangs: 3, sem: make(chan struct{}, vlib.Workers())}
}

// plan says how cells are packed into children. Builder compiles are kept
// apart because of their 1 GB allocation (see exec.go): either a few of them
// in a child with the collector off, or one per child.
type plan struct {
	BuilderPerChild int
	BuilderGCOff    bool
	OtherPerChild   int
	NCPU            int // >0: children see exactly that many CPUs
}

// run executes every setting of every job and returns outcome[job][setting].
func (p *pool) run(jobs []execJob, pl plan) [][]cellOutcome {
	out := make([][]cellOutcome, len(jobs))
	var builder, other []cell
	for j := range jobs {
		out[j] = make([]cellOutcome, len(jobs[j].Settings))
		for s, st := range jobs[j].Settings {
			if st.Bld {
				builder = append(builder, cell{j, s})
			} else {
				other = append(other, cell{j, s})
			}
		}
	}
	type share struct {
		cells []cell
		gcOff bool
	}
	var shares []share
	split := func(cs []cell, per int, gcOff bool) {
		if per < 1 {
			per = 1
		}
		for len(cs) > 0 {
			n := per
			if n > len(cs) {
				n = len(cs)
			}
			shares = append(shares, share{cs[:n], gcOff})
			cs = cs[n:]
		}
	}
	split(builder, pl.BuilderPerChild, pl.BuilderGCOff)
	split(other, pl.OtherPerChild, false)
	vlib.ParallelFor(len(shares), func(i int) {
		p.runShare(jobs, shares[i].cells, out, pl.NCPU, shares[i].gcOff)
	})
	return out
}

func (p *pool) fail(msg string) {
	p.mu.Lock()
	p.infra = append(p.infra, msg)
	p.mu.Unlock()
}

func (p *pool) runShare(jobs []execJob, todo []cell, out [][]cellOutcome, ncpu int, gcOff bool) {
	for len(todo) > 0 {
		if atomic.LoadInt32(&p.gaveUp) != 0 {
			return
		}
		// a request holding exactly the remaining cells, file texts sent once
		var req []execJob
		var back [][]cell
		for _, c := range todo {
			if len(req) == 0 || req[len(req)-1].ID != jobs[c.j].ID {
				req = append(req, execJob{ID: jobs[c.j].ID, Text: jobs[c.j].Text})
				back = append(back, nil)
			}
			req[len(req)-1].Settings = append(req[len(req)-1].Settings, jobs[c.j].Settings[c.s])
			back[len(back)-1] = append(back[len(back)-1], c)
		}
		atomic.AddInt64(&p.children, 1)
		p.sem <- struct{}{}
		t0 := time.Now()
		oc, err := runChild(p.dir, req, ncpu, gcOff, false, p.idle)
		<-p.sem
		if os.Getenv("C07_DEBUG") == "2" { // diagnostics only
			nb := 0
			for _, c := range todo {
				if jobs[c.j].Settings[c.s].B != 0 {
					nb++
				}
			}
			fmt.Fprintf(os.Stderr, "c07: child with %d cells (%d RocksDB, collector off: %v) took %.1fs\n", len(todo), nb, gcOff, time.Since(t0).Seconds())
		}
		if err != nil {
			p.fail(err.Error())
			return
		}
		if ncpu > 0 && oc.NumCPU != ncpu {
			p.fail(fmt.Sprintf("child was to run with %d CPUs but saw runtime.NumCPU()=%d", ncpu, oc.NumCPU))
			return
		}
		for _, r := range oc.Results {
			c := back[r.Job][r.Set]
			out[c.j][c.s] = cellOutcome{Done: true, Res: r}
		}
		if n := atomic.AddInt64(&p.cells, int64(len(oc.Results))); os.Getenv("C07_DEBUG") != "" && n/2000 != (n-int64(len(oc.Results)))/2000 {
			fmt.Fprintf(os.Stderr, "c07: %d cells done, %d children\n", n, atomic.LoadInt64(&p.children))
		}
		if !oc.Stuck {
			return
		}
		c := back[oc.StuckJob][oc.StuckSet]
		if oc.TimedOut || oc.Deadlock {
			out[c.j][c.s] = cellOutcome{Hang: true, Info: fmt.Sprintf("no answer: process idle (no CPU time, no runnable thread) for %v, %v after the previous answer (runtime deadlock report: %v); stderr: %s", oc.IdleFor.Round(time.Second), oc.Waited.Round(time.Second), oc.Deadlock, oc.Stderr)}
			if atomic.AddInt64(&p.hangs, 1) >= p.maxHangs {
				atomic.StoreInt32(&p.gaveUp, 1)
			}
		} else {
			out[c.j][c.s] = cellOutcome{Crashed: true, Info: fmt.Sprintf("child died (%s); stderr: %s", oc.Exit, oc.Stderr)}
		}
		todo = todo[len(oc.Results)+1:]
	}
}

// describe re-runs one cell and returns the textual difference between its
// store and the reference (used only for the report of a mismatch that the
// hash comparison has already established).
func (p *pool) describe(text []byte, s setting, ncpu int) string {
	atomic.AddInt64(&p.children, 1)
	p.sem <- struct{}{}
	oc, err := runChild(p.dir, []execJob{{ID: 0, Text: text, Settings: []setting{s}}}, ncpu, s.Bld, true, p.idle)
	<-p.sem
	if err != nil || len(oc.Results) != 1 {
		return fmt.Sprintf("(second run for the description failed: %v)", err)
	}
	r := oc.Results[0]
	switch {
	case r.Err != "":
		return "(second run: compile error " + r.Err + ")"
	case r.Diff == "(no difference)":
		return "(NOT REPRODUCED on a second run of the same setting: that run equals the reference - the result depends on the goroutine schedule)"
	}
	return r.Diff
}
