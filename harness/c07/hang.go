package main

import (
	"fmt"
	"strings"
	"sync"
	"time"

	"verifharness/dnsfix"
	"verifharness/vlib"
)

// BatchNumParallel = 0 is the command line default of dnsrocks-data
// ("-batchnum 0 means unlimited", cmd/dnsrocks-data/dnsrocks-data.go:33). It is
// a setting like any other, but DESIGN §5 item 11 predicts that compileBatches
// blocks forever as soon as a batch fills, so these cells of the grid run each
// in a subprocess of their own with a 20 s limit, in the background of the
// rest of the run.

const hangLimit = 20 * time.Second

type hangCase struct {
	Name    string
	S       setting
	Text    []byte
	Fills   bool // some batch fills (records >= batch size)
	Outcome cellOutcome
	Err     error
}

type hangProbe struct {
	wg    sync.WaitGroup
	cases []*hangCase
}

func startHangProbe(r *vlib.Run, p *pool) *hangProbe {
	text := []byte(alphabet[0].Text + "\n" + alphabet[3].Text + "\n") // a1, dot: 5 records with the trailer
	h := &hangProbe{}
	for _, b := range []dnsfix.Backend{dnsfix.RDBv1, dnsfix.RDBv2} {
		for _, w := range []int{1, 2} {
			for _, bs := range []int{1, 2, 3, 0} {
				s := setting{B: b, W: w, BSize: bs, BPar: 0}
				h.cases = append(h.cases, &hangCase{Name: s.String(), S: s, Text: text, Fills: bs != 0})
			}
		}
	}
	// control: the same subprocess mechanism with parallelism 1 must answer
	ctl := setting{B: dnsfix.RDBv1, W: 1, BSize: 1, BPar: 1}
	h.cases = append(h.cases, &hangCase{Name: "control:" + ctl.String(), S: ctl, Text: text, Fills: true})
	for _, c := range h.cases {
		c := c
		h.wg.Add(1)
		go func() {
			defer h.wg.Done()
			oc, err := runChild(p.dir, []execJob{{ID: 0, Text: c.Text, Settings: []setting{c.S}}}, 0, false, true, hangLimit)
			if err != nil {
				c.Err = err
				return
			}
			switch {
			case len(oc.Results) == 1:
				c.Outcome = cellOutcome{Done: true, Res: oc.Results[0]}
			case oc.TimedOut || oc.Deadlock:
				c.Outcome = cellOutcome{Hang: true, Info: fmt.Sprintf("no answer: process idle (no CPU time, no runnable thread) for %v, %v after start (Go runtime deadlock report: %v)", oc.IdleFor.Round(time.Second), oc.Waited.Round(time.Second), oc.Deadlock)}
			default:
				c.Outcome = cellOutcome{Crashed: true, Info: fmt.Sprintf("child died (%s): %s", oc.Exit, oc.Stderr)}
			}
		}()
	}
	return h
}

func (h *hangProbe) collect(r *vlib.Run) {
	h.wg.Wait()
	var hung, hungNoFill []string
	var answered int64
	for _, c := range h.cases {
		if c.Err != nil {
			vlib.Infra("hang probe %s: %v", c.Name, c.Err)
		}
		control := strings.HasPrefix(c.Name, "control:")
		o := c.Outcome
		switch {
		case o.Hang && control:
			r.Violate("hang/"+c.S.String()+"/a1.dot", "the control compile (batch parallelism 1) did not return: "+o.Info, map[string]interface{}{"text": string(c.Text), "setting": c.S.String()})
		case o.Hang:
			hung = append(hung, c.Name)
			if !c.Fills {
				hungNoFill = append(hungNoFill, c.Name)
			}
		case o.Crashed:
			r.Violate("crash/"+c.S.String()+"/a1.dot", o.Info, map[string]interface{}{"text": string(c.Text), "setting": c.S.String()})
		case o.Done:
			if !control {
				answered++
			}
			res := o.Res
			r.Add("transitions", 1)
			r.Add("traces_validated_against_impl", 1)
			r.Add("evaluations", 1)
			switch {
			case res.Panic != "":
				r.Violate("panic/"+c.S.String()+"/a1.dot", res.Panic, nil)
			case res.Err != "":
				r.Violate("spurious-error/"+c.S.String()+"/a1.dot", res.Err, map[string]interface{}{"text": string(c.Text), "setting": c.S.String()})
			case res.DumpErr != "":
				r.Violate("unreadable/"+c.S.String()+"/a1.dot", res.DumpErr, nil)
			case res.Diff != "(no difference)":
				r.Violate("mismatch/"+c.S.String()+"/a1.dot", res.Diff, map[string]interface{}{"text": string(c.Text), "setting": c.S.String()})
			}
		}
	}
	r.Set("batchnum0_cases", len(h.cases)-1)
	r.Set("batchnum0_cases_hung", len(hung))
	r.Set("batchnum0_cases_answered", answered)
	if len(hung) > 0 {
		detail := fmt.Sprintf("rdb.Compile with BatchNumParallel=0 (the CLI default, documented as \"unlimited\") blocked (process idle for %v without returning) in %d of %d settings: %s.\nInput (5 records with the feature record):\n%s", hangLimit, len(hung), len(h.cases)-1, strings.Join(hung, ", "), indent(string(h.cases[0].Text)))
		if len(hungNoFill) == 0 {
			detail += "Every setting in which no batch fills (default batch size 100000) compiled and matched the reference; every setting in which a batch fills (size 1, 2, 3) hung: the limiter channel is unbuffered and its only receivers are started after the send (rdb_compiler.go:114,151)."
		} else {
			detail += "Also hung without a full batch: " + strings.Join(hungNoFill, ", ")
		}
		r.Violate("hang/batchnum0", detail, map[string]interface{}{"text": string(h.cases[0].Text), "hung_settings": hung,
			"how": "rdb.Compile(bytes.NewReader(text), serial, dir, rdb.CompilationOptions{NumCPU:1, BatchSize:1, BatchNumParallel:0}) never returns"})
	}
	addRule(fmt.Sprintf("(c) BatchNumParallel=0 (CLI default): %d settings (v1|v2 x workers 1,2 x batch size 1,2,3,default) each compiled in a subprocess of its own killed after %v of idleness (no CPU time consumed, no runnable thread), plus one control with parallelism 1; an answer is judged like any other compile, no answer is a violation.", len(h.cases)-1, hangLimit))
}
