package main

// Parts (c), (d), (e) of the inputs: what a LINE is, and the fixed sizes of the parser.
//
// (c) lexical: parse() (dnsdata/parser.go) hands the codec every newline-terminated line (one carriage return
//     before the newline belongs to the terminator) with its leading SPACES removed; lines shorter than two bytes
//     and lines starting with '#' are not data. Whatever else is on the line - trailing blanks and tabs, a leading
//     tab, a second carriage return, empty trailing fields, a '#' further right - is the codec's to interpret or
//     to reject. The family below decorates 18 base lines (record lines of several types, a comment, lines of
//     length 0, 1 and 2, a rejected line) with every combination of 6 prefixes and 11 suffixes of white space /
//     separators and puts each decorated line alone in a file and - the lines with a prefix or a suffix only -
//     between two ordinary lines and last in a file without a final newline.
// (d) range-heavy: files whose subnet lines give one map more than 100 range points / several maps with many
//     points (the accumulator's trailing records; inputs (a) have at most 5 per map, inputs (b) none). The
//     compilers take these records from SubnetRanger.MarshalMap (one goroutine per map, one channel send per
//     map); the chunked text scanner SubnetRanger.OpenScanner is not on any compiler's path (it serves
//     Codec.Preprocess and Accum.MarshalText, see C09 and its schedules part).
// (e) medium files of 9..35 and 64 lines, i.e. around the capacity workers*10 of the parser's line channel for 1-3
//     workers, without and with rejected lines (first line, first three lines, middle, last): on the error path
//     the scanner goroutine is left blocked on a full channel, which must not block the compilation.
//
// Oracle as in (a): the store equals the line-by-line reference; a rejected line fails every setting.

import (
	"fmt"
	"sort"
	"strings"

	"verifharness/dnsfix"
	"verifharness/vlib"
)

type deco struct{ Name, Text string }

var lexBases = []deco{
	{"a", "+a.t,10.0.0.1"},
	{"attl", "+a.t,10.0.0.1,300"},
	{"aloc", "+a.t,10.0.0.4,,,ab"},
	{"atail", "+a.t,10.0.0.1,,,"},
	{"txt", "'a.t,hello"},
	{"txtsp", "'a.t,a b"},
	{"txthash", "'a.t,a#b"},
	{"net", "%ab,10.0.0.0/8,m1"},
	{"netnomap", "%ab,10.0.0.0/8"},
	{"map", "Ma.t,m1"},
	{"soa", "Za.t,ns.a.t,adm.a.t,42"},
	{"cmt", "#c"},
	{"hash", "#"},
	{"empty", ""},
	{"one", "+"},
	{"two", "+a"},
	{"badone", "?"},
	{"badtwo", "?a"},
}

var lexPrefixes = []deco{{"", ""}, {"SP", " "}, {"SPSP", "  "}, {"TAB", "\t"}, {"SPTAB", " \t"}, {"TABSP", "\t "}}

// suffix CR is a CRLF line ending; CRCR leaves one carriage return on the line
var lexSuffixes = []deco{{"", ""}, {"SP", " "}, {"SPSP", "  "}, {"TAB", "\t"}, {"CR", "\r"}, {"SPCR", " \r"}, {"CRCR", "\r\r"},
	{"FF", "\f"}, {"NBSP", "\u00a0"}, {"COMMA", ","}, {"COMMA2", ",,"}}

var lexContexts = []string{"alone", "mid", "eof"}

type lexFile struct {
	Base, Pre, Suf, Ctx int
	Name                string
	Text                []byte
	Line                string
}

func lexName(b, p, s, c int) string {
	return lexBases[b].Name + "~" + lexPrefixes[p].Name + "~" + lexSuffixes[s].Name + "~" + lexContexts[c]
}

func lexText(ctx int, line string) string {
	switch lexContexts[ctx] {
	case "mid":
		return "+b.t,10.0.0.8\n" + line + "\n+b.t,10.0.0.9\n"
	case "eof":
		return "+b.t,10.0.0.8\n" + line
	}
	return line + "\n"
}

func lexFiles(thorough bool) []lexFile {
	var out []lexFile
	for b := range lexBases {
		for p := range lexPrefixes {
			for s := range lexSuffixes {
				if !thorough && p != 0 && s != 0 {
					continue // quick tier: a prefix OR a suffix (288 decorated lines); the full product is thorough's
				}
				line := lexPrefixes[p].Text + lexBases[b].Text + lexSuffixes[s].Text
				for c := range lexContexts {
					if c != 0 && p != 0 && s != 0 {
						continue // prefix and suffix together: only with the line alone in the file
					}
					out = append(out, lexFile{b, p, s, c, lexName(b, p, s, c), []byte(lexText(c, line)), line})
				}
			}
		}
	}
	return out
}

// simplerDeco lists the entries of a decoration table whose text is entry i's text with one character removed.
func simplerDeco(tab []deco, i int) []int {
	var out []int
	t := []rune(tab[i].Text)
	for d := range t {
		sub := string(append(append([]rune(nil), t[:d]...), t[d+1:]...))
		for j := range tab {
			if tab[j].Text == sub && j != i {
				out = append(out, j)
			}
		}
	}
	return out
}

// simplerLex lists the names of the files that are one step simpler than f: one decoration character fewer,
// or the same line alone in the file.
func simplerLex(f lexFile) []string {
	var out []string
	for _, p := range simplerDeco(lexPrefixes, f.Pre) {
		out = append(out, lexName(f.Base, p, f.Suf, f.Ctx))
	}
	for _, s := range simplerDeco(lexSuffixes, f.Suf) {
		out = append(out, lexName(f.Base, f.Pre, s, f.Ctx))
	}
	if f.Ctx != 0 {
		out = append(out, lexName(f.Base, f.Pre, f.Suf, 0))
	}
	return out
}

// rdbSetting picks the k-th of the 54 RocksDB settings of the grid.
func rdbSetting(k int) setting {
	var all []setting
	for _, s := range allSettings() {
		if s.B != dnsfix.CDB {
			all = append(all, s)
		}
	}
	return all[k%len(all)]
}

// ---- (d) range-heavy files

type namedFile struct {
	Name string
	Text []byte
	Why  string
}

func rangeHeavyFiles() []namedFile {
	var out []namedFile
	gen := func(name, why string, maps []string, perMap int, v6 bool) {
		var sb strings.Builder
		for mi, m := range maps {
			for i := 0; i < perMap; i++ {
				lo := []string{"aa", "bb", "cc"}[(i+mi)%3]
				if v6 {
					fmt.Fprintf(&sb, "%%%s,2001:db8:%x::/48,%s\n", lo, 2*i+mi, m)
				} else {
					fmt.Fprintf(&sb, "%%%s,10.%d.%d.0/24,%s\n", lo, mi, 2*i, m)
				}
			}
		}
		sb.WriteString("+a.t,10.0.0.1,,,aa\n+a.t,10.0.0.2,,,bb\n+a.t,10.0.0.3\nMa.t,m1\n")
		out = append(out, namedFile{name, []byte(sb.String()), why})
	}
	gen("R.one-map-60", "60 disjoint IPv4 subnets in one map: 122 range points", []string{"m1"}, 60, false)
	gen("R.one-map-120", "120 disjoint IPv4 subnets in one map: more than 200 range points", []string{"m1"}, 120, false)
	gen("R.one-map-60-v6", "60 disjoint IPv6 subnets in one map", []string{"m1"}, 60, true)
	gen("R.three-maps-55", "three maps with 55 subnets each", []string{"m1", "m2", "m3"}, 55, false)
	gen("R.five-maps-3", "five maps with 3 subnets each", []string{"m1", "m2", "m3", "m4", "m5"}, 3, false)
	return out
}

// ---- (e) medium files around the line channel's capacity

func mediumFiles(thorough bool) []namedFile {
	var out []namedFile
	ns := []int{9, 10, 11, 12, 13, 19, 20, 21, 22, 23, 24, 29, 30, 31, 32, 33, 34, 35, 64}
	if !thorough {
		ns = []int{9, 10, 11, 19, 20, 21, 29, 30, 31} // one below, at and above the capacity for 1, 2 and 3 workers
	}
	for _, n := range ns {
		for _, rej := range []string{"none", "first", "first3", "mid", "last"} {
			bad := map[int]bool{}
			switch rej {
			case "first":
				bad[0] = true
			case "first3":
				bad[0], bad[1], bad[2] = true, true, true
			case "mid":
				bad[n/2] = true
			case "last":
				bad[n-1] = true
			}
			var sb strings.Builder
			for i := 0; i < n; i++ {
				if bad[i] {
					fmt.Fprintf(&sb, "?h%02d.t,10.0.0.%d\n", i, i)
				} else {
					fmt.Fprintf(&sb, "+h%02d.t,10.0.0.%d\n", i%7, i) // seven keys: several values per key
				}
			}
			out = append(out, namedFile{fmt.Sprintf("M.n%d.rej-%s", n, rej), []byte(sb.String()), ""})
		}
	}
	return out
}

// extraInputs prepares parts (c), (d), (e); returns compute and record steps like the other parts.
func extraInputs(r *vlib.Run, p *pool) (compute func(), record func()) {
	lex := lexFiles(r.Thorough())
	heavy := rangeHeavyFiles()
	medium := mediumFiles(r.Thorough())
	cdb3 := []setting{{B: dnsfix.CDB, W: 1}, {B: dnsfix.CDB, W: 2}, {B: dnsfix.CDB, W: 3}}

	var jobs []execJob
	// (c): the parser is shared by all compilers, so CDB (cheap) carries the family: all three worker counts on
	// the files with the line alone and a prefix or a suffix only, one (rotating) on the others; one RocksDB
	// setting, rotating through the 54 of the grid, on every third file with the line alone
	nRdb, nAlone := 0, 0
	for i, f := range lex {
		var sets []setting
		if f.Ctx == 0 && (f.Pre == 0 || f.Suf == 0) {
			sets = append(sets, cdb3...)
		} else {
			sets = append(sets, cdb3[(i+f.Pre+f.Ctx)%3])
		}
		if f.Ctx == 0 {
			if nAlone%3 == 0 {
				sets = append(sets, rdbSetting(nRdb))
				nRdb++
			}
			nAlone++
		}
		jobs = append(jobs, execJob{ID: len(jobs), Text: f.Text, Settings: sets})
	}
	lexN := len(jobs)
	// (d): CDB 1-3 and, for both key layouts, the builder and batches of size 1 (parallel 2), 50 and default
	for _, f := range heavy {
		sets := append([]setting(nil), cdb3...)
		for _, b := range []dnsfix.Backend{dnsfix.RDBv1, dnsfix.RDBv2} {
			sets = append(sets, setting{B: b, W: 2, Bld: true}, setting{B: b, W: 3, BSize: 1, BPar: 2}, setting{B: b, W: 2, BSize: 50, BPar: 2}, setting{B: b, W: 1, BSize: 0, BPar: 1})
		}
		jobs = append(jobs, execJob{ID: len(jobs), Text: f.Text, Settings: sets})
	}
	heavyN := len(jobs)
	// (e): CDB 1-3 and one RocksDB batch setting (workers, key layout, batch size and parallelism rotating)
	for i, f := range medium {
		sets := append([]setting(nil), cdb3...)
		b := []dnsfix.Backend{dnsfix.RDBv1, dnsfix.RDBv2}[(i/5)%2]
		sets = append(sets, setting{B: b, W: 1 + (i/5+i)%3, BSize: []int{0, 1, 2, 3}[(i/5+i/3)%4], BPar: 1 + (i/5+i)%2})
		jobs = append(jobs, execJob{ID: len(jobs), Text: f.Text, Settings: sets})
	}

	var outs [][]cellOutcome
	compute = func() {
		outs = p.run(jobs, plan{BuilderPerChild: 24, BuilderGCOff: true, OtherPerChild: 160})
	}
	record = func() {
		var st smallStats
		refsOf := func(text []byte) (map[dnsfix.Backend]refSummary, refResult) {
			refs := map[dnsfix.Backend]refSummary{}
			var rv refResult
			for _, b := range dnsfix.Backends {
				rr := reference(text, b)
				refs[b] = summarize(rr)
				if b == dnsfix.RDBv1 {
					rv = rr
				}
			}
			return refs, rv
		}
		kindOf := func(key string) string { return key[:strings.Index(key, "/")] }

		// ---- (c)
		lexFails := map[string]map[string][]string{} // file name -> kind -> settings
		lexInfo := map[string]map[string]verdict{}
		var lexNontrivial, lexRejected, lexSkipped int64
		for i, f := range lex {
			refs, rv := refsOf(f.Text)
			fails := verdictsOf(f.Text, jobs[i].Settings, outs[i], refs, &st)
			for _, key := range sortedKeys(fails) {
				k := kindOf(key)
				if lexFails[f.Name] == nil {
					lexFails[f.Name] = map[string][]string{}
					lexInfo[f.Name] = map[string]verdict{}
				}
				lexFails[f.Name][k] = append(lexFails[f.Name][k], key[len(k)+1:])
				if _, ok := lexInfo[f.Name][k]; !ok {
					lexInfo[f.Name][k] = fails[key]
				}
			}
			// non-trivial: the decoration matters, i.e. the reference of the file differs from the reference of
			// the file in which the line is stripped of all surrounding white space
			_, rs := refsOf([]byte(lexText(f.Ctx, strings.TrimSpace(f.Line))))
			hs, _, _ := dumpHash(rs.Dump)
			hv, _, _ := dumpHash(rv.Dump)
			if f.Line != strings.TrimSpace(f.Line) && (rs.Rejected != rv.Rejected || hs != hv) {
				lexNontrivial++
				r.Sample(map[string]interface{}{"lexical_file": f.Name, "text": string(f.Text), "rejected_line": rv.Rejected, "rdb_v1_records": rv.Records})
			}
			if rv.Rejected >= 0 {
				lexRejected++
			} else if f.Ctx == 0 && len(dataLines(f.Text)) == 0 {
				lexSkipped++ // the decorated line is not data
			}
		}
		// minimal failing decorations, one violation per (kind, decoration, context) listing the base lines
		type group struct {
			bases    []string
			settings map[string]bool
			first    lexFile
			info     verdict
		}
		groups := map[string]*group{}
		for _, f := range lex {
			for _, k := range sortedKeys(lexFails[f.Name]) {
				minimal := true
				for _, s := range simplerLex(f) {
					if _, bad := lexFails[s][k]; bad {
						minimal = false
						break
					}
				}
				if !minimal {
					continue
				}
				fp := "lexical/" + k + "/" + lexPrefixes[f.Pre].Name + "~" + lexSuffixes[f.Suf].Name + "~" + lexContexts[f.Ctx]
				g := groups[fp]
				if g == nil {
					g = &group{settings: map[string]bool{}, first: f, info: lexInfo[f.Name][k]}
					groups[fp] = g
				}
				g.bases = append(g.bases, lexBases[f.Base].Name)
				for _, s := range lexFails[f.Name][k] {
					g.settings[s] = true
				}
			}
		}
		described := 0
		for _, fp := range sortedKeys(groups) {
			g := groups[fp]
			info := g.info.Info
			if g.info.Diff && described < 6 {
				described++
				info += ": " + p.describe(g.first.Text, g.info.Set, 0)
			}
			var ss []string
			for s := range g.settings {
				ss = append(ss, s)
			}
			sort.Strings(ss)
			r.Violate(fp, fmt.Sprintf("line %q (file %q = %q), setting %s: %s\n    the same failure, minimal in the same way, for base lines %v under settings %v",
				g.first.Line, g.first.Name, string(g.first.Text), g.info.Set, info, g.bases, ss),
				map[string]interface{}{"part": "lexical", "file": g.first.Name, "text": string(g.first.Text), "setting": g.info.Set.String(), "bases": g.bases, "settings": ss})
		}

		// ---- (d), (e): one violation per (kind/setting, file)
		var heavyMaxPoints int64
		report := func(k int, f namedFile) refResult {
			refs, rv := refsOf(f.Text)
			fails := verdictsOf(f.Text, jobs[k].Settings, outs[k], refs, &st)
			for _, key := range sortedKeys(fails) {
				v := fails[key]
				if v.Diff && described < 10 {
					described++
					v.Info += ": " + p.describe(f.Text, v.Set, 0)
				}
				r.Violate(key+"/"+f.Name, fmt.Sprintf("file %s (%s): %s", f.Name, f.Why, v.Info),
					map[string]interface{}{"part": "extra", "file": f.Name, "text": string(f.Text), "setting": v.Set.String()})
			}
			return rv
		}
		for i, f := range heavy {
			rv := report(lexN+i, f)
			perMap := map[string]int64{}
			for k, vs := range rv.Dump {
				if strings.HasPrefix(k, "\x00\x00\x00!") && len(k) >= 6 {
					perMap[k[4:6]] += int64(len(vs))
				}
			}
			for _, n := range perMap {
				if n > heavyMaxPoints {
					heavyMaxPoints = n
				}
			}
			r.Sample(map[string]interface{}{"range_heavy_file": f.Name, "why": f.Why, "rdb_v1_records": rv.Records, "range_points_per_map": perMap})
		}
		var mediumRejected int64
		for i, f := range medium {
			rv := report(heavyN+i, f)
			if rv.Rejected >= 0 {
				mediumRejected++
			}
		}

		r.Add("states", int64(len(jobs)))
		r.Add("transitions", st.compiles)
		r.Add("traces_validated_against_impl", st.compiles)
		r.Add("evaluations", st.rejectChecks+st.dumpChecks+st.crossChecks)
		r.Add("distinct_nontrivial", lexNontrivial+int64(len(heavy))+mediumRejected)
		r.Set("lexical_base_lines", len(lexBases))
		r.Set("lexical_prefixes", len(lexPrefixes))
		r.Set("lexical_suffixes", len(lexSuffixes))
		r.Set("lexical_contexts", lexContexts)
		r.Set("lexical_files", len(lex))
		r.Set("lexical_files_where_surrounding_white_space_changes_the_reference", lexNontrivial)
		r.Set("lexical_files_with_rejected_line", lexRejected)
		r.Set("lexical_single_line_files_whose_line_is_not_data", lexSkipped)
		r.Set("lexical_rocksdb_compiles", nRdb)
		r.Set("range_heavy_files", len(heavy))
		r.Set("max_range_points_in_one_map", heavyMaxPoints)
		r.Set("medium_files", len(medium))
		r.Set("medium_files_with_rejected_line", mediumRejected)
		r.Set("extra_compiles", st.compiles)
		var bn []string
		for _, b := range lexBases {
			bn = append(bn, fmt.Sprintf("%s=%q", b.Name, b.Text))
		}
		r.Set("lexical_bases", bn)
		addRule(fmt.Sprintf("(c) lexical: %d base lines (A with and without TTL / location / empty trailing fields, TXT with an inner blank and an inner '#', subnet with and without map, map assignment, SOA, comment, '#', the empty line, 1- and 2-byte lines, a rejected 1- and 2-byte line) x %d prefixes (none, SP, SPSP, TAB, SP TAB, TAB SP) x %d suffixes (none, SP, SPSP, TAB, CR i.e. CRLF, SP CR, CR CR, FF, NBSP, ',', ',,') with the line alone in the file, and every line with a prefix or a suffix only also in %d more contexts (between two ordinary lines; last line without final newline) = %d files, compiled by CDB (the parser is common to all compilers) with 1-3 workers when the line is alone and has a prefix or a suffix only, with one worker count (rotating) otherwise, and %d of the files with the line alone also by one RocksDB setting rotating through the 54 of the grid. The reference gets the line exactly as the file has it: split at newlines, one CR before the newline dropped, leading spaces dropped, lines of <2 bytes and lines starting with '#' skipped - nothing else is removed. Non-trivial = stripping the line's surrounding white space would change the reference (%d files). Reported: per failure kind, the minimal decorations (no file with one decoration character less, or with the line alone, fails in the same way). (d) range-heavy: %d files with up to %d range points in one map and up to 5 maps; CDB 1-3 + builder and batches (size 1, 50, default) for both key layouts. (e) %d files of 9-13, 19-24, 29-35 and 64 lines (around the capacity workers*10 of the parser's line channel) with no rejected line or rejected lines first / first three / middle / last; CDB 1-3 + one RocksDB batch setting (workers 1-3, key layout, batch size and parallelism rotating).",
			len(lexBases), len(lexPrefixes), len(lexSuffixes), len(lexContexts)-1, len(lex), nRdb, lexNontrivial, len(heavy), heavyMaxPoints, len(medium)))
	}
	return compute, record
}
