package main

import (
	"fmt"
	"os"
	"path/filepath"
	"regexp"
	"runtime"
	"strconv"
	"strings"
	"sync"

	"verifharness/dnsfix"
	"verifharness/vlib"
)

// Part (b): large files around the bulk loader's bucket boundaries.
//
// Builder.Execute sorts all records by key and calls
// createBuckets(minBucketSize, runtime.NumCPU()) (rdb_builder.go:259-261):
// bucketSize = max(minBucketSize, N/NumCPU); bucket i ends bucketSize records
// after its start, moved forward while the record at the cut has the same key
// as the one before it; bucket number NumCPU ("the last") takes everything that
// is left. Each bucket becomes one SST file in which the values of equal keys
// are concatenated, so a cut inside a run of equal keys would lose or duplicate
// values, and an off-by-one at a cut would lose or duplicate a record.
//
// The family: N = minBucketSize*k + delta records in total (data records plus
// the one feature record, which sorts last in both key layouts), all keys
// distinct except one run of r equal keys occupying sorted positions
// [j*bucketSize+o-r, j*bucketSize+o), i.e. ending o records after the j-th
// nominal cut. Lines are written in a scattered (stride) order so that the
// members of the run are far apart in the file.

// minBucketSizeOfRepo reads the constant from the tree under test, so that the
// grid stays on the boundary if the constant changes.
func minBucketSizeOfRepo() (int, string) {
	b, err := os.ReadFile(filepath.Join(vlib.Repo(), "dnsdata", "rdb", "rdb_builder.go"))
	if err == nil {
		if m := regexp.MustCompile(`(?m)^const\s+minBucketSize\s*=\s*(\d+)`).FindSubmatch(b); m != nil {
			if n, err := strconv.Atoi(string(m[1])); err == nil && n > 0 {
				return n, "read from dnsdata/rdb/rdb_builder.go"
			}
		}
	}
	return 30000, "fallback (constant not found in source)"
}

type largeCase struct {
	NCPU    int // CPUs the compiling process sees (= maximum number of buckets)
	Forced  bool
	K       int // N = minBucket*K + Delta
	Delta   int
	J, R, O int // run of R equal keys ending O records after the J-th nominal cut (R=1: no run)
	N       int // total records in the RocksDB store's input (incl. feature record)
	BSize   int // bucket size the loader will use
	Start   int // first sorted position of the run
	Ordinal int
}

func sgn(prefix string, v int) string {
	switch {
	case v < 0:
		return fmt.Sprintf("%sm%d", prefix, -v)
	case v > 0:
		return fmt.Sprintf("%sp%d", prefix, v)
	}
	return prefix + "0"
}

func (c largeCase) Name() string {
	return fmt.Sprintf("L.n%d.k%d.%s.j%d.r%d.%s", c.NCPU, c.K, sgn("d", c.Delta), c.J, c.R, sgn("o", c.O))
}

// straddles reports whether the nominal cut falls strictly inside the run.
func (c largeCase) straddles() bool {
	cut := c.J * c.BSize
	return c.R >= 2 && c.Start < cut && cut < c.Start+c.R
}

// largeGrid enumerates the whole family for one CPU count.
func largeGrid(minBucket, ncpu int, forced bool, ks []int) (cases []largeCase, infeasible int) {
	for _, k := range ks {
		for delta := -2; delta <= 2; delta++ {
			n := minBucket*k + delta
			bs := n / ncpu
			if bs < minBucket {
				bs = minBucket
			}
			base := largeCase{NCPU: ncpu, Forced: forced, K: k, Delta: delta, N: n, BSize: bs}
			b := base
			b.R = 1
			cases = append(cases, b)
			for r := 2; r <= 3; r++ {
				for j := 1; j <= k; j++ {
					for o := -2; o <= 2; o++ {
						c := base
						c.J, c.R, c.O = j, r, o
						c.Start = j*bs + o - r
						if c.Start < 0 || c.Start+r > n-1 { // the run must lie inside the data records
							infeasible++
							continue
						}
						cases = append(cases, c)
					}
				}
			}
		}
	}
	return
}

func gcd(a, b int) int {
	for b != 0 {
		a, b = b, a%b
	}
	return a
}

// genLarge writes the data file of a case.
func genLarge(c largeCase) []byte {
	d := c.N - 1 // data records; the feature record is appended by the compiler
	nameAt := func(p int) int {
		switch {
		case c.R < 2 || p < c.Start:
			return p
		case p < c.Start+c.R:
			return c.Start
		}
		return p - (c.R - 1)
	}
	stride := 7919
	for gcd(stride, d) != 1 {
		stride++
	}
	var sb strings.Builder
	sb.Grow(d * 26)
	for i := 0; i < d; i++ {
		p := int((int64(i) * int64(stride)) % int64(d))
		fmt.Fprintf(&sb, "+h%06d.t,10.%d.%d.%d\n", nameAt(p), (p>>16)&255, (p>>8)&255, p&255)
	}
	return []byte(sb.String())
}

func largeSettings(forced bool) []setting {
	if forced {
		// only the builder depends on runtime.NumCPU()
		return []setting{{B: dnsfix.RDBv1, W: 1, Bld: true}, {B: dnsfix.RDBv1, W: 3, Bld: true}, {B: dnsfix.RDBv2, W: 2, Bld: true}}
	}
	return []setting{
		{B: dnsfix.CDB, W: 3},
		{B: dnsfix.RDBv1, W: 1, Bld: true}, {B: dnsfix.RDBv1, W: 3, Bld: true}, {B: dnsfix.RDBv2, W: 2, Bld: true},
		{B: dnsfix.RDBv1, W: 2, BSize: 0, BPar: 1}, {B: dnsfix.RDBv2, W: 3, BSize: 20000, BPar: 2},
	}
}

func largeInputs(r *vlib.Run, p *pool) {
	minBucket, how := minBucketSizeOfRepo()
	host := runtime.NumCPU()
	type group struct {
		ncpu   int
		forced bool
		ks     []int
	}
	groups := []group{{host, false, []int{1, 2}}}
	for _, n := range []int{2, 3} {
		if n < host {
			groups = append(groups, group{n, true, []int{n}})
		} else {
			r.Note("cannot force %d CPUs on a %d-CPU host: last-bucket branch for %d buckets not reached", n, host, n)
			r.Exhaustive = false
		}
	}
	sub := r.Pick(13, 1) // quick: every 13th grid point (13 is coprime to every loop length of the grid)
	var all, chosen []largeCase
	infeasible := 0
	for _, g := range groups {
		cs, inf := largeGrid(minBucket, g.ncpu, g.forced, g.ks)
		infeasible += inf
		for _, c := range cs {
			c.Ordinal = len(all)
			all = append(all, c)
			// quick: the 1-in-sub sub-grid plus every case with delta=+1 whose run lies across the cut
			if c.Ordinal%sub == 0 || (c.Delta == 1 && c.straddles()) {
				chosen = append(chosen, c)
			}
		}
	}
	if sub != 1 {
		r.Exhaustive = false
		r.Note("part (b): quick tier runs the deterministic 1-in-%d sub-grid plus the delta=+1 cases whose run of equal keys lies across a cut (%d of %d large files); thorough runs all", sub, len(chosen), len(all))
	}

	var st smallStats
	var straddling, reportedN int64
	described := 0
	fails := make([]map[string]verdict, len(chosen))
	// Files are generated and run in groups of eight with the same CPU
	// restriction (bounded memory); inside a group every builder compile gets a
	// child of its own and the remaining settings of a file share one child.
	for lo := 0; lo < len(chosen); {
		hi := lo
		for hi < len(chosen) && hi-lo < 8 && chosen[hi].Forced == chosen[lo].Forced && chosen[hi].NCPU == chosen[lo].NCPU {
			hi++
		}
		sets := largeSettings(chosen[lo].Forced)
		pl := plan{BuilderPerChild: 1, BuilderGCOff: true, OtherPerChild: len(sets)}
		if chosen[lo].Forced {
			pl.NCPU = chosen[lo].NCPU
		}
		jobs := make([]execJob, hi-lo)
		refs := make([]map[dnsfix.Backend]refSummary, hi-lo)
		var mu sync.Mutex
		for k := range refs {
			refs[k] = map[dnsfix.Backend]refSummary{}
		}
		vlib.ParallelFor(hi-lo, func(k int) {
			jobs[k] = execJob{ID: lo + k, Text: genLarge(chosen[lo+k]), Settings: sets}
		})
		nb := len(dnsfix.Backends)
		vlib.ParallelFor((hi-lo)*nb, func(x int) { // the sequential codec, once per (file, backend)
			k, b := x/nb, dnsfix.Backends[x%nb]
			used := false
			for _, s := range sets {
				used = used || s.B == b
			}
			if !used {
				return
			}
			rs := summarize(reference(jobs[k].Text, b))
			mu.Lock()
			refs[k][b] = rs
			mu.Unlock()
		})
		out := p.run(jobs, pl)
		for k := range jobs {
			fails[lo+k] = verdictsOf(jobs[k].Text, sets, out[k], refs[k], &st)
			for _, key := range sortedKeys(fails[lo+k]) {
				if v := fails[lo+k][key]; v.Diff && described < 12 {
					described++
					v.Info += ": " + p.describe(jobs[k].Text, v.Set, pl.NCPU)
					fails[lo+k][key] = v
				}
			}
			if chosen[lo+k].straddles() {
				straddling++
			}
		}
		lo = hi
	}
	for i, c := range chosen {
		if c.straddles() || c.Delta != 0 {
			r.Sample(map[string]interface{}{"large_file": c.Name(), "records": c.N, "cpus": c.NCPU, "bucket_size": c.BSize,
				"run_positions": fmt.Sprintf("[%d,%d)", c.Start, c.Start+c.R), "nominal_cut": c.J * c.BSize, "straddles_cut": c.straddles()})
		}
		for _, key := range sortedKeys(fails[i]) {
			reportedN++
			r.Violate(key+"/"+c.Name(), fmt.Sprintf("large file %s: %d records, %d CPUs (max buckets), bucket size %d, run of %d equal keys at sorted positions [%d,%d), nominal cut %d: %s",
				c.Name(), c.N, c.NCPU, c.BSize, c.R, c.Start, c.Start+c.R, c.J*c.BSize, fails[i][key].Info),
				map[string]interface{}{"case": c, "setting": key[strings.Index(key, "/")+1:], "generator": "genLarge in /verif/harness/c07/inputs_large.go"})
		}
	}

	r.Add("states", int64(len(chosen)))
	r.Add("transitions", st.compiles)
	r.Add("traces_validated_against_impl", st.compiles)
	r.Add("evaluations", st.dumpChecks+st.rejectChecks+st.crossChecks)
	r.Add("distinct_nontrivial", straddling)
	r.Set("large_min_bucket_size", minBucket)
	r.Set("large_min_bucket_size_source", how)
	r.Set("large_host_cpus", host)
	r.Set("large_grid_points", len(all))
	r.Set("large_grid_points_run", len(chosen))
	r.Set("large_grid_points_infeasible", infeasible)
	r.Set("large_grid_subsampling", fmt.Sprintf("every %d-th grid point, plus delta=+1 cases with the run across the cut", sub))
	r.Set("large_grid_exhaustive", sub == 1)
	r.Set("large_compiles", st.compiles)
	r.Set("large_cases_with_run_across_cut", straddling)
	addRule(fmt.Sprintf("(b) large files: N = %d*k + delta records (delta -2..+2), all keys distinct except a run of r in {1,2,3} equal keys ending o in -2..+2 records after the j-th nominal bucket cut (j = 1..k), written in scattered order; k in {1,2} with the host's %d CPUs (up to 3 buckets, 6 settings: CDB, 3 x builder, batches with default size and with size 20000), and k = c with the compiling subprocess restricted to c in {2,3} CPUs so that the loader's last-bucket branch is taken (3 builder settings). %d grid points (%d more are infeasible: the run would leave the data), %d run in this tier. Oracle as in (a). Non-trivial = the nominal cut falls strictly inside the run of equal keys.",
		minBucket, host, len(all), infeasible, len(chosen)))
}
