package main

import (
	"fmt"
	"os"
	"path/filepath"
	"regexp"
	"runtime"
	"strconv"
	"strings"
	"sync"

	"verifharness/dnsfix"
	"verifharness/vlib"
)

// Part (b): large files around the bulk loader's bucket boundaries.
//
// Builder.Execute sorts all records by key and calls
// createBuckets(minBucketSize, runtime.NumCPU()) (rdb_builder.go:259-261):
// bucketSize = max(minBucketSize, N/NumCPU); bucket i ends bucketSize records
// after its start, moved forward while the record at the cut has the same key
// as the one before it; bucket number NumCPU ("the last") takes everything that
// is left. Each bucket becomes one SST file in which the values of equal keys
// are concatenated, so a cut inside a run of equal keys would lose or duplicate
// values, and an off-by-one at a cut would lose or duplicate a record.
//
// The family: N = minBucketSize*k + delta records in total (data records plus
// the one feature record, which sorts last in both key layouts), all keys
// distinct except one run of r equal keys occupying sorted positions
// [j*bucketSize+o-r, j*bucketSize+o), i.e. ending o records after the j-th
// nominal cut. Lines are written in a scattered (stride) order so that the
// members of the run are far apart in the file.

// minBucketSizeOfRepo reads the constant from the tree under test, so that the
// grid stays on the boundary if the constant changes.
func minBucketSizeOfRepo() (int, string) {
	b, err := os.ReadFile(filepath.Join(vlib.Repo(), "dnsdata", "rdb", "rdb_builder.go"))
	if err == nil {
		if m := regexp.MustCompile(`(?m)^const\s+minBucketSize\s*=\s*(\d+)`).FindSubmatch(b); m != nil {
			if n, err := strconv.Atoi(string(m[1])); err == nil && n > 0 {
				return n, "read from dnsdata/rdb/rdb_builder.go"
			}
		}
	}
	return 30000, "fallback (constant not found in source)"
}

type largeCase struct {
	NCPU    int // CPUs the compiling process sees (= maximum number of buckets)
	Forced  bool
	K       int // N = minBucket*K + Delta
	Delta   int
	J, R, O int // run of R equal keys ending O records after the J-th nominal cut (R=1: no run)
	N       int // total records in the RocksDB store's input (incl. feature record)
	BSize   int // bucket size the loader will use
	Start   int // first sorted position of the run
	Ordinal int
}

func sgn(prefix string, v int) string {
	switch {
	case v < 0:
		return fmt.Sprintf("%sm%d", prefix, -v)
	case v > 0:
		return fmt.Sprintf("%sp%d", prefix, v)
	}
	return prefix + "0"
}

func (c largeCase) Name() string {
	return fmt.Sprintf("L.n%d.k%d.%s.j%d.r%d.%s", c.NCPU, c.K, sgn("d", c.Delta), c.J, c.R, sgn("o", c.O))
}

// straddles reports whether the nominal cut falls strictly inside the run.
func (c largeCase) straddles() bool {
	cut := c.J * c.BSize
	return c.R >= 2 && c.Start < cut && cut < c.Start+c.R
}

// largeGrid enumerates the whole family for one CPU count.
func largeGrid(minBucket, ncpu int, forced bool, ks []int) (cases []largeCase, infeasible int) {
	for _, k := range ks {
		for delta := -2; delta <= 2; delta++ {
			n := minBucket*k + delta
			bs := n / ncpu
			if bs < minBucket {
				bs = minBucket
			}
			base := largeCase{NCPU: ncpu, Forced: forced, K: k, Delta: delta, N: n, BSize: bs}
			b := base
			b.R = 1
			cases = append(cases, b)
			for r := 2; r <= 3; r++ {
				for j := 1; j <= k; j++ {
					for o := -2; o <= 2; o++ {
						c := base
						c.J, c.R, c.O = j, r, o
						c.Start = j*bs + o - r
						if c.Start < 0 || c.Start+r > n-1 { // the run must lie inside the data records
							infeasible++
							continue
						}
						cases = append(cases, c)
					}
				}
			}
		}
	}
	return
}

func gcd(a, b int) int {
	for b != 0 {
		a, b = b, a%b
	}
	return a
}

// genLarge writes the data file of a case.
func genLarge(c largeCase) []byte {
	d := c.N - 1 // data records; the feature record is appended by the compiler
	nameAt := func(p int) int {
		switch {
		case c.R < 2 || p < c.Start:
			return p
		case p < c.Start+c.R:
			return c.Start
		}
		return p - (c.R - 1)
	}
	stride := 7919
	for gcd(stride, d) != 1 {
		stride++
	}
	var sb strings.Builder
	sb.Grow(d * 26)
	for i := 0; i < d; i++ {
		p := int((int64(i) * int64(stride)) % int64(d))
		fmt.Fprintf(&sb, "+h%06d.t,10.%d.%d.%d\n", nameAt(p), (p>>16)&255, (p>>8)&255, p&255)
	}
	return []byte(sb.String())
}

// largeSettings: a builder compile of a 60 000-line file costs about ten
// CPU-seconds in this harness (see exec.go), so the host-CPU cases get CDB, two
// batch settings and the builder with both key layouts (quick, few files) or
// with one, alternating with the case ordinal (thorough), and the forced-CPU
// cases - which exist only for the builder's last-bucket branch - get one
// builder setting, alternating.
func largeSettings(c largeCase, thorough bool) []setting {
	if c.Forced {
		if c.Ordinal%2 == 0 {
			return []setting{{B: dnsfix.RDBv1, W: 1 + (c.Ordinal/2)%3, Bld: true}}
		}
		return []setting{{B: dnsfix.RDBv2, W: 1 + (c.Ordinal/2)%3, Bld: true}}
	}
	out := []setting{{B: dnsfix.CDB, W: 3}, {B: dnsfix.RDBv1, W: 2, BSize: 0, BPar: 1}, {B: dnsfix.RDBv2, W: 3, BSize: 20000, BPar: 2}}
	v1, v2 := setting{B: dnsfix.RDBv1, W: 1 + c.Ordinal%3, Bld: true}, setting{B: dnsfix.RDBv2, W: 1 + (c.Ordinal+1)%3, Bld: true}
	switch {
	case !thorough: // few files: both key layouts
		out = append(out, v1, v2)
	case c.Ordinal%2 == 0:
		out = append(out, v1)
	default:
		out = append(out, v2)
	}
	return out
}

// largeInputs prepares part (b) (sequentially, may touch r), and returns the
// compute step (runs concurrently with the other parts, never touches r) and
// the record step (sequential again).
func largeInputs(r *vlib.Run, p *pool) (compute func(), record func()) {
	nop := func() {}
	minBucket, how := minBucketSizeOfRepo()
	host := runtime.NumCPU()
	type group struct {
		ncpu   int
		forced bool
		ks     []int
	}
	groups := []group{{host, false, []int{1, 2}}}
	for _, n := range []int{2, 3} {
		if n < host {
			groups = append(groups, group{n, true, []int{n}})
		} else {
			r.Note("cannot force %d CPUs on a %d-CPU host: last-bucket branch for %d buckets not reached", n, host, n)
			r.Exhaustive = false
		}
	}
	var all, chosen []largeCase
	infeasible := 0
	for _, g := range groups {
		cs, inf := largeGrid(minBucket, g.ncpu, g.forced, g.ks)
		infeasible += inf
		for _, c := range cs {
			c.Ordinal = len(all)
			all = append(all, c)
			switch {
			case r.Thorough():
				// everything with the host's CPUs; the forced-CPU groups without the r=3 runs
				if !c.Forced || c.R <= 2 {
					chosen = append(chosen, c)
				}
			default:
				// quick: delta=+2 (where most run positions are feasible): the file
				// without a run, and the run of two keys lying across each cut
				if c.Delta == 2 && (c.R == 1 || (c.R == 2 && c.straddles())) {
					chosen = append(chosen, c)
				}
			}
		}
	}
	if f := os.Getenv("C07_DEBUG_LARGE"); f != "" { // diagnostics only: cases of this tier whose name contains f
		var keep []largeCase
		for _, c := range chosen {
			if strings.Contains(c.Name(), f) {
				keep = append(keep, c)
			}
		}
		chosen = keep
		r.Exhaustive = false
		r.Note("DIAGNOSTIC RUN: large files restricted to names containing %q", f)
	}
	if len(chosen) != len(all) {
		r.Exhaustive = false
		if r.Thorough() {
			r.Note("part (b): thorough runs the whole grid for the host's CPU count and the grid without the r=3 runs for the forced CPU counts (%d of %d large files)", len(chosen), len(all))
		} else {
			r.Note("part (b): quick tier runs a deterministic slice of the grid: delta=+2, no run or the run of two equal keys lying across a cut (%d of %d large files); thorough runs the grid", len(chosen), len(all))
		}
	}

	if os.Getenv("C07_DEBUG_PLAN") != "" { // diagnostics only
		cells, str := 0, 0
		for _, c := range chosen {
			cells += len(largeSettings(c, r.Thorough()))
			if c.straddles() {
				str++
			}
		}
		fmt.Fprintf(os.Stderr, "c07 plan: large: %d of %d grid points (%d infeasible), %d compiles, %d with the run across a cut\n", len(chosen), len(all), infeasible, cells, str)
		r.Exhaustive = false
		return nop, nop
	}
	var st smallStats
	var straddling, reportedN int64
	fails := make([]map[string]verdict, len(chosen))
	// Files are generated and run in groups of at most 16 with the same CPU
	// restriction; the groups run concurrently (the pool bounds the number of
	// children). Every builder compile gets a child of its own and the
	// remaining settings of a file share one child.
	type span struct{ lo, hi int }
	var spans []span
	for lo := 0; lo < len(chosen); {
		hi := lo
		for hi < len(chosen) && hi-lo < 16 && chosen[hi].Forced == chosen[lo].Forced && chosen[hi].NCPU == chosen[lo].NCPU {
			hi++
		}
		spans = append(spans, span{lo, hi})
		lo = hi
	}
	var mu sync.Mutex
	thorough := r.Thorough()
	compute = func() {
		vlib.ParallelFor(len(spans), func(g int) {
			lo, hi := spans[g].lo, spans[g].hi
			pl := plan{BuilderPerChild: 1, BuilderGCOff: true, OtherPerChild: 3}
			if chosen[lo].Forced {
				pl.NCPU = chosen[lo].NCPU
			}
			jobs := make([]execJob, hi-lo)
			refs := make([]map[dnsfix.Backend]refSummary, hi-lo)
			for k := range jobs {
				jobs[k] = execJob{ID: lo + k, Text: genLarge(chosen[lo+k]), Settings: largeSettings(chosen[lo+k], thorough)}
				refs[k] = map[dnsfix.Backend]refSummary{}
				for _, s := range jobs[k].Settings { // the sequential codec, once per (file, backend)
					if _, ok := refs[k][s.B]; !ok {
						refs[k][s.B] = summarize(reference(jobs[k].Text, s.B))
					}
				}
			}
			out := p.run(jobs, pl)
			var ls smallStats
			describedHere := 0 // textual diffs are costly: the first two mismatches of a group get one
			for k := range jobs {
				f := verdictsOf(jobs[k].Text, jobs[k].Settings, out[k], refs[k], &ls)
				for _, key := range sortedKeys(f) {
					if f[key].Diff && describedHere < 2 {
						describedHere++
						v := f[key]
						v.Info += ": " + p.describe(jobs[k].Text, v.Set, pl.NCPU)
						f[key] = v
					}
				}
				mu.Lock()
				fails[lo+k] = f
				if chosen[lo+k].straddles() {
					straddling++
				}
				mu.Unlock()
			}
			mu.Lock()
			st.compiles += ls.compiles
			st.dumpChecks += ls.dumpChecks
			st.rejectChecks += ls.rejectChecks
			st.crossChecks += ls.crossChecks
			mu.Unlock()
		})
	}
	record = func() {
		for i, c := range chosen {
			if c.straddles() || c.Delta != 0 {
				r.Sample(map[string]interface{}{"large_file": c.Name(), "records": c.N, "cpus": c.NCPU, "bucket_size": c.BSize,
					"run_positions": fmt.Sprintf("[%d,%d)", c.Start, c.Start+c.R), "nominal_cut": c.J * c.BSize, "straddles_cut": c.straddles()})
			}
			for _, key := range sortedKeys(fails[i]) {
				reportedN++
				r.Violate(key+"/"+c.Name(), fmt.Sprintf("large file %s: %d records, %d CPUs (max buckets), bucket size %d, run of %d equal keys at sorted positions [%d,%d), nominal cut %d: %s",
					c.Name(), c.N, c.NCPU, c.BSize, c.R, c.Start, c.Start+c.R, c.J*c.BSize, fails[i][key].Info),
					map[string]interface{}{"case": c, "setting": key[strings.Index(key, "/")+1:], "generator": "genLarge in /verif/harness/c07/inputs_large.go"})
			}
		}

		r.Add("states", int64(len(chosen)))
		r.Add("transitions", st.compiles)
		r.Add("traces_validated_against_impl", st.compiles)
		r.Add("evaluations", st.dumpChecks+st.rejectChecks+st.crossChecks)
		r.Add("distinct_nontrivial", straddling)
		r.Set("large_min_bucket_size", minBucket)
		r.Set("large_min_bucket_size_source", how)
		r.Set("large_host_cpus", host)
		r.Set("large_grid_points", len(all))
		r.Set("large_grid_points_run", len(chosen))
		r.Set("large_grid_points_infeasible", infeasible)
		r.Set("large_grid_exhaustive", len(chosen) == len(all))
		r.Set("large_compiles", st.compiles)
		r.Set("large_cases_with_run_across_cut", straddling)
		addRule(fmt.Sprintf("(b) large files: N = %d*k + delta records (delta -2..+2), all keys distinct except a run of r in {1,2,3} equal keys ending o in -2..+2 records after the j-th nominal bucket cut (j = 1..k), written in scattered order; k in {1,2} with the host's %d CPUs (up to 3 buckets; settings: CDB, batches with default size and with size 20000, builder with v1 and v2 keys in quick / one of them, alternating, in thorough), and k = c with the compiling subprocess restricted to c in {2,3} CPUs so that the loader's last-bucket branch is taken (one builder setting, alternating). %d grid points (%d more are infeasible: the run would leave the data), %d run in this tier. Oracle as in (a). Non-trivial = the nominal cut falls strictly inside the run of equal keys.",
			minBucket, host, len(all), infeasible, len(chosen)))
	}
	return compute, record
}
