package main

import "verifharness/vlib"

// The schedules part lives in its own binary (harness/c07_sched), built by ./check with the compilers
// instrumented for the controlled scheduler; it is run here as shard processes and merged into this run.
func init() { extraParts = append(extraParts, part{"schedules", schedulesPart}) }

func schedulesPart(r *vlib.Run) {
	r.ForkAux("sched", 16)
	addRule("schedules: for 5 tiny data files (three values under one key; two keys alternating; subnet lines feeding the accumulator between located records; a rejected line last / first) and 11 compiler settings (quick; 14 thorough: RocksDB batches with batch size 1-2 and 1, 2 or unlimited parallel batches on v1 and v2 keys, the bulk builder, CDB with 2-3 workers), EVERY interleaving within 1 preemption (RocksDB; CDB 2; thorough 2-3) of the real instrumented dnsdata.ParseStream/parse, rdb.compileBatches/ExecuteBatch, rdb.compileBuilder and cdb.CreateCDBFromReader is executed over a real RocksDB directory / CDB file per execution; every call into the RocksDB handle is a scheduling point. After each execution the store must equal the line-by-line reference as a map key -> multiset of values; a rejected line must fail the compilation on every schedule; deadlock of the compiling goroutine, panics and happens-before races on any struct field, package variable or captured local of dnsdata, dnsdata/rdb, dnsdata/cdb are violations.")
	r.Assume = append(r.Assume, "schedules part: RocksDB's and the CDB writer's internals are atomic steps between the hooked operations; schedules beyond the preemption bound and data files beyond the five listed are outside this part")
}
