package main

import (
	"fmt"
	"os"
	"runtime/debug"
	"strconv"
	"syscall"
	"time"

	"verifharness/dnsfix"
	"verifharness/vlib"
)

// childBench ("--c07-bench") prints the cost of each setting on one small file
// inside one process with the collector off, like an executor child. Diagnostics only.
func childBench() {
	if v := os.Getenv("C07_BENCH_GC"); v == "" {
		debug.SetGCPercent(-1)
	} else if n, err := strconv.Atoi(v); err == nil && n > 1 {
		debug.SetGCPercent(n)
	}
	dir, clean := vlib.Scratch("c07b")
	defer clean()
	dnsfix.Quiet(dir)
	text := fileText([]int{0, 3, 5})
	cpu := func() float64 {
		var ru syscall.Rusage
		syscall.Getrusage(syscall.RUSAGE_SELF, &ru)
		return float64(ru.Utime.Sec+ru.Stime.Sec) + float64(ru.Utime.Usec+ru.Stime.Usec)/1e6
	}
	if len(os.Args) > 2 && os.Args[2] == "large" {
		c := largeCase{NCPU: 16, K: 2, Delta: 0, J: 1, R: 2, O: 1, N: 60000, BSize: 30000, Start: 29999}
		t0 := time.Now()
		text = genLarge(c)
		fmt.Println("gen", time.Since(t0), len(text))
		for _, s := range largeSettings(c, false) {
			t0, c0 := time.Now(), cpu()
			ref := reference(text, s.B)
			_ = ref
			t1, c1 := time.Now(), cpu()
			res := execOne(dir, text, s, &ref)
			fmt.Fprintf(os.Stdout, "%-40s ref %6.0fms (cpu %.2fs)  compile+dump %8.1fms (cpu %.2fs) err=%q diff=%q keys=%d\n", s, float64(t1.Sub(t0).Milliseconds()), c1-c0, float64(time.Since(t1).Microseconds())/1000, cpu()-c1, res.Err, res.Diff, res.Keys)
		}
		return
	}
	sets := allSettings()
	if os.Getenv("C07_BENCH_FEW") != "" {
		sets = []setting{{B: dnsfix.RDBv1, W: 1, BSize: 0, BPar: 1}, {B: dnsfix.RDBv1, W: 2, BSize: 1, BPar: 2}, {B: dnsfix.RDBv2, W: 3, BSize: 2, BPar: 1}, {B: dnsfix.RDBv2, W: 1, BSize: 3, BPar: 2}}
	}
	for rep := 0; rep < 6; rep++ {
		for _, s := range sets {
			ref := reference(text, s.B)
			t0, c0 := time.Now(), cpu()
			res := execOne(dir, text, s, &ref)
			fmt.Fprintf(os.Stdout, "%-40s %8.1fms cpu %6.1fms err=%q diff=%q\n", s, float64(time.Since(t0).Microseconds())/1000, (cpu()-c0)*1000, res.Err, res.Diff)
		}
	}
}
