package main

import (
	"bufio"
	"bytes"
	"fmt"
	"sort"

	"github.com/facebookincubator/dns/dnsrocks/dnsdata"

	"verifharness/dnsfix"
)

// refCodec builds a codec configured exactly like the compiler for backend b
// configures its own: cdb.CreateCDBFromReader uses a zero Codec with only the
// serial set; rdb.Compile uses initCodec (ranger enabled, no prefix sets, no
// "%" record output) and then sets Features.UseV2Keys from the options.
func refCodec(b dnsfix.Backend) *dnsdata.Codec {
	c := new(dnsdata.Codec)
	c.Serial = dnsfix.Serial
	if b != dnsfix.CDB {
		c.Acc.Ranger.Enable()
		c.Acc.NoPrefixSets = true
		c.NoRnetOutput = true
		c.Features.UseV2Keys = b == dnsfix.RDBv2
	}
	return c
}

// refResult is what the sequential, line-by-line codec says about a file.
type refResult struct {
	Dump     dnsfix.Dump // key -> sorted multiset of values (nil when rejected)
	Records  int         // number of (key,value) records, trailing records included
	Rejected int         // index (among data lines) of the first rejected line, -1 if none
	RejErr   string
	MaxPerKy int // largest number of values under one key
}

// dataLines splits a data file the way the statement's "line by line" reading
// does: newline-separated, leading blanks dropped, lines shorter than two
// bytes and comment lines are not data (parser.go:124-127).
func dataLines(text []byte) [][]byte {
	var out [][]byte
	sc := bufio.NewScanner(bytes.NewReader(text))
	sc.Buffer(make([]byte, 0, 1<<16), 1<<26)
	for sc.Scan() {
		line := bytes.TrimLeft(sc.Bytes(), " ")
		if len(line) < 2 || line[0] == '#' {
			continue
		}
		out = append(out, append([]byte(nil), line...))
	}
	return out
}

// reference applies Codec.ConvertLn to every data line in file order on ONE
// goroutine, then appends the accumulator's and the feature record's
// MarshalMap (the two trailers ParseStream emits, parser.go:58-70).
func reference(text []byte, b dnsfix.Backend) refResult {
	c := refCodec(b)
	d := dnsfix.Dump{}
	n := 0
	add := func(recs []dnsdata.MapRecord) {
		for _, m := range recs {
			d[string(m.Key)] = append(d[string(m.Key)], string(m.Value))
			n++
		}
	}
	for i, line := range dataLines(text) {
		recs, err := c.ConvertLn(line)
		if err != nil {
			return refResult{Rejected: i, RejErr: err.Error()}
		}
		add(recs)
	}
	recs, err := c.Acc.MarshalMap()
	if err != nil {
		return refResult{Rejected: 1 << 30, RejErr: "accumulator: " + err.Error()}
	}
	add(recs)
	recs, err = c.Features.MarshalMap()
	if err != nil {
		return refResult{Rejected: 1 << 30, RejErr: "features: " + err.Error()}
	}
	add(recs)
	mx := 0
	for k := range d {
		sort.Strings(d[k])
		if len(d[k]) > mx {
			mx = len(d[k])
		}
	}
	return refResult{Dump: d, Records: n, Rejected: -1, MaxPerKy: mx}
}

// setting is one compiler configuration.
type setting struct {
	B     dnsfix.Backend
	W     int  // parser workers (NumCPU option / CDB workers)
	Bld   bool // RocksDB: bulk builder instead of batches
	BSize int  // RocksDB batches: batch size, 0 = default
	BPar  int  // RocksDB batches: BatchNumParallel
}

func (s setting) String() string {
	switch {
	case s.B == dnsfix.CDB:
		return fmt.Sprintf("cdb/w%d", s.W)
	case s.Bld:
		return fmt.Sprintf("%s/builder/w%d", s.B, s.W)
	default:
		bs := "default"
		if s.BSize > 0 {
			bs = fmt.Sprint(s.BSize)
		}
		return fmt.Sprintf("%s/batches/w%d/size%s/par%d", s.B, s.W, bs, s.BPar)
	}
}

// class is the group of settings whose stores must be byte-for-byte the same map.
func (s setting) class() string { return s.B.String() }

func (s setting) opts() (dnsfix.RDBOpts, int) {
	return dnsfix.RDBOpts{Workers: s.W, UseBuilder: s.Bld, BatchSize: s.BSize, BatchNumParallel: s.BPar}, s.W
}

// allSettings is the full configuration grid of DESIGN §3 C07 (BatchNumParallel
// 0 is exercised separately in a subprocess, see hang.go).
func allSettings() []setting {
	var out []setting
	for _, w := range []int{1, 2, 3} {
		out = append(out, setting{B: dnsfix.CDB, W: w})
	}
	for _, b := range []dnsfix.Backend{dnsfix.RDBv1, dnsfix.RDBv2} {
		for _, w := range []int{1, 2, 3} {
			out = append(out, setting{B: b, W: w, Bld: true})
			for _, bs := range []int{1, 2, 3, 0} {
				for _, bp := range []int{1, 2} {
					out = append(out, setting{B: b, W: w, BSize: bs, BPar: bp})
				}
			}
		}
	}
	return out
}
