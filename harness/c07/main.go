// C07: compilation is a deterministic, lossless function of the data file.
//
// This package is assembled from independent parts. inputsPart (this file,
// inputs_small.go, inputs_extra.go, inputs_large.go, hang.go) quantifies over data files and
// compiler settings. Further parts (goroutine schedules of the parallel parser
// and the batch writers) register themselves from their own file with
//
//	func init() { extraParts = append(extraParts, part{"schedules", schedulesPart}) }
//
// and share the run: counters are accumulated with r.Add, the textual rule
// with addRule, assumptions by appending to r.Assume.
package main

import (
	"fmt"
	"os"
	"strings"
	"sync"
	"time"

	"verifharness/dnsfix"
	"verifharness/vlib"
)

type part struct {
	Name string
	Run  func(r *vlib.Run)
}

// extraParts is the plug-in point for parts defined in other files.
var extraParts []part

var (
	ruleMu sync.Mutex
	rules  []string
)

// addRule appends one paragraph to the evidence's "rule".
func addRule(s string) {
	ruleMu.Lock()
	rules = append(rules, s)
	ruleMu.Unlock()
}

var phaseT = time.Now()

// phase prints phase timings to stderr when C07_DEBUG is set (diagnostics only;
// nothing of it reaches the evidence).
func phase(name string) {
	if os.Getenv("C07_DEBUG") != "" {
		fmt.Fprintf(os.Stderr, "c07: %-12s +%.1fs\n", name, time.Since(phaseT).Seconds())
	}
	phaseT = time.Now()
}

// scratchDir is the run's scratch directory (RAM-backed when possible).
var scratchDir string

func main() {
	// subprocess modes of this binary (see exec.go)
	if len(os.Args) > 1 && os.Args[1] == "--c07-exec" {
		childExec()
		return
	}
	if len(os.Args) > 1 && os.Args[1] == "--c07-bench" {
		childBench()
		return
	}
	r := vlib.Start("C07")
	dir, clean := vlib.Scratch("c07")
	scratchDir = dir
	dnsfix.Quiet(dir)

	inputsPart(r)
	for _, p := range extraParts {
		p.Run(r)
	}

	r.Set("rule", strings.Join(rules, "\n"))
	r.Set("parts", append([]string{"inputs"}, partNames()...))
	clean()
	r.Finish()
}

func partNames() []string {
	var n []string
	for _, p := range extraParts {
		n = append(n, p.Name)
	}
	return n
}

// inputsPart is the INPUT/CONFIGURATION part of C07.
func inputsPart(r *vlib.Run) {
	p := newPool(scratchDir)
	// C07_DEBUG_PARTS=small,extra,large,hang restricts the run (diagnostics only: the
	// evidence is then marked non-exhaustive).
	want := func(name string) bool {
		sel := os.Getenv("C07_DEBUG_PARTS")
		if sel == "" {
			return true
		}
		r.Exhaustive = false
		r.Note("DIAGNOSTIC RUN restricted to parts %q", sel)
		return strings.Contains(","+sel+",", ","+name+",")
	}
	// Each part is prepared sequentially, computed concurrently (the pool keeps
	// the number of executor children at the worker count) and recorded
	// sequentially in a fixed order, so that evidence and samples do not depend
	// on timing.
	var hang *hangProbe
	if want("hang") {
		hang = startHangProbe(r, p) // runs in the background, bounded by its own limit
	}
	nop := func() {}
	smallCompute, smallRecord, largeCompute, largeRecord := nop, nop, nop, nop
	extraCompute, extraRecord := nop, nop
	if want("small") {
		smallCompute, smallRecord = smallInputs(r, p)
	}
	if want("large") {
		largeCompute, largeRecord = largeInputs(r, p)
	}
	if want("extra") {
		extraCompute, extraRecord = extraInputs(r, p)
	}
	phase("prepare")
	var wg sync.WaitGroup
	wg.Add(3)
	go func() { defer wg.Done(); largeCompute() }() // long cells first
	go func() { defer wg.Done(); smallCompute() }()
	go func() { defer wg.Done(); extraCompute() }()
	wg.Wait()
	phase("compute")
	smallRecord()
	extraRecord()
	largeRecord()
	phase("record")
	if hang != nil {
		hang.collect(r)
	}
	phase("hang probe")
	for _, e := range p.infra {
		clean := func() { os.RemoveAll(scratchDir) }
		clean()
		vlib.Infra("executor subprocess: %s", e)
	}
	if p.gaveUp != 0 {
		r.Exhaustive = false
		r.Note("stopped early: %d executor children had to be killed for not answering", p.hangs)
	}
	r.Set("executor_children", p.children)
	r.Assume = append(r.Assume,
		"the reference is the repository's own line codec run sequentially; what ConvertLn emits for a line is not judged here (C09/C18 do that)",
		"a line is what parser.go:121-127 says it is: newline-terminated (one carriage return before the newline belongs to the terminator, the last line may lack the newline), leading spaces dropped, lines shorter than two bytes and lines starting with '#' are not data; every other byte of the line, trailing white space included, reaches the codec",
		"the codec configuration of each compiler (cdb: serial only; rdb: ranger enabled, no prefix sets, no % output, v2 flag) is replicated in the harness from cdb.go:81-82 and rdb_compiler.go:221-228",
		"RocksDB and the cgo layer are executed, not modelled; stores are read back with a raw iterator (RocksDB) or a sequential scan of the record area (CDB)",
		"in the inputs part goroutine schedules are whatever the Go runtime produced in this run; the schedule quantifier of the property is the business of the schedules part (harness/c07_sched)",
	)
}
