package main

import (
	"fmt"
	"os"
	"sort"
	"strconv"
	"strings"

	"verifharness/dnsfix"
	"verifharness/vlib"
)

// alphaLine is one line of the small-file alphabet.
type alphaLine struct {
	Name string // short stable name used in fingerprints
	Text string
	Why  string
}

// The alphabet: ten accepted lines chosen so that few lines already give many
// values under one key (a1,a2,txt,dot all write key "a.t"; dot alone writes
// two values there plus one under another key), the same line twice
// (sequences are enumerated with repetition), "%" lines of two maps including
// nested subnets of one map (the accumulator's trailing records), a located
// record, a map assignment and a line the scanner must skip; and four lines
// the codec rejects, each for a different reason.
var alphabet = []alphaLine{
	{"a1", "+a.t,10.0.0.1", "A under key a.t"},
	{"a2", "+a.t,10.0.0.2", "second value under the same key"},
	{"txt", "'a.t,hello", "other type, same key"},
	{"dot", ".a.t,10.0.0.3,ns.a.t", "composite: SOA+NS under a.t and A under ns.a.t (3 records from one line)"},
	{"loc", "+a.t,10.0.0.4,,,ab", "located record: same owner, different key"},
	{"n1", "%ab,10.0.0.0/8,m1", "subnet of map m1"},
	{"n2", "%cd,10.1.0.0/16,m1", "nested subnet of map m1"},
	{"n3", "%ab,10.0.0.0/8,m2", "subnet of a second map"},
	{"map", "Ma.t,m1", "map assignment"},
	{"cmt", "#c", "comment: not a data line"},
	{"xT", "?a.t,1.2.3.4", "REJECTED: bad type character"},
	{"xL", "+a.t,10.0.0.5,,,\\x", "REJECTED: bad escape in the location field"},
	{"xS", "%ab,10.0.0.0/99,m1", "REJECTED: bad subnet"},
	{"xP", "Ba.t,b.t,300,,1,bogus=1", "REJECTED: unknown SVCB parameter"},
}

const numRejectedInAlphabet = 4

type smallFile struct {
	Idx  []int // indices into alphabet
	Name string
	Text []byte
}

func fileName(idx []int) string {
	if len(idx) == 0 {
		return "empty"
	}
	p := make([]string, len(idx))
	for i, x := range idx {
		p[i] = alphabet[x].Name
	}
	return strings.Join(p, ".")
}

func fileText(idx []int) []byte {
	var sb strings.Builder
	for _, x := range idx {
		sb.WriteString(alphabet[x].Text)
		sb.WriteByte('\n')
	}
	return []byte(sb.String())
}

// enumerateFiles lists every sequence of at most maxLen alphabet lines, in
// length-then-lexicographic order.
func enumerateFiles(maxLen int) []smallFile {
	var out []smallFile
	var rec func(prefix []int, depth int)
	for l := 0; l <= maxLen; l++ {
		rec = func(prefix []int, depth int) {
			if depth == l {
				idx := append([]int(nil), prefix...)
				out = append(out, smallFile{Idx: idx, Name: fileName(idx), Text: fileText(idx)})
				return
			}
			for a := range alphabet {
				rec(append(prefix, a), depth+1)
			}
		}
		rec(nil, 0)
	}
	return out
}

// Settings per file length ("layers"). The complete grid has 57 settings; the
// longer layers of a tier get a sub-grid chosen by a fixed rotation over the
// file's ordinal inside its layer, so that over a layer every setting is
// applied to many files:
//
//	gridFull    all 57
//	gridSizes2  CDB workers 1-3 + for BOTH key layouts one builder and all 8
//	            (batch size x parallelism) combinations, worker counts rotating   (21)
//	gridSizes1  the same for ONE key layout (alternating) + one of the 27
//	            RocksDB settings of the other layout                             (13)
//	gridSizesH  CDB workers 1-3 + for one key layout (alternating) one builder and
//	            the four batch sizes with alternating parallelism + one of the 27
//	            RocksDB settings of the other layout                              (9)
//	gridSizesQ  CDB workers 1-3 + for one key layout (alternating) one builder and
//	            two of the four batch sizes (rotating) + one of the 27 RocksDB
//	            settings of the other layout                                      (7)
//	gridOne     CDB workers 1-3 + one of the 54 RocksDB settings                  (4)
//	gridOneIn2  like gridOne, the RocksDB setting only on every 2nd file
//	gridOneIn4  like gridOne, the RocksDB setting only on every 4th file
//	gridOneIn8  like gridOne, the RocksDB setting only on every 8th file
//	gridThin    ONE CDB worker count (rotating) + the RocksDB setting on every 8th file
type gridKind int

const (
	gridFull gridKind = iota
	gridSizes2
	gridSizes1
	gridSizesH
	gridSizesQ
	gridOne
	gridOneIn2
	gridOneIn4
	gridOneIn8
	gridThin
)

func (g gridKind) String() string {
	return [...]string{"full", "sizes2", "sizes1", "sizes-half", "sizes-quarter", "one", "one-in-2", "one-in-4", "one-in-8", "thin"}[g]
}

// layerGrids maps a number of lines to the grid used for files of that length.
func layerGrids(thorough bool) []gridKind {
	if thorough {
		return []gridKind{gridFull, gridFull, gridSizes2, gridOne, gridThin}
	}
	return []gridKind{gridFull, gridSizes2, gridSizesQ, gridThin}
}

func settingsFor(g gridKind, ordinal int) []setting {
	if g == gridFull {
		return allSettings()
	}
	out := []setting{{B: dnsfix.CDB, W: 1}, {B: dnsfix.CDB, W: 2}, {B: dnsfix.CDB, W: 3}}
	n := len(alphabet)
	rot := ordinal + ordinal/n + ordinal/(n*n) + ordinal/(n*n*n) // decorrelate from the last line's index
	layouts := []dnsfix.Backend{dnsfix.RDBv1, dnsfix.RDBv2}
	sizes := func(b dnsfix.Backend, li int) {
		out = append(out, setting{B: b, W: 1 + (rot+li)%3, Bld: true})
		k := 0
		for _, bs := range []int{1, 2, 3, 0} {
			for _, bp := range []int{1, 2} {
				out = append(out, setting{B: b, W: 1 + (rot+li+k)%3, BSize: bs, BPar: bp})
				k++
			}
		}
	}
	oneOf := func(b dnsfix.Backend, r int) {
		var all []setting
		for _, s := range allSettings() {
			if s.B == b {
				all = append(all, s)
			}
		}
		out = append(out, all[r%len(all)])
	}
	switch g {
	case gridSizes2:
		sizes(layouts[0], 0)
		sizes(layouts[1], 1)
	case gridSizes1:
		sizes(layouts[rot%2], rot%2)
		oneOf(layouts[1-rot%2], rot/2)
	case gridSizesH:
		b := layouts[rot%2]
		out = append(out, setting{B: b, W: 1 + rot%3, Bld: true})
		for k, bs := range []int{1, 2, 3, 0} {
			out = append(out, setting{B: b, W: 1 + (rot+k)%3, BSize: bs, BPar: 1 + (rot/2+k)%2})
		}
		oneOf(layouts[1-rot%2], rot/2)
	case gridSizesQ:
		b := layouts[rot%2]
		out = append(out, setting{B: b, W: 1 + rot%3, Bld: true})
		sz := []int{1, 2, 3, 0}
		for k := 0; k < 2; k++ {
			out = append(out, setting{B: b, W: 1 + (rot+k)%3, BSize: sz[(rot/2+2*k)%4], BPar: 1 + (rot/8+k)%2})
		}
		oneOf(layouts[1-rot%2], rot/2)
	case gridOne:
		oneOf(layouts[rot%2], rot/2)
	case gridOneIn2:
		if ordinal%2 == 0 {
			oneOf(layouts[(rot/2)%2], rot/4)
		}
	case gridOneIn4:
		if ordinal%4 == 0 {
			oneOf(layouts[(rot/4)%2], rot/8)
		}
	case gridOneIn8, gridThin:
		if g == gridThin {
			out = []setting{{B: dnsfix.CDB, W: 1 + rot%3}}
		}
		if ordinal%8 == 0 {
			oneOf(layouts[(rot/8)%2], rot/16)
		}
	}
	return out
}

// refSummary is what the parent needs of the reference of one (file, backend).
type refSummary struct {
	Rejected int // index of the first rejected data line, -1 if none
	RejErr   string
	Records  int
	Keys     int
	Hash     string
	MaxPerKy int
}

func summarize(rr refResult) refSummary {
	s := refSummary{Rejected: rr.Rejected, RejErr: rr.RejErr, Records: rr.Records, MaxPerKy: rr.MaxPerKy}
	if rr.Rejected < 0 {
		s.Hash, s.Keys, _ = dumpHash(rr.Dump)
	}
	return s
}

// verdict is one failure of one (file, setting).
type verdict struct {
	Info string
	Set  setting
	Diff bool // a textual diff can be obtained with pool.describe
}

// verdictsOf turns the outcomes of one file into failures keyed "kind/setting".
func verdictsOf(text []byte, sets []setting, cells []cellOutcome, refs map[dnsfix.Backend]refSummary, st *smallStats) map[string]verdict {
	fails := map[string]verdict{}
	hashes := map[string]map[string]string{} // class -> hash -> first setting
	for i, s := range sets {
		c := cells[i]
		ref := refs[s.B]
		name := s.String()
		switch {
		case !c.Done && !c.Hang && !c.Crashed:
			continue // not executed (run was cut short)
		case c.Hang:
			fails["hang/"+name] = verdict{Info: c.Info, Set: s}
			continue
		case c.Crashed:
			fails["crash/"+name] = verdict{Info: c.Info, Set: s}
			continue
		}
		st.compiles++
		res := c.Res
		switch {
		case res.Panic != "":
			fails["panic/"+name] = verdict{Info: res.Panic, Set: s}
		case ref.Rejected >= 0:
			st.rejectChecks++
			if res.Err == "" {
				fails["accepted-rejected/"+name] = verdict{Set: s, Info: fmt.Sprintf("data line %d (%q) is rejected by the codec (%s) but the compilation returned no error; the store has %d keys", ref.Rejected, lineAt(text, ref.Rejected), ref.RejErr, res.Keys)}
			}
		case res.Err != "":
			st.dumpChecks++
			fails["spurious-error/"+name] = verdict{Set: s, Info: "every line is accepted by the sequential codec but the compilation failed: " + res.Err}
		case res.DumpErr != "":
			st.dumpChecks++
			fails["unreadable/"+name] = verdict{Set: s, Info: res.DumpErr}
		default:
			st.dumpChecks++
			if res.Hash != ref.Hash {
				fails["mismatch/"+name] = verdict{Set: s, Diff: true, Info: fmt.Sprintf("store (%d keys, %d values, hash %s) differs from the output of the sequential codec (%d keys, %d values, hash %s)", res.Keys, res.Values, res.Hash, ref.Keys, ref.Records, ref.Hash)}
			}
			cl := s.class()
			if hashes[cl] == nil {
				hashes[cl] = map[string]string{}
			}
			if _, ok := hashes[cl][res.Hash]; !ok {
				hashes[cl][res.Hash] = name
			}
		}
	}
	// identical stores across all settings of a class: implied by equality with
	// the common reference, checked directly as well
	for _, cl := range sortedKeys(hashes) {
		st.crossChecks += int64(len(hashes[cl]))
	}
	return fails
}

func sortedKeys[V any](m map[string]V) []string {
	k := make([]string, 0, len(m))
	for x := range m {
		k = append(k, x)
	}
	sort.Strings(k)
	return k
}

func lineAt(text []byte, dataLine int) string {
	l := dataLines(text)
	if dataLine >= 0 && dataLine < len(l) {
		return string(l[dataLine])
	}
	return ""
}

type smallStats struct {
	compiles, rejectChecks, dumpChecks, crossChecks int64
}

// smallInputs is part (a): every file of at most maxLen alphabet lines. Like
// largeInputs it returns a compute step (no access to r) and a record step.
func smallInputs(r *vlib.Run, p *pool) (compute func(), record func()) {
	nop := func() {}
	grids := layerGrids(r.Thorough())
	if v := os.Getenv("C07_DEBUG_MAXLINES"); v != "" { // diagnostics only
		if n, err := strconv.Atoi(v); err == nil && n >= 0 && n < len(grids)-1 {
			grids = grids[:n+1]
			r.Exhaustive = false
			r.Note("DIAGNOSTIC RUN: small files restricted to <=%d lines", n)
		}
	}
	lMax := len(grids) - 1
	files := enumerateFiles(lMax)
	full := allSettings()
	used := map[string]int{} // setting -> files it was applied to
	layerCount := make([]int, lMax+1)
	layerCells := make([]int, lMax+1)
	byName := map[string]int{}
	jobs := make([]execJob, len(files))
	for i := range files {
		byName[files[i].Name] = i
		l := len(files[i].Idx)
		sets := settingsFor(grids[l], layerCount[l])
		layerCount[l]++
		layerCells[l] += len(sets)
		for _, s := range sets {
			used[s.String()]++
		}
		jobs[i] = execJob{ID: i, Text: files[i].Text, Settings: sets}
	}
	if os.Getenv("C07_DEBUG_PLAN") != "" { // diagnostics only: show the size of the enumeration and stop
		for l := 0; l <= lMax; l++ {
			fmt.Fprintf(os.Stderr, "c07 plan: %d lines: %d files x grid %q = %d compiles\n", l, layerCount[l], grids[l].String(), layerCells[l])
		}
		r.Exhaustive = false
		r.Note("DIAGNOSTIC RUN: plan only")
		return nop, nop
	}
	var outs [][]cellOutcome
	compute = func() {
		outs = p.run(jobs, plan{BuilderPerChild: 24, BuilderGCOff: true, OtherPerChild: 120})
	}
	record = func() {

		var st smallStats
		fails := make([]map[string]verdict, len(files))
		var nontrivial, rejectedFiles, multiValue, twoMaps int64
		{
			for k, j := range jobs {
				f := files[j.ID]
				refs := map[dnsfix.Backend]refSummary{}
				var rv refResult
				for _, b := range dnsfix.Backends {
					rr := reference(f.Text, b)
					refs[b] = summarize(rr)
					if b == dnsfix.RDBv1 {
						rv = rr
					}
				}
				fails[j.ID] = verdictsOf(f.Text, j.Settings, outs[k], refs, &st)
				nt := false
				if rv.Rejected >= 0 {
					rejectedFiles++
					nt = true
				} else {
					if rv.MaxPerKy >= 2 {
						multiValue++
						nt = true
					}
					maps := map[string]bool{}
					for k := range rv.Dump {
						if strings.HasPrefix(k, "\x00\x00\x00!") && len(k) >= 6 {
							maps[k[4:6]] = true
						}
					}
					if len(maps) >= 2 {
						twoMaps++
						nt = true
					}
				}
				if nt {
					nontrivial++
					r.Sample(map[string]interface{}{"file": f.Name, "lines": strings.Split(strings.TrimSuffix(string(f.Text), "\n"), "\n"),
						"settings": len(j.Settings), "rdb_v1_records": rv.Records, "max_values_per_key": rv.MaxPerKy, "rejected_line": rv.Rejected})
				}
			}
		}

		// minimal-failing-case attribution: report (file, kind/setting) only if no
		// file obtained by deleting one line fails in the same way.
		reported := 0
		for i, f := range files {
			for _, key := range sortedKeys(fails[i]) {
				minimal := true
				for d := range f.Idx {
					sub := append(append([]int(nil), f.Idx[:d]...), f.Idx[d+1:]...)
					if j, ok := byName[fileName(sub)]; ok {
						if _, bad := fails[j][key]; bad {
							minimal = false
							break
						}
					}
				}
				if !minimal {
					continue
				}
				reported++
				v := fails[i][key]
				if v.Diff && reported <= 40 {
					v.Info += ": " + p.describe(f.Text, v.Set, 0)
				}
				r.Violate(key+"/"+f.Name, fmt.Sprintf("file %q:\n%s%s", f.Name, indent(string(f.Text)), v.Info),
					map[string]interface{}{"file": f.Name, "text": string(f.Text), "setting": key[strings.Index(key, "/")+1:], "kind": key[:strings.Index(key, "/")]})
			}
		}

		r.Add("states", int64(len(files)))
		r.Add("transitions", st.compiles)
		r.Add("traces_validated_against_impl", st.compiles)
		r.Add("evaluations", st.rejectChecks+st.dumpChecks+st.crossChecks)
		r.Add("distinct_nontrivial", nontrivial)
		r.Set("small_alphabet_lines", len(alphabet))
		r.Set("small_alphabet_rejected_lines", numRejectedInAlphabet)
		var layers []string
		for l := 0; l <= lMax; l++ {
			layers = append(layers, fmt.Sprintf("%d lines: %d files x grid %q = %d compiles", l, layerCount[l], grids[l].String(), layerCells[l]))
		}
		r.Set("small_layers", layers)
		r.Set("small_max_lines", lMax)
		r.Set("small_files", len(files))
		r.Set("small_settings_full_grid", len(full))
		minUse := -1
		for _, s := range full {
			if u := used[s.String()]; minUse < 0 || u < minUse {
				minUse = u
			}
		}
		r.Set("small_min_files_per_setting", minUse)
		r.Set("small_compiles", st.compiles)
		r.Set("small_files_with_rejected_line", rejectedFiles)
		r.Set("small_files_with_several_values_under_one_key", multiValue)
		r.Set("small_files_with_two_maps", twoMaps)
		r.Set("small_store_vs_reference_comparisons", st.dumpChecks)
		r.Set("small_rejection_checks", st.rejectChecks)
		var an []string
		for _, a := range alphabet {
			an = append(an, a.Name+"="+a.Text)
		}
		r.Set("small_alphabet", an)
		addRule(fmt.Sprintf("(a) every sequence (with repetition) of <=%d lines over a %d-line alphabet (%d of them rejected by the codec) is compiled by the real CDB and RocksDB compilers. Settings grid: workers 1-3 x builder|batches x batch size 1,2,3,default x batch parallelism 1,2 x v1|v2 keys, plus CDB workers 1-3 = %d settings. Per file length: %s (grid \"sizes2\" = CDB 1-3 + for both key layouts one builder and all 8 size x parallelism combinations with rotating worker counts; \"sizes1\" = the same for one key layout, alternating, plus one setting of the other layout; \"sizes-half\" / \"sizes-quarter\" = CDB 1-3 + for one key layout, alternating, one builder and four / two of the batch sizes with alternating parallelism, plus one setting of the other layout; \"one\" = CDB 1-3 + one of the 54 RocksDB settings, rotating with the file ordinal; \"one-in-N\" = the same with the RocksDB setting on every N-th file only; \"thin\" = one CDB worker count, rotating, + the RocksDB setting on every 8th file); every setting is applied to at least %d files. Each produced store is dumped completely and compared, as a map key -> multiset of values (canonical hash; textual diff only for the report), with Codec.ConvertLn applied line by line on one goroutine followed by Acc.MarshalMap and Features.MarshalMap; if the codec rejects a line every setting must return an error. A file is non-trivial if it has a rejected line, >=2 values under one key, or range points of two maps. Failures are reported only for files none of whose one-line deletions fails in the same way.",
			lMax, len(alphabet), numRejectedInAlphabet, len(full), strings.Join(layers, "; "), minUse))
	}
	return compute, record
}

func indent(s string) string {
	var sb strings.Builder
	for _, l := range strings.Split(strings.TrimSuffix(s, "\n"), "\n") {
		sb.WriteString("    " + l + "\n")
	}
	return sb.String()
}
