package main

// Executor subprocesses. Every compile of this check runs in a child of the
// same binary ("--c07-exec"):
//   * rdb.NewBuilder allocates a 20M-entry slice of pointer-carrying structs
//     (~1 GB) per compile. Fresh from the OS that costs nothing (the pages are
//     never touched). With the collector running it is ruinous for a check that
//     compiles thousands of tiny files: every collection cycle during the parse
//     scans the whole 1 GB object (measured: 40 CPU-seconds for one 60 000-line
//     file), and once the span has been recycled every further builder compile
//     re-zeroes and re-faults 1 GB (measured: 2-25 s per compile, no scaling
//     beyond 4 threads in one process). So builder compiles run in children whose
//     collector is off: 24 per child for the small files, one per child for the
//     large files (without collection every allocation touches new pages, which
//     is itself slow for 60 000-line files on this VM). Everything else runs in
//     children with the collector on, a few hundred compiles per child.
//   * a compile that hangs (DESIGN §5 item 11) or crashes inside cgo only costs
//     the child: the parent sees which (file, setting) did not answer.
//   * runtime.NumCPU() - which the bulk loader uses as the maximum bucket count -
//     can be forced by starting the child with a restricted CPU affinity.
// The child is a dumb executor: it compiles, dumps the store and reports a
// canonical hash of the dump; the parent compares it with the hash of the
// sequential codec's output. Only to describe a difference that was already
// found is the cell run again with WantDiff.

import (
	"bufio"
	"bytes"
	"crypto/sha256"
	"encoding/gob"
	"encoding/hex"
	"fmt"
	"io"
	"os"
	"os/exec"
	"runtime"
	"runtime/debug"
	"sort"
	"strings"
	"sync"
	"syscall"
	"time"
	"unsafe"

	"verifharness/dnsfix"
)

type execJob struct {
	ID       int
	Text     []byte
	Settings []setting
}

type execReq struct {
	Dir      string
	GCOff    bool // see the comment at the top of the file
	WantDiff bool // also compute the reference in the child and describe the difference
	Jobs     []execJob
}

type execHello struct {
	NumCPU int
}

// execRes is the outcome of one (file, setting).
type execRes struct {
	Job, Set int
	Err      string // compile error ("" = compiled)
	DumpErr  string // store could not be read back
	Hash     string // canonical hash of the dump
	Keys     int
	Values   int
	Diff     string // only when the request asks for it: dump vs sequential-codec reference, "" = equal
	Panic    string
}

func dumpHash(d dnsfix.Dump) (string, int, int) {
	keys := make([]string, 0, len(d))
	for k := range d {
		keys = append(keys, k)
	}
	sort.Strings(keys)
	h := sha256.New()
	nv := 0
	var n [8]byte
	put := func(s string) {
		l := len(s)
		for i := 0; i < 8; i++ {
			n[i] = byte(l >> (8 * i))
		}
		h.Write(n[:])
		io.WriteString(h, s)
	}
	for _, k := range keys {
		put(k)
		vs := append([]string(nil), d[k]...)
		sort.Strings(vs)
		put(fmt.Sprint(len(vs)))
		for _, v := range vs {
			put(v)
			nv++
		}
	}
	return hex.EncodeToString(h.Sum(nil)[:12]), len(keys), nv
}

// execOne runs the real pipeline for one (file, setting) and judges the store.
// ref is nil unless a textual diff is wanted (the verdict itself is taken by the
// parent from the hash).
func execOne(dir string, text []byte, s setting, ref *refResult) (res execRes) {
	defer func() {
		if p := recover(); p != nil {
			res.Panic = fmt.Sprint(p)
		}
	}()
	o, w := s.opts()
	path, err := dnsfix.CompileOpts(dir, s.B, text, o, w)
	if err != nil {
		res.Err = err.Error()
		if res.Err == "" {
			res.Err = "error with empty message"
		}
		return
	}
	defer os.RemoveAll(path)
	d, derr := dnsfix.DumpOf(s.B, path)
	if derr != nil {
		res.DumpErr = derr.Error()
		return
	}
	res.Hash, res.Keys, res.Values = dumpHash(d)
	if ref != nil && ref.Rejected < 0 {
		res.Diff = d.Diff(ref.Dump)
		if res.Diff == "" {
			res.Diff = "(no difference)"
		}
	}
	return
}

// childExec is the body of the "--c07-exec" subprocess: request on stdin,
// a stream of results on stdout.
func childExec() {
	var req execReq
	if err := gob.NewDecoder(bufio.NewReader(os.Stdin)).Decode(&req); err != nil {
		fmt.Fprintln(os.Stderr, "c07 child: bad request:", err)
		os.Exit(3)
	}
	if req.GCOff {
		debug.SetGCPercent(-1)
	}
	dir := req.Dir // private to this child; created and removed by the parent
	os.Setenv("TMPDIR", dir)
	dnsfix.Quiet(dir)
	out := bufio.NewWriter(os.Stdout)
	enc := gob.NewEncoder(out)
	enc.Encode(execHello{NumCPU: runtime.NumCPU()})
	out.Flush()
	for ji, j := range req.Jobs {
		refs := map[dnsfix.Backend]*refResult{}
		for si, s := range j.Settings {
			ref := refs[s.B]
			if ref == nil && req.WantDiff {
				rr := reference(j.Text, s.B)
				ref = &rr
				refs[s.B] = ref
			}
			res := execOne(dir, j.Text, s, ref)
			res.Job, res.Set = ji, si
			if err := enc.Encode(res); err != nil {
				os.Exit(3)
			}
			out.Flush()
		}
	}
	os.Exit(0)
}

// childOutcome is what the parent learned from one child.
type childOutcome struct {
	NumCPU  int
	Results []execRes
	// Stuck is set when the child stopped answering: index of the job/setting
	// that was running, whether it was a timeout (hang) or the child died.
	Stuck    bool
	StuckJob int
	StuckSet int
	TimedOut bool
	Deadlock bool // the Go runtime itself reported "all goroutines are asleep"
	IdleFor  time.Duration
	Waited   time.Duration
	Stderr   string
	Exit     string
}

var affinityMu sync.Mutex
var affinitySlot int // guarded by affinityMu

// startRestricted starts cmd with the CPU affinity reduced to the first ncpu
// CPUs this process may use, so that the child's runtime.NumCPU() == ncpu.
// (The forked child inherits the affinity of the forking thread.)
func startRestricted(cmd *exec.Cmd, ncpu int) error {
	if ncpu <= 0 {
		return cmd.Start()
	}
	affinityMu.Lock()
	defer affinityMu.Unlock()
	runtime.LockOSThread()
	defer runtime.UnlockOSThread()
	var old, mask [16]uint64 // 1024 CPUs
	if _, _, e := syscall.RawSyscall(syscall.SYS_SCHED_GETAFFINITY, 0, unsafe.Sizeof(old), uintptr(unsafe.Pointer(&old[0]))); e != 0 {
		return fmt.Errorf("sched_getaffinity: %v", e)
	}
	var avail []int
	for i := 0; i < 1024; i++ {
		if old[i/64]&(1<<(uint(i)%64)) != 0 {
			avail = append(avail, i)
		}
	}
	if len(avail) < ncpu {
		return fmt.Errorf("only %d CPUs available, need %d", len(avail), ncpu)
	}
	// spread restricted children over the machine
	first := (affinitySlot * ncpu) % len(avail)
	affinitySlot++
	for k := 0; k < ncpu; k++ {
		i := avail[(first+k)%len(avail)]
		mask[i/64] |= 1 << (uint(i) % 64)
	}
	if _, _, e := syscall.RawSyscall(syscall.SYS_SCHED_SETAFFINITY, 0, unsafe.Sizeof(mask), uintptr(unsafe.Pointer(&mask[0]))); e != 0 {
		return fmt.Errorf("sched_setaffinity: %v", e)
	}
	err := cmd.Start()
	if _, _, e := syscall.RawSyscall(syscall.SYS_SCHED_SETAFFINITY, 0, unsafe.Sizeof(old), uintptr(unsafe.Pointer(&old[0]))); e != 0 && err == nil {
		err = fmt.Errorf("restoring affinity: %v", e)
	}
	return err
}

// absoluteLimit bounds the wall time between two answers of a child that keeps
// consuming CPU (a compile of this check needs at most a few CPU-seconds).
const absoluteLimit = 15 * time.Minute

// idleWatch samples /proc/<pid> to tell a blocked process from a slow one.
type idleWatch struct {
	pid       int
	since     time.Time
	lastTicks int64
}

func newIdleWatch(pid int) *idleWatch {
	w := &idleWatch{pid: pid}
	w.reset()
	return w
}

func (w *idleWatch) reset() { w.since = time.Now(); w.lastTicks, _ = w.sample() }

// sample returns utime+stime of the process (clock ticks, all threads) and
// whether some thread is currently runnable or in uninterruptible sleep.
func (w *idleWatch) sample() (int64, bool) {
	var ticks int64
	busy := false
	tasks, _ := os.ReadDir(fmt.Sprintf("/proc/%d/task", w.pid))
	for _, t := range tasks {
		b, err := os.ReadFile(fmt.Sprintf("/proc/%d/task/%s/stat", w.pid, t.Name()))
		if err != nil {
			continue
		}
		i := bytes.LastIndexByte(b, ')') // comm may contain anything
		if i < 0 {
			continue
		}
		f := strings.Fields(string(b[i+1:]))
		if len(f) < 13 {
			continue
		}
		if f[0] == "R" || f[0] == "D" {
			busy = true
		}
		var u, s int64
		fmt.Sscan(f[11], &u)
		fmt.Sscan(f[12], &s)
		ticks += u + s
	}
	return ticks, busy
}

// idleFor reports for how long the process has shown no activity (call it
// about once per second).
func (w *idleWatch) idleFor() time.Duration {
	ticks, busy := w.sample()
	if busy || ticks-w.lastTicks > 1 {
		w.since = time.Now()
	}
	w.lastTicks = ticks
	return time.Since(w.since)
}

// runChild executes the jobs in one subprocess. A child that stays idle for
// idleLimit without answering is killed and reported as stuck.
func runChild(parentDir string, jobs []execJob, ncpu int, gcOff, wantDiff bool, idleLimit time.Duration) (childOutcome, error) {
	var oc childOutcome
	self, err := os.Executable()
	if err != nil {
		return oc, err
	}
	dir, err := os.MkdirTemp(parentDir, "child")
	if err != nil {
		return oc, err
	}
	defer os.RemoveAll(dir)
	var in bytes.Buffer
	if err := gob.NewEncoder(&in).Encode(execReq{Dir: dir, GCOff: gcOff, WantDiff: wantDiff, Jobs: jobs}); err != nil {
		return oc, err
	}
	cmd := exec.Command(self, "--c07-exec")
	cmd.Stdin = &in
	var stderr bytes.Buffer
	cmd.Stderr = &stderr
	cmd.Env = append(os.Environ(), "TMPDIR="+dir)
	stdout, err := cmd.StdoutPipe()
	if err != nil {
		return oc, err
	}
	if err := startRestricted(cmd, ncpu); err != nil {
		return oc, err
	}
	type msg struct {
		hello *execHello
		res   execRes
		err   error
	}
	ch := make(chan msg, 16) // one ordered stream: hello, then the results, then the error that ends it
	go func() {
		dec := gob.NewDecoder(bufio.NewReader(stdout))
		var h execHello
		if err := dec.Decode(&h); err != nil {
			ch <- msg{err: err}
			return
		}
		ch <- msg{hello: &h}
		for {
			var r execRes
			if err := dec.Decode(&r); err != nil {
				ch <- msg{err: err}
				return
			}
			ch <- msg{res: r}
		}
	}()
	total := 0
	for _, j := range jobs {
		total += len(j.Settings)
	}
	pos := func(n int) (int, int) { // n-th expected result -> (job, setting)
		for ji, j := range jobs {
			if n < len(j.Settings) {
				return ji, n
			}
			n -= len(j.Settings)
		}
		return len(jobs), 0
	}
	// A child is declared hung only when it has been IDLE for idleLimit: no
	// answer, (almost) no CPU time consumed and no thread runnable or in
	// uninterruptible sleep at any of the one-second samples. A busy machine
	// therefore cannot produce a false "hang"; absoluteLimit catches a child
	// that spins forever.
	idle := newIdleWatch(cmd.Process.Pid)
	tick := time.NewTicker(time.Second)
	defer tick.Stop()
	started := time.Now()
	kill := func() {
		cmd.Process.Kill()
		cmd.Wait()
	}
	gotHello := false
	for !gotHello {
		select {
		case m := <-ch:
			if m.hello == nil {
				kill()
				return oc, fmt.Errorf("child did not start: %v; stderr: %s", m.err, tail(stderr.String(), 600))
			}
			oc.NumCPU = m.hello.NumCPU
			gotHello = true
		case <-tick.C:
			if idle.idleFor() >= idleLimit || time.Since(started) > absoluteLimit {
				kill()
				return oc, fmt.Errorf("child did not start (idle %v, elapsed %v)", idle.idleFor(), time.Since(started))
			}
		}
	}
	idle.reset()
	last := time.Now()
	for len(oc.Results) < total {
		select {
		case m := <-ch:
			if m.err != nil {
				werr := cmd.Wait()
				oc.Stuck = true
				oc.StuckJob, oc.StuckSet = pos(len(oc.Results))
				oc.Stderr = tail(stderr.String(), 1500)
				oc.Deadlock = strings.Contains(stderr.String(), "all goroutines are asleep")
				oc.Exit = fmt.Sprint(werr)
				return oc, nil
			}
			oc.Results = append(oc.Results, m.res)
			idle.reset()
			last = time.Now()
		case <-tick.C:
			if idle.idleFor() >= idleLimit || time.Since(last) > absoluteLimit {
				oc.IdleFor, oc.Waited = idle.idleFor(), time.Since(last)
				kill()
				oc.Stuck, oc.TimedOut = true, true
				oc.StuckJob, oc.StuckSet = pos(len(oc.Results))
				oc.Stderr = tail(stderr.String(), 1500)
				return oc, nil
			}
		}
	}
	if err := cmd.Wait(); err != nil {
		return oc, fmt.Errorf("child exited with %v after answering everything; stderr: %s", err, tail(stderr.String(), 600))
	}
	return oc, nil
}

func tail(s string, n int) string {
	if len(s) > n {
		return "..." + s[len(s)-n:]
	}
	return s
}
