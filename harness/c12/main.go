// C12: the response cache is invisible.
//
// Part 1 (histories): every sequence, up to a length bound, of queries built to
// collide in the cache key (same name from clients of different locations,
// types, classes – including the decimal-concatenation collision of the key
// format –, with/without EDNS and ECS, upper/lower case, every response class)
// and reloads, run against two REAL handlers over the same files, one with the
// cache enabled and one without: at every step the two responses must be equal.
// Part 2 (schedules): every interleaving, within the preemption bound, of a
// query computing its answer, a reload swapping the database and purging the
// cache, and a second query; a query that starts after the reload returned
// must be answered from the new generation.
package main

import (
	"context"
	"fmt"
	"net"
	"os"
	"runtime"
	"sort"
	"strings"

	"github.com/facebookincubator/dns/dnsrocks/db"
	"github.com/facebookincubator/dns/dnsrocks/dnsserver"
	"github.com/facebookincubator/dns/dnsrocks/dnsserver/stats"
	"github.com/facebookincubator/dns/dnsrocks/zzverif/vsched"
	"github.com/miekg/dns"

	"verifharness/dnsfix"
	"verifharness/srvfix"
	"verifharness/vlib"
)

func genData(g int) []byte {
	return []byte(fmt.Sprintf(`Zexample.com,ns.example.com,hostmaster.example.com,%[1]d,7200,1800,604800,120,300,,
&example.com,198.51.100.%[1]d,ns.example.com,%[2]d,,
Mexample.com,m1
M*.example.com,m1
%%aa,10.0.0.0/8,m1
%%bb,192.168.0.0/16,m1
+www.example.com,192.0.2.%[1]d,300,,
+loc.example.com,192.0.4.%[1]d,300,,aa
+loc.example.com,192.0.5.%[1]d,300,,bb
+x.example.com,192.0.6.%[1]d,300,,
+1x.example.com,192.0.7.%[1]d,300,,
'txt.example.com,gen-%[1]d,300,,
Cc.example.com,www.example.com,300,,
&deleg.example.com,198.51.101.%[1]d,ns.deleg.example.com,%[2]d,,
+valid.example.com,192.0.2.250,300,,
`, g, 3600+g))
}

type qspec struct {
	id     string
	name   string
	qtype  uint16
	qclass uint16
	client string
	edns   string // "", "plain", "ecs"
}

var queries = []qspec{
	{"www-A-none", "www.example.com.", dns.TypeA, dns.ClassINET, "8.8.8.8", ""},
	{"www-A-aa", "www.example.com.", dns.TypeA, dns.ClassINET, "10.1.1.1", ""},
	{"loc-A-aa", "loc.example.com.", dns.TypeA, dns.ClassINET, "10.1.1.1", ""},
	{"loc-A-bb", "loc.example.com.", dns.TypeA, dns.ClassINET, "192.168.1.1", ""},
	{"loc-A-none", "loc.example.com.", dns.TypeA, dns.ClassINET, "8.8.8.8", ""},
	{"www-AAAA", "www.example.com.", dns.TypeAAAA, dns.ClassINET, "8.8.8.8", ""},
	{"nx-A", "nx.example.com.", dns.TypeA, dns.ClassINET, "8.8.8.8", ""},
	{"deleg-A", "x.deleg.example.com.", dns.TypeA, dns.ClassINET, "8.8.8.8", ""},
	{"refused-A", "other.org.", dns.TypeA, dns.ClassINET, "8.8.8.8", ""},
	{"www-A-edns", "www.example.com.", dns.TypeA, dns.ClassINET, "8.8.8.8", "plain"},
	{"www-A-ecs", "www.example.com.", dns.TypeA, dns.ClassINET, "8.8.8.8", "ecs"},
	{"WWW-A-upper", "WWW.EXAMPLE.COM.", dns.TypeA, dns.ClassINET, "8.8.8.8", ""},
	{"txt-TXT", "txt.example.com.", dns.TypeTXT, dns.ClassINET, "8.8.8.8", ""},
	{"www-A-CH", "www.example.com.", dns.TypeA, dns.ClassCHAOS, "8.8.8.8", ""},
	{"x-A-class1001", "x.example.com.", dns.TypeA, 1001, "8.8.8.8", ""},
	{"1x-A-class100", "1x.example.com.", dns.TypeA, 100, "8.8.8.8", ""},
	{"c-A-cname", "c.example.com.", dns.TypeA, dns.ClassINET, "8.8.8.8", ""},
	// types and classes that agree with A / IN in their low byte (a key that stores them in one byte collides)
	{"www-TYPE257", "www.example.com.", 257, dns.ClassINET, "8.8.8.8", ""},
	{"www-A-class257", "www.example.com.", dns.TypeA, 257, "8.8.8.8", ""},
	{"www-TYPE65281", "www.example.com.", 65281, dns.ClassINET, "8.8.8.8", ""},
}

func (q qspec) msg() *dns.Msg {
	m := new(dns.Msg)
	m.SetQuestion(q.name, q.qtype)
	m.Question[0].Qclass = q.qclass
	m.Id = 77
	switch q.edns {
	case "plain":
		m.SetEdns0(1232, false)
	case "ecs":
		dnsfix.WithECS(m, 1, 24, net.ParseIP("203.0.113.0").To4())
	}
	return m
}

var ops []string // query ids + reloads

type pair struct {
	cached, plain *dnsfix.Handler
	gen           int
}

var files map[int]string

func openPair() *pair {
	mk := func(cache bool) *dnsfix.Handler {
		h, err := dnsfix.OpenHandler(dnsfix.CDB, files[1], dnsfix.HandlerOpts{Cache: dnsserver.CacheConfig{Enabled: cache, LRUSize: 1024}})
		if err != nil {
			panic(err)
		}
		return h
	}
	return &pair{cached: mk(true), plain: mk(false), gen: 1}
}

func (p *pair) close() { p.cached.Close(); p.plain.Close() }

// step runs one op on both handlers; returns (description of disagreement or "").
func (p *pair) step(op string) string {
	switch op {
	case "reload-full":
		p.gen++
		if p.gen > 3 {
			p.gen = 3
		}
		for _, h := range []*dnsfix.Handler{p.cached, p.plain} {
			if err := h.H.Reload(*dnsserver.NewFullReloadSignal(files[p.gen])); err != nil {
				return "reload failed: " + err.Error()
			}
		}
		return ""
	case "reload-partial":
		for _, h := range []*dnsfix.Handler{p.cached, p.plain} {
			if err := h.H.Reload(*dnsserver.NewPartialReloadSignal()); err != nil {
				return "reload failed: " + err.Error()
			}
		}
		return ""
	}
	var q qspec
	for _, x := range queries {
		if x.id == op {
			q = x
		}
	}
	a := dnsfix.CanonResult(p.cached.Serve(q.msg(), q.client, false, 8))
	b := dnsfix.CanonResult(p.plain.Serve(q.msg(), q.client, false, 8))
	if a != b {
		return fmt.Sprintf("with cache:\n%s\nwithout cache:\n%s", a, b)
	}
	return ""
}

func histories(r *vlib.Run, maxLen int) {
	n := len(ops)
	// enumerate by first op in parallel
	type res struct {
		hist   []string
		detail string
	}
	total := make([]int64, n)
	nontriv := make([]int64, n)
	found := make([][]res, n)
	vlib.ParallelFor(n, func(i0 int) {
		var rec func(hist []string)
		rec = func(hist []string) {
			// replay on a fresh pair (state = history)
			p := openPair()
			var bad string
			for _, op := range hist {
				if bad = p.step(op); bad != "" {
					break
				}
			}
			p.close()
			total[i0]++
			// nontrivial: the last op is a query whose key was asked before in this history (a cache hit is possible)
			last := hist[len(hist)-1]
			for _, op := range hist[:len(hist)-1] {
				if op == last || strings.HasPrefix(op, "reload") {
					nontriv[i0]++
					break
				}
			}
			if bad != "" {
				found[i0] = append(found[i0], res{append([]string{}, hist...), bad})
				return // minimal: do not extend a failing history
			}
			if len(hist) == maxLen {
				return
			}
			for _, op := range ops {
				rec(append(hist, op))
			}
		}
		rec([]string{ops[i0]})
	})
	var t, nt int64
	// keep only subsequence-minimal failing histories (every shorter failing history has been found:
	// histories are extended only while they pass)
	var all []res
	for i := range total {
		all = append(all, found[i]...)
	}
	isSubseq := func(a, b []string) bool { // a is a proper subsequence of b
		if len(a) >= len(b) {
			return false
		}
		j := 0
		for _, x := range b {
			if j < len(a) && a[j] == x {
				j++
			}
		}
		return j == len(a)
	}
	for i := range found {
		var keep []res
		for _, f := range found[i] {
			minimal := true
			for _, g := range all {
				if isSubseq(g.hist, f.hist) {
					minimal = false
					break
				}
			}
			if minimal {
				keep = append(keep, f)
			}
		}
		found[i] = keep
	}
	for i := range total {
		t += total[i]
		nt += nontriv[i]
		for _, f := range found[i] {
			// fingerprint: the pair of ops that interact = last op and the earliest earlier op without which it passes is costly to find;
			// use the whole minimal history (histories are extended only while they pass, so every reported one is minimal in length)
			r.Violate("hist/"+strings.Join(f.hist, ","), f.detail, map[string]interface{}{"part": "history", "history": f.hist})
		}
	}
	r.Add("history_evaluations", t)
	r.Add("history_nontrivial", nt)
	r.Sample(map[string]interface{}{"history": []string{"www-A-none", "reload-full", "www-A-none"}})
	r.Sample(map[string]interface{}{"history": []string{"x-A-class1001", "1x-A-class100"}})
}

// ---- part 2: schedules ----

var sfiles *srvfix.Files

type scen struct {
	name    string
	threads [][]string // "q" = query www A (cacheable); "reload" = full reload to the next generation
}

var scens = []scen{
	{"query-x-reload", [][]string{{"q"}, {"reload"}}},
	{"2queries-x-reload", [][]string{{"q", "q"}, {"reload"}}},
	{"query-x-query-x-reload", [][]string{{"q"}, {"q"}, {"reload"}}},
	{"query-x-reload-reload", [][]string{{"q"}, {"reload", "reload"}}},
}

type srun struct {
	w       *srvfix.World
	h       *dnsserver.FBDNSDB
	clock   *int
	gen     int
	relEnd  []int // step at which each successful reload returned, and its generation
	relGen  []int
	bad     []string
}

func (x *srun) query(tag string) {
	vsched.Yield(x.clock, "query-start", true)
	start := vsched.Step()
	m := new(dns.Msg)
	m.SetQuestion("www.example.com.", dns.TypeA)
	w := dnsfix.NewWriter("8.8.8.8", false)
	x.h.ServeDNS(dnsserver.WithMaxAnswer(context.Background(), 8), w, m)
	if len(w.Msgs) != 1 {
		x.bad = append(x.bad, fmt.Sprintf("query-got-%d-responses", len(w.Msgs)))
		return
	}
	st := srvfix.Stamps(w.Msgs[0])
	if len(st) != 1 {
		x.bad = append(x.bad, fmt.Sprintf("stamps-%v", st))
		return
	}
	// the newest generation whose reload had returned before this query started
	min := 1
	for i, e := range x.relEnd {
		if e < start && x.relGen[i] > min {
			min = x.relGen[i]
		}
	}
	if st[0] < min {
		x.bad = append(x.bad, "stale-generation-served-after-reload-returned:"+tag)
	}
}

func (x *srun) reload() {
	x.gen++
	p := fmt.Sprintf("P%d", x.gen)
	x.w.Paths[p] = &srvfix.Content{Gen: x.gen}
	vsched.Touch(x.w, "publish", true)
	err := x.h.Reload(*dnsserver.NewFullReloadSignal(p))
	vsched.Yield(x.clock, "reload-end", true)
	if err == nil {
		x.relEnd = append(x.relEnd, vsched.Step())
		x.relGen = append(x.relGen, x.gen)
	}
}

func buildScen(sc scen) (func(), func(*vsched.Result) []string) {
	var x *srun
	body := func() {
		w := srvfix.NewWorld(sfiles, false)
		h, err := dnsserver.NewFBDNSDBBasic(dnsserver.HandlerConfig{}, dnsserver.DBConfig{Path: "P1", Driver: "proxy", ReloadTimeout: 1 << 40, ValidationKey: srvfix.ValidationKey()},
			dnsserver.CacheConfig{Enabled: true, LRUSize: 16}, &dnsserver.DummyLogger{}, &stats.DummyStats{})
		if err != nil {
			panic(err)
		}
		h.SetDBForVerif(db.NewDBForVerif(w.OpenInitial("P1")))
		x = &srun{w: w, h: h, clock: new(int), gen: 1}
		var ts []*vsched.Thread
		for i, ops := range sc.threads {
			i, ops := i, ops
			ts = append(ts, vsched.GoNamed(fmt.Sprintf("T%d", i), false, func() {
				for _, op := range ops {
					if op == "q" {
						x.query("concurrent")
					} else {
						x.reload()
					}
				}
			}))
		}
		vsched.Join(ts...)
		vsched.Quiesce()
		x.query("after-everything")
	}
	check := func(res *vsched.Result) []string {
		var bad []string
		for _, p := range res.Problems() {
			if strings.HasPrefix(p, "deadlock") && strings.Contains(p, "timer") {
				continue
			}
			bad = append(bad, "scheduler:"+p)
		}
		if x != nil {
			bad = append(bad, x.bad...)
			bad = append(bad, x.w.Bad...)
		}
		sort.Strings(bad)
		var o []string
		for i, b := range bad {
			if i == 0 || b != bad[i-1] {
				o = append(o, b)
			}
		}
		return o
	}
	return body, check
}

func main() {
	runtime.GOMAXPROCS(1)
	r := vlib.Start("C12")
	dir, clean := vlib.Scratch("c12")
	defer clean()
	dnsfix.Quiet(dir)
	for _, q := range queries {
		ops = append(ops, q.id)
	}
	ops = append(ops, "reload-full", "reload-partial")
	files = map[int]string{}
	for g := 1; g <= 3; g++ {
		p, err := dnsfix.Compile(dir, dnsfix.CDB, genData(g))
		if err != nil {
			panic(err)
		}
		files[g] = p
	}
	if p := replayArg(); p != "" {
		doReplay(p)
		return
	}
	idx, n, isShard := r.Shard()
	bound := r.Pick(2, 3)
	if !isShard {
		runtime.GOMAXPROCS(runtime.NumCPU())
		histories(r, r.Pick(3, 4)) // no exploration active: the instrumented handler runs in pass-through mode
		runtime.GOMAXPROCS(1)
		r.ForkShards(len(scens))
	} else {
		sfiles = srvfix.BuildFiles(srvfix.TmpDir(dir), 4)
		sfiles.Preopen()
		for u := idx; u < len(scens); u += n {
			sc := scens[u]
			outcomes := map[string]bool{}
			st := vsched.Explore(vsched.Config{Bound: bound, MaxSteps: 20000}, func() (func(), func(*vsched.Result)) {
				body, check := buildScen(sc)
				return body, func(res *vsched.Result) {
					bad := check(res)
					outcomes[strings.Join(bad, "+")] = true
					for _, b := range bad {
						fp := "sched/" + sc.name + "/" + b
						if !r.Has(fp) {
							body2, _ := buildScen(sc)
							lr := vsched.RunOnce(vsched.Config{LogEvents: true, MaxSteps: 20000}, res.Choices, body2)
							r.Violate(fp, fmt.Sprintf("scenario %s: %v (choices %v)", sc.name, bad, res.Choices),
								map[string]interface{}{"part": "schedule", "scenario": sc.name, "choices": res.Choices, "events": lr.EventLog()})
						}
					}
				}
			})
			r.Add("schedule_executions", st.Execs)
			r.Add("schedule_steps", st.Transitions)
			r.Add("schedule_distinct_states", st.States)
			r.Add("schedule_pruned_subtrees", st.Pruned)
			r.Add("schedule_distinct_outcomes", int64(len(outcomes)))
			if st.Capped || st.BoundCompleted < bound {
				r.Exhaustive = false
			}
			r.Sample(map[string]interface{}{"scenario": sc.name, "threads": sc.threads, "executions": st.Execs, "distinct_states": st.States})
		}
		r.Finish()
	}
	r.Set("schedule_preemption_bound", bound)
	r.Set("history_max_len", r.Pick(3, 4))
	r.Set("states", r.Int("schedule_distinct_states")+r.Int("history_evaluations"))
	r.Set("transitions", r.Int("schedule_steps")+r.Int("history_evaluations"))
	r.Set("evaluations", r.Int("schedule_executions")+r.Int("history_evaluations"))
	r.Set("traces_validated_against_impl", r.Int("schedule_executions")+r.Int("history_evaluations"))
	r.Set("distinct_nontrivial", r.Int("history_nontrivial")+r.Int("schedule_distinct_outcomes"))
	r.Set("rule", "part 1: every history of length <= the bound over the ops "+strings.Join(ops, " ")+" replayed on a fresh pair of real handlers (cache on / off) over the same CDB files; at each step both responses must be canonically equal; nontrivial = histories whose last query repeats an earlier op's key or follows a reload. part 2: every interleaving within the preemption bound of the listed scenarios on the instrumented handler with the cache enabled (scheduling points at every lock, cache and backend call); a query started after a reload returned must carry the new generation")
	r.Assume = []string{"weighted answers (two or more address candidates) are excluded by construction of the data; cache entry expiry (1000 s) is not reached", "cache keys beyond the alphabet's collisions are not covered"}
	r.Finish()
}

func replayArg() string {
	for i, a := range os.Args {
		if a == "--replay" && i+1 < len(os.Args) {
			return os.Args[i+1]
		}
	}
	return ""
}
