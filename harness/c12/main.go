// C12: the response cache is invisible.
//
// Part 1 (histories): every sequence, up to a length bound, of queries built to
// collide in the cache key (same name from clients of different locations,
// types, classes – including the decimal-concatenation collision of the key
// format –, with/without EDNS and ECS, upper/lower case, every response class;
// and PRESENTATION variants of one question, i.e. everything of a query that is
// not in the cache key: message id, RD/CD/AD flags, opcode, a second question,
// EDNS size and DO, spelling of the name) and reloads, run against two REAL
// handlers over the same files, one with the cache enabled and one without: at
// every step the two responses must be equal - header (id, opcode, every flag,
// rcode) and question section EXACTLY, the record sections as sets with the
// owner names compared case-insensitively.
// Part 2 (schedules): every interleaving, within the preemption bound, of a
// query computing its answer, a reload swapping the database and purging the
// cache, and a second query; a query that starts after the reload returned
// must be answered from the new generation.
package main

import (
	"context"
	"fmt"
	"net"
	"os"
	"runtime"
	"runtime/pprof"
	"sort"
	"strings"

	"github.com/facebookincubator/dns/dnsrocks/db"
	"github.com/facebookincubator/dns/dnsrocks/dnsserver"
	"github.com/facebookincubator/dns/dnsrocks/dnsserver/stats"
	"github.com/facebookincubator/dns/dnsrocks/zzverif/vsched"
	"github.com/miekg/dns"

	"verifharness/dnsfix"
	"verifharness/srvfix"
	"verifharness/vlib"
)

func genData(g int) []byte {
	return []byte(fmt.Sprintf(`Zexample.com,ns.example.com,hostmaster.example.com,%[1]d,7200,1800,604800,120,300,,
&example.com,198.51.100.%[1]d,ns.example.com,%[2]d,,
Mexample.com,m1
M*.example.com,m1
%%aa,10.0.0.0/8,m1
%%bb,192.168.0.0/16,m1
+www.example.com,192.0.2.%[1]d,300,,
+loc.example.com,192.0.4.%[1]d,300,,aa
+loc.example.com,192.0.5.%[1]d,300,,bb
+x.example.com,192.0.6.%[1]d,300,,
+1x.example.com,192.0.7.%[1]d,300,,
'txt.example.com,gen-%[1]d,300,,
Cc.example.com,www.example.com,300,,
&deleg.example.com,198.51.101.%[1]d,ns.deleg.example.com,%[2]d,,
+valid.example.com,192.0.2.250,300,,
+%[3]s,192.0.9.%[1]d,300,,
`, g, 3600+g, longName))
}

// longName has wire length 255. The reply to an A query for it takes 287 bytes when the answer's
// owner name is compressed against the question and 540 when it is not: a reply whose owner name is
// spelled differently from the question (miekg/dns compresses case-sensitively) does not fit the
// 512 bytes of a client without EDNS.
var longName = strings.Repeat("l", 49) + "." + strings.Repeat("m", 63) + "." + strings.Repeat("n", 63) + "." + strings.Repeat("o", 63) + ".example.com"

type qspec struct {
	id     string
	name   string
	qtype  uint16
	qclass uint16
	client string
	edns   string // "", "plain", "ecs", "do512"
	pres   presentation
}

// presentation: the parts of a query message that are not in the cache key and
// that the reply must nevertheless take from THIS query (zero value: opcode
// QUERY, RD set - what dns.Msg.SetQuestion makes -, one question).
type presentation struct {
	norec  bool // RD clear
	cd, ad bool
	opcode int
	second bool // a second question (other name, TXT)
}

var queries = []qspec{
	{"www-A-none", "www.example.com.", dns.TypeA, dns.ClassINET, "8.8.8.8", "", presentation{}},
	{"www-A-aa", "www.example.com.", dns.TypeA, dns.ClassINET, "10.1.1.1", "", presentation{}},
	{"loc-A-aa", "loc.example.com.", dns.TypeA, dns.ClassINET, "10.1.1.1", "", presentation{}},
	{"loc-A-bb", "loc.example.com.", dns.TypeA, dns.ClassINET, "192.168.1.1", "", presentation{}},
	{"loc-A-none", "loc.example.com.", dns.TypeA, dns.ClassINET, "8.8.8.8", "", presentation{}},
	{"www-AAAA", "www.example.com.", dns.TypeAAAA, dns.ClassINET, "8.8.8.8", "", presentation{}},
	{"nx-A", "nx.example.com.", dns.TypeA, dns.ClassINET, "8.8.8.8", "", presentation{}},
	{"deleg-A", "x.deleg.example.com.", dns.TypeA, dns.ClassINET, "8.8.8.8", "", presentation{}},
	{"refused-A", "other.org.", dns.TypeA, dns.ClassINET, "8.8.8.8", "", presentation{}},
	{"www-A-edns", "www.example.com.", dns.TypeA, dns.ClassINET, "8.8.8.8", "plain", presentation{}},
	{"www-A-ecs", "www.example.com.", dns.TypeA, dns.ClassINET, "8.8.8.8", "ecs", presentation{}},
	{"WWW-A-upper", "WWW.EXAMPLE.COM.", dns.TypeA, dns.ClassINET, "8.8.8.8", "", presentation{}},
	{"txt-TXT", "txt.example.com.", dns.TypeTXT, dns.ClassINET, "8.8.8.8", "", presentation{}},
	{"www-A-CH", "www.example.com.", dns.TypeA, dns.ClassCHAOS, "8.8.8.8", "", presentation{}},
	{"x-A-class1001", "x.example.com.", dns.TypeA, 1001, "8.8.8.8", "", presentation{}},
	{"1x-A-class100", "1x.example.com.", dns.TypeA, 100, "8.8.8.8", "", presentation{}},
	{"c-A-cname", "c.example.com.", dns.TypeA, dns.ClassINET, "8.8.8.8", "", presentation{}},
	// types and classes that agree with A / IN in their low byte (a key that stores them in one byte collides)
	{"www-TYPE257", "www.example.com.", 257, dns.ClassINET, "8.8.8.8", "", presentation{}},
	{"www-A-class257", "www.example.com.", dns.TypeA, 257, "8.8.8.8", "", presentation{}},
	{"www-TYPE65281", "www.example.com.", 65281, dns.ClassINET, "8.8.8.8", "", presentation{}},
	// presentation variants: the cache key of www-A-none (resp. nx-A), another message on the wire
	{"www-A-norec", "www.example.com.", dns.TypeA, dns.ClassINET, "8.8.8.8", "", presentation{norec: true}},
	{"www-A-cd-ad", "www.example.com.", dns.TypeA, dns.ClassINET, "8.8.8.8", "", presentation{cd: true, ad: true}},
	{"www-A-notify", "www.example.com.", dns.TypeA, dns.ClassINET, "8.8.8.8", "", presentation{opcode: dns.OpcodeNotify}},
	{"www-A-2questions", "www.example.com.", dns.TypeA, dns.ClassINET, "8.8.8.8", "", presentation{second: true}},
	{"wWw-A-mixed-edns-do512", "wWw.ExAmPlE.cOm.", dns.TypeA, dns.ClassINET, "8.8.8.8", "do512", presentation{}},
	{"NX-A-upper-norec", "NX.EXAMPLE.COM.", dns.TypeA, dns.ClassINET, "8.8.8.8", "", presentation{norec: true}},
	// a name so long that the size of the reply (no EDNS: 512 bytes) depends on the spelling of the owner name
	{"long-A", longName + ".", dns.TypeA, dns.ClassINET, "8.8.8.8", "", presentation{}},
	{"LONG-A-upper", strings.ToUpper(longName) + ".", dns.TypeA, dns.ClassINET, "8.8.8.8", "", presentation{}},
}

// msg builds the query; pos is its position in the history: every query of a
// history has its own message id (the same op twice differs in the id only).
func (q qspec) msg(pos int) *dns.Msg {
	m := new(dns.Msg)
	m.SetQuestion(q.name, q.qtype)
	m.Question[0].Qclass = q.qclass
	m.Id = q.msgID(pos)
	m.RecursionDesired = !q.pres.norec
	m.CheckingDisabled, m.AuthenticatedData = q.pres.cd, q.pres.ad
	m.Opcode = q.pres.opcode
	if q.pres.second {
		m.Question = append(m.Question, dns.Question{Name: "txt.example.com.", Qtype: dns.TypeTXT, Qclass: dns.ClassINET})
	}
	switch q.edns {
	case "plain":
		m.SetEdns0(1232, false)
	case "do512":
		m.SetEdns0(512, true)
	case "ecs":
		dnsfix.WithECS(m, 1, 24, net.ParseIP("203.0.113.0").To4())
	}
	return m
}

func (q qspec) msgID(pos int) uint16 {
	for i, x := range queries {
		if x.id == q.id {
			return uint16(1000 + 16*i + pos)
		}
	}
	panic("unknown query " + q.id)
}

// ---- comparison of the two handlers' responses ----

// aspects of a response, each rendered canonically; the first group is compared
// exactly (it must be taken from the query being answered, whatever the cache
// holds), the sections as sorted sets with lower-cased owner names.
var aspectNames = []string{"messages", "id", "opcode", "qr", "aa", "tc", "rd", "ra", "z", "ad", "cd", "rcode", "question", "answer", "authority", "additional"}

func aspects(r dnsfix.Result) []string {
	if r.Panicked != nil {
		return []string{fmt.Sprintf("PANIC %v", r.Panicked)}
	}
	if len(r.Msgs) != 1 {
		return []string{fmt.Sprintf("%d messages written; returned rcode=%d err=%v", len(r.Msgs), r.Rcode, r.Err)}
	}
	m := r.Msgs[0]
	var qs []string
	for _, q := range m.Question {
		qs = append(qs, fmt.Sprintf("%q/%d/%d", q.Name, q.Qtype, q.Qclass))
	}
	sec := func(rrs []dns.RR) string { return dnsfix.Canon(&dns.Msg{Extra: rrs}) }
	b := func(v bool) string { return fmt.Sprint(v) }
	return []string{"1", fmt.Sprint(m.Id), fmt.Sprint(m.Opcode), b(m.Response), b(m.Authoritative), b(m.Truncated), b(m.RecursionDesired), b(m.RecursionAvailable), b(m.Zero), b(m.AuthenticatedData), b(m.CheckingDisabled),
		fmt.Sprint(m.Rcode), strings.Join(qs, " "), sec(m.Answer), sec(m.Ns), sec(m.Extra)}
}

// differing returns the names of the aspects in which two results differ ("" = equal).
func differing(a, b dnsfix.Result) string {
	x, y := aspects(a), aspects(b)
	if len(x) != len(aspectNames) || len(y) != len(aspectNames) {
		if len(x) == len(y) && x[0] == y[0] {
			return ""
		}
		return "messages"
	}
	var d []string
	for i := range x {
		if x[i] != y[i] {
			d = append(d, aspectNames[i])
		}
	}
	return strings.Join(d, "+")
}

func render(r dnsfix.Result) string {
	if r.Panicked != nil || len(r.Msgs) != 1 {
		return dnsfix.CanonResult(r)
	}
	return r.Msgs[0].String()
}

var ops []string // query ids + reloads

type pair struct {
	cached, plain *dnsfix.Handler
	gen           int
}

var files map[int]string

func openPair() *pair {
	mk := func(cache bool) *dnsfix.Handler {
		h, err := dnsfix.OpenHandler(dnsfix.CDB, files[1], dnsfix.HandlerOpts{Cache: dnsserver.CacheConfig{Enabled: cache, LRUSize: 1024}})
		if err != nil {
			panic(err)
		}
		return h
	}
	return &pair{cached: mk(true), plain: mk(false), gen: 1}
}

func (p *pair) close() { p.cached.Close(); p.plain.Close() }

// step runs one op (the pos-th of its history) on both handlers; returns the aspects in
// which the two responses differ and a description ("" = no disagreement).
func (p *pair) step(op string, pos int) (string, string) {
	switch op {
	case "reload-full":
		p.gen++
		if p.gen > 3 {
			p.gen = 3
		}
		for _, h := range []*dnsfix.Handler{p.cached, p.plain} {
			if err := h.H.Reload(*dnsserver.NewFullReloadSignal(files[p.gen])); err != nil {
				return "reload", "reload failed: " + err.Error()
			}
		}
		return "", ""
	case "reload-full-cleanupfail":
		// the database switch succeeds, then the removal of the processed signal file fails (the control
		// directory is a regular file: this binary): Reload returns that error on both handlers, and whatever
		// state it leaves behind, the cache must stay invisible
		p.gen++
		if p.gen > 3 {
			p.gen = 3
		}
		exe, _ := os.Executable()
		for _, h := range []*dnsfix.Handler{p.cached, p.plain} {
			h.H.SetControlPathForVerif(exe)
			err := h.H.Reload(*dnsserver.NewFullReloadSignal(files[p.gen]))
			h.H.SetControlPathForVerif("")
			if err == nil {
				return "reload", "harness: the signal file removal was expected to fail"
			}
		}
		return "", ""
	case "reload-partial":
		for _, h := range []*dnsfix.Handler{p.cached, p.plain} {
			if err := h.H.Reload(*dnsserver.NewPartialReloadSignal()); err != nil {
				return "reload", "reload failed: " + err.Error()
			}
		}
		return "", ""
	}
	var q qspec
	for _, x := range queries {
		if x.id == op {
			q = x
		}
	}
	a := p.cached.Serve(q.msg(pos), q.client, false, 8)
	b := p.plain.Serve(q.msg(pos), q.client, false, 8)
	if d := differing(a, b); d != "" {
		return d, fmt.Sprintf("query %s (position %d):\n%v\nresponses differ in: %s\nwith cache:\n%s\nwithout cache:\n%s", op, pos, q.msg(pos), d, render(a), render(b))
	}
	return "", ""
}

// run replays a history on a fresh pair; it returns the position of the first
// disagreement (-1: none), the differing aspects and the description.
func run(hist []string) (int, string, string) {
	p := openPair()
	defer p.close()
	for i, op := range hist {
		if d, bad := p.step(op, i); bad != "" {
			return i, d, bad
		}
	}
	return -1, "", ""
}

// minimal reports whether no proper subsequence of a failing history fails (anywhere).
// (Every failing history that is not extended is found by the enumeration itself, so this
// is the same as: no other reported history is a subsequence of this one.)
func minimal(hist []string, evals *int64) bool {
	n := len(hist)
	for mask := 1; mask < (1<<uint(n))-1; mask++ {
		var sub []string
		for i := 0; i < n; i++ {
			if mask&(1<<uint(i)) != 0 {
				sub = append(sub, hist[i])
			}
		}
		*evals++
		if at, _, _ := run(sub); at >= 0 {
			return false
		}
	}
	return true
}

// histShards is the number of shard processes the histories are spread over (a
// constant, so that the division of work does not depend on the machine). One
// process with many threads spends most of its time in the kernel's address-space
// lock: every history opens (mmap) and closes (munmap) two databases.
const histShards = 16

// histories enumerates, in shard k of histShards, every history whose first two ops
// (i, j) have (i*len(ops)+j) mod histShards == k, and the one-op histories [i] with
// i mod histShards == k. Every history is replayed on a fresh pair (state = history).
func histories(r *vlib.Run, maxLen, k int) {
	n := len(ops)
	var total, nontriv, minEvals int64
	report := func(hist []string, at int, d, detail string) {
		if !minimal(hist, &minEvals) {
			return
		}
		// fingerprint: the whole minimal history (no proper subsequence of it fails) and the aspects
		// of the response in which the two handlers disagree
		r.Violate("hist/"+strings.Join(hist, ",")+"#"+d, detail, map[string]interface{}{"part": "history", "history": hist})
	}
	var rec func(hist []string)
	rec = func(hist []string) {
		at, d, bad := run(hist)
		total++
		// nontrivial: the last op is a query whose op was asked before in this history (a cache hit is possible), or follows a reload
		last := hist[len(hist)-1]
		for _, op := range hist[:len(hist)-1] {
			if op == last || strings.HasPrefix(op, "reload") || (keyOf[op] != "" && keyOf[op] == keyOf[last]) {
				nontriv++
				break
			}
		}
		if at >= 0 {
			report(hist, at, d, bad)
			return // do not extend a failing history
		}
		if len(hist) == maxLen {
			return
		}
		for _, op := range ops {
			rec(append(hist[:len(hist):len(hist)], op))
		}
	}
	for i := 0; i < n; i++ {
		h1 := []string{ops[i]}
		at, d, bad := run(h1)
		if i%histShards == k {
			total++
			if at >= 0 {
				report(h1, at, d, bad)
			}
		}
		if at >= 0 || maxLen < 2 {
			continue
		}
		for j := 0; j < n; j++ {
			if (i*n+j)%histShards == k {
				rec([]string{ops[i], ops[j]})
			}
		}
	}
	r.Add("history_evaluations", total)
	r.Add("history_nontrivial", nontriv)
	r.Add("history_replays_spent_on_minimality", minEvals)
	if k == 0 {
		r.Sample(map[string]interface{}{"history": []string{"www-A-none", "reload-full", "www-A-none"}})
		r.Sample(map[string]interface{}{"history": []string{"x-A-class1001", "1x-A-class100"}})
		r.Sample(map[string]interface{}{"history": []string{"www-A-none", "www-A-notify"}, "query_ids": []uint16{queries[0].msgID(0), queryByID("www-A-notify").msgID(1)}})
	}
}

// keyOf maps a query op to (client, lower-cased name, type, class): ops with the same value
// compete for one cache entry whatever their presentation.
var keyOf = map[string]string{}

func queryByID(id string) qspec {
	for _, q := range queries {
		if q.id == id {
			return q
		}
	}
	panic("unknown query " + id)
}

// ---- part 2: schedules ----

var sfiles *srvfix.Files

type scen struct {
	name    string
	threads [][]string // "q" = query www A (cacheable); "reload" = full reload to the next generation; "preload" = the next generation is published at the served path and a partial reload follows
	rocks   bool       // RocksDB-like backend: a partial reload catches up in place and returns the same backend
}

var scens = []scen{
	{"query-x-reload", [][]string{{"q"}, {"reload"}}, false},
	{"2queries-x-reload", [][]string{{"q", "q"}, {"reload"}}, false},
	{"query-x-query-x-reload", [][]string{{"q"}, {"q"}, {"reload"}}, false},
	{"query-x-reload-reload", [][]string{{"q"}, {"reload", "reload"}}, false},
	// in-place catch-up: db.Reload returns the SAME *db.DB with new content; the purge must happen all the same
	{"rocks: query, partial reload, query", [][]string{{"q", "preload", "q"}}, true},
	{"rocks: query-x-partial-reload", [][]string{{"q"}, {"preload"}}, true},
	{"rocks: 2queries-x-partial-reload", [][]string{{"q", "q"}, {"preload"}}, true},
}

type srun struct {
	w      *srvfix.World
	h      *dnsserver.FBDNSDB
	clock  *int
	gen    int
	relEnd []int // step at which each successful reload returned, and its generation
	relGen []int
	bad    []string
	rocks  bool
}

func (x *srun) query(tag string) {
	vsched.Yield(x.clock, "query-start", true)
	start := vsched.Step()
	m := new(dns.Msg)
	m.SetQuestion("www.example.com.", dns.TypeA)
	w := dnsfix.NewWriter("8.8.8.8", false)
	x.h.ServeDNS(dnsserver.WithMaxAnswer(context.Background(), 8), w, m)
	if len(w.Msgs) != 1 {
		x.bad = append(x.bad, fmt.Sprintf("query-got-%d-responses", len(w.Msgs)))
		return
	}
	st := srvfix.Stamps(w.Msgs[0])
	if len(st) == 0 || (len(st) != 1 && !x.rocks) {
		// (with an in-place catch-up a query running DURING the catch-up may compose its response from two
		// generations: that is C05's subject and its known finding; here only staleness is judged, on the oldest stamp)
		x.bad = append(x.bad, fmt.Sprintf("stamps-%v", st))
		return
	}
	sort.Ints(st)
	// the newest generation whose reload had returned before this query started
	min := 1
	for i, e := range x.relEnd {
		if e < start && x.relGen[i] > min {
			min = x.relGen[i]
		}
	}
	if st[0] < min {
		x.bad = append(x.bad, "stale-generation-served-after-reload-returned:"+tag)
	}
}

// preload publishes the next generation at the served path and asks for a partial reload.
func (x *srun) preload() {
	x.gen++
	x.w.Paths["P1"] = &srvfix.Content{Gen: x.gen}
	vsched.Touch(x.w, "publish", true)
	err := x.h.Reload(*dnsserver.NewPartialReloadSignal())
	vsched.Yield(x.clock, "reload-end", true)
	if err == nil {
		x.relEnd = append(x.relEnd, vsched.Step())
		x.relGen = append(x.relGen, x.gen)
	}
}

func (x *srun) reload() {
	x.gen++
	p := fmt.Sprintf("P%d", x.gen)
	x.w.Paths[p] = &srvfix.Content{Gen: x.gen}
	vsched.Touch(x.w, "publish", true)
	err := x.h.Reload(*dnsserver.NewFullReloadSignal(p))
	vsched.Yield(x.clock, "reload-end", true)
	if err == nil {
		x.relEnd = append(x.relEnd, vsched.Step())
		x.relGen = append(x.relGen, x.gen)
	}
}

func buildScen(sc scen) (func(), func(*vsched.Result) []string) {
	var x *srun
	body := func() {
		w := srvfix.NewWorld(sfiles, sc.rocks)
		h, err := dnsserver.NewFBDNSDBBasic(dnsserver.HandlerConfig{}, dnsserver.DBConfig{Path: "P1", Driver: "proxy", ReloadTimeout: 1 << 40, ValidationKey: srvfix.ValidationKey()},
			dnsserver.CacheConfig{Enabled: true, LRUSize: 16}, &dnsserver.DummyLogger{}, &stats.DummyStats{})
		if err != nil {
			panic(err)
		}
		h.SetDBForVerif(db.NewDBForVerif(w.OpenInitial("P1")))
		x = &srun{w: w, h: h, clock: new(int), gen: 1, rocks: sc.rocks}
		var ts []*vsched.Thread
		for i, ops := range sc.threads {
			i, ops := i, ops
			ts = append(ts, vsched.GoNamed(fmt.Sprintf("T%d", i), false, func() {
				for _, op := range ops {
					switch op {
					case "q":
						x.query("concurrent")
					case "preload":
						x.preload()
					default:
						x.reload()
					}
				}
			}))
		}
		vsched.Join(ts...)
		vsched.Quiesce()
		x.query("after-everything")
	}
	check := func(res *vsched.Result) []string {
		var bad []string
		for _, p := range res.Problems() {
			if strings.HasPrefix(p, "deadlock") && strings.Contains(p, "timer") {
				continue
			}
			bad = append(bad, "scheduler:"+p)
		}
		if x != nil {
			bad = append(bad, x.bad...)
			bad = append(bad, x.w.Bad...)
		}
		sort.Strings(bad)
		var o []string
		for i, b := range bad {
			if i == 0 || b != bad[i-1] {
				o = append(o, b)
			}
		}
		return o
	}
	return body, check
}

func main() {
	runtime.GOMAXPROCS(1)
	r := vlib.Start("C12")
	dir, clean := vlib.Scratch("c12")
	defer clean()
	dnsfix.Quiet(dir)
	for _, q := range queries {
		ops = append(ops, q.id)
		keyOf[q.id] = fmt.Sprintf("%s|%s|%d|%d|ecs=%v", q.client, strings.ToLower(q.name), q.qtype, q.qclass, q.edns == "ecs")
	}
	ops = append(ops, "reload-full", "reload-partial", "reload-full-cleanupfail")
	files = map[int]string{}
	for g := 1; g <= 3; g++ {
		p, err := dnsfix.Compile(dir, dnsfix.CDB, genData(g))
		if err != nil {
			panic(err)
		}
		files[g] = p
	}
	if p := replayArg(); p != "" {
		doReplay(p)
		return
	}
	idx, n, isShard := r.Shard()
	bound := r.Pick(2, 3)
	if !isShard {
		// shards 0..len(scens)-1: one scenario each (the long ones first); the others: histories
		r.ForkShards(len(scens) + histShards)
	} else if idx >= len(scens) {
		_ = n
		if pf := os.Getenv("VERIF_C12_PROF"); pf != "" {
			f, _ := os.Create(pf)
			pprof.StartCPUProfile(f)
		}
		histories(r, r.Pick(3, 4), idx-len(scens))
		pprof.StopCPUProfile() // no exploration active: the instrumented handler runs in pass-through mode
		r.Finish()
	} else {
		sfiles = srvfix.BuildFiles(srvfix.TmpDir(dir), 4)
		sfiles.Preopen()
		for u := idx; u < len(scens); u += len(scens) {
			sc := scens[u]
			outcomes := map[string]bool{}
			st := vsched.Explore(vsched.Config{Bound: bound, MaxSteps: 20000}, func() (func(), func(*vsched.Result)) {
				body, check := buildScen(sc)
				return body, func(res *vsched.Result) {
					bad := check(res)
					outcomes[strings.Join(bad, "+")] = true
					for _, b := range bad {
						fp := "sched/" + sc.name + "/" + b
						if !r.Has(fp) {
							body2, _ := buildScen(sc)
							lr := vsched.RunOnce(vsched.Config{LogEvents: true, MaxSteps: 20000}, res.Choices, body2)
							r.Violate(fp, fmt.Sprintf("scenario %s: %v (choices %v)", sc.name, bad, res.Choices),
								map[string]interface{}{"part": "schedule", "scenario": sc.name, "choices": res.Choices, "events": lr.EventLog()})
						}
					}
				}
			})
			r.Add("schedule_executions", st.Execs)
			r.Add("schedule_steps", st.Transitions)
			r.Add("schedule_distinct_states", st.States)
			r.Add("schedule_pruned_subtrees", st.Pruned)
			r.Add("schedule_distinct_outcomes", int64(len(outcomes)))
			if st.Capped || st.BoundCompleted < bound {
				r.Exhaustive = false
			}
			r.Sample(map[string]interface{}{"scenario": sc.name, "threads": sc.threads, "executions": st.Execs, "distinct_states": st.States})
		}
		r.Finish()
	}
	r.Set("schedule_preemption_bound", bound)
	r.Set("history_max_len", r.Pick(3, 4))
	r.Set("states", r.Int("schedule_distinct_states")+r.Int("history_evaluations"))
	r.Set("transitions", r.Int("schedule_steps")+r.Int("history_evaluations"))
	r.Set("evaluations", r.Int("schedule_executions")+r.Int("history_evaluations"))
	r.Set("traces_validated_against_impl", r.Int("schedule_executions")+r.Int("history_evaluations"))
	r.Set("distinct_nontrivial", r.Int("history_nontrivial")+r.Int("schedule_distinct_outcomes"))
	r.Set("rule", "part 1: every history of length <= the bound over the ops "+strings.Join(ops, " ")+" replayed on a fresh pair of real handlers (cache on / off) over the same CDB files; the i-th query of a history carries its own message id; at each step the two responses must agree in: number of messages, id, opcode, QR, AA, TC, RD, RA, Z, AD, CD, rcode and the question section (name bytes, type, class) EXACTLY, and in the answer / authority / additional sections as sets of records with lower-cased owner names (OPT: size, version, DO, extended rcode, options). The query ops from www-A-norec to NX-A-upper-norec are presentation variants of www-A-none / nx-A: same cache key, other RD/CD/AD flags, opcode NOTIFY, a second question, EDNS 512+DO with a mixed-case name, upper-case name with RD clear; long-A / LONG-A-upper ask, without EDNS, for a 255-byte name whose reply fits 512 bytes only if the owner name compresses against the question. Histories are spread over "+fmt.Sprint(histShards)+" shard processes by their first two ops; a failing history is not extended and is reported only if none of its proper subsequences fails (each is replayed). nontrivial = histories whose last query has the cache key of an earlier query or follows a reload. part 2: every interleaving within the preemption bound of the listed scenarios on the instrumented handler with the cache enabled (scheduling points at every lock, cache and backend call); a query started after a reload returned must carry the new generation")
	r.Set("history_shard_processes", histShards)
	r.Assume = []string{"weighted answers (two or more address candidates) are excluded by construction of the data; cache entry expiry (1000 s) is not reached", "cache keys beyond the alphabet's collisions are not covered",
		"responses are compared as the dns.Msg the handler hands to the writer (header fields, question, record sets), not as wire bytes: record order inside a section and name compression are not compared, their effect on the size limit is (TC bit, dropped records)",
		"'up to letter case of owner names' is applied to the owner names of the records of the answer / authority / additional sections only; the question section must repeat the query's spelling"}
	r.Finish()
}

func replayArg() string {
	for i, a := range os.Args {
		if a == "--replay" && i+1 < len(os.Args) {
			return os.Args[i+1]
		}
	}
	return ""
}
