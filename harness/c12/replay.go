package main

import (
	"encoding/json"
	"fmt"
	"os"
	"strings"

	"github.com/facebookincubator/dns/dnsrocks/zzverif/vsched"

	"verifharness/srvfix"
)

func doReplay(path string) {
	b, err := os.ReadFile(path)
	if err != nil {
		fmt.Fprintln(os.Stderr, err)
		os.Exit(2)
	}
	var f struct {
		Replay struct {
			Part     string   `json:"part"`
			History  []string `json:"history"`
			Scenario string   `json:"scenario"`
			Choices  []int    `json:"choices"`
		} `json:"replay"`
	}
	if err := json.Unmarshal(b, &f); err != nil {
		fmt.Fprintln(os.Stderr, err)
		os.Exit(2)
	}
	if f.Replay.Part == "history" {
		p := openPair()
		for i, op := range f.Replay.History {
			if _, bad := p.step(op, i); bad != "" {
				fmt.Printf("history %v: at %s:\n%s\nVIOLATION property=C12 replay=%s\n", f.Replay.History, op, bad, path)
				os.Exit(1)
			}
		}
		fmt.Println("history passes")
		os.Exit(0)
	}
	dir := os.Getenv("TMPDIR")
	sfiles = srvfix.BuildFiles(srvfix.TmpDir(dir), 4)
	sfiles.Preopen()
	for _, sc := range scens {
		if sc.name == f.Replay.Scenario {
			body, check := buildScen(sc)
			res := vsched.RunOnce(vsched.Config{LogEvents: true, MaxSteps: 20000}, f.Replay.Choices, body)
			bad := check(res)
			fmt.Println(strings.Join(res.EventLog(), "\n"))
			fmt.Printf("scenario %s choices %v -> %v\n", sc.name, f.Replay.Choices, bad)
			if len(bad) > 0 {
				fmt.Printf("VIOLATION property=C12 replay=%s\n", path)
				os.Exit(1)
			}
			os.Exit(0)
		}
	}
	os.Exit(2)
}
