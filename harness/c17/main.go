// C17: quoting is a bijection that never emits a field separator.
// Exhaustive enumeration of byte strings up to a length bound (all bytes) and
// of strings over a "dangerous" token alphabet up to a larger bound, each run
// through the real quote.Bquote / quote.Bunquote, and (for the <=2 set) through
// the real line codec in a TXT and a generic line with both separators.
package main

import (
	"bytes"
	"fmt"
	"sync/atomic"

	"github.com/facebookincubator/dns/dnsrocks/dnsdata"
	"github.com/facebookincubator/dns/dnsrocks/dnsdata/quote"

	"verifharness/vlib"
)

var dangerous = [][]byte{
	{0x00}, {0x01}, {0x07}, {0x08}, {0x09}, {0x0a}, {0x0b}, {0x0c}, {0x0d}, {0x1b}, {0x1f}, {0x20},
	{'\\'}, {'"'}, {'\''}, {','}, {':'}, {0x7f}, {0x80}, {0xc2}, {0xa0},
	{0xe2, 0x82, 0xac}, {0xef, 0xbf, 0xbd}, {0xf0}, {0xf0, 0x9f, 0x98, 0x80}, {0xff}, {0xfe},
	{'0'}, {'7'}, {'8'}, {'9'}, {'x'}, {'u'}, {'U'}, {'n'}, {'a'}, {'*'}, {'.'}, {'5'}, {'4'},
}

type stats struct{ evals, nontrivial, lineEvals int64 }

func checkOne(r *vlib.Run, s []byte, st *stats, count bool) {
	atomic.AddInt64(&st.evals, 1)
	in := append([]byte(nil), s...)
	q := quote.Bquote(in)
	if count && !bytes.Equal(q, s) {
		atomic.AddInt64(&st.nontrivial, 1) // quoting changed the string: an escape was needed
	}
	if !bytes.Equal(in, s) {
		r.Violate(fmt.Sprintf("bquote-mutates-input/%x", s), fmt.Sprintf("Bquote modified its argument %x -> %x", s, in), map[string]string{"input_hex": fmt.Sprintf("%x", s)})
	}
	if i := bytes.IndexAny(q, ",:\n"); i >= 0 {
		r.Violate(fmt.Sprintf("separator-in-quoted/%x", s), fmt.Sprintf("Bquote(%x) = %q contains separator %q", s, q, q[i]), map[string]string{"input_hex": fmt.Sprintf("%x", s)})
	}
	u, err := quote.Bunquote(append([]byte(nil), q...))
	if err != nil || !bytes.Equal(u, s) {
		r.Violate(fmt.Sprintf("roundtrip/%x", s), fmt.Sprintf("Bunquote(Bquote(%x)=%q) = %x, err=%v", s, q, u, err), map[string]string{"input_hex": fmt.Sprintf("%x", s)})
	}
}

// lineCheck places the quoted form in data-file lines and reads it back
// through the real codec.
func lineCheck(r *vlib.Run, s []byte, st *stats) {
	q := quote.Bquote(append([]byte(nil), s...))
	for _, sep := range []string{",", ":"} {
		for _, v2 := range []bool{false, true} {
			c := new(dnsdata.Codec)
			c.Features.UseV2Keys = v2
			// TXT: value = rrhead(2+1+4+8=15 bytes for untagged) + chunks
			line := []byte("'t.example.com" + sep + string(q) + sep + "300" + sep + sep)
			atomic.AddInt64(&st.lineEvals, 1)
			m, err := c.ConvertLn(line)
			want := []byte{}
			if len(s) > 0 {
				want = append([]byte{byte(len(s))}, s...)
			}
			if err != nil || len(m) != 1 || len(m[0].Value) < 15 || !bytes.Equal(m[0].Value[15:], want) {
				r.Violate(fmt.Sprintf("line-txt/%x/sep%s", s, sep), fmt.Sprintf("line %q: err=%v records=%v want rdata %x", line, err, m, want), map[string]string{"input_hex": fmt.Sprintf("%x", s), "line": string(line)})
			}
			// generic: rdata is the raw bytes
			line = []byte(":g.example.com" + sep + "99" + sep + string(q) + sep + "300" + sep + sep)
			atomic.AddInt64(&st.lineEvals, 1)
			m, err = c.ConvertLn(line)
			if err != nil || len(m) != 1 || len(m[0].Value) < 15 || !bytes.Equal(m[0].Value[15:], s) {
				r.Violate(fmt.Sprintf("line-generic/%x/sep%s", s, sep), fmt.Sprintf("line %q: err=%v records=%v want rdata %x", line, err, m, s), map[string]string{"input_hex": fmt.Sprintf("%x", s), "line": string(line)})
			}
		}
	}
}

func main() {
	r := vlib.Start("C17")
	var st stats
	maxAll := r.Pick(2, 3)
	maxDanger := r.Pick(4, 5)

	// (1) all byte strings of length <= maxAll; sharded by first byte.
	checkOne(r, []byte{}, &st, true)
	lineCheck(r, []byte{}, &st)
	vlib.ParallelFor(256, func(b0 int) {
		buf := make([]byte, 0, 4)
		var rec func(depth int)
		rec = func(depth int) {
			checkOne(r, buf, &st, true)
			if len(buf) <= 2 {
				lineCheck(r, buf, &st)
			}
			if b0 == 0x5c && len(buf) == 2 {
				r.Sample(fmt.Sprintf("%q -> %q", buf, quote.Bquote(append([]byte(nil), buf...))))
			}
			if depth == maxAll {
				return
			}
			for b := 0; b < 256; b++ {
				buf = append(buf, byte(b))
				rec(depth + 1)
				buf = buf[:len(buf)-1]
			}
		}
		buf = append(buf, byte(b0))
		rec(1)
	})
	allCount := st.evals

	// (2) all token strings over the dangerous alphabet, length <= maxDanger.
	n := len(dangerous)
	vlib.ParallelFor(n*n, func(i int) {
		var rec func(buf []byte, depth int)
		rec = func(buf []byte, depth int) {
			checkOne(r, buf, &st, len(buf) > maxAll) // shorter ones were counted in (1)
			if depth == maxDanger {
				return
			}
			for _, t := range dangerous {
				rec(append(buf[:len(buf):len(buf)], t...), depth+1)
			}
		}
		start := append(append([]byte{}, dangerous[i/n]...), dangerous[i%n]...)
		rec(start, 2)
	})
	for _, t := range dangerous {
		checkOne(r, t, &st, len(t) > maxAll)
	}

	total := st.evals + st.lineEvals
	r.Set("evaluations", total)
	r.Set("distinct_nontrivial", st.nontrivial)
	r.Set("states", st.evals)
	r.Set("transitions", total)
	r.Set("traces_validated_against_impl", total)
	r.Set("all_bytes_max_len", maxAll)
	r.Set("all_bytes_strings", allCount)
	r.Set("dangerous_alphabet_tokens", n)
	r.Set("dangerous_max_tokens", maxDanger)
	r.Set("line_level_evaluations", st.lineEvals)
	r.Set("rule", fmt.Sprintf("every byte string of length <=%d, plus every concatenation of <=%d tokens of a %d-token dangerous alphabet (controls, backslash, quotes, separators, DEL, invalid/valid UTF-8 fragments, digits that can extend an escape); each executed on the real Bquote/Bunquote; strings of length <=2 additionally placed in TXT and generic lines with both separators and both key layouts and decoded by the real Codec.ConvertLn. states = strings enumerated; transitions = oracle evaluations; nontrivial = strings whose quoted form differs from the input (an escape is needed)", maxAll, maxDanger, n))
	r.Assume = []string{"strconv.Quote/UnquoteChar are executed, not modelled", "strings longer than the bounds and bytes outside the dangerous alphabet at length >3 are not covered"}
	r.Finish()
}
