// C05: a reload switches generations atomically and visibly.
//
// Real FBDNSDB / db.DB / cdbdriver code (instrumented) serving generation-
// stamped CDB files through a proxy DBI whose every call is a scheduling
// point. For every reload script (sequence of full / partial / failing /
// timing-out reloads) and both reload styles (CDB-like: always a new backend;
// RocksDB-like: same path catches up in place), all interleavings of two query
// threads with the reload thread within the preemption bound are explored and
// every response is checked against the generations the reloads installed.
package main

import (
	"context"
	"errors"
	"fmt"
	"os"
	"runtime"
	"sort"
	"strings"

	"github.com/facebookincubator/dns/dnsrocks/db"
	"github.com/facebookincubator/dns/dnsrocks/dnsserver"
	"github.com/facebookincubator/dns/dnsrocks/dnsserver/stats"
	"github.com/facebookincubator/dns/dnsrocks/zzverif/vsched"
	"github.com/miekg/dns"

	"verifharness/dnsfix"
	"verifharness/srvfix"
	"verifharness/vlib"
)

var files *srvfix.Files

var alphabet = []string{"full-ok", "partial-new", "partial-same", "full-missing", "full-nokey", "partial-nokey", "full-slow"}

type query struct {
	name  string
	qtype uint16
}

var queriesOf = [][]query{
	{{"example.com.", dns.TypeMX}, {"www.example.com.", dns.TypeA}},
	{{"nx.example.com.", dns.TypeA}, {"x.deleg.example.com.", dns.TypeA}},
}

type qrec struct {
	thread     int
	idx        int
	q          query
	start, end int
	stamps     []int
	nresp      int
	rcode      int
	panicked   interface{}
}

type rrec struct {
	op         string
	start, end int
	err        error
	gen        int // generation published for this reload (0: none)
	want       int // generation served if this reload succeeds
	served     int // generation the model says is served after this reload returned
	mustFail   bool
}

type run struct {
	w       *srvfix.World
	h       *dnsserver.FBDNSDB
	clock   *int
	queries []*qrec
	reloads []*rrec
	nextGen int
	// the reload thread's own sequential model of what must be served
	modelPath   string
	modelServed int
	published   map[string]int
}

type scen struct {
	script    []string
	rocksLike bool
	nq        []int // queries per query thread
}

func (sc scen) String() string {
	k := "cdb-like"
	if sc.rocksLike {
		k = "rocksdb-like"
	}
	return fmt.Sprintf("%s/%s/q%v", k, strings.Join(sc.script, ","), sc.nq)
}

func newRun(sc scen) *run {
	w := srvfix.NewWorld(files, sc.rocksLike)
	h, err := dnsserver.NewFBDNSDBBasic(dnsserver.HandlerConfig{}, dnsserver.DBConfig{Path: "P1", Driver: "proxy", ReloadTimeout: 1 << 40, ValidationKey: srvfix.ValidationKey()},
		dnsserver.CacheConfig{}, &dnsserver.DummyLogger{}, &stats.DummyStats{})
	if err != nil {
		panic(err)
	}
	h.SetDBForVerif(db.NewDBForVerif(w.OpenInitial("P1")))
	return &run{w: w, h: h, clock: new(int), nextGen: 2, modelPath: "P1", modelServed: 1, published: map[string]int{"P1": 1}}
}

func (x *run) doQuery(thread, idx int, q query) {
	rec := &qrec{thread: thread, idx: idx, q: q}
	x.queries = append(x.queries, rec)
	vsched.Yield(x.clock, "query-start", true) // real-time order marker
	rec.start = vsched.Step()
	m := new(dns.Msg)
	m.SetQuestion(q.name, q.qtype)
	w := dnsfix.NewWriter("8.8.8.8", false)
	func() {
		defer func() {
			if p := recover(); p != nil {
				if vsched.Unwinding() {
					panic(p)
				}
				rec.panicked = p
			}
		}()
		x.h.ServeDNS(dnsserver.WithMaxAnswer(context.Background(), 8), w, m)
	}()
	rec.nresp = len(w.Msgs)
	if len(w.Msgs) > 0 {
		rec.stamps = srvfix.Stamps(w.Msgs[0])
		rec.rcode = w.Msgs[0].Rcode
	}
	vsched.Yield(x.clock, "query-end", true)
	rec.end = vsched.Step()
}

func (x *run) doReload(op string) {
	rec := &rrec{op: op}
	x.reloads = append(x.reloads, rec)
	// Content is published at the path the MODEL says is current (not the one the handler
	// believes in): a handler that follows the wrong path then loads the wrong generation.
	cur := x.modelPath
	newPath := ""
	var sig dnsserver.ReloadSignal
	switch op {
	case "full-ok":
		newPath = fmt.Sprintf("P%d", x.nextGen)
		x.w.Paths[newPath] = &srvfix.Content{Gen: x.nextGen}
		x.published[newPath] = x.nextGen
		rec.gen, rec.want = x.nextGen, x.nextGen
		x.nextGen++
		sig = *dnsserver.NewFullReloadSignal(newPath)
	case "partial-new":
		x.w.Paths[cur] = &srvfix.Content{Gen: x.nextGen}
		x.published[cur] = x.nextGen
		rec.gen, rec.want = x.nextGen, x.nextGen
		x.nextGen++
		sig = *dnsserver.NewPartialReloadSignal()
	case "partial-same":
		rec.want = x.published[cur] // what the path holds (possibly published for an earlier reload that failed)
		sig = *dnsserver.NewPartialReloadSignal()
	case "full-missing":
		x.w.Paths["Pmissing"] = &srvfix.Content{Missing: true}
		rec.mustFail = true
		sig = *dnsserver.NewFullReloadSignal("Pmissing")
	case "full-nokey":
		p := fmt.Sprintf("P%dnokey", x.nextGen)
		x.w.Paths[p] = &srvfix.Content{Gen: x.nextGen, NoKey: true}
		rec.gen, rec.mustFail = x.nextGen, true
		x.nextGen++
		sig = *dnsserver.NewFullReloadSignal(p)
	case "partial-nokey":
		x.w.Paths[cur] = &srvfix.Content{Gen: x.nextGen, NoKey: true}
		x.published[cur] = x.nextGen
		rec.gen, rec.mustFail = x.nextGen, true
		x.nextGen++
		sig = *dnsserver.NewPartialReloadSignal()
	case "full-slow":
		newPath = fmt.Sprintf("P%dslow", x.nextGen)
		p := newPath
		x.w.Paths[p] = &srvfix.Content{Gen: x.nextGen, Slow: true}
		x.published[p] = x.nextGen
		rec.gen, rec.want = x.nextGen, x.nextGen
		x.nextGen++
		// the environment completes the slow open at some point (ok), racing the reload timeout
		vsched.GoEnv("completer", func() {
			vsched.SyncOp(vsched.OpEnv, x.w, "slow-reload-completes", true, nil)
			x.w.Release[p] = "ok"
		})
		sig = *dnsserver.NewFullReloadSignal(p)
	default:
		panic(op)
	}
	vsched.Touch(x.w, "publish", true)
	vsched.Yield(x.clock, "reload-start", true)
	rec.start = vsched.Step()
	rec.err = x.h.Reload(sig)
	if rec.err == nil {
		x.modelServed = rec.want
		if newPath != "" {
			x.modelPath = newPath
		}
	}
	rec.served = x.modelServed
	vsched.Yield(x.clock, "reload-end", true)
	rec.end = vsched.Step()
}

func build(sc scen) (func(), func(*vsched.Result) []string) {
	var x *run
	body := func() {
		x = newRun(sc)
		var ts []*vsched.Thread
		ts = append(ts, vsched.GoNamed("R", false, func() {
			for _, op := range sc.script {
				x.doReload(op)
			}
		}))
		for t, n := range sc.nq {
			t, n := t, n
			ts = append(ts, vsched.GoNamed(fmt.Sprintf("Q%d", t+1), false, func() {
				for i := 0; i < n; i++ {
					x.doQuery(t, i, queriesOf[t][i])
				}
			}))
		}
		vsched.Join(ts...)
		for p := range x.w.Release {
			_ = p
		}
		for p, c := range x.w.Paths {
			if c.Slow && x.w.Release[p] == "" {
				x.w.Release[p] = "ok"
			}
		}
		vsched.Quiesce()
		// one more query after everything returned: must see the final generation
		x.doQuery(9, 0, query{"www.example.com.", dns.TypeA})
	}
	check := func(res *vsched.Result) []string {
		var bad []string
		for _, p := range res.Problems() {
			bad = append(bad, "scheduler:"+p)
		}
		if x == nil || len(res.Problems()) > 0 {
			return bad
		}
		bad = append(bad, x.w.Bad...)
		// model: generation served after each reload of the script (computed by the reload thread itself)
		served := []int{1}
		for _, r := range x.reloads {
			if r.mustFail && r.err == nil {
				bad = append(bad, "reload-succeeded-unexpectedly:"+r.op)
			}
			if !r.mustFail && r.err != nil && !errors.Is(r.err, db.ErrReloadTimeout) {
				bad = append(bad, "reload-failed-unexpectedly:"+r.op)
			}
			served = append(served, r.served)
		}
		last := map[int]int{}
		for _, q := range x.queries {
			tag := fmt.Sprintf("%s/%s", q.q.name, dns.TypeToString[q.q.qtype])
			if q.panicked != nil {
				bad = append(bad, "query-panic:"+tag)
				continue
			}
			if q.nresp != 1 {
				bad = append(bad, fmt.Sprintf("query-got-%d-responses:%s", q.nresp, tag))
				continue
			}
			if len(q.stamps) == 0 {
				bad = append(bad, "no-stamp-in-response:"+tag)
				continue
			}
			if len(q.stamps) > 1 {
				bad = append(bad, "mixed-generations-in-one-response:"+tag) // A
			}
			lo, hi := 0, 0
			for i, r := range x.reloads {
				if r.end != 0 && r.end < q.start {
					lo = i + 1
				}
				if r.start != 0 && r.start < q.end {
					hi = i + 1
				}
			}
			allowed := map[int]bool{}
			for j := lo; j <= hi; j++ {
				allowed[served[j]] = true
			}
			for _, g := range q.stamps {
				if !allowed[g] {
					kind := "stale-generation-after-reload-returned" // V
					if g > served[hi] || !contains(served, g) {
						// F: name the reload whose generation leaked and how it failed
						kind = "generation-of-failed-or-unfinished-reload-served"
						for _, r := range x.reloads {
							if r.gen == g {
								why := "unfinished"
								switch {
								case errors.Is(r.err, db.ErrReloadTimeout):
									why = "timeout"
								case errors.Is(r.err, db.ErrValidationKeyNotFound):
									why = "validation"
								case r.err != nil:
									why = "error"
								}
								kind += ":" + r.op + ":" + why
							}
						}
					}
					bad = append(bad, kind+":"+tag)
				}
			}
			if prev, ok := last[q.thread]; ok && q.stamps[0] < prev {
				bad = append(bad, "generation-went-backwards:"+tag) // M
			}
			last[q.thread] = q.stamps[len(q.stamps)-1]
		}
		sort.Strings(bad)
		return dedup(bad)
	}
	return body, check
}

func contains(a []int, x int) bool {
	for _, y := range a {
		if x == y {
			return true
		}
	}
	return false
}

func dedup(a []string) []string {
	var o []string
	for i, x := range a {
		if i == 0 || x != a[i-1] {
			o = append(o, x)
		}
	}
	return o
}

func scenarios(maxLen int, nq []int) []scen {
	var out []scen
	var rec func(prefix []string)
	rec = func(prefix []string) {
		if len(prefix) > 0 {
			for _, rl := range []bool{false, true} {
				out = append(out, scen{script: append([]string{}, prefix...), rocksLike: rl, nq: nq})
			}
		}
		if len(prefix) == maxLen {
			return
		}
		for _, a := range alphabet {
			rec(append(prefix, a))
		}
	}
	rec(nil)
	sort.SliceStable(out, func(i, j int) bool { return len(out[i].script) < len(out[j].script) })
	return out
}

func main() {
	runtime.GOMAXPROCS(1)
	r := vlib.Start("C05")
	dir, clean := vlib.Scratch("c05")
	defer clean()
	dnsfix.Quiet(dir)
	files = srvfix.BuildFiles(srvfix.TmpDir(dir), 5)
	files.Preopen()

	if p := replayArg(); p != "" {
		doReplay(p)
		return
	}
	bound := r.Pick(2, 3)
	// quick: every single-reload script plus the two-reload scripts "full-*, partial-new" (does the
	// partial reload follow the path last switched to, and only that?); one query thread (two
	// queries) x reload thread. thorough: every script of length <=2 and a second query thread.
	var scs []scen
	for _, sc := range scenarios(2, []int{2}) {
		if r.Thorough() || len(sc.script) == 1 || (sc.script[1] == "partial-new" && strings.HasPrefix(sc.script[0], "full-")) {
			scs = append(scs, sc)
		}
	}
	if r.Thorough() {
		scs = append(scs, scenarios(1, []int{2, 1})...)
	}
	idx, n, isShard := r.Shard()
	if !isShard {
		// part 0: reload histories on the real backends (pass-through mode, parallel)
		runtime.GOMAXPROCS(runtime.NumCPU())
		realHistories(r, buildTemplates(dir), r.Pick(3, 4))
		runtime.GOMAXPROCS(1)
		r.ForkShards(vlib.Workers())
	} else {
		for u := idx; u < len(scs); u += n {
			sc := scs[u]
			outcomes := map[string]bool{}
			st := vsched.Explore(vsched.Config{Bound: bound, MaxSteps: 20000}, func() (func(), func(*vsched.Result)) {
				body, check := build(sc)
				return body, func(res *vsched.Result) {
					bad := check(res)
					outcomes[strings.Join(bad, "+")] = true
					for _, b := range bad {
						fp := fmt.Sprintf("sched/%s/%s", sc, b)
						if !r.Has(fp) {
							body2, check2 := build(sc)
							lr := vsched.RunOnce(vsched.Config{LogEvents: true, MaxSteps: 20000}, res.Choices, body2)
							r.Violate(fp, fmt.Sprintf("scenario %s: %v (all problems of this execution: %v)", sc, b, check2(lr)),
								map[string]interface{}{"scenario": sc.String(), "script": sc.script, "rocksLike": sc.rocksLike, "nq": sc.nq, "choices": res.Choices, "events": lr.EventLog()})
						}
					}
				}
			})
			r.Add("schedule_executions", st.Execs)
			r.Add("schedule_steps", st.Transitions)
			r.Add("schedule_pruned_subtrees", st.Pruned)
			r.Add("schedule_distinct_states", st.States)
			r.Add("scenarios", 1)
			r.Add("distinct_outcomes", int64(len(outcomes)))
			if st.Capped || st.BoundCompleted < bound {
				r.Exhaustive = false
			}
			if os.Getenv("VERIF_DEBUG") != "" {
				fmt.Fprintf(os.Stderr, "%s: %+v outcomes=%d\n", sc, st, len(outcomes))
			}
			r.Sample(map[string]interface{}{"scenario": sc.String(), "executions": st.Execs, "distinct_states": st.States, "outcomes": keys(outcomes)})
		}
		r.Finish()
	}
	r.Set("schedule_preemption_bound", bound)
	r.Set("states", r.Int("schedule_distinct_states")+r.Int("real_histories"))
	r.Set("transitions", r.Int("schedule_steps"))
	r.Set("evaluations", r.Int("schedule_executions")+r.Int("real_histories"))
	r.Set("traces_validated_against_impl", r.Int("schedule_executions")+r.Int("real_histories"))
	r.Set("distinct_nontrivial", r.Int("distinct_outcomes"))
	r.Set("rule", "part 0: every sequence of <=3 (quick) / <=4 (thorough) ops over {full reload to path A/B, primary publishes a new generation at A/B, partial reload} replayed on the real handler over real CDB / RocksDB v1 / v2 backends (real secondary catch-up against a real primary), the generation served checked after every op. schedules: for every reload script over {"+strings.Join(alphabet, ",")+"} up to the length bound and both reload styles: every interleaving within the preemption bound of the reload thread with two query threads (MX+A; NXDOMAIN/referral) on the real instrumented FBDNSDB/db.DB/cdbdriver code over generation-stamped CDB files behind a proxy DBI (each backend call a scheduling point); states = distinct state signatures at choice points; evaluations = complete executions checked; nontrivial = distinct (scenario, verdict-set) outcomes. Oracle: each response's generation stamps are a single generation (A), lie between the generation of the last reload that returned before the query started and that of the last reload started before it ended, failed reloads excluded (V, F), never decrease per thread (M); partial reloads act on the path last switched to (P); every query gets exactly one response")
	r.Assume = []string{"RocksDB-like in-place catch-up is modelled by a proxy that switches which real CDB generation file it reads; real RocksDB secondary catch-up is not executed here",
		"schedules beyond the preemption bound, more than two query threads and scripts beyond the length bound are outside the claim"}
	r.Finish()
}

func keys(m map[string]bool) []string {
	var o []string
	for k := range m {
		o = append(o, k)
	}
	sort.Strings(o)
	return o
}

func replayArg() string {
	for i, a := range os.Args {
		if a == "--replay" && i+1 < len(os.Args) {
			return os.Args[i+1]
		}
	}
	return ""
}
