package main

// Part 0 of C05: reload histories on the REAL backends (no proxy, no scheduler
// active: the instrumented code runs in pass-through mode). It covers what the
// proxy-based schedule exploration cannot: the drivers' own Reload logic
// (which path a RocksDB driver believes it serves, in-place catch-up against a
// real primary, re-opening a CDB file that was replaced).
//
// Every sequence, up to a length bound, of
//   sw-A / sw-B   full reload to path A / B
//   pub-A / pub-B the primary publishes a new generation at path A / B
//                 (CDB: file replaced by rename; RocksDB: updater applies a diff and closes)
//   partial       partial reload
// is replayed on a fresh real handler; after every op the generation served
// (read from the www A record) must be the model's.

import (
	"fmt"
	"os"
	"os/exec"
	"path/filepath"
	"strings"
	"sync/atomic"

	"github.com/facebookincubator/dns/dnsrocks/dnsdata/rdb"
	"github.com/facebookincubator/dns/dnsrocks/dnsserver"
	"github.com/miekg/dns"

	"verifharness/dnsfix"
	"verifharness/srvfix"
	"verifharness/vlib"
)

var realOps = []string{"sw-A", "sw-B", "pub-A", "pub-B", "partial"}

func wwwLine(g int) string { return fmt.Sprintf("+www.example.com,192.0.2.%d,300,,", g) }

func realData(g int) []byte {
	return []byte(fmt.Sprintf(`Zexample.com,ns.example.com,hostmaster.example.com,1,7200,1800,604800,120,300,,
&example.com,198.51.100.1,ns.example.com,3600,,
%s
`, wwwLine(g)))
}

type realTemplates struct {
	dir  string
	tmpl map[dnsfix.Backend]map[int]string // backend -> generation -> compiled template (gen 1 and 2)
}

func buildTemplates(dir string) *realTemplates {
	t := &realTemplates{dir: dir, tmpl: map[dnsfix.Backend]map[int]string{}}
	for _, b := range dnsfix.Backends {
		t.tmpl[b] = map[int]string{}
		for g := 1; g <= 2; g++ {
			p, err := dnsfix.Compile(dir, b, realData(g))
			if err != nil {
				panic(err)
			}
			t.tmpl[b][g] = p
		}
	}
	return t
}

var histSeq int64

func copyTree(src, dst string) {
	if out, err := exec.Command("cp", "-r", src, dst).CombinedOutput(); err != nil {
		panic(fmt.Sprintf("cp: %v %s", err, out))
	}
}

// runRealHistory replays hist on backend b; returns "" or a description of the first disagreement.
func runRealHistory(t *realTemplates, b dnsfix.Backend, hist []string) string {
	base := filepath.Join(t.dir, fmt.Sprintf("h%d", atomic.AddInt64(&histSeq, 1)))
	os.MkdirAll(base, 0o755)
	defer os.RemoveAll(base)
	path := map[string]string{"A": filepath.Join(base, "A"), "B": filepath.Join(base, "B")}
	content := map[string]int{"A": 1, "B": 2}
	copyTree(t.tmpl[b][1], path["A"])
	copyTree(t.tmpl[b][2], path["B"])
	h, err := dnsfix.OpenHandler(b, path["A"], dnsfix.HandlerOpts{})
	if err != nil {
		return "open: " + err.Error()
	}
	defer h.Close()
	cur, served, next := "A", 1, 3
	for i, op := range hist {
		switch op {
		case "sw-A", "sw-B":
			x := op[3:]
			if err := h.H.Reload(*dnsserver.NewFullReloadSignal(path[x])); err != nil {
				return fmt.Sprintf("step %d %s: reload failed: %v", i, op, err)
			}
			cur, served = x, content[x]
		case "partial":
			if err := h.H.Reload(*dnsserver.NewPartialReloadSignal()); err != nil {
				return fmt.Sprintf("step %d %s: reload failed: %v", i, op, err)
			}
			served = content[cur]
		case "pub-A", "pub-B":
			x := op[4:]
			old := content[x]
			content[x] = next
			next++
			if b == dnsfix.CDB {
				p, err := dnsfix.Compile(base, b, realData(content[x]))
				if err != nil {
					return "publish compile: " + err.Error()
				}
				if err := os.Rename(p, path[x]); err != nil {
					return "publish rename: " + err.Error()
				}
			} else {
				u, err := rdb.NewUpdater(path[x])
				if err != nil {
					return "publish open: " + err.Error()
				}
				diff := "-" + wwwLine(old) + "\n+" + wwwLine(content[x]) + "\n"
				err = u.ApplyDiff(strings.NewReader(diff), dnsfix.Serial)
				cerr := u.Close()
				if err != nil || cerr != nil {
					return fmt.Sprintf("publish apply: %v %v", err, cerr)
				}
			}
		}
		res := h.Serve(dnsfix.Query("www.example.com", dns.TypeA), "8.8.8.8", false, 8)
		if len(res.Msgs) != 1 {
			return fmt.Sprintf("step %d %s: %s", i, op, dnsfix.CanonResult(res))
		}
		st := srvfix.Stamps(res.Msgs[0])
		if len(st) != 1 || st[0] != served {
			return fmt.Sprintf("step %d %s: served generation %v, want %d (path %s holds %d)", i, op, st, served, cur, content[cur])
		}
	}
	return ""
}

func realHistories(r *vlib.Run, t *realTemplates, maxLen int) {
	var hists [][]string
	var rec func(h []string)
	rec = func(h []string) {
		if len(h) > 0 {
			hists = append(hists, append([]string{}, h...))
		}
		if len(h) == maxLen {
			return
		}
		for _, op := range realOps {
			rec(append(h, op))
		}
	}
	rec(nil)
	type job struct {
		b dnsfix.Backend
		h []string
	}
	var jobs []job
	for _, b := range dnsfix.Backends {
		for _, h := range hists {
			jobs = append(jobs, job{b, h})
		}
	}
	bad := make([]string, len(jobs))
	vlib.ParallelFor(len(jobs), func(i int) { bad[i] = runRealHistory(t, jobs[i].b, jobs[i].h) })
	failing := map[string]bool{}
	for i, j := range jobs {
		if bad[i] != "" {
			failing[j.b.String()+"/"+strings.Join(j.h, ",")] = true
		}
	}
	nontrivial := 0
	for i, j := range jobs {
		if strings.Contains(strings.Join(j.h, ","), "pub-") {
			nontrivial++
		}
		if bad[i] == "" {
			continue
		}
		// minimal: no proper prefix fails (ops are replayed in order, so a failing prefix fails first)
		minimal := true
		for k := 1; k < len(j.h); k++ {
			if failing[j.b.String()+"/"+strings.Join(j.h[:k], ",")] {
				minimal = false
			}
		}
		if minimal {
			r.Violate("realhist/"+j.b.String()+"/"+strings.Join(j.h, ","), bad[i], map[string]interface{}{"part": "real-history", "backend": j.b.String(), "history": j.h})
		}
	}
	r.Add("real_histories", int64(len(jobs)))
	r.Add("real_histories_nontrivial", int64(nontrivial))
	r.Sample(map[string]interface{}{"part": "real-history", "backend": "rdb-v2", "history": []string{"sw-B", "pub-A", "sw-A"}})
}
