package main

import (
	"encoding/json"
	"fmt"
	"os"
	"strings"

	"github.com/facebookincubator/dns/dnsrocks/zzverif/vsched"
)

func doReplay(path string) {
	b, err := os.ReadFile(path)
	if err != nil {
		fmt.Fprintln(os.Stderr, err)
		os.Exit(2)
	}
	var f struct {
		Replay struct {
			Script    []string `json:"script"`
			RocksLike bool     `json:"rocksLike"`
			NQ        []int    `json:"nq"`
			Choices   []int    `json:"choices"`
		} `json:"replay"`
	}
	if err := json.Unmarshal(b, &f); err != nil {
		fmt.Fprintln(os.Stderr, err)
		os.Exit(2)
	}
	sc := scen{script: f.Replay.Script, rocksLike: f.Replay.RocksLike, nq: f.Replay.NQ}
	body, check := build(sc)
	res := vsched.RunOnce(vsched.Config{LogEvents: true, MaxSteps: 20000}, f.Replay.Choices, body)
	bad := check(res)
	fmt.Println(strings.Join(res.EventLog(), "\n"))
	fmt.Printf("scenario %s choices %v -> %v\n", sc, f.Replay.Choices, bad)
	if len(bad) > 0 {
		fmt.Printf("VIOLATION property=C05 replay=%s\n", path)
		os.Exit(1)
	}
	os.Exit(0)
}
