package main

// Part (c): concurrent counter updates, samples and exports on the real metrics.Stats,
// every interleaving within the preemption bound.

import (
	"fmt"
	"sort"
	"strconv"
	"strings"

	"github.com/anishathalye/porcupine"
	"github.com/facebookincubator/dns/dnsrocks/metrics"
	"github.com/facebookincubator/dns/dnsrocks/zzverif/vsched"
	"github.com/facebookincubator/dns/dnsrocks/zzverif/vtime"
)

type concScen struct {
	name    string
	threads [][]string // "inc a" | "by a 5" | "set a 10" | "rst a" | "add 3" | "get"
	pureInc bool       // only increments: the final counters are the sums
	weight  int        // rough relative cost (shard balancing only)
}

var concScens = []concScen{
	{"2-incrementers-x-get", [][]string{{"inc a", "inc b"}, {"inc a", "by b 5"}, {"get"}}, true, 8},
	{"reset-x-increments-x-get", [][]string{{"by a 2", "set a 10"}, {"inc a"}, {"get"}}, false, 6},
	{"samples+counters-x-get", [][]string{{"add 1", "inc a"}, {"add 2", "inc a"}, {"get"}}, true, 45},
	{"3-updaters-x-get", [][]string{{"inc a"}, {"by a 3"}, {"set a 10"}, {"get"}}, false, 45},
	{"incrementer-x-2-gets-x-reset", [][]string{{"inc a", "inc b"}, {"rst a"}, {"get", "get"}}, false, 10},
}

var concKeys = []string{"a", "b"}

// counter object: state and snapshot
type cstate struct {
	v   [2]int64
	has [2]bool
}

func (c cstate) String() string {
	var p []string
	for i, k := range concKeys {
		if c.has[i] {
			p = append(p, fmt.Sprintf("%s=%d", k, c.v[i]))
		}
	}
	return "{" + strings.Join(p, " ") + "}"
}

type cin struct {
	op  string // inc by set rst get
	key int
	val int64
}

var counterModel = porcupine.Model{
	Init: func() interface{} { return cstate{} },
	Step: func(state, input, output interface{}) (bool, interface{}) {
		s, in := state.(cstate), input.(cin)
		switch in.op {
		case "inc":
			s.v[in.key]++
			s.has[in.key] = true
		case "by":
			s.v[in.key] += in.val
			s.has[in.key] = true
		case "set":
			s.v[in.key] = in.val
			s.has[in.key] = true
		case "rst":
			s.v[in.key] = 0
			s.has[in.key] = true
		case "get":
			return output.(cstate) == s, s
		}
		return true, s
	},
	DescribeOperation: func(in, out interface{}) string { return fmt.Sprintf("%v -> %v", in, out) },
}

// window object: state = sorted samples "1,2"; snapshot = present,min,max,avg
type wsnap struct {
	present       bool
	min, max, avg int64
}

type win struct {
	op  string // add get
	val int64
}

func wstateSnap(s string) wsnap {
	if s == "" {
		return wsnap{}
	}
	var R []int64
	for _, f := range strings.Split(s, ",") {
		n, _ := strconv.ParseInt(f, 10, 64)
		R = append(R, n)
	}
	mn, mx, av := exported(R)
	return wsnap{true, mn, mx, av}
}

var windowModel = porcupine.Model{
	Init: func() interface{} { return "" },
	Step: func(state, input, output interface{}) (bool, interface{}) {
		s, in := state.(string), input.(win)
		if in.op == "add" {
			var R []int64
			if s != "" {
				for _, f := range strings.Split(s, ",") {
					n, _ := strconv.ParseInt(f, 10, 64)
					R = append(R, n)
				}
			}
			R = append(R, in.val)
			sort.Slice(R, func(i, j int) bool { return R[i] < R[j] })
			p := make([]string, len(R))
			for i, x := range R {
				p[i] = strconv.FormatInt(x, 10)
			}
			return true, strings.Join(p, ",")
		}
		return output.(wsnap) == wstateSnap(s), s
	},
}

type concRun struct {
	cops   []porcupine.Operation
	wops   []porcupine.Operation
	sums   [2]int64
	final  map[string]int64
	log    []string
	badGet string
}

func splitGet(g map[string]int64) (cstate, wsnap, string) {
	var c cstate
	var w wsnap
	bad := ""
	ks := make([]string, 0, len(g))
	for k := range g {
		ks = append(ks, k)
	}
	sort.Strings(ks)
	nw := 0
	for _, k := range ks {
		switch k {
		case "a":
			c.v[0], c.has[0] = g[k], true
		case "b":
			c.v[1], c.has[1] = g[k], true
		case winKey + ".min":
			w.min = g[k]
			nw++
		case winKey + ".max":
			w.max = g[k]
			nw++
		case winKey + ".avg":
			w.avg = g[k]
			nw++
		default:
			bad = "unexpected key " + k
		}
	}
	if nw == 3 {
		w.present = true
	} else if nw != 0 {
		bad = fmt.Sprintf("only %d of the three window keys are exported", nw)
	}
	return c, w, bad
}

func buildConc(sc concScen) (func(), func(*vsched.Result) []winFailure) {
	run := &concRun{}
	body := func() {
		vtime.MaxTicks = 2
		st := metrics.NewStats()
		vsched.SetGoDaemon(true) // the window's cleaner may be started by any thread
		var lt int64             // logical time: one thread runs at a time, so this orders calls and returns exactly
		// (the clock is a dependency object, so two schedule prefixes with equal state signatures have equal timestamps)
		tick := func() int64 { vsched.Touch(&lt, "logical-clock", true); lt++; return lt }
		doGet := func(client int) {
			call := tick()
			g := st.Get()
			ret := tick()
			c, w, bad := splitGet(g)
			if bad != "" && run.badGet == "" {
				run.badGet = bad + ": " + fmtMap(g)
			}
			run.cops = append(run.cops, porcupine.Operation{ClientId: client, Input: cin{op: "get"}, Call: call, Output: c, Return: ret})
			run.wops = append(run.wops, porcupine.Operation{ClientId: client, Input: win{op: "get"}, Call: call, Output: w, Return: ret})
			run.log = append(run.log, fmt.Sprintf("[%d,%d] T%d get -> %s", call, ret, client, fmtMap(g)))
		}
		var ts []*vsched.Thread
		for i, ops := range sc.threads {
			i, ops := i, ops
			ts = append(ts, vsched.GoNamed(fmt.Sprintf("T%d", i), false, func() {
				for _, o := range ops {
					f := strings.Fields(o)
					if f[0] == "get" {
						doGet(i)
						continue
					}
					call := tick()
					if f[0] == "add" {
						v, _ := strconv.ParseInt(f[1], 10, 64)
						st.AddSample(winKey, v)
						ret := tick()
						run.wops = append(run.wops, porcupine.Operation{ClientId: i, Input: win{op: "add", val: v}, Call: call, Return: ret})
						run.log = append(run.log, fmt.Sprintf("[%d,%d] T%d %s", call, ret, i, o))
						continue
					}
					k := 0
					if f[1] == "b" {
						k = 1
					}
					in := cin{op: f[0], key: k}
					switch f[0] {
					case "inc":
						st.IncrementCounter(f[1])
						run.sums[k]++
					case "by":
						in.val, _ = strconv.ParseInt(f[2], 10, 64)
						st.IncrementCounterBy(f[1], in.val)
						run.sums[k] += in.val
					case "set":
						in.val, _ = strconv.ParseInt(f[2], 10, 64)
						st.ResetCounterTo(f[1], in.val)
					case "rst":
						st.ResetCounter(f[1])
					}
					ret := tick()
					run.cops = append(run.cops, porcupine.Operation{ClientId: i, Input: in, Call: call, Return: ret})
					run.log = append(run.log, fmt.Sprintf("[%d,%d] T%d %s", call, ret, i, o))
				}
			}))
		}
		vsched.Join(ts...)
		// the final export, after everything has returned
		doGet(len(sc.threads))
		run.final = st.Get()
	}
	check := func(res *vsched.Result) []winFailure {
		var fails []winFailure
		for _, p := range res.Problems() {
			fails = append(fails, winFailure{kind: "sched/" + schedProblemClass(p), detail: p})
		}
		if res.Bad() {
			return fails
		}
		hist := strings.Join(run.log, "; ")
		if run.badGet != "" {
			fails = append(fails, winFailure{kind: "export-malformed", detail: run.badGet})
		}
		if sc.pureInc {
			for i, k := range concKeys {
				if run.final[k] != run.sums[i] {
					fails = append(fails, winFailure{kind: "sum-mismatch", detail: fmt.Sprintf("final %s=%d but the increments sum to %d; history: %s", k, run.final[k], run.sums[i], hist)})
				}
			}
		}
		if !porcupine.CheckOperations(counterModel, run.cops) {
			fails = append(fails, winFailure{kind: "not-linearizable/counters", detail: "no sequential order of the counter operations explains every Get snapshot and the final counters; history: " + hist})
		}
		if !porcupine.CheckOperations(windowModel, run.wops) {
			fails = append(fails, winFailure{kind: "not-linearizable/window", detail: "no sequential order of the AddSample calls explains the exported min/max/avg of every Get; history: " + hist})
		}
		return fails
	}
	return body, check
}
