// C19: exported statistics and the query log tell the truth.
//
// (a) sliding window: every timed history over {Add, Advance 25/35/61 s, Get} up to a
//     length bound, each ONE execution of the real metrics.Stats under the scheduler with a
//     virtual clock driving the real cleaner goroutine; plus all interleavings (bounded
//     preemptions) of two adders, an exporter and the cleaner handling a due tick;
// (b) counters and logger against the response actually sent, for every response class,
//     on CDB / RocksDB v1 / RocksDB v2, cache off and on, healthy and failing writer;
// (c) concurrent counter updates and exports on the real metrics.Stats: linearizable
//     snapshots (porcupine), sums, happens-before race check, deadlocks, panics.
package main

import (
	"bufio"
	"fmt"
	"os"
	"path/filepath"
	"runtime"
	"sort"
	"strings"

	"github.com/facebookincubator/dns/dnsrocks/zzverif/vsched"

	"verifharness/dnsfix"
	"verifharness/vlib"
)

const histPrefixLen = 3 // window histories are sharded by their first three events

type unit struct {
	kind   string // whist | wsched | counters | conc
	idx    int
	weight int // rough relative cost, for balancing the shards only
}

// assign distributes the units over n shards (longest-processing-time-first on the rough
// weights); it is a pure function of n, so parent and children agree.
func assign(n int) [][]unit {
	us := units()
	sort.SliceStable(us, func(i, j int) bool { return us[i].weight > us[j].weight })
	out := make([][]unit, n)
	load := make([]int, n)
	for _, u := range us {
		best := 0
		for i := 1; i < n; i++ {
			if load[i] < load[best] {
				best = i
			}
		}
		out[best] = append(out[best], u)
		load[best] += u.weight
	}
	return out
}

func units() []unit {
	var us []unit
	n := 1
	for i := 0; i < histPrefixLen; i++ {
		n *= len(winAlphabet)
	}
	for i := 0; i < n; i++ {
		// histories that start with advances after an Add are the expensive ones
		w, x, seenAdd := 2, i, false
		var pre [histPrefixLen]byte
		for k := histPrefixLen - 1; k >= 0; k-- {
			pre[k] = winAlphabet[x%len(winAlphabet)]
			x /= len(winAlphabet)
		}
		for _, e := range pre {
			if e == 'A' {
				seenAdd = true
			} else if seenAdd && evDur(e) > 0 {
				w += 2
			}
		}
		us = append(us, unit{"whist", i, w})
	}
	for i := range dnsfix.Backends {
		us = append(us, unit{"counters", i, 30})
	}
	for i := range wsScens {
		us = append(us, unit{"wsched", i, 12})
	}
	for i, sc := range concScens {
		us = append(us, unit{"conc", i, sc.weight})
	}
	return us
}

func main() {
	runtime.GOMAXPROCS(1)
	r := vlib.Start("C19")
	dir, clean := vlib.Scratch("c19")
	defer clean()
	dnsfix.Quiet(dir)
	us := units()
	idx, n, isShard := r.Shard()
	if isShard {
		for _, u := range assign(n)[idx] {
			switch u.kind {
			case "whist":
				runWhistUnit(r, u.idx)
			case "wsched":
				runWschedUnit(r, wsScens[u.idx])
			case "counters":
				runCounters(r, dir, dnsfix.Backends[u.idx])
			case "conc":
				runConcUnit(r, concScens[u.idx])
			}
		}
		clean()
		r.Finish()
	}
	failDir := filepath.Join(dir, "whist-failures")
	os.MkdirAll(failDir, 0o755)
	// few processes (start-up is expensive), many units each
	nsh := vlib.Workers()
	if nsh > len(us) {
		nsh = len(us)
	}
	r.ForkShards(nsh, "C19_FAILDIR="+failDir)
	mergeWindowFailures(r, failDir)

	maxLen := r.Pick(6, 8)
	bound := r.Pick(2, 3)
	r.Set("window_history_max_len", maxLen)
	r.Set("schedule_preemption_bound", bound)
	r.Set("states", r.Int("window_history_prefixes")+r.Int("schedule_distinct_states"))
	r.Set("transitions", r.Int("window_sched_steps")+r.Int("schedule_steps")+r.Int("counter_queries_served"))
	ev := r.Int("window_observations") + r.Int("counter_oracle_evaluations") + r.Int("schedule_executions")
	r.Set("evaluations", ev)
	r.Set("traces_validated_against_impl", r.Int("window_histories")+r.Int("counter_queries_served")+r.Int("schedule_executions"))
	r.Set("distinct_nontrivial", r.Int("window_histories_with_expiry")+r.Int("counter_nontrivial")+r.Int("schedule_distinct_states"))
	r.Set("rule", fmt.Sprintf("(a) every sequence of exactly %d events over {Add(next distinct value), Get, Advance 25 s, Advance 35 s, Advance 61 s}, each run with three value sequences (1,2,3,..; -1,-2,-3,..; 0,20,-1,40,-2,..: all-negative windows and windows holding a genuine zero) (all shorter histories are its prefixes and are judged at every event), one execution each of the real NewStats/AddSample/Get with the real cleaner goroutine under the virtual clock, advanced in 1-second steps with the due tick delivered and the cleaner pass completed after each; the window content is judged after every event and every second against a list of (value, expiry): live <= reported <= live + expired-not-yet-passed, nothing never added, min/max/avg of Get = those of the content; failing histories are reduced to the minimal ones (no proper subsequence fails the same way). non-trivial = histories in which at least one sample expires (window_mixed_passes counts cleaner passes that must drop an expired sample while keeping a live one). Plus all interleavings within %d preemptions of {Add, Add, Get, cleaner with a due tick} in two set-ups. "+
		"(b) %d names x %d types x %d clients x EDNS variants (+ an unpackable name), each served 5 times (cache off; cache off with failing writer; cache on first, second; cache on with failing writer) on each of CDB, RocksDB v1, RocksDB v2, plus a cache-expiry sequence under the virtual clock; counter deltas and logger calls judged against the wire form of the response written; non-trivial = served queries whose class is not REFUSED/nothing-sent. "+
		"(c) all interleavings within %d preemptions of %d thread sets over IncrementCounter/IncrementCounterBy/ResetCounter(To)/AddSample/Get on the real metrics.Stats: counters and window snapshots linearizable (porcupine; counters and windows are two objects, Get reads them one after the other), sums, vector-clock race check on Stats.values/Stats.windows/slidingWindow.samples, deadlock, panic. states = history prefixes + distinct schedule state signatures.",
		maxLen, bound, len(cNames), len(cTypes), len(cClients), bound, len(concScens)))
	r.Assume = []string{
		"the cleaner's tick and pass for each elapsed second complete before the next harness event (1-second steps with Settle): ticks dropped by a stalled cleaner are not explored in (a)-histories, only in the schedule part",
		"a sample whose expiry instant equals the observation instant may or may not be reported (the code keeps it; the statement does not say)",
		"Get is judged as two atomic reads (counters, then windows), not one: the statement only promises sums",
		"only three location classes are exercised (ecs, resolver, empty); default/fallback_default need FB-style location ids",
		"schedules beyond the preemption bound and weak-memory behaviours are not covered",
	}
	clean()
	r.Finish()
}

// seenKind reports whether fails already holds a failure of f's kind at the same event.
func seenKind(fails []winFailure, f winFailure) bool {
	for _, g := range fails {
		if g.kind == f.kind && g.upto == f.upto {
			return true
		}
	}
	return false
}

// ---- (a) histories: one shard unit = all histories with a given 3-event prefix ----

func runWhistUnit(r *vlib.Run, unitIdx int) {
	maxLen := r.Pick(6, 8)
	na := len(winAlphabet)
	h := make([]byte, maxLen)
	x := unitIdx
	for i := histPrefixLen - 1; i >= 0; i-- {
		h[i] = winAlphabet[x%na]
		x /= na
	}
	digits := make([]int, maxLen) // odometer over the free positions
	failSet := map[string]string{}
	var order []string
	var nHist, nObs, nSteps, nExp, nMixedHist, nMixedPasses, nPrefixes, nGets int64
	for {
		for i := histPrefixLen; i < maxLen; i++ {
			h[i] = winAlphabet[digits[i]]
		}
		var fails []winFailure
		var info histInfo
		for vm := range valueMaps {
			fs, inf := runWindowHistory(h, vm)
			for _, f := range fs {
				if vm > 0 {
					if f.kind == "export-mismatch" || !seenKind(fails, f) {
						f.kind += "@" + valueMaps[vm].name
					} else {
						continue // same verdict as with the default values
					}
				}
				fails = append(fails, f)
			}
			info.observations += inf.observations
			info.steps += inf.steps
			info.gets += inf.gets
			if vm == 0 {
				info.dropPasses, info.mixedPasses = inf.dropPasses, inf.mixedPasses
			}
		}
		nHist++
		nObs += info.observations
		nSteps += info.steps
		nGets += int64(info.gets)
		if info.dropPasses > 0 {
			nExp++
		}
		if info.mixedPasses > 0 {
			nMixedHist++
		}
		nMixedPasses += int64(info.mixedPasses)
		// a prefix of length k is first met when every later event is the first symbol
		for k := maxLen; k >= 0; k-- {
			first := true
			for i := k; i < maxLen; i++ {
				if h[i] != winAlphabet[0] {
					first = false
				}
			}
			if first {
				nPrefixes++
			}
		}
		for _, f := range fails {
			key := f.kind + "\t" + histString(h[:f.upto+1])
			if strings.HasPrefix(f.kind, "sched/") {
				// a scheduler verdict (race, deadlock, panic) is not tied to an event: one fingerprint per verdict
				key = f.kind + "\t"
				f.detail = "first seen in history " + histString(h) + ": " + f.detail
			}
			if _, ok := failSet[key]; !ok {
				failSet[key] = f.detail
				order = append(order, key)
			}
		}
		if nHist&(nHist-1) == 0 && unitIdx == 2 {
			r.Sample(map[string]interface{}{"part": "window-history", "history": histString(h), "observations": info.observations, "cleaner_passes_dropping": info.dropPasses, "failures": len(fails)})
		}
		// next
		i := maxLen - 1
		for ; i >= histPrefixLen; i-- {
			digits[i]++
			if digits[i] < na {
				break
			}
			digits[i] = 0
		}
		if i < histPrefixLen {
			break
		}
	}
	r.Add("window_histories", nHist)
	r.Add("window_observations", nObs)
	r.Add("window_sched_steps", nSteps)
	r.Add("window_histories_with_expiry", nExp)
	r.Add("window_histories_with_mixed_pass", nMixedHist)
	r.Add("window_mixed_passes", nMixedPasses)
	r.Add("window_history_prefixes", nPrefixes)
	r.Add("window_get_events", nGets)
	if d := os.Getenv("C19_FAILDIR"); d != "" && len(order) > 0 {
		var sb strings.Builder
		for _, k := range order {
			sb.WriteString(k + "\t" + strings.ReplaceAll(failSet[k], "\n", " ") + "\n")
		}
		if err := os.WriteFile(filepath.Join(d, fmt.Sprintf("unit%03d.tsv", unitIdx)), []byte(sb.String()), 0o644); err != nil {
			vlib.Infra("cannot write failure list: %v", err)
		}
	}
}

// mergeWindowFailures reduces the failing histories of all units to the minimal ones.
func mergeWindowFailures(r *vlib.Run, dir string) {
	files, _ := filepath.Glob(filepath.Join(dir, "unit*.tsv"))
	sort.Strings(files)
	byKind := map[string]map[string]bool{}
	detail := map[string]string{}
	for _, f := range files {
		fh, err := os.Open(f)
		if err != nil {
			vlib.Infra("%v", err)
		}
		sc := bufio.NewScanner(fh)
		sc.Buffer(make([]byte, 1<<20), 1<<20)
		for sc.Scan() {
			p := strings.SplitN(sc.Text(), "\t", 3)
			if len(p) != 3 {
				continue
			}
			if byKind[p[0]] == nil {
				byKind[p[0]] = map[string]bool{}
			}
			byKind[p[0]][p[1]] = true
			if _, seen := detail[p[0]+"\t"+p[1]]; !seen {
				detail[p[0]+"\t"+p[1]] = p[2]
			}
		}
		fh.Close()
	}
	kinds := make([]string, 0, len(byKind))
	for k := range byKind {
		kinds = append(kinds, k)
	}
	sort.Strings(kinds)
	var failing, minimal int64
	for _, k := range kinds {
		hs := make([]string, 0, len(byKind[k]))
		for h := range byKind[k] {
			hs = append(hs, h)
		}
		sort.Strings(hs)
		for _, h := range hs {
			failing++
			if h == "" {
				r.Violate("window/"+k, detail[k+"\t"+h], map[string]interface{}{"part": "window-history", "kind": k})
				continue
			}
			if properSubsequenceIn(h, byKind[k]) {
				continue
			}
			minimal++
			r.Violate("window/"+k+"/"+h, fmt.Sprintf("history %s (A = AddSample of the next value 1,2,..; Tn = n seconds pass; G = Get): %s", h, detail[k+"\t"+h]),
				map[string]interface{}{"part": "window-history", "history": h, "kind": k})
		}
	}
	r.Set("window_failing_history_prefixes", failing)
	r.Set("window_minimal_failing_histories", minimal)
}

// ---- (a) schedules and (c): vsched.Explore ----

func explore(r *vlib.Run, label string, bound int, cfg vsched.Config, build func() (func(), func(*vsched.Result) []winFailure), fp func(winFailure) string) {
	cfg.Bound = bound
	cfg.MaxSteps = 100000
	outcomes := map[string]bool{}
	st := vsched.Explore(cfg, func() (func(), func(*vsched.Result)) {
		body, check := build()
		return body, func(res *vsched.Result) {
			fails := check(res)
			var ks []string
			for _, f := range fails {
				ks = append(ks, f.kind)
				id := fp(f)
				if !r.Has(id) {
					body2, _ := build()
					lcfg := cfg
					lcfg.LogEvents = true
					lr := vsched.RunOnce(lcfg, res.Choices, body2)
					ev := lr.EventLog()
					if len(ev) > 300 {
						ev = ev[len(ev)-300:]
					}
					r.Violate(id, fmt.Sprintf("%s: %s (choices %v)", label, f.detail, res.Choices), map[string]interface{}{"part": label, "choices": res.Choices, "events_tail": ev})
				}
			}
			outcomes[strings.Join(ks, "+")] = true
		}
	})
	r.Add("schedule_executions", st.Execs)
	r.Add("schedule_steps", st.Transitions)
	r.Add("schedule_distinct_states", st.States)
	r.Add("schedule_pruned_subtrees", st.Pruned)
	if st.Capped || st.BoundCompleted < bound {
		r.Exhaustive = false
	}
	r.Note("%s: preemption bound %d, executions %d, distinct states %d, steps %d, distinct outcomes %d", label, bound, st.Execs, st.States, st.Transitions, len(outcomes))
	r.Sample(map[string]interface{}{"part": label, "bound": bound, "executions": st.Execs})
}

func runWschedUnit(r *vlib.Run, sc wsScen) {
	explore(r, "window-schedule "+sc.name, r.Pick(2, 3), vsched.Config{}, func() (func(), func(*vsched.Result) []winFailure) { return buildWS(sc) },
		func(f winFailure) string { return wsFingerprint(sc, f) })
}

func runConcUnit(r *vlib.Run, sc concScen) {
	explore(r, "stats-concurrency "+sc.name, r.Pick(2, 3), vsched.Config{}, func() (func(), func(*vsched.Result) []winFailure) { return buildConc(sc) },
		func(f winFailure) string { return "conc/" + sc.name + "/" + f.kind })
}
