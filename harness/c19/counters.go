package main

// Part (b): counters and the query logger against the response actually sent.
// Plain enumeration; no scheduler is active (the instrumented code passes through).

import (
	"bytes"
	"context"
	"errors"
	"fmt"
	"net"
	"sort"
	"strings"
	"time"

	"github.com/coredns/coredns/request"
	"github.com/facebookincubator/dns/dnsrocks/dnsserver"
	"github.com/facebookincubator/dns/dnsrocks/zzverif/vsched"
	"github.com/facebookincubator/dns/dnsrocks/zzverif/vtime"
	"github.com/miekg/dns"

	"verifharness/dnsfix"
	"verifharness/vlib"
)

const counterData = `Zexample.com,a.ns.example.com,dns.example.com,123,7200,1800,604800,120,120,,
&example.com,,a.ns.example.com,172800,,
+a.ns.example.com,192.0.2.53,300,,
&deleg.example.com,,ns.deleg.example.com,172800,,
+ns.deleg.example.com,192.0.2.54,300,,
Mexample.com,m1
M*.example.com,m1
8example.com,c1
8*.example.com,c1
%aa,10.0.0.0/8,m1
%bb,2001:db8::/32,c1
%bb,198.18.0.0/16,c1
+www.example.com,192.0.2.1,300,,
+www.example.com,192.0.2.2,300,,aa
+www.example.com,192.0.2.3,300,,bb
+www.example.com,2001:db8::80,300,,
@example.com,,mx.example.com,10,300,,
+mx.example.com,192.0.2.25,300,,
'txt.example.com,hello world,300,,
'txt.example.com,hello from aa,300,,aa
+*.w.example.com,192.0.2.7,300,,
Calias.example.com,www.example.com,300,,
'big.example.com,aaaaaaaaaaaaaaaaaaaaaaaaaaaaaaaaaaaaaaaaaaaaaaaaaaaaaaaaaaaaaaaaaaaaaaaaaaaaaaaaaaaaaaaaaaaaaaaaaaaa,300,,
'big.example.com,bbbbbbbbbbbbbbbbbbbbbbbbbbbbbbbbbbbbbbbbbbbbbbbbbbbbbbbbbbbbbbbbbbbbbbbbbbbbbbbbbbbbbbbbbbbbbbbbbbbb,300,,
'big.example.com,cccccccccccccccccccccccccccccccccccccccccccccccccccccccccccccccccccccccccccccccccccccccccccccccccccc,300,,
'big.example.com,dddddddddddddddddddddddddddddddddddddddddddddddddddddddddddddddddddddddddddddddddddddddddddddddddddd,300,,
'big.example.com,eeeeeeeeeeeeeeeeeeeeeeeeeeeeeeeeeeeeeeeeeeeeeeeeeeeeeeeeeeeeeeeeeeeeeeeeeeeeeeeeeeeeeeeeeeeeeeeeeeee,300,,
'big.example.com,ffffffffffffffffffffffffffffffffffffffffffffffffffffffffffffffffffffffffffffffffffffffffffffffffffff,300,,
`

// ---- recording Stats ---------------------------------------------------------

type recStats struct {
	c       map[string]int64
	samples int
	resets  []string // ResetCounter / ResetCounterTo calls
}

func newRecStats() *recStats                              { return &recStats{c: map[string]int64{}} }
func (s *recStats) ResetCounterTo(key string, v int64)    { s.c[key] = v; s.resets = append(s.resets, key) }
func (s *recStats) ResetCounter(key string)               { s.c[key] = 0; s.resets = append(s.resets, key) }
func (s *recStats) IncrementCounterBy(key string, v int64) { s.c[key] += v }
func (s *recStats) IncrementCounter(key string)           { s.c[key]++ }
func (s *recStats) AddSample(key string, v int64)         { s.samples++ }

func (s *recStats) snapshot() map[string]int64 {
	m := make(map[string]int64, len(s.c))
	for k, v := range s.c {
		m[k] = v
	}
	return m
}

// ---- recording Logger --------------------------------------------------------

type logCall struct {
	failed bool
	ptr    *dns.Msg
	wire   []byte // packed at the moment of the call
	perr   error
}

type recLogger struct{ calls []logCall }

func (l *recLogger) Log(state request.Request, r *dns.Msg, ecs *dns.EDNS0_SUBNET) {
	b, err := r.Copy().Pack()
	l.calls = append(l.calls, logCall{ptr: r, wire: b, perr: err})
}
func (l *recLogger) LogFailed(state request.Request, r *dns.Msg, ecs *dns.EDNS0_SUBNET) {
	l.calls = append(l.calls, logCall{failed: true, ptr: r})
}

// ---- recording / failing writer ----------------------------------------------

type written struct {
	ptr  *dns.Msg
	msg  *dns.Msg // copy at the moment of the write
	wire []byte
	perr error
}

type recWriter struct {
	remote net.Addr
	fail   bool
	wrote  []written
	raw    int
}

func (w *recWriter) LocalAddr() net.Addr  { return &net.UDPAddr{IP: net.ParseIP("127.0.0.1"), Port: 53} }
func (w *recWriter) RemoteAddr() net.Addr { return w.remote }
func (w *recWriter) WriteMsg(m *dns.Msg) error {
	if w.fail {
		return errors.New("write failed (injected)")
	}
	b, err := m.Copy().Pack()
	w.wrote = append(w.wrote, written{ptr: m, msg: m.Copy(), wire: b, perr: err})
	return nil
}
func (w *recWriter) Write(b []byte) (int, error) {
	if w.fail {
		return 0, errors.New("write failed (injected)")
	}
	w.raw++
	return len(b), nil
}
func (w *recWriter) Close() error        { return nil }
func (w *recWriter) TsigStatus() error   { return nil }
func (w *recWriter) TsigTimersOnly(bool) {}
func (w *recWriter) Hijack()             {}

// ---- the query set -----------------------------------------------------------

type cClient struct {
	name     string
	resolver string
	ecs      string // "" = no client subnet option
	class    string // expected location class: ecs | resolver | empty
}

var cClients = []cClient{
	{"res-aa", "10.1.1.1", "", "resolver"},
	{"unlocated", "8.8.8.8", "", "empty"},
	{"ecs6-bb", "8.8.8.8", "2001:db8:7::/48", "ecs"},
	{"ecs4-bb", "8.8.8.8", "198.18.5.0/24", "ecs"},
	{"ecs-unmatched", "8.8.8.8", "203.0.113.0/24", "empty"},
	{"ecs-unmatched+res-aa", "10.1.1.1", "203.0.113.0/24", "resolver"},
}

var cNames = []string{"www.example.com.", "example.com.", "nope.example.com.", "x.w.example.com.", "alias.example.com.",
	"txt.example.com.", "mx.example.com.", "deleg.example.com.", "below.deleg.example.com.", "other.org."}

var cTypes = []uint16{dns.TypeA, dns.TypeAAAA, dns.TypeNS, dns.TypeSOA, dns.TypeMX, dns.TypeTXT, dns.TypeANY, 65280}

// edns variants: none, EDNS0 plain, EDNS0 with DO, EDNS version 1
var cEdns = []string{"noedns", "edns0", "edns0-do", "edns1"}

type cQuery struct {
	name   string
	qtype  uint16
	client cClient
	edns   string
	// qd: "" = one question; "qd2same" = the question twice; "qd2other" = a second question of another type (A,
	// or AAAA when the first is A); "qd0" = no question at all (name "." and type 0 are what the handler derives).
	// One handled QUERY is one query, however many questions it carries.
	qd string
	// small: advertise a 512-byte buffer in the OPT (with "noedns" nothing is advertised, which means 512 too)
	small bool
}

func (q cQuery) id() string {
	s := fmt.Sprintf("%s:%s:%s:%s", strings.TrimSuffix(q.name, "."), typeName(q.qtype), q.client.name, q.edns)
	if q.qd != "" {
		s += ":" + q.qd
	}
	if q.small {
		s += ":buf512"
	}
	return s
}

func typeName(t uint16) string {
	if s, ok := dns.TypeToString[t]; ok {
		return s
	}
	return fmt.Sprintf("TYPE%d", t)
}

// locationClass is how the client of this query is located: the maps cover example.com and
// everything below it; other names have no map, hence no location.
func (q cQuery) locationClass() string {
	if n := strings.ToLower(q.name); n == "example.com." || strings.HasSuffix(n, ".example.com.") {
		return q.client.class
	}
	return "empty"
}

func (q cQuery) packable() bool {
	_, err := dns.PackDomainName(q.name, make([]byte, 300), 0, nil, false)
	return err == nil
}

func (q cQuery) msg() *dns.Msg {
	m := new(dns.Msg)
	m.SetQuestion(q.name, q.qtype)
	m.RecursionDesired = false
	m.Id = 4242
	switch q.qd {
	case "qd2same":
		m.Question = append(m.Question, m.Question[0])
	case "qd2other":
		other := dns.Question{Name: q.name, Qtype: dns.TypeA, Qclass: dns.ClassINET}
		if q.qtype == dns.TypeA {
			other.Qtype = dns.TypeAAAA
		}
		m.Question = append(m.Question, other)
	case "qd0":
		m.Question = nil
	}
	if q.edns == "noedns" && q.client.ecs == "" {
		return m
	}
	o := &dns.OPT{Hdr: dns.RR_Header{Name: ".", Rrtype: dns.TypeOPT}}
	o.SetUDPSize(4096)
	if q.small {
		o.SetUDPSize(512)
	}
	if q.edns == "edns0-do" {
		o.SetDo()
	}
	if q.edns == "edns1" {
		o.SetVersion(1)
	}
	if q.client.ecs != "" {
		ip, ipnet, err := net.ParseCIDR(q.client.ecs)
		if err != nil {
			panic(err)
		}
		ones, _ := ipnet.Mask.Size()
		e := &dns.EDNS0_SUBNET{Code: dns.EDNS0SUBNET, SourceNetmask: uint8(ones)}
		if ip4 := ip.To4(); ip4 != nil {
			e.Family, e.Address = 1, ip4
		} else {
			e.Family, e.Address = 2, ip
		}
		o.Option = append(o.Option, e)
	}
	m.Extra = append(m.Extra, o)
	return m
}

func allCounterQueries() []cQuery {
	var out []cQuery
	for _, n := range cNames {
		for _, t := range cTypes {
			for _, c := range cClients {
				for _, e := range cEdns {
					if e == "noedns" && c.ecs != "" {
						continue // a client subnet needs an OPT: covered by edns0
					}
					out = append(out, cQuery{name: n, qtype: t, client: c, edns: e})
				}
			}
		}
	}
	// a response that does not fit the client's buffer (six 100-byte TXT strings) is written truncated: it is
	// still a composed response that was written, with counters and a log entry owed
	for _, c := range []cClient{cClients[0], cClients[1]} {
		out = append(out, cQuery{name: "big.example.com.", qtype: dns.TypeTXT, client: c, edns: "noedns"},
			cQuery{name: "big.example.com.", qtype: dns.TypeTXT, client: c, edns: "edns0", small: true},
			cQuery{name: "big.example.com.", qtype: dns.TypeTXT, client: c, edns: "edns0"},
			cQuery{name: "big.example.com.", qtype: dns.TypeANY, client: c, edns: "noedns"})
	}
	// question counts other than one
	for _, t := range []uint16{dns.TypeA, dns.TypeAAAA, dns.TypeTXT} {
		for _, qd := range []string{"qd2same", "qd2other"} {
			out = append(out, cQuery{name: "www.example.com.", qtype: t, client: cClients[1], edns: "noedns", qd: qd},
				cQuery{name: "nope.example.com.", qtype: t, client: cClients[0], edns: "edns0", qd: qd})
		}
	}
	out = append(out, cQuery{name: ".", qtype: 0, client: cClients[1], edns: "noedns", qd: "qd0"},
		cQuery{name: ".", qtype: 0, client: cClients[0], edns: "edns0", qd: "qd0"})
	// failure class: a question name that cannot be packed (label longer than 63 octets)
	out = append(out, cQuery{name: strings.Repeat("x", 64) + ".example.com.", qtype: dns.TypeA, client: cClients[1], edns: "noedns"})
	return out
}

// ---- one served query and its oracle -----------------------------------------

type served struct {
	before, after map[string]int64
	resets        []string
	w             *recWriter
	logs          []logCall
	rcode         int
	err           error
	panicked      interface{}
}

type cHandler struct {
	h   *dnsserver.FBDNSDB
	st  *recStats
	lg  *recLogger
	be  dnsfix.Backend
	cch bool
}

func openCounterHandler(be dnsfix.Backend, path string, cache bool) *cHandler {
	st, lg := newRecStats(), &recLogger{}
	h, err := dnsserver.NewFBDNSDBBasic(dnsserver.HandlerConfig{}, dnsserver.DBConfig{Path: path, Driver: be.Driver(), ReloadTimeout: 1 << 40},
		dnsserver.CacheConfig{Enabled: cache, LRUSize: 1 << 16}, lg, st)
	if err != nil {
		vlib.Infra("handler: %v", err)
	}
	if err := h.Load(); err != nil {
		vlib.Infra("load %s: %v", path, err)
	}
	return &cHandler{h: h, st: st, lg: lg, be: be, cch: cache}
}

func (c *cHandler) serve(q cQuery, failWrite bool) (s served) {
	s.before = c.st.snapshot()
	c.st.resets = nil
	c.lg.calls = nil
	s.w = &recWriter{remote: &net.UDPAddr{IP: net.ParseIP(q.client.resolver), Port: 40212}, fail: failWrite}
	func() {
		defer func() {
			if p := recover(); p != nil {
				s.panicked = p
			}
		}()
		s.rcode, s.err = c.h.ServeDNS(dnsserver.WithMaxAnswer(context.Background(), 8), s.w, q.msg())
	}()
	s.after = c.st.snapshot()
	s.resets = c.st.resets
	s.logs = c.lg.calls
	return
}

var (
	outcomeCounters = []string{"DNS_queries_nxdomain", "DNS_queries_refused", "DNS_queries_badvers", "DNS_queries_nodata", "DNS_queries_notauthoritative"}
	cacheCounters   = []string{"DNS_cache.hit", "DNS_cache.missed", "DNS_cache.expired"}
)

type mismatch struct{ counter, class, detail string }

// classify gives the response class of what was really sent, from its wire form.
func classify(s served) (class string, sent *dns.Msg) {
	if len(s.w.wrote) == 0 {
		return "nothing-sent", nil
	}
	wr := s.w.wrote[len(s.w.wrote)-1]
	m := new(dns.Msg)
	if wr.perr != nil {
		// cannot be put on the wire (the bare failure reply echoes an unpackable question): judge the struct
		m = wr.msg
	} else if err := m.Unpack(wr.wire); err != nil {
		return "unpackable", nil
	}
	switch {
	case m.Rcode == dns.RcodeNameError:
		class = "nxdomain"
	case m.Rcode == dns.RcodeRefused:
		class = "refused"
	case m.Rcode == dns.RcodeBadVers:
		class = "badvers"
	case m.Rcode == dns.RcodeServerFailure:
		class = "failure-reply" // dns.HandleFailed: a bare SERVFAIL, not a composed response
	case m.Rcode == dns.RcodeSuccess && len(m.Answer) > 0:
		class = "positive"
	case m.Rcode == dns.RcodeSuccess && m.Authoritative:
		class = "nodata"
	case m.Rcode == dns.RcodeSuccess:
		class = "referral"
	default:
		class = "rcode" + dns.RcodeToString[m.Rcode]
	}
	return class, m
}

// judgeServed is the per-query oracle, written from the property statement.
func judgeServed(q cQuery, s served, cacheOn bool) (class string, mm []mismatch) {
	class, sent := classify(s)
	add := func(counter, f string, a ...interface{}) {
		mm = append(mm, mismatch{counter, class, fmt.Sprintf(f, a...)})
	}
	if s.panicked != nil {
		add("panic", "ServeDNS panicked: %v", s.panicked)
		return
	}
	delta := map[string]int64{}
	keys := map[string]bool{}
	for k := range s.after {
		keys[k] = true
	}
	for k := range s.before {
		keys[k] = true
	}
	ks := make([]string, 0, len(keys))
	for k := range keys {
		ks = append(ks, k)
	}
	sort.Strings(ks)
	for _, k := range ks {
		if d := s.after[k] - s.before[k]; d != 0 {
			delta[k] = d
			// no counter changes by more than 1 per query, none goes down
			if d != 1 {
				add(k, "changed by %d for one query", d)
			}
		}
	}
	for _, k := range s.resets {
		add(k, "reset while serving a query")
	}
	// the query counter and the type counter: exactly once
	if delta["DNS_queries"] != 1 {
		add("DNS_queries", "changed by %d, want exactly 1", delta["DNS_queries"])
	}
	tkey := "DNS_query." + typeName(q.qtype)
	if delta[tkey] != 1 {
		add(tkey, "type counter changed by %d, want exactly 1", delta[tkey])
	}
	for _, k := range ks {
		if strings.HasPrefix(k, "DNS_query.") && k != tkey && delta[k] != 0 {
			add(k, "type counter of another type changed by %d (query type %s)", delta[k], typeName(q.qtype))
		}
	}
	// outcome counters: exactly as the response actually sent dictates
	bare := class == "failure-reply"
	want := map[string]int64{}
	if sent != nil && !bare {
		if sent.Rcode == dns.RcodeNameError {
			want["DNS_queries_nxdomain"] = 1
		}
		if sent.Rcode == dns.RcodeRefused {
			want["DNS_queries_refused"] = 1
		}
		if sent.Rcode == dns.RcodeBadVers {
			want["DNS_queries_badvers"] = 1
		}
		if sent.Rcode == dns.RcodeSuccess && len(sent.Answer) == 0 {
			want["DNS_queries_nodata"] = 1
		}
		if !sent.Authoritative {
			want["DNS_queries_notauthoritative"] = 1
		}
	}
	for _, k := range outcomeCounters {
		if delta[k] != want[k] {
			add(k, "changed by %d, the response sent (%s) dictates %d", delta[k], describeSent(sent, s), want[k])
		}
	}
	// Which stages the query reaches follows from the query alone: a wrong EDNS version is
	// answered at once, a name that cannot be packed fails at once; everything else is
	// located, looked up in the cache (when enabled) and answered from data.
	reachesData := q.edns != "edns1" && q.packable()
	if reachesData && !s.w.fail && (sent == nil || bare) {
		add("writer", "no composed response was written for an answerable query (%s)", describeSent(sent, s))
	}
	if (class == "badvers") != (q.edns == "edns1" && !s.w.fail) {
		add("writer", "EDNS variant %s but the response class is %s", q.edns, class)
	}
	nCache := int64(0)
	for _, k := range cacheCounters {
		nCache += delta[k]
	}
	reached := cacheOn && reachesData
	if reached && nCache != 1 {
		add("DNS_cache", "hit+missed+expired changed by %d (hit %d missed %d expired %d), want exactly one", nCache, delta["DNS_cache.hit"], delta["DNS_cache.missed"], delta["DNS_cache.expired"])
	}
	if !reached && nCache != 0 {
		add("DNS_cache", "cache counters changed by %d although the cache stage is not reached (cache enabled: %v)", nCache, cacheOn)
	}
	// location class: exactly one, and the right one
	nLoc := int64(0)
	var got []string
	for _, k := range ks {
		if strings.HasPrefix(k, "DNS_location.") && delta[k] != 0 {
			nLoc += delta[k]
			got = append(got, k)
		}
	}
	if reachesData {
		if nLoc != 1 {
			add("DNS_location", "location counters changed by %d (%v), want exactly one", nLoc, got)
		} else if wantClass := q.locationClass(); got[0] != "DNS_location."+wantClass {
			add(got[0], "client %s (resolver %s, client subnet %q) asking for %s has location class %q but %s was counted", q.client.name, q.client.resolver, q.client.ecs, q.name, wantClass, got[0])
		}
	} else if nLoc != 0 {
		add("DNS_location", "location counters changed by %d (%v) for a query that is not located", nLoc, got)
	}
	// the logger: exactly once, with the very message written, for every composed response written
	var logs, failedLogs int
	for _, l := range s.logs {
		if l.failed {
			failedLogs++
		} else {
			logs++
		}
	}
	if len(s.w.wrote) > 1 {
		add("writer", "%d messages written for one query", len(s.w.wrote))
	}
	switch {
	case bare:
		// a bare failure reply is not a composed response: Log is not owed; if called it must not invent a message
		if logs > 1 {
			add("logger", "Logger.Log called %d times for one failure reply", logs)
		}
	case len(s.w.wrote) == 1:
		wr := s.w.wrote[0]
		if logs != 1 {
			add("logger", "a composed response was written (%s) but Logger.Log was called %d times", describeSent(sent, s), logs)
		} else {
			for _, l := range s.logs {
				if l.failed {
					continue
				}
				if l.ptr != wr.ptr && !bytes.Equal(l.wire, wr.wire) {
					lm := new(dns.Msg)
					_ = lm.Unpack(l.wire)
					add("logger", "the message logged differs from the message written: logged %s, written %s", dnsfix.Canon(lm), describeSent(sent, s))
				} else if !bytes.Equal(l.wire, wr.wire) {
					add("logger", "the message was modified between WriteMsg and Log")
				}
			}
		}
		if failedLogs != 0 {
			add("logger", "LogFailed called %d times for a response that was written", failedLogs)
		}
	default:
		// nothing composed was written (failed write or bare failure reply): Log must not claim a response
		if logs != 0 {
			add("logger", "Logger.Log called %d times although no composed response was written (%s)", logs, class)
		}
	}
	return
}

func describeSent(m *dns.Msg, s served) string {
	if m == nil {
		return fmt.Sprintf("nothing written; returned rcode=%d err=%v", s.rcode, s.err)
	}
	return strings.ReplaceAll(dnsfix.Canon(m), "\n", " ")
}

// ---- driver for one backend --------------------------------------------------

type cStats struct {
	evals, served, nontrivial int64
	classes                   map[string]int64
	hits, misses              int64
	mismatches                int64
	reported                  map[string]bool
}

// reportMismatches reports, for every (counter, response class, stage) - and client, for the
// location counters - the FIRST mismatching query of the enumeration (names, types, clients and
// EDNS variants are ordered simplest first); the others are counted.
func reportMismatches(r *vlib.Run, cs *cStats, be dnsfix.Backend, stage string, q cQuery, s served, mm []mismatch) {
	for _, m := range mm {
		cs.mismatches++
		key := strings.Join([]string{m.counter, m.class, stage}, "|")
		if strings.HasPrefix(m.counter, "DNS_location") {
			key += "|" + q.client.name // how the client is located matters for these
		}
		if cs.reported[key] {
			continue
		}
		cs.reported[key] = true
		fp := fmt.Sprintf("counter/%s/%s/%s/%s:%s", be, m.counter, m.class, stage, q.id())
		wire, _ := q.msg().Pack()
		r.Violate(fp, fmt.Sprintf("backend %s, stage %s, query %s from %s: %s: %s (first query of the enumeration with this counter/class/stage)", be, stage, q.id(), q.client.resolver, m.counter, m.detail),
			map[string]interface{}{"backend": be.String(), "stage": stage, "query": q.id(), "resolver": q.client.resolver, "query_wire_hex": fmt.Sprintf("%x", wire), "data": counterData})
	}
}

func runCounters(r *vlib.Run, dir string, be dnsfix.Backend) {
	path, err := dnsfix.Compile(dir, be, []byte(counterData))
	if err != nil {
		vlib.Infra("compile %s: %v", be, err)
	}
	plain := openCounterHandler(be, path, false)
	cached := openCounterHandler(be, path, true)
	cs := cStats{classes: map[string]int64{}, reported: map[string]bool{}}
	qs := allCounterQueries()
	for _, q := range qs {
		type stage struct {
			name string
			h    *cHandler
			fail bool
		}
		for _, sg := range []stage{{"nocache", plain, false}, {"nocache-failwrite", plain, true}, {"cache-1st", cached, false}, {"cache-2nd", cached, false}, {"cache-failwrite", cached, true}} {
			s := sg.h.serve(q, sg.fail)
			class, mm := judgeServed(q, s, sg.h.cch)
			cs.served++
			cs.evals += 8 // query, type, outcome, cache, location, logger, writer, monotonicity
			cs.classes[class]++
			if class != "refused" && class != "nothing-sent" {
				cs.nontrivial++
			}
			d := func(k string) int64 { return s.after[k] - s.before[k] }
			cs.hits += d("DNS_cache.hit")
			cs.misses += d("DNS_cache.missed")
			reportMismatches(r, &cs, be, sg.name, q, s, mm)
			if sg.name == "cache-2nd" && q.qtype == dns.TypeA && q.edns == "edns0" {
				r.Sample(map[string]interface{}{"part": "counters", "backend": be.String(), "query": q.id(), "class": class, "cache_hit": d("DNS_cache.hit") == 1})
			}
		}
	}
	plain.h.Close()
	cached.h.Close()
	// cache expiry needs the virtual clock: one execution under the scheduler
	runExpiry(r, be, path, &cs)
	for _, want := range []string{"positive", "nodata", "nxdomain", "referral", "refused", "badvers", "nothing-sent", "failure-reply"} {
		if cs.classes[want] == 0 {
			vlib.Infra("counters/%s: response class %q was never produced; the query set is broken", be, want)
		}
	}
	if cs.hits == 0 || cs.misses == 0 {
		vlib.Infra("counters/%s: cache hits %d misses %d; the cache stages are vacuous", be, cs.hits, cs.misses)
	}
	r.Add("counter_queries_served", cs.served)
	r.Add("counter_oracle_evaluations", cs.evals)
	r.Add("counter_nontrivial", cs.nontrivial)
	r.Add("counter_cache_hits_observed", cs.hits)
	r.Add("counter_mismatches_total", cs.mismatches)
	cl := make([]string, 0, len(cs.classes))
	for k := range cs.classes {
		cl = append(cl, k)
	}
	sort.Strings(cl)
	for _, k := range cl {
		r.Add("counter_class_"+k, cs.classes[k])
	}
}

// runExpiry: query, let 1001 virtual seconds pass, query again: exactly DNS_cache.expired, then a hit.
func runExpiry(r *vlib.Run, be dnsfix.Backend, path string, cs *cStats) {
	q := cQuery{name: "mx.example.com.", qtype: dns.TypeA, client: cClients[1], edns: "edns0"}
	type step struct {
		stage string
		want  string
	}
	var out []struct {
		st step
		s  served
	}
	res := vsched.RunOnce(vsched.Config{MaxSteps: 100000}, nil, func() {
		c := openCounterHandler(be, path, true)
		for _, st := range []step{{"expiry-1st", "DNS_cache.missed"}, {"expiry-2nd", "DNS_cache.hit"}, {"expiry-after-1001s", "DNS_cache.expired"}, {"expiry-refilled", "DNS_cache.hit"}} {
			if st.stage == "expiry-after-1001s" {
				vtime.Advance(1001 * time.Second)
			}
			out = append(out, struct {
				st step
				s  served
			}{st, c.serve(q, false)})
		}
		c.h.Close()
	})
	for _, p := range res.Problems() {
		r.Violate(fmt.Sprintf("counter/%s/sched/%s/expiry", be, schedProblemClass(p)), p, nil)
	}
	for _, o := range out {
		class, mm := judgeServed(q, o.s, true)
		cs.served++
		cs.evals += 8
		cs.classes[class]++
		cs.nontrivial++
		if d := o.s.after[o.st.want] - o.s.before[o.st.want]; d != 1 {
			mm = append(mm, mismatch{o.st.want, class, fmt.Sprintf("changed by %d at stage %s, want 1 (entry lifetime is 1000 s)", d, o.st.stage)})
		}
		reportMismatches(r, cs, be, o.st.stage, q, o.s, mm)
	}
}
