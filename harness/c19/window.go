package main

// Part (a): the sliding window under a virtual clock.
//
// Every timed history over {Add(v), Advance 25 s, Advance 35 s, Advance 61 s, Get}
// is ONE execution of the real metrics.NewStats / AddSample / Get path under the
// scheduler; the real cleaner goroutine runs, fed by the virtual 1-second ticker.

import (
	"fmt"
	"sort"
	"strings"
	"time"

	"github.com/facebookincubator/dns/dnsrocks/metrics"
	"github.com/facebookincubator/dns/dnsrocks/zzverif/vsched"
	"github.com/facebookincubator/dns/dnsrocks/zzverif/vtime"
)

const (
	winKey      = "w"
	winLifetime = 60 // seconds: hard-coded in Stats.AddSample
)

// event alphabet, simplest first
var winAlphabet = []byte{'A', 'G', 'a', 'b', 'c'}

func evDur(e byte) int {
	switch e {
	case 'a':
		return 25
	case 'b':
		return 35
	case 'c':
		return 61
	}
	return 0
}

func evName(e byte) string {
	switch e {
	case 'A':
		return "A"
	case 'G':
		return "G"
	}
	return fmt.Sprintf("T%d", evDur(e))
}

func histString(h []byte) string {
	p := make([]string, len(h))
	for i, e := range h {
		p[i] = evName(e)
	}
	return strings.Join(p, ",")
}

// ---- winmodel: a list of (value, expiry) -------------------------------------

type msample struct {
	v, exp int64
	passed bool // a completed cleaner pass ran at a time > exp: must no longer be reported
	lost   bool // already reported missing (model resynchronised to the implementation)
}

type winModel struct {
	now     int64 // seconds since the start of the history
	created bool  // the window (and its cleaner) exists
	s       []msample
}

func (m *winModel) add(v int64) {
	m.created = true
	m.s = append(m.s, msample{v: v, exp: m.now + winLifetime})
}

// second advances the clock by one second; the cleaner (if it exists) completes one pass.
// Returns how many samples that pass is entitled to drop and how many live ones it must keep.
func (m *winModel) second() (dropped, kept int) {
	m.now++
	if !m.created {
		return 0, 0
	}
	for i := range m.s {
		if m.s[i].lost {
			continue
		}
		if !m.s[i].passed && m.s[i].exp < m.now {
			m.s[i].passed = true
			dropped++
		} else if m.now < m.s[i].exp {
			kept++
		}
	}
	return
}

type winFailure struct {
	kind   string // e.g. live-sample-missing/at-expiry-pass
	upto   int    // index of the event at which it was observed
	detail string
}

// judge compares the reported multiset R with the model. where = "pass+drop", "pass", "add", "get".
// It returns the failures and whether the history can go on being judged.
func (m *winModel) judge(R []int64, where string) (fails []winFailure, goOn bool) {
	goOn = true
	cnt := map[int64]int{}
	for _, v := range R {
		cnt[v]++
	}
	vals := make([]int64, 0, len(cnt))
	for v := range cnt {
		vals = append(vals, v)
	}
	sort.Slice(vals, func(i, j int) bool { return vals[i] < vals[j] })
	for _, v := range vals {
		var ms *msample
		for i := range m.s {
			if m.s[i].v == v {
				ms = &m.s[i]
			}
		}
		switch {
		case ms == nil:
			fails = append(fails, winFailure{kind: "spurious-value", detail: fmt.Sprintf("t=%ds: reported %v contains %d, which was never added", m.now, R, v)})
			goOn = false
		case cnt[v] > 1:
			fails = append(fails, winFailure{kind: "spurious-value", detail: fmt.Sprintf("t=%ds: reported %v contains %d %d times, added once", m.now, R, v, cnt[v])})
			goOn = false
		case ms.lost:
			fails = append(fails, winFailure{kind: "spurious-value", detail: fmt.Sprintf("t=%ds: reported %v contains %d again after it had vanished", m.now, R, v)})
			goOn = false
		case ms.passed:
			fails = append(fails, winFailure{kind: "expired-sample-reported", detail: fmt.Sprintf("t=%ds: reported %v contains %d, expired at t=%ds and passed by a completed cleaner pass", m.now, R, v, ms.exp)})
			goOn = false
		}
	}
	var missing []int64
	for i := range m.s {
		ms := &m.s[i]
		if ms.lost || ms.passed {
			continue
		}
		if m.now < ms.exp && cnt[ms.v] == 0 {
			missing = append(missing, ms.v)
			ms.lost = true
		}
	}
	if len(missing) > 0 {
		at := map[string]string{"pass+drop": "at-expiry-pass", "pass": "at-plain-pass", "add": "at-add", "get": "at-get"}[where]
		fails = append(fails, winFailure{kind: "live-sample-missing/" + at, detail: fmt.Sprintf("t=%ds: reported %v lacks live sample(s) %v (model: %s)", m.now, R, missing, m.describe())})
	}
	return
}

func (m *winModel) describe() string {
	var p []string
	for _, s := range m.s {
		st := "live"
		if s.passed {
			st = "dropped"
		} else if s.exp <= m.now {
			st = "expired-awaiting-pass"
		}
		if s.lost {
			st += ",lost"
		}
		p = append(p, fmt.Sprintf("%d(exp %ds %s)", s.v, s.exp, st))
	}
	return strings.Join(p, " ")
}

func exported(R []int64) (min, max, avg int64) {
	s := append([]int64(nil), R...)
	sort.Slice(s, func(i, j int) bool { return s[i] < s[j] })
	var sum int64
	for _, x := range s {
		sum += x
	}
	return s[0], s[len(s)-1], sum / int64(len(s))
}

func fmtMap(g map[string]int64) string {
	ks := make([]string, 0, len(g))
	for k := range g {
		ks = append(ks, k)
	}
	sort.Strings(ks)
	var p []string
	for _, k := range ks {
		p = append(p, fmt.Sprintf("%s=%d", k, g[k]))
	}
	return "{" + strings.Join(p, " ") + "}"
}

// judgeExport checks the three exported numbers of one window against the multiset R it holds.
func judgeExport(g map[string]int64, R []int64, exists bool, otherKeys int) string {
	if !exists {
		if len(g) != otherKeys {
			return fmt.Sprintf("no window exists but Get() = %s", fmtMap(g))
		}
		return ""
	}
	if len(g) != 3+otherKeys {
		return fmt.Sprintf("Get() = %s: want exactly %s.min/.max/.avg besides %d counters", fmtMap(g), winKey, otherKeys)
	}
	for _, sfx := range []string{".min", ".max", ".avg"} {
		if _, ok := g[winKey+sfx]; !ok {
			return fmt.Sprintf("Get() = %s lacks %s%s", fmtMap(g), winKey, sfx)
		}
	}
	if len(R) == 0 {
		return "" // empty-window placeholders are not judged
	}
	mn, mx, av := exported(R)
	if g[winKey+".min"] != mn || g[winKey+".max"] != mx || g[winKey+".avg"] != av {
		return fmt.Sprintf("window holds %v (min %d max %d avg %d) but Get() = %s", R, mn, mx, av, fmtMap(g))
	}
	return ""
}

type histInfo struct {
	observations int64 // oracle evaluations
	steps        int64 // scheduling steps
	dropPasses   int   // cleaner passes entitled to drop something
	mixedPasses  int   // ... while a live sample had to be kept (the situation the unit test never reaches)
	gets         int
}

// valueMaps: the i-th sample added (i = 1, 2, ...) has the value valueMaps[vm].f(i). Windows whose samples are
// all positive cannot tell a min/max/avg computed from the samples from one seeded with a zero; all-negative
// and sign-alternating (with a genuine 0) windows can.
var valueMaps = []struct {
	name string
	f    func(i int64) int64
}{
	{"", func(i int64) int64 { return i }},
	{"neg", func(i int64) int64 { return -i }},
	{"alt", func(i int64) int64 {
		if i%2 == 1 {
			return -(i / 2) // 0, -1, -2, ...
		}
		return 10 * i
	}},
}

// runWindowHistory executes one timed history on the real code and judges every observation.
func runWindowHistory(h []byte, vm int) ([]winFailure, histInfo) {
	total := 0
	for _, e := range h {
		total += evDur(e)
	}
	vtime.MaxTicks = total + 8
	var fails []winFailure
	var info histInfo
	res := vsched.RunOnce(vsched.Config{MaxSteps: 100000}, nil, func() {
		st := metrics.NewStats()
		m := &winModel{}
		next := int64(1)
		alive := true
		note := func(i int, fs []winFailure) {
			for _, f := range fs {
				f.upto = i
				fails = append(fails, f)
			}
		}
		observe := func(i int, where string) {
			info.observations++
			fs, goOn := m.judge(st.WindowSamplesForVerif(winKey), where)
			note(i, fs)
			if !goOn {
				alive = false
			}
		}
		for i, e := range h {
			if !alive {
				break
			}
			switch e {
			case 'A':
				first := !m.created
				if first {
					// the cleaner is a forever-running service goroutine
					vsched.SetGoDaemon(true)
				}
				val := valueMaps[vm].f(next)
				st.AddSample(winKey, val)
				if first {
					vsched.SetGoDaemon(false)
					vsched.Settle() // the cleaner starts and creates its ticker now
				}
				m.add(val)
				next++
				observe(i, "add")
			case 'G':
				info.gets++
				g := st.Get()
				R := st.WindowSamplesForVerif(winKey)
				info.observations++
				if d := judgeExport(g, R, m.created, 0); d != "" {
					note(i, []winFailure{{kind: "export-mismatch", detail: fmt.Sprintf("t=%ds: %s", m.now, d)}})
					alive = false
				}
				observe(i, "get")
			default:
				for s := 0; s < evDur(e) && alive; s++ {
					vtime.Advance(time.Second)
					vsched.Settle() // the tick that became due is delivered and the cleaner completes its pass
					dropped, kept := m.second()
					where := "pass"
					if dropped > 0 {
						where = "pass+drop"
						info.dropPasses++
						if kept > 0 {
							info.mixedPasses++
						}
					}
					observe(i, where)
				}
			}
		}
	})
	info.steps = int64(res.Steps)
	for _, p := range res.Problems() {
		fails = append(fails, winFailure{kind: "sched/" + schedProblemClass(p), upto: len(h) - 1, detail: p})
	}
	return fails, info
}

// schedProblemClass reduces a scheduler verdict to a stable class name.
func schedProblemClass(p string) string {
	switch {
	case strings.HasPrefix(p, "race: "):
		f := strings.SplitN(strings.TrimPrefix(p, "race: "), ":", 2)[0]
		return "race:" + f
	case strings.HasPrefix(p, "deadlock"):
		return "deadlock"
	case strings.HasPrefix(p, "livelock"):
		return "livelock"
	case strings.HasPrefix(p, "panic"):
		return "panic"
	}
	return "other"
}

// properSubsequenceIn reports whether some proper, non-empty subsequence of h is in set.
func properSubsequenceIn(h string, set map[string]bool) bool {
	ev := strings.Split(h, ",")
	n := len(ev)
	for mask := 1; mask < (1<<n)-1; mask++ {
		var p []string
		for i := 0; i < n; i++ {
			if mask&(1<<i) != 0 {
				p = append(p, ev[i])
			}
		}
		if set[strings.Join(p, ",")] {
			return true
		}
	}
	return false
}
