package main

// Part (a), schedules: two adders, one exporter and the cleaner handling one due
// tick, every interleaving within the preemption bound.

import (
	"fmt"
	"sort"
	"strings"
	"time"

	"github.com/facebookincubator/dns/dnsrocks/metrics"
	"github.com/facebookincubator/dns/dnsrocks/zzverif/vsched"
	"github.com/facebookincubator/dns/dnsrocks/zzverif/vtime"
)

type wsScen struct {
	name string
	// setup: seconds to wait after Add(1) before Add(2) (0 = no second sample), then until the threads start
	gapBeforeSecond int
	gapBeforeRace   int
}

var wsScens = []wsScen{
	// tick due, nothing expired: Add(1) at 0, race at t=1
	{"tick-no-expiry", 0, 0},
	// tick due, the oldest sample has expired and a younger one is live: Add(1) at 0, Add(2) at 30, race at t=61
	{"tick-expires-oldest", 30, 30},
}

type wsOutcome struct {
	final    []int64
	snapshot map[string]int64
	mustHave []int64 // live throughout
	mayHave  []int64 // everything ever added
	expired  []int64 // must be gone at the end
}

func buildWS(sc wsScen) (func(), func(*vsched.Result) []winFailure) {
	out := &wsOutcome{}
	body := func() {
		vtime.MaxTicks = sc.gapBeforeSecond + sc.gapBeforeRace + 8
		st := metrics.NewStats()
		vsched.SetGoDaemon(true)
		st.AddSample(winKey, 1)
		vsched.SetGoDaemon(false)
		vsched.Settle()
		// set-up only: nothing expires before the race, so the clock may jump (the ticker then
		// delivers one tick and skips ahead, as time.Ticker does)
		wait := func(n int) {
			vtime.Advance(time.Duration(n) * time.Second)
			vsched.Settle()
		}
		next := int64(2)
		out.mayHave = []int64{1}
		if sc.gapBeforeSecond > 0 {
			wait(sc.gapBeforeSecond)
			st.AddSample(winKey, next)
			out.mustHave = append(out.mustHave, next)
			out.mayHave = append(out.mayHave, next)
			next++
			wait(sc.gapBeforeRace)
			out.expired = []int64{1}
		} else {
			out.mustHave = []int64{1}
		}
		// one more second: a tick is due but not yet delivered when the threads start
		vtime.Advance(time.Second)
		v1, v2 := next, next+1
		out.mayHave = append(out.mayHave, v1, v2)
		t1 := vsched.GoNamed("add1", false, func() { st.AddSample(winKey, v1) })
		t2 := vsched.GoNamed("add2", false, func() { st.AddSample(winKey, v2) })
		t3 := vsched.GoNamed("get", false, func() { out.snapshot = st.Get() })
		vsched.Join(t1, t2, t3)
		vsched.Settle() // the cleaner finishes the pass for the due tick
		out.final = st.WindowSamplesForVerif(winKey)
		out.mustHave = append(out.mustHave, v1, v2) // at the end both adds are in
	}
	check := func(res *vsched.Result) []winFailure {
		var fails []winFailure
		for _, p := range res.Problems() {
			fails = append(fails, winFailure{kind: "sched/" + schedProblemClass(p), detail: p})
		}
		if res.Bad() {
			return fails
		}
		// final window: every live sample, nothing expired-and-passed, nothing never added
		has := func(l []int64, v int64) bool {
			for _, x := range l {
				if x == v {
					return true
				}
			}
			return false
		}
		fin := append([]int64(nil), out.final...)
		sort.Slice(fin, func(i, j int) bool { return fin[i] < fin[j] })
		for i, v := range fin {
			if !has(out.mayHave, v) || (i > 0 && fin[i-1] == v) {
				fails = append(fails, winFailure{kind: "spurious-value", detail: fmt.Sprintf("final window %v contains %d (added: %v)", out.final, v, out.mayHave)})
			} else if has(out.expired, v) {
				fails = append(fails, winFailure{kind: "expired-sample-reported", detail: fmt.Sprintf("final window %v still contains expired %d after a completed pass", out.final, v)})
			}
		}
		for _, v := range out.mustHave {
			if !has(fin, v) {
				fails = append(fails, winFailure{kind: "live-sample-missing", detail: fmt.Sprintf("final window %v lacks live sample %d", out.final, v)})
				break
			}
		}
		// the concurrent Get: its three numbers are those of some multiset S with
		// {live before the race} <= S <= {everything added}
		g := out.snapshot
		if len(g) != 3 {
			fails = append(fails, winFailure{kind: "export-mismatch", detail: fmt.Sprintf("concurrent Get() = %s", fmtMap(g))})
		} else {
			base := out.mustHave[:len(out.mustHave)-2]
			var opt []int64
			for _, v := range out.mayHave {
				if !has(base, v) {
					opt = append(opt, v)
				}
			}
			match := func(must, opt []int64) bool {
				for mask := 0; mask < 1<<len(opt); mask++ {
					S := append([]int64(nil), must...)
					for i, v := range opt {
						if mask&(1<<i) != 0 {
							S = append(S, v)
						}
					}
					var mn, mx, av int64 // empty window: placeholders
					if len(S) > 0 {
						mn, mx, av = exported(S)
					}
					if g[winKey+".min"] == mn && g[winKey+".max"] == mx && g[winKey+".avg"] == av {
						return true
					}
				}
				return false
			}
			if !match(base, opt) {
				if match(nil, out.mayHave) {
					fails = append(fails, winFailure{kind: "live-sample-missing-in-export", detail: fmt.Sprintf("concurrent Get() = %s is computed from a window lacking the live sample(s) %v", fmtMap(g), base)})
				} else {
					fails = append(fails, winFailure{kind: "export-mismatch", detail: fmt.Sprintf("concurrent Get() = %s is not min/max/avg of any multiset of the added values %v", fmtMap(g), out.mayHave)})
				}
			}
		}
		return fails
	}
	return body, check
}

func wsFingerprint(sc wsScen, f winFailure) string {
	return "wsched/" + sc.name + "/" + strings.ReplaceAll(f.kind, " ", "_")
}
