package main

import (
	"fmt"
	"os"
	"syscall"
	"time"

	"verifharness/dnsfix"
	"verifharness/dnsgen"
	"verifharness/vlib"
)

func ru() (time.Duration, time.Duration) {
	var r syscall.Rusage
	syscall.Getrusage(syscall.RUSAGE_SELF, &r)
	return time.Duration(r.Utime.Nano()), time.Duration(r.Stime.Nano())
}

func main() {
	dir, clean := vlib.Scratch("c02prof")
	defer clean()
	dnsfix.Quiet(dir)
	items := dnsgen.Items()
	f := dnsgen.Build(items, []int{0})
	qs := dnsgen.Queries()
	cl := dnsgen.Clients(false)
	for rep := 0; rep < 2; rep++ {
	for _, v := range dnsgen.BaseVariants() {
		var tc, to, ta, tcl [2]time.Duration
		var wall time.Duration
		n := 5
		for i := 0; i < n; i++ {
			u0, s0 := ru()
			p, err := dnsfix.CompileOpts(dir, v.Backend, f.Text(), v.Opts, v.CDBWorkers)
			if err != nil {
				panic(err)
			}
			u1, s1 := ru()
			h, err := dnsfix.OpenHandler(v.Backend, p, dnsfix.HandlerOpts{})
			if err != nil {
				panic(err)
			}
			u2, s2 := ru()
			st := &dnsgen.Store{V: v, Path: p, H: h}
			t0 := time.Now()
			st.AskAll(qs, cl, nil)
			wall += time.Since(t0)
			u3, s3 := ru()
			h.Close()
			os.RemoveAll(p)
			u4, s4 := ru()
			tc[0] += u1 - u0; tc[1] += s1 - s0
			to[0] += u2 - u1; to[1] += s2 - s1
			ta[0] += u3 - u2; ta[1] += s3 - s2
			tcl[0] += u4 - u3; tcl[1] += s4 - s3
		}
		d := time.Duration(n)
		fmt.Printf("%-7s compile u=%v s=%v | open u=%v s=%v | ask(%d) u=%v s=%v wall=%v | close u=%v s=%v\n", v.Name, tc[0]/d, tc[1]/d, to[0]/d, to[1]/d, len(qs)*len(cl), ta[0]/d, ta[1]/d, wall/d, tcl[0]/d, tcl[1]/d)
	}
	}
}
