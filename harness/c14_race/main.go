// C14, free-running supplement (auxiliary binary of ./check C14, built with -race): the same kinds of thread
// sets as the explored scenarios, but on the UNINSTRUMENTED repository code with real goroutines under the Go
// race detector. The controlled scheduler's happens-before check only sees accesses in the instrumented
// packages; the race detector also sees third-party code, the cgo wrappers' Go side and slices handed to
// library functions. It samples schedules (the runtime's), so it is never the deciding step: it can only add
// true reports. The parent (harness/c14) reads the reports the detector wrote (GORACE log_path).
package main

import (
	"context"
	"fmt"
	"os"
	"runtime"
	"strconv"
	"sync"
	"time"

	"github.com/facebookincubator/dns/dnsrocks/dnsserver"
	"github.com/facebookincubator/dns/dnsrocks/metrics"
	"github.com/miekg/dns"

	"verifharness/dnsfix"
)

const data = `Zexample.com,ns.example.com,hostmaster.example.com,1,7200,1800,604800,120,300,,
&example.com,198.51.100.1,ns.example.com,3600,,
Mexample.com,m1
M*.example.com,m1
8example.com,c1
%aa,10.0.0.0/8,m1
%aa,10.0.0.0/8,c1
+www.example.com,192.0.2.1,300,,
+www.example.com,192.0.2.2,300,,aa
+*.w.example.com,192.0.2.3,300,,
@example.com,,mx.example.com,10,300,,
+mx.example.com,192.0.2.9,300,,
&deleg.example.com,198.51.101.1,ns.deleg.example.com,3600,,
`

type q struct {
	name  string
	qtype uint16
	ip    string
	edns  bool
}

func ask(h *dnsserver.FBDNSDB, x q) {
	m := new(dns.Msg)
	m.SetQuestion(x.name, x.qtype)
	if x.edns {
		m.SetEdns0(1232, false)
		o := m.IsEdns0()
		o.Option = append(o.Option, &dns.EDNS0_SUBNET{Code: dns.EDNS0SUBNET, Family: 1, SourceNetmask: 24, Address: []byte{10, 1, 1, 0}})
	}
	w := dnsfix.NewWriter(x.ip, false)
	h.ServeDNS(dnsserver.WithMaxAnswer(context.Background(), 2), w, m)
}

func main() {
	if len(os.Args) < 3 {
		fmt.Fprintln(os.Stderr, "usage: c14-race <scratch dir> <iterations>")
		os.Exit(2)
	}
	dir := os.Args[1]
	iters, _ := strconv.Atoi(os.Args[2])
	dnsfix.Quiet(dir)
	runs := 0
	for _, b := range []dnsfix.Backend{dnsfix.CDB, dnsfix.RDBv2} {
		var paths [2]string
		for i := range paths {
			p, err := dnsfix.Compile(dir, b, []byte(data))
			if err != nil {
				fmt.Fprintln(os.Stderr, "INFRA-ERROR: compile:", err)
				os.Exit(2)
			}
			paths[i] = p
		}
		for _, cache := range []bool{false, true} {
			for it := 0; it < iters; it++ {
				st := metrics.NewStats()
				h, err := dnsserver.NewFBDNSDBBasic(dnsserver.HandlerConfig{}, dnsserver.DBConfig{Path: paths[0], Driver: b.Driver(), ReloadTimeout: 1 << 40},
					dnsserver.CacheConfig{Enabled: cache, LRUSize: 16, WRSTimeout: 1}, &dnsserver.DummyLogger{}, st)
				if err != nil {
					fmt.Fprintln(os.Stderr, "INFRA-ERROR:", err)
					os.Exit(2)
				}
				if err := h.Load(); err != nil {
					fmt.Fprintln(os.Stderr, "INFRA-ERROR: load:", err)
					os.Exit(2)
				}
				fresh := uint16(61000 + 2*(runs%2000)) // a type no earlier iteration asked for
				runs++
				threads := []func(){
					func() {
						ask(h, q{"www.example.com.", dns.TypeA, "10.1.1.1", false})
						ask(h, q{"example.com.", dns.TypeMX, "10.1.1.1", true})
					},
					func() {
						ask(h, q{"x.w.example.com.", dns.TypeA, "8.8.8.8", true})
						ask(h, q{"www.example.com.", fresh, "8.8.8.8", false})
					},
					func() {
						ask(h, q{"www.example.com.", dns.TypeA, "10.1.1.1", false})
						ask(h, q{"nx.example.com.", fresh + 1, "10.2.2.2", false})
						ask(h, q{"a.deleg.example.com.", dns.TypeA, "8.8.8.8", false})
					},
					func() {
						if it%2 == 0 {
							h.Reload(*dnsserver.NewFullReloadSignal(paths[1]))
						} else {
							h.Reload(*dnsserver.NewPartialReloadSignal())
						}
					},
					func() {
						h.ReportBackendStats()
						st.Get()
						st.AddSample("DNS.responsetime_us", int64(it))
					},
				}
				if it%3 == 0 { // shutdown racing with everything else
					threads = append(threads, func() { h.Close() })
				}
				var wg sync.WaitGroup
				for _, f := range threads {
					wg.Add(1)
					go func(f func()) { defer wg.Done(); f() }(f)
				}
				// an iteration takes milliseconds; one that has not finished after two minutes is hung (a deadlock
				// between the real goroutines): dump the goroutines and give up with a distinctive exit code
				done := make(chan struct{})
				go func() { wg.Wait(); close(done) }()
				select {
				case <-done:
				case <-time.After(120 * time.Second):
					buf := make([]byte, 1<<20)
					n := runtime.Stack(buf, true)
					fmt.Fprintf(os.Stderr, "C14-RACE-HANG: iteration %d (%s, cache %v) did not finish within 120 s\n%s\n", it, b, cache, buf[:n])
					os.Exit(3)
				}
				if it%3 != 0 {
					h.Close()
				}
			}
		}
	}
	fmt.Printf("c14-race: %d free-running iterations done\n", runs)
}
