package main

import (
	"encoding/json"
	"fmt"
	"os"

	"github.com/miekg/dns"

	"verifharness/dnsgen"
	"verifharness/vlib"
)

// runReplay re-executes the single case of a replay artefact as a plain
// deterministic test: exit 1 if the two stores still disagree, 0 otherwise.
func runReplay(c *checker, path string) {
	b, err := os.ReadFile(path)
	if err != nil {
		vlib.Infra("replay: %v", err)
	}
	var art struct {
		Fingerprint string `json:"fingerprint"`
		Replay      struct {
			Items  []string `json:"items"`
			QName  string   `json:"qname"`
			QType  string   `json:"qtype"`
			Client string   `json:"client"`
			A      string   `json:"a"`
			B      string   `json:"b"`
		} `json:"replay"`
	}
	if err := json.Unmarshal(b, &art); err != nil {
		vlib.Infra("replay: %v", err)
	}
	rp := art.Replay
	f := dnsgen.Build(c.items, selByIDs(c.items, rp.Items))
	amb := dnsgen.AmbiguousTargets(f.Lines, dnsgen.AllLocations())
	var cl *dnsgen.Client
	for _, x := range dnsgen.ClientsX(true, true) {
		if x.ID == rp.Client {
			x := x
			cl = &x
		}
	}
	variants := map[string]dnsgen.Variant{}
	for _, v := range append(dnsgen.BaseVariants(), dnsgen.OptionVariants()...) {
		variants[v.Name] = v
	}
	fmt.Printf("replaying %s\n%s", art.Fingerprint, f.Text())
	res := map[string]string{}
	for _, name := range []string{rp.A, rp.B} {
		v, ok := variants[name]
		if !ok {
			vlib.Infra("replay: unknown store %q", name)
		}
		st, err := dnsgen.OpenStore(c.dir, v, f.Text())
		if err != nil {
			res[name] = "<compile/open error: " + err.Error() + ">"
			continue
		}
		if cl == nil {
			res[name] = "<compiled>"
		} else {
			res[name] = st.Ask(dnsgen.Query{Name: rp.QName, Type: dns.StringToType[rp.QType]}, *cl, amb)
		}
		st.Close()
		fmt.Printf("--- %s\n%s\n", name, res[name])
	}
	if res[rp.A] != res[rp.B] {
		fmt.Println("REPLAY: still disagree")
		os.Exit(1)
	}
	fmt.Println("REPLAY: agree")
	os.Exit(0)
}
