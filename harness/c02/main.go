// C02: storage backend and key layout never change an answer (differential).
//
// Every data file = skeleton + a subset of the optional alphabet (dnsgen) is
// compiled by the REAL compilers to CDB, RocksDB with v1 keys and RocksDB with v2
// keys, each store is opened behind the REAL handler, every query of the closed
// universe is served for every client, and the canonical responses are required
// to be pairwise equal. No reference model: the backends are each other's oracle.
package main

import (
	"fmt"
	"hash/fnv"
	"math/rand"
	"os"
	"runtime/debug"
	"strconv"
	"strings"
	"sync/atomic"
	"time"

	"github.com/facebookincubator/dns/dnsrocks/db"

	"verifharness/dnsfix"
	"verifharness/dnsgen"
	"verifharness/vlib"
)

// constSource makes every weighted draw the same mid-range number: with
// maxAnswer >= candidates the answer section then is a function of the data
// file (no 2^-32 "key == 0" drop of a positive-weight record, DESIGN 5 item 15).
// 0x80000001 keeps rand.Shuffle's rejection loop from spinning for every n <= 8.
type constSource struct{}

func (constSource) Int63() int64   { return int64(0x80000001) << 31 }
func (constSource) Uint64() uint64 { return uint64(0x80000001) << 32 }
func (constSource) Seed(int64)     {}

type checker struct {
	r       *vlib.Run
	dir     string
	items   []dnsgen.Item
	queries []dnsgen.Query

	min *dnsgen.Minimizer

	files   int64
	stores  int64
	serves  int64
	evals   int64
	nontriv int64
	skipped int64
}

func hash64(s string) uint64 {
	h := fnv.New64a()
	h.Write([]byte(s))
	return h.Sum64()
}

var profOpen, profAsk, profClose [3]int64 // debugging aid: wall time per phase and backend (C02_PROF)

type served struct {
	v    dnsgen.Variant
	resp [][]string
	err  error
}

// serveFile compiles f for every variant and serves the whole query product.
func (c *checker) serveFile(f *dnsgen.File, variants []dnsgen.Variant, clients []dnsgen.Client, amb map[string]bool) []served {
	text := f.Text()
	out := make([]served, len(variants))
	for i, v := range variants {
		out[i].v = v
		t0 := time.Now()
		st, err := dnsgen.OpenStore(c.dir, v, text)
		atomic.AddInt64(&profOpen[i%3], int64(time.Since(t0)))
		if err != nil {
			out[i].err = err
			continue
		}
		atomic.AddInt64(&c.stores, 1)
		t0 = time.Now()
		out[i].resp = st.AskAll(c.queries, clients, amb)
		atomic.AddInt64(&profAsk[i%3], int64(time.Since(t0)))
		t0 = time.Now()
		defer func() { atomic.AddInt64(&profClose[i%3], int64(time.Since(t0))) }()
		atomic.AddInt64(&c.serves, int64(len(c.queries)*len(clients)))
		st.Close()
	}
	return out
}

func (c *checker) report(f *dnsgen.File, a, b string, kind, qname, qtype, client, detail string) {
	c.min.Report(dnsgen.Failure{
		Key:    fmt.Sprintf("%s-vs-%s/%s/%s/%s/%s", a, b, kind, qname, qtype, client),
		Mask:   dnsgen.Mask(f.Sel),
		FP:     fmt.Sprintf("differ/%s-vs-%s/%s/%s/%s/%s/%s", a, b, kind, f.Key(), qname, qtype, client),
		Detail: fmt.Sprintf("items=%s query=%s %s client=%s\n%s", f.Key(), qname, qtype, client, detail),
		Replay: map[string]interface{}{"items": f.IDs, "qname": qname, "qtype": qtype, "client": client, "a": a, "b": b, "data_file": string(f.Text())},
	})
}

// checkFile runs one file through all variants and compares.
func (c *checker) checkFile(f *dnsgen.File, withOptions bool) (sample interface{}) {
	atomic.AddInt64(&c.files, 1)
	clients := f.Clients()
	amb := dnsgen.AmbiguousTargets(f.Lines, dnsgen.AllLocations())
	variants := dnsgen.BaseVariants()
	if withOptions {
		variants = append(variants, dnsgen.OptionVariants()...)
	}
	sv := c.serveFile(f, variants, clients, amb)
	byName := map[string]*served{}
	for i := range sv {
		byName[sv[i].v.Name] = &sv[i]
	}
	pairs := [][2]string{{"cdb", "rdb-v1"}, {"cdb", "rdb-v2"}, {"rdb-v1", "rdb-v2"}}
	if withOptions {
		for _, v := range dnsgen.OptionVariants() {
			base := strings.SplitN(v.Name, "+", 2)[0]
			pairs = append(pairs, [2]string{base, v.Name})
		}
	}
	allFailed := true
	for _, s := range sv {
		if s.err == nil {
			allFailed = false
		}
	}
	if allFailed {
		// no store accepts the file: ill-formed for every compiler, nothing to compare
		atomic.AddInt64(&c.skipped, 1)
		if len(f.Sel) == 0 {
			vlib.Infra("the skeleton does not compile: %v", sv[0].err)
		}
		return nil
	}
	localSeen := map[uint64]struct{}{}
	for _, p := range pairs {
		A, B := byName[p[0]], byName[p[1]]
		if A.err != nil || B.err != nil {
			if (A.err == nil) != (B.err == nil) {
				c.report(f, p[0], p[1], "compile", "-", "-", "-", fmt.Sprintf("%s: %v\n%s: %v", p[0], A.err, p[1], B.err))
			}
			continue
		}
		for ci, cl := range clients {
			for qi, q := range c.queries {
				ra, rb := A.resp[ci][qi], B.resp[ci][qi]
				atomic.AddInt64(&c.evals, 1)
				if p[0] == "cdb" && p[1] == "rdb-v1" {
					if !strings.HasPrefix(ra, "rcode=REFUSED") {
						localSeen[hash64(f.Key()+"\x00"+q.Name+"\x00"+dnsgen.TypeName(q.Type)+"\x00"+cl.ID+"\x00"+ra)] = struct{}{}
					}
				}
				if dnsgen.Equal(ra, rb) {
					continue
				}
				c.report(f, p[0], p[1], dnsgen.Kind(ra, rb), q.Name, dnsgen.TypeName(q.Type), cl.ID,
					fmt.Sprintf("%s: %s\n%s: %s", p[0], ra, p[1], rb))
			}
		}
	}
	atomic.AddInt64(&c.nontriv, int64(len(localSeen)))
	if A := byName["rdb-v2"]; A.err == nil {
		qi := (len(f.Sel)*7 + int(dnsgen.Mask(f.Sel)%uint64(len(c.queries)))) % len(c.queries)
		return map[string]string{"items": f.Key(), "query": c.queries[qi].Name + " " + dnsgen.TypeName(c.queries[qi].Type), "client": clients[0].ID, "rdb-v2": A.resp[0][qi]}
	}
	return nil
}

func main() {
	r := vlib.Start("C02")
	debug.SetGCPercent(400)
	db.SetRandForVerif(rand.New(constSource{}))
	dir, clean := vlib.Scratch("c02")
	dnsfix.Quiet(dir)
	items := dnsgen.Items()
	c := &checker{r: r, dir: dir, items: items, queries: dnsgen.Queries(), min: dnsgen.NewMinimizer()}

	for i, a := range os.Args {
		if a == "--replay" && i+1 < len(os.Args) {
			runReplay(c, os.Args[i+1])
			clean()
			return
		}
	}
	if only := os.Getenv("C02_ONLY"); only != "" { // debugging aid: one file, print every disagreement
		runOnly(c, only)
		clean()
		return
	}

	all := make([]int, len(items))
	var core []int
	for i := range items {
		all[i] = i
		// the pool of the largest subsets: quick = the Quick items, thorough = the Core items (every
		// pair of Quick items is inside the thorough tier's "every pair of the whole alphabet")
		if (r.Thorough() && items[i].Core) || (!r.Thorough() && items[i].Quick) {
			core = append(core, i)
		}
	}
	kAll := r.Pick(1, 2)  // every subset of <= kAll items of the whole alphabet
	kCore := r.Pick(2, 3) // every subset of <= kCore items of the core alphabet
	optK := r.Pick(-1, 1) // compiler-option variants on files of <= optK items
	levels := [][][]int{}
	for k := 0; k <= kCore; k++ {
		var sets [][]int
		if k <= kAll {
			sets = dnsgen.Subsets(all, k)
		} else {
			sets = dnsgen.Subsets(core, k)
		}
		var ok [][]int
		for _, s := range sets {
			if dnsgen.Compatible(items, s) {
				ok = append(ok, s)
			}
		}
		if lim, _ := strconv.Atoi(os.Getenv("C02_LIMIT")); lim > 0 && len(ok) > lim { // debugging aid (timing)
			ok = ok[:lim]
			r.Exhaustive = false
		}
		levels = append(levels, ok)
	}
	// the empty item set first (if it fails, nothing else can be minimal for that
	// observation), then all other files in one pool, smallest first
	bySize := []int{}
	var rest [][]int
	for k, sets := range levels {
		bySize = append(bySize, len(sets))
		if k > 0 {
			rest = append(rest, sets...)
		}
	}
	r.Sample(c.checkFile(dnsgen.Build(items, nil), 0 <= optK))
	c.min.SealBase()
	samples := make([]interface{}, len(rest))
	vlib.ParallelFor(len(rest), func(i int) {
		samples[i] = c.checkFile(dnsgen.Build(items, rest[i]), len(rest[i]) <= optK)
	})
	for _, x := range samples {
		if x != nil {
			r.Sample(x)
		}
	}
	minimal, nonmin := c.min.Minimal()
	for _, f := range minimal {
		r.Violate(f.FP, f.Detail, f.Replay)
	}
	clean()
	if os.Getenv("C02_PROF") != "" {
		fmt.Fprintf(os.Stderr, "open %v ask %v close %v (ns, per backend)\n", profOpen, profAsk, profClose)
	}

	r.Set("states", c.files)
	r.Set("transitions", c.serves)
	r.Set("evaluations", c.evals)
	r.Set("traces_validated_against_impl", c.serves)
	r.Set("distinct_nontrivial", c.nontriv)
	r.Set("data_files", c.files)
	r.Set("data_files_by_size", fmt.Sprint(bySize))
	r.Set("stores_compiled_and_opened", c.stores)
	r.Set("files_rejected_by_every_compiler", c.skipped)
	r.Set("alphabet_items", len(items))
	r.Set("core_items", len(core))
	r.Set("max_items_all", kAll)
	r.Set("max_items_core", kCore)
	r.Set("query_names", len(dnsgen.Names()))
	r.Set("query_types", len(dnsgen.QTypes()))
	r.Set("very_deep_query_names", fmt.Sprintf("%d (32 labels below w, a 34-label ip6.arpa name, 120 one-letter labels below w, a 255-octet name of 63-octet labels), asked for %d query types (A, TXT)", len(dnsgen.VeryDeepNames()), len(dnsgen.VeryDeepQTypes())))
	r.Set("queries_per_client", len(c.queries))
	r.Set("clients", fmt.Sprintf("%d (+%d ECS variants in files with a client-subnet map item, +%d resolvers of the locations AA, \\341\\341, \\000\\001, \\003\\054 in files with item xloc)", len(dnsgen.Clients(false)), len(dnsgen.Clients(true))-len(dnsgen.Clients(false)), len(dnsgen.ClientsX(false, true))-len(dnsgen.Clients(false))))
	r.Set("backends", "cdb, rdb-v1, rdb-v2 on EVERY file (RocksDB covers the whole product)")
	if optK >= 0 {
		r.Set("compiler_option_variants", fmt.Sprintf("cdb 2 workers; rdb-v1/v2 builder mode; rdb-v1/v2 2 workers + batch size 2 + 2 parallel batches: on every file of <=%d items, each compared with the default-option store of the same backend", optK))
	} else {
		r.Set("compiler_option_variants", "none in the quick tier")
	}
	r.Set("failing_comparisons", c.min.Failing)
	r.Set("failing_comparisons_not_minimal", nonmin)
	r.Set("max_answer", dnsgen.MaxAnswer)
	r.Set("rule", fmt.Sprintf("data file = skeleton (apex of example.com, resolver map m1 on the apex and its wildcard, aa/bb subnets, one probe address per location) + every compatible subset of <=%d items of the %d-item optional alphabet and additionally every subset of <=%d of its %d core items (quick: 1 and 2 over the Quick items, thorough: 2 and 3 over the Core items). Besides plain records, wildcards, cuts, neighbours and maps the alphabet holds: one owner and type both tagged aa and untagged with different rdata (SOA at the apex and at the nested zone, CNAME, apex wildcard, NS); zone-cut data split between aa and untagged (tagged NS next to untagged SOA(+NS), tagged SOA next to untagged NS, at the apex and at sub); catch-all maps on the root wildcard (resolver map and client-subnet map), an exact root map and a *.com map; location ids AA, \\341\\341, \\000\\001, \\003\\054 with a resolver in each; an owner 13 labels below the apex; each file is compiled by cdb.CreateCDBFromReader and rdb.Compile (v1 keys, v2 keys) and opened by dnsserver.NewFBDNSDBBasic+Load; every (query name of the %d-name closed universe, which holds names 12 labels below the apex, the wildcard under w, the nested zone and the delegation) x (9 query types) x (client), and 4 names of 32..121 labels / 255 octets x (A, TXT) x (client), goes through the real ServeDNS with maxAnswer=%d and a constant random source; states = data files; transitions = queries served; evaluations = pairwise comparisons of canonical responses (rcode, flags, question, sections as multisets, OPT/ECS); nontrivial = distinct (file, query, client, response) with a response other than REFUSED. In the additional section the rdata of an address at a name with more than one visible address of that family is not compared (the server draws one at random by design). Only minimal failing files are reported: a file none of whose sub-files fails for the same backend pair, kind, query and client.", kAll, len(items), kCore, len(core), len(dnsgen.Names()), dnsgen.MaxAnswer))
	r.Assume = []string{
		"the db package's random source is replaced by a constant (overlay accessor SetRandForVerif): weighted selection itself is C11's subject",
		"RocksDB and the CDB reader are executed, not modelled",
		"skeleton variant B (composite '.' apex) is not enumerated; the composite form is exercised by the nested-zone and root-zone items",
		"compiler options beyond {builder, 2 workers, batch size 2} and files with more than 3 interacting optional items are outside the bound",
		"sections are compared as multisets: the order of records inside a section is not part of the observation; two SOA records of one name with the SAME tag are not in the alphabet (which one a negative answer carries is then a property of the store's duplicate order)",
		"owners deeper than 13 labels below the apex and maps on owners other than root, *., *.com, the apex, *.apex, *.w, x.w are outside the alphabet (name-to-map selection over more owners: C03 level C)",
	}
	r.Finish()
}

func selByIDs(items []dnsgen.Item, ids []string) []int {
	idx := dnsgen.ItemIndex(items)
	var sel []int
	for _, id := range ids {
		if id == "" || id == "-" {
			continue
		}
		i, ok := idx[id]
		if !ok {
			vlib.Infra("unknown item id %q", id)
		}
		sel = append(sel, i)
	}
	return sel
}

func runOnly(c *checker, only string) {
	f := dnsgen.Build(c.items, selByIDs(c.items, strings.Split(only, ",")))
	if show := os.Getenv("C02_SHOW"); show != "" { // debugging aid: print the responses to "<qname>/<qtype>" for every client and backend
		p := strings.SplitN(show, "/", 2)
		amb := dnsgen.AmbiguousTargets(f.Lines, dnsgen.AllLocations())
		for _, v := range dnsgen.BaseVariants() {
			st, err := dnsgen.OpenStore(c.dir, v, f.Text())
			if err != nil {
				fmt.Printf("%s: %v\n", v.Name, err)
				continue
			}
			for _, cl := range f.Clients() {
				for _, q := range c.queries {
					if q.Name == p[0] && dnsgen.TypeName(q.Type) == p[1] {
						fmt.Printf("--- %s %s\n%s\n", v.Name, cl.ID, st.Ask(q, cl, amb))
					}
				}
			}
			st.Close()
		}
		return
	}
	c.checkFile(f, os.Getenv("C02_OPTIONS") != "")
	fmt.Printf("%s", f.Text())
	l, _ := c.min.Minimal()
	for _, p := range l {
		fmt.Printf("%s\n  %s\n", p.FP, strings.ReplaceAll(p.Detail, "\n", "\n  "))
	}
	fmt.Printf("%d disagreements\n", len(l))
}
