// Reproducer (repository API only): with RocksDB v2 keys a client with a location gets,
// at a referral, NS records that are not those of the delegation point: rdb.get serves the
// per-request cache entry left by a closest-key MISS, i.e. the data of ANOTHER key.
// (a) `deleg` has only untagged NS: the NS RRset is duplicated for a located client.
// (b) `deleg` has only an aa-tagged NS and an aa-only zone `loc` sorts just before it:
//     the aa client is handed the NS (and SOA-derived data) of loc.example.com as NS of deleg.
// v1 keys give 1 NS in both cases.
//   go run -ldflags=-checklinkname=0 ./c02/repro/item3_cached_other_key
package main

import (
	"fmt"
	"os"
	"strings"

	"github.com/facebookincubator/dns/dnsrocks/dnsdata/rdb"
	"github.com/facebookincubator/dns/dnsrocks/dnsserver"
	"github.com/facebookincubator/dns/dnsrocks/dnsserver/stats"
)

const apex = `Zexample.com,a.ns.example.com,hostmaster.example.com,1,7200,1800,604800,120,300,,
&example.com,192.0.2.53,a.ns.example.com,3600,,
Mexample.com,m1
M*.example.com,m1
%aa,10.0.0.0/8,m1
`

var cases = map[string]string{
	"a-duplicate": apex + "&deleg.example.com,192.0.2.55,ns.deleg.example.com,3600,,\n",
	"b-foreign-name": apex + "&deleg.example.com,,ns2.other.org,3600,,aa\n" +
		"Zloc.example.com,a.ns.example.com,hostmaster.example.com,1,7200,1800,604800,120,300,,aa\n&loc.example.com,,a.ns.example.com,3600,,aa\n",
}

func main() {
	for _, name := range []string{"a-duplicate", "b-foreign-name"} {
		for _, v2 := range []bool{false, true} {
			dir, _ := os.MkdirTemp("", "repro3")
			defer os.RemoveAll(dir)
			if _, err := rdb.Compile(strings.NewReader(cases[name]), 1, dir, rdb.CompilationOptions{NumCPU: 1, BatchNumParallel: 1, UseV2KeySyntax: v2}); err != nil {
				panic(err)
			}
			h, err := dnsserver.NewFBDNSDBBasic(dnsserver.HandlerConfig{}, dnsserver.DBConfig{Path: dir, Driver: "rocksdb", ReloadTimeout: 1 << 40}, dnsserver.CacheConfig{}, &dnsserver.DummyLogger{}, &stats.DummyStats{})
			if err != nil {
				panic(err)
			}
			if err := h.Load(); err != nil {
				panic(err)
			}
			rec, err := h.QuerySingle("A", "below.deleg.example.com", "10.1.1.1", "", 8)
			fmt.Printf("%s v2 keys=%v err=%v authority=%v\n", name, v2, err, rec.Msg.Ns)
			h.Close()
		}
	}
}
