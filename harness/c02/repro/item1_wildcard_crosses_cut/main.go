// Reproducer (repository API only): with RocksDB v2 keys the wildcard of a parent
// zone answers for a name inside a nested zone. Expected (and what v1 keys / CDB give): NXDOMAIN.
//   go run -ldflags=-checklinkname=0 ./c02/repro/item1_wildcard_crosses_cut
package main

import (
	"fmt"
	"os"
	"strings"

	"github.com/facebookincubator/dns/dnsrocks/dnsdata/rdb"
	"github.com/facebookincubator/dns/dnsrocks/dnsserver"
	"github.com/facebookincubator/dns/dnsrocks/dnsserver/stats"
)

const data = `Zexample.com,a.ns.example.com,hostmaster.example.com,1,7200,1800,604800,120,300,,
&example.com,192.0.2.53,a.ns.example.com,3600,,
'*.example.com,wild,300,,
.sub.example.com,192.0.2.54,a,3600,,
`

func main() {
	for _, v2 := range []bool{false, true} {
		dir, _ := os.MkdirTemp("", "repro1")
		defer os.RemoveAll(dir)
		if _, err := rdb.Compile(strings.NewReader(data), 1, dir, rdb.CompilationOptions{NumCPU: 1, BatchNumParallel: 1, UseV2KeySyntax: v2}); err != nil {
			panic(err)
		}
		h, err := dnsserver.NewFBDNSDBBasic(dnsserver.HandlerConfig{}, dnsserver.DBConfig{Path: dir, Driver: "rocksdb", ReloadTimeout: 1 << 40}, dnsserver.CacheConfig{}, &dnsserver.DummyLogger{}, &stats.DummyStats{})
		if err != nil {
			panic(err)
		}
		if err := h.Load(); err != nil {
			panic(err)
		}
		rec, err := h.QuerySingle("TXT", "nx.sub.example.com", "8.8.8.8", "", 8)
		fmt.Printf("v2 keys=%v err=%v\n%v\n", v2, err, rec.Msg)
		h.Close()
	}
}
