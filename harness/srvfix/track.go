package srvfix

import (
	"errors"
	"net"

	"github.com/facebookincubator/dns/dnsrocks/db"
)

// Tracker wraps REAL backends so that a harness can close whatever an
// execution left open (executions cut short by pruning never reach their own
// shutdown). It adds no scheduling points and changes no behaviour: every
// method delegates; backends returned by Reload are wrapped in turn; a Reload
// that returns the receiver's inner backend returns the wrapper itself so the
// code's identity tests see what they would see without it.
type Tracker struct {
	inner  db.DBI
	reg    *Registry
	closed bool
}

// Registry lists the tracked backends of one execution and the lifecycle faults seen on them: a call on a
// backend that was already closed (on a real CDB that is a read of unmapped memory, on RocksDB a freed handle:
// the process would die) is recorded and NOT executed, a second Close likewise.
type Registry struct {
	all    []*Tracker
	Faults []string
}

func (t *Tracker) dead(op string) bool {
	if t.closed {
		t.reg.Faults = append(t.reg.Faults, "backend used after close: "+op)
		return true
	}
	return false
}

var errClosed = errors.New("verif: backend already closed")

// finder tracks the closest-key finder handed out by a tracked backend.
type finder struct {
	t     *Tracker
	inner db.ClosestKeyFinder
}

func (f finder) FindClosestKey(key []byte, c db.Context) ([]byte, error) {
	if f.t.dead("FindClosestKey") {
		return nil, errClosed
	}
	return f.inner.FindClosestKey(key, c)
}

// Track wraps inner.
func (r *Registry) Track(inner db.DBI) *Tracker {
	t := &Tracker{inner: inner, reg: r}
	r.all = append(r.all, t)
	return t
}

// CloseAll closes every tracked backend that the code under test did not close.
// leakNative: when the execution was cut with threads abandoned mid-query, a
// RocksDB backend may still have live iterators and closing it would abort the
// process (RocksDB asserts on that); such backends are deliberately leaked.
func (r *Registry) CloseAll(normalEnd bool) {
	for _, t := range r.all {
		if !normalEnd && t.inner.ClosestKeyFinder() != nil {
			continue // see above: native iterators may be outstanding
		}
		if !t.closed {
			t.closed = true
			t.inner.Close()
		}
	}
}

func (t *Tracker) NewContext() db.Context  { return t.inner.NewContext() }
func (t *Tracker) FreeContext(c db.Context) { t.inner.FreeContext(c) }
func (t *Tracker) Find(key []byte, c db.Context) ([]byte, error) {
	if t.dead("Find") {
		return nil, errClosed
	}
	return t.inner.Find(key, c)
}
func (t *Tracker) ForEach(key []byte, f func([]byte) error, c db.Context) error {
	if t.dead("ForEach") {
		return errClosed
	}
	return t.inner.ForEach(key, f, c)
}
func (t *Tracker) FindMap(domain, mtype []byte, c db.Context) ([]byte, error) {
	if t.dead("FindMap") {
		return nil, errClosed
	}
	return t.inner.FindMap(domain, mtype, c)
}
func (t *Tracker) GetLocationByMap(ipnet *net.IPNet, mapID []byte, c db.Context) ([]byte, uint8, error) {
	if t.dead("GetLocationByMap") {
		return nil, 0, errClosed
	}
	return t.inner.GetLocationByMap(ipnet, mapID, c)
}
func (t *Tracker) GetStats() map[string]int64 {
	if t.dead("GetStats") {
		return map[string]int64{}
	}
	return t.inner.GetStats()
}
func (t *Tracker) ClosestKeyFinder() db.ClosestKeyFinder {
	f := t.inner.ClosestKeyFinder()
	if f == nil {
		return nil
	}
	return finder{t, f}
}
func (t *Tracker) Close() error {
	if t.closed {
		t.reg.Faults = append(t.reg.Faults, "backend closed twice")
		return errClosed
	}
	t.closed = true
	return t.inner.Close()
}
func (t *Tracker) Reload(path string) (db.DBI, error) {
	if t.dead("Reload") {
		return nil, errClosed
	}
	n, err := t.inner.Reload(path)
	if err != nil || n == nil {
		return n, err
	}
	if n == t.inner {
		return t, nil
	}
	return t.reg.Track(n), nil
}
