// Package srvfix is the shared fixture of the schedule-exploring serve-path
// checks (C05, C12, C14): generation-stamped data files, a proxy db.DBI that
// turns every backend call into a scheduling point and records what it served,
// and stamp extraction from responses.
package srvfix

import (
	"errors"
	"fmt"
	"net"
	"os"
	"path/filepath"
	"regexp"
	"sort"
	"strconv"

	"github.com/facebookincubator/dns/dnsrocks/db"
	"github.com/facebookincubator/dns/dnsrocks/dnsdata"
	"github.com/facebookincubator/dns/dnsrocks/zzverif/vsched"
	"github.com/miekg/dns"

	"verifharness/dnsfix"
)

// GenData is the data file of generation g: every record carries g in its
// rdata, so each section of a response tells which generation produced it.
func GenData(g int, withValidationKey bool) []byte {
	// owner and target names are the same in every generation; only rdata (and NS TTLs) differ
	s := fmt.Sprintf(`Zexample.com,ns.example.com,hostmaster.example.com,%[1]d,7200,1800,604800,120,300,,
&example.com,198.51.100.%[1]d,ns.example.com,%[2]d,,
+www.example.com,192.0.2.%[1]d,300,,
@example.com,192.0.3.%[1]d,mx.example.com,%[1]d,300,,
&deleg.example.com,198.51.101.%[1]d,ns.deleg.example.com,%[2]d,,
'txt.example.com,gen-%[1]d,300,,
`, g, 3600+g)
	if withValidationKey {
		s += "+valid.example.com,192.0.2.250,300,,\n"
	}
	return []byte(s)
}

// ValidationKey is the raw database key of valid.example.com (v1 keys / CDB).
func ValidationKey() []byte {
	c := new(dnsdata.Codec)
	m, err := c.ConvertLn([]byte("+valid.example.com,192.0.2.250,300,,"))
	if err != nil || len(m) == 0 {
		panic("validation key")
	}
	return m[0].Key
}

// Files holds the compiled generation files of one process.
type Files struct {
	Dir   string
	Gen   map[int]string // generation -> cdb path (with validation key)
	NoKey map[int]string // generation -> cdb path without validation key
	dbis  map[string]db.DBI
}

// BuildFiles compiles generations 1..n (CDB) once per process.
func BuildFiles(dir string, n int) *Files {
	f := &Files{Dir: dir, Gen: map[int]string{}, NoKey: map[int]string{}, dbis: map[string]db.DBI{}}
	for g := 1; g <= n; g++ {
		p, err := dnsfix.Compile(dir, dnsfix.CDB, GenData(g, true))
		if err != nil {
			panic(err)
		}
		f.Gen[g] = p
		p, err = dnsfix.Compile(dir, dnsfix.CDB, GenData(g, false))
		if err != nil {
			panic(err)
		}
		f.NoKey[g] = p
	}
	return f
}

// open returns the shared real cdbdriver of a physical file (opened once per
// process, outside any exploration, and never closed: lifecycle is C06's job).
func (f *Files) open(path string) (db.DBI, error) {
	if d, ok := f.dbis[path]; ok {
		return d, nil
	}
	if _, err := os.Stat(path); err != nil {
		return nil, err
	}
	d, err := db.OpenDBIForVerif(path, "cdb")
	if err != nil {
		return nil, err
	}
	f.dbis[path] = d
	return d, nil
}

// Preopen opens every file outside the exploration.
func (f *Files) Preopen() {
	for _, p := range f.Gen {
		f.open(p)
	}
	for _, p := range f.NoKey {
		f.open(p)
	}
}

// Content is what a logical path currently holds.
type Content struct {
	Gen     int
	NoKey   bool
	Missing bool
	Slow    bool // opening / catching up blocks until World.Release[path] is set
}

// World is the environment of one execution: logical paths and their current
// content (replaced by "the publisher"), and the log of what backends did.
type World struct {
	F         *Files
	RocksLike bool // Reload(same path) catches up in place and returns the same backend
	Paths     map[string]*Content
	Release   map[string]string // slow path: "" blocked | "ok" | "err"
	Proxies   []*Proxy
	Bad       []string
	ReloadLog []string // "path:gen" of every backend Reload call that loaded something
}

// NewWorld makes a world with logical path "P1" holding generation 1.
func NewWorld(f *Files, rocksLike bool) *World {
	return &World{F: f, RocksLike: rocksLike, Paths: map[string]*Content{"P1": {Gen: 1}}, Release: map[string]string{}}
}

// Proxy is a db.DBI in front of the real CDB drivers. Every call is one
// scheduling point on the proxy object followed by the real call on the
// generation currently visible through this backend.
type Proxy struct {
	W      *World
	ID     int
	Path   string
	Cur    int  // generation visible through this backend
	NoKey  bool // current content lacks the validation key
	Closed int
	clock  vsched.HBClock
}

// OpenInitial opens the backend for a logical path.
func (w *World) OpenInitial(path string) *Proxy {
	c := w.Paths[path]
	p := &Proxy{W: w, ID: len(w.Proxies), Path: path, Cur: c.Gen, NoKey: c.NoKey}
	w.Proxies = append(w.Proxies, p)
	return p
}

func (p *Proxy) inner() db.DBI {
	path := p.W.F.Gen[p.Cur]
	if p.NoKey {
		path = p.W.F.NoKey[p.Cur]
	}
	d, err := p.W.F.open(path)
	if err != nil {
		panic(err)
	}
	return d
}

func (p *Proxy) step(what string, write bool) {
	vsched.Yield(p, what, write)
	if p.Closed > 0 {
		p.W.Bad = append(p.W.Bad, "use-after-close:"+what)
	}
}

func (p *Proxy) NewContext() db.Context      { return p.inner().NewContext() }
func (p *Proxy) FreeContext(c db.Context)     { p.inner().FreeContext(c) }
func (p *Proxy) ClosestKeyFinder() db.ClosestKeyFinder { return nil }
func (p *Proxy) GetStats() map[string]int64 {
	p.step("dbi.GetStats", false)
	return map[string]int64{"gen": int64(p.Cur)}
}

func (p *Proxy) Find(key []byte, c db.Context) ([]byte, error) {
	p.step("dbi.Find", false)
	return p.inner().Find(key, c)
}

func (p *Proxy) ForEach(key []byte, f func([]byte) error, c db.Context) error {
	p.step("dbi.ForEach", false)
	return p.inner().ForEach(key, f, c)
}

func (p *Proxy) FindMap(domain, mtype []byte, c db.Context) ([]byte, error) {
	p.step("dbi.FindMap", false)
	return p.inner().FindMap(domain, mtype, c)
}

func (p *Proxy) GetLocationByMap(ipnet *net.IPNet, mapID []byte, c db.Context) ([]byte, uint8, error) {
	p.step("dbi.GetLocationByMap", false)
	return p.inner().GetLocationByMap(ipnet, mapID, c)
}

func (p *Proxy) Close() error {
	p.step("dbi.Close", true)
	p.Closed++
	if p.Closed > 1 {
		p.W.Bad = append(p.W.Bad, "double-close")
	}
	return nil
}

// Reload mirrors the drivers: RocksDB-like backends catch up in place when
// asked for their own path, otherwise a new backend is opened on what the
// logical path holds at this moment.
func (p *Proxy) Reload(path string) (db.DBI, error) {
	p.step("dbi.Reload", true)
	c, ok := p.W.Paths[path]
	if !ok || c.Missing {
		return nil, errors.New("open " + path + ": no such file or directory")
	}
	if c.Slow {
		vsched.Block(p.W, "backend-reload-completes", func() bool { return p.W.Release[path] != "" })
		if p.W.Release[path] == "err" {
			return nil, errors.New("open " + path + ": late failure")
		}
		c = p.W.Paths[path]
	}
	p.W.ReloadLog = append(p.W.ReloadLog, fmt.Sprintf("%s:%d", path, c.Gen))
	if p.W.RocksLike && path == p.Path {
		p.Cur, p.NoKey = c.Gen, c.NoKey // in-place catch-up: visible to every later call on this backend
		return p, nil
	}
	np := &Proxy{W: p.W, ID: len(p.W.Proxies), Path: path, Cur: c.Gen, NoKey: c.NoKey}
	p.W.Proxies = append(p.W.Proxies, np)
	return np, nil
}

var (
	reA   = regexp.MustCompile(`\b(?:192\.0\.2|192\.0\.3|198\.51\.100|198\.51\.101)\.(\d+)\b`)
	reTxt = regexp.MustCompile(`gen-(\d+)`)
)

// Stamps returns the sorted set of generation numbers visible in a response:
// last octet of every address, MX preference, SOA serial, NS TTL-3600, TXT text.
func Stamps(m *dns.Msg) []int {
	set := map[int]bool{}
	for _, sec := range [][]dns.RR{m.Answer, m.Ns, m.Extra} {
		for _, rr := range sec {
			switch x := rr.(type) {
			case *dns.OPT:
				continue
			case *dns.SOA:
				set[int(x.Serial)] = true
			case *dns.MX:
				set[int(x.Preference)] = true
			case *dns.NS:
				set[int(x.Hdr.Ttl)-3600] = true
			}
			s := rr.String()
			for _, re := range []*regexp.Regexp{reA, reTxt} {
				for _, mm := range re.FindAllStringSubmatch(s, -1) {
					if n, err := strconv.Atoi(mm[1]); err == nil && n != 250 {
						set[n] = true
					}
				}
			}
		}
	}
	var out []int
	for g := range set {
		out = append(out, g)
	}
	sort.Ints(out)
	return out
}

// TmpDir returns a per-process directory for generation files.
func TmpDir(base string) string {
	d := filepath.Join(base, "gens")
	os.MkdirAll(d, 0o755)
	return d
}
