package dnsgen

import (
	"fmt"
	"strings"
)

// Edit is one single-line change of a data file that, by the statement of C04,
// must be invisible to every client whose location is not Tag (tagged edits)
// or to every client whatsoever (edits of maps that no name selects).
type Edit struct {
	ID   string
	Kind string // "add" | "del" | "chg" | "map"
	Tag  string // location tag of the edited line; "" for map edits
	Why  string
	// Quick edits are applied in the quick tier too; the others only in thorough.
	Quick bool
	line  Line   // add / map: the line added
	old   string // del / chg: text of the line removed / replaced
	alt   string // chg: replacement text
}

// Apply returns the edited line list.
func (e Edit) Apply(lines []Line) []Line {
	out := make([]Line, 0, len(lines)+1)
	switch e.Kind {
	case "add", "map":
		out = append(out, lines...)
		out = append(out, e.line)
	case "del":
		for _, l := range lines {
			if l.Text != e.old {
				out = append(out, l)
			}
		}
	case "chg":
		for _, l := range lines {
			if l.Text == e.old {
				l.Text = e.alt
				l.Alt = ""
			}
			out = append(out, l)
		}
	}
	return out
}

// Describe renders the edit as a diff-like line.
func (e Edit) Describe() string {
	switch e.Kind {
	case "add", "map":
		return "+ " + e.line.Text
	case "del":
		return "- " + e.old
	default:
		return "- " + e.old + "\n+ " + e.alt
	}
}

// AddEdits is the alphabet of tagged lines added to a base file, for tag t: on
// the queried names themselves, on their ancestors, at zone cuts (creating a
// cut that exists only for t), on glue / server / mail hosts, on wildcards and
// on byte-order neighbours. All rdata differ from the item alphabet's.
func AddEdits(t string) []Edit {
	mk := func(id, why string, l Line) Edit {
		return Edit{ID: "add:" + id + "@" + LocSlug(t), Kind: "add", Tag: t, Why: why, line: l}
	}
	quick := map[string]bool{"a-www": true, "ns-apex": true, "ns-deleg": true, "ns-www": true, "zone-sub": true,
		"a-glue": true, "wild-apex": true, "a-a": true}
	all := []Edit{
		mk("a-www", "address at a queried leaf", A("www.example.com", "198.51.100.1", "300", t, "")),
		mk("a-apex", "address at the apex (ancestor of every query)", A("example.com", "198.51.100.2", "300", t, "")),
		mk("ns-apex", "NS at the apex", NS("example.com", "", "ns"+t+".other.org", "3600", t)),
		mk("soa-apex", "SOA at the apex", SOA("example.com", t)),
		mk("ns-deleg", "NS with tagged glue at the delegation point: a cut (or a different NS set) for the other location only", NS("deleg.example.com", "198.51.100.9", "ns.deleg.example.com", "3600", t)),
		mk("ns-www", "NS at a queried leaf: a zone cut that exists only for the other location", NS("www.example.com", "", "ns4.other.org", "3600", t)),
		mk("zone-sub", "nested zone that exists only for the other location", Dot("sub.example.com", "", "a", "3600", t)),
		mk("a-glue", "address of the delegation's in-bailiwick server", A("ns.deleg.example.com", "198.51.100.3", "300", t, "")),
		mk("a-nsapex", "address of the apex's server", A("a.ns.example.com", "198.51.100.4", "300", t, "")),
		mk("wild-apex", "wildcard at the apex", TXT("*.example.com", "foreign", "300", t)),
		mk("wild-w", "wildcard under w", A("*.w.example.com", "198.51.100.5", "300", t, "")),
		mk("cname-c", "CNAME", CNAME("c.example.com", "other.org", "300", t)),
		mk("a-a", "byte-order neighbour a", A("a.example.com", "198.51.100.6", "300", t, "")),
		mk("ns-com", "cut above the apex", NS("com", "", "ns5.other.org", "3600", t)),
		mk("ns-root", "root-owned record", NS("", "", "ns6.other.org", "3600", t)),
		mk("mx-apex", "MX with its host address", MX("example.com", "198.51.100.7", "mx2", "10", "300", t)),
		mk("a-mx1", "address of the untagged MX's host", A("mx1.mx.example.com", "198.51.100.8", "300", t, "")),
	}
	for i := range all {
		id := strings.TrimSuffix(strings.TrimPrefix(all[i].ID, "add:"), "@"+LocSlug(t))
		all[i].Quick = quick[id]
	}
	return all
}

// XAddEdits is the part of AddEdits applied with a tag of XLocations: a location
// id is an opaque pair of bytes, so a line tagged AA, \341\341, \000\001 or
// \003\054 is foreign to the clients of aa (and to every other client but the
// one item xloc puts into that very location). Address at a queried leaf, NS and
// SOA at the apex, wildcard at the apex, nested zone, glue address; the first,
// second and fourth in the quick tier.
func XAddEdits(t string) []Edit {
	keep := map[string]bool{"a-www": true, "ns-apex": true, "soa-apex": false, "wild-apex": true, "zone-sub": false, "a-glue": false}
	var out []Edit
	for _, e := range AddEdits(t) {
		id := strings.TrimSuffix(strings.TrimPrefix(e.ID, "add:"), "@"+LocSlug(t))
		q, ok := keep[id]
		if !ok {
			continue
		}
		e.Quick = q
		out = append(out, e)
	}
	return out
}

// MapEdits adds one '%' line to a map that no name of any file selects: b1
// sorts before, z1 after every map the alphabet's names select (c1, e9, m1, m2,
// m3, r1, r2, r3); M1 and \355\061 are the upper-case and the high-bit twin of
// the skeleton's map id m1 (a map id is an opaque pair of bytes, like a
// location id).
func MapEdits() []Edit {
	var out []Edit
	for _, id := range []string{"b1", "z1", "M1", `\355\061`} {
		for _, x := range []struct{ slug, loc, cidr string }{
			{"d6", "cc", "::/0"}, {"d4", "cc", "0.0.0.0/0"}, {"n8", "aa", "8.8.8.0/24"}, {"n10", "bb", "10.0.0.0/8"},
		} {
			twin := id != "b1" && id != "z1"
			if twin && x.slug != "n10" && x.slug != "n8" {
				continue
			}
			q := x.slug == "d6" || (x.slug == "n10" && id == "b1") || (x.slug == "n8" && id == "z1") || (x.slug == "n10" && id == "M1")
			out = append(out, Edit{ID: "map:" + x.slug + "-" + LocSlug(id), Kind: "map", Quick: q, Why: "subnet in a map no name selects", line: Net(x.loc, x.cidr, id)})
		}
	}
	return out
}

func slug(l Line) string {
	owner := l.Text[1:]
	if i := strings.IndexByte(owner, ','); i >= 0 {
		owner = owner[:i]
	}
	if owner == "" {
		owner = "."
	}
	return fmt.Sprintf("%c%s@%s", l.Text[0], owner, LocSlug(l.Loc))
}

// LineEdits derives, from the tagged lines a base file already holds, the
// edits "delete that line" and "change its rdata and TTL".
func LineEdits(lines []Line) []Edit {
	var out []Edit
	for _, l := range lines {
		if l.Loc == "" {
			continue
		}
		out = append(out, Edit{ID: "del:" + slug(l), Kind: "del", Tag: l.Loc, Quick: true, Why: "delete a tagged line", old: l.Text})
		if l.Alt != "" {
			out = append(out, Edit{ID: "chg:" + slug(l), Kind: "chg", Tag: l.Loc, Why: "change rdata and TTL of a tagged line", old: l.Text, alt: l.Alt})
		}
	}
	return out
}
