package dnsgen

import (
	"fmt"
	"os"
	"strings"

	"github.com/miekg/dns"

	"verifharness/dnsfix"
)

// Query is one (name, type) question.
type Query struct {
	Name string
	Type uint16
}

// Queries is the product Names x QTypes followed by VeryDeepNames x VeryDeepQTypes.
func Queries() []Query {
	var q []Query
	for _, n := range Names() {
		for _, t := range QTypes() {
			q = append(q, Query{n, t})
		}
	}
	for _, n := range VeryDeepNames() {
		for _, t := range VeryDeepQTypes() {
			q = append(q, Query{n, t})
		}
	}
	return q
}

// TypeName is the mnemonic of a query type.
func TypeName(t uint16) string {
	if s, ok := dns.TypeToString[t]; ok {
		return s
	}
	return fmt.Sprintf("TYPE%d", t)
}

// Request builds the query message of client c for q.
func Request(q Query, c Client) *dns.Msg {
	// built by hand: dns.Msg.SetQuestion draws a random id (one getrandom system call per query)
	m := &dns.Msg{Question: []dns.Question{{Name: dns.Fqdn(q.Name), Qtype: q.Type, Qclass: dns.ClassINET}}}
	m.Id = 4242
	if c.ECS {
		dnsfix.WithECS(m, c.Family, c.SrcLen, c.Addr)
	}
	return m
}

// MaxAnswer is the answer limit used for every query: larger than the number
// of address candidates any file of the alphabet has at one name, so the
// answer section is a function of the data file.
const MaxAnswer = 8

// Canon renders a Serve result canonically (dnsfix.CanonResult) after blanking
// the rdata of additional-section addresses at ambiguous targets (see
// AmbiguousTargets): which of several visible addresses is put there is the
// server's random choice, their owner, type, count and TTL class are not.
func Canon(res dnsfix.Result, amb map[string]bool) string {
	if len(amb) > 0 && res.Panicked == nil {
		for mi, m := range res.Msgs {
			var cp *dns.Msg
			for i, rr := range m.Extra {
				h := rr.Header()
				if h.Rrtype != dns.TypeA && h.Rrtype != dns.TypeAAAA {
					continue
				}
				key := fmt.Sprintf("%s/%d", strings.TrimSuffix(strings.ToLower(h.Name), "."), h.Rrtype)
				if !amb[key] {
					continue
				}
				if cp == nil {
					cp = m.Copy()
					res.Msgs = append([]*dns.Msg(nil), res.Msgs...)
					res.Msgs[mi] = cp
				}
				switch x := cp.Extra[i].(type) {
				case *dns.A:
					x.A = []byte{0, 0, 0, 0}
					x.Hdr.Ttl = 0
				case *dns.AAAA:
					x.AAAA = make([]byte, 16)
					x.Hdr.Ttl = 0
				}
			}
		}
	}
	return dnsfix.CanonResult(res)
}

// Equal reports whether two canonical results are the same observation; two
// panics are (whatever their messages).
func Equal(a, b string) bool {
	return a == b || (strings.HasPrefix(a, "<PANIC") && strings.HasPrefix(b, "<PANIC"))
}

// Kind names the first part in which two canonical results differ:
// panic | noresponse | rcode (header: rcode, flags, question, message count) |
// answer | authority | additional. "" when equal.
func Kind(a, b string) string {
	if Equal(a, b) {
		return ""
	}
	if strings.HasPrefix(a, "<PANIC") || strings.HasPrefix(b, "<PANIC") {
		return "panic"
	}
	if strings.HasPrefix(a, "<no response") || strings.HasPrefix(b, "<no response") {
		return "noresponse"
	}
	la, lb := strings.Split(a, "\n"), strings.Split(b, "\n")
	if len(la) != len(lb) || len(la) < 4 {
		return "rcode"
	}
	names := []string{"rcode", "answer", "authority", "additional"}
	for i := range la {
		if la[i] != lb[i] {
			if i < len(names) {
				return names[i]
			}
			return "rcode"
		}
	}
	return "rcode"
}

// Variant is a storage configuration: backend plus compiler options.
type Variant struct {
	Name       string
	Backend    dnsfix.Backend
	Opts       dnsfix.RDBOpts
	CDBWorkers int
}

// BaseVariants are the three storage configurations every file is served from.
func BaseVariants() []Variant {
	return []Variant{
		{Name: "cdb", Backend: dnsfix.CDB, CDBWorkers: 1},
		{Name: "rdb-v1", Backend: dnsfix.RDBv1, Opts: dnsfix.RDBOpts{Workers: 1, BatchNumParallel: 1}},
		{Name: "rdb-v2", Backend: dnsfix.RDBv2, Opts: dnsfix.RDBOpts{Workers: 1, BatchNumParallel: 1}},
	}
}

// OptionVariants are further compiler settings (thorough tier): builder mode
// and two parser workers, each compared with the base variant of its backend.
func OptionVariants() []Variant {
	return []Variant{
		{Name: "cdb+w2", Backend: dnsfix.CDB, CDBWorkers: 2},
		{Name: "rdb-v1+builder", Backend: dnsfix.RDBv1, Opts: dnsfix.RDBOpts{Workers: 1, UseBuilder: true}},
		{Name: "rdb-v2+builder", Backend: dnsfix.RDBv2, Opts: dnsfix.RDBOpts{Workers: 1, UseBuilder: true}},
		{Name: "rdb-v1+w2", Backend: dnsfix.RDBv1, Opts: dnsfix.RDBOpts{Workers: 2, BatchNumParallel: 2, BatchSize: 2}},
		{Name: "rdb-v2+w2", Backend: dnsfix.RDBv2, Opts: dnsfix.RDBOpts{Workers: 2, BatchNumParallel: 2, BatchSize: 2}},
	}
}

// Store is a compiled data file opened behind the real handler.
type Store struct {
	V    Variant
	Path string
	H    *dnsfix.Handler
}

// OpenStore compiles text with the real compiler of v into dir and opens the
// real handler on the result.
func OpenStore(dir string, v Variant, text []byte) (*Store, error) {
	p, err := dnsfix.CompileOpts(dir, v.Backend, text, v.Opts, v.CDBWorkers)
	if err != nil {
		return nil, fmt.Errorf("compile: %w", err)
	}
	h, err := dnsfix.OpenHandler(v.Backend, p, dnsfix.HandlerOpts{})
	if err != nil {
		os.RemoveAll(p)
		return nil, fmt.Errorf("open: %w", err)
	}
	return &Store{V: v, Path: p, H: h}, nil
}

// Close shuts the handler and removes the compiled store.
func (s *Store) Close() {
	s.H.Close()
	os.RemoveAll(s.Path)
}

// Ask serves one query of one client and returns the canonical result.
func (s *Store) Ask(q Query, c Client, amb map[string]bool) string {
	return Canon(s.H.Serve(Request(q, c), c.Resolver, false, MaxAnswer), amb)
}

// AskAll serves every query for every client: out[client][query].
func (s *Store) AskAll(qs []Query, cs []Client, amb map[string]bool) [][]string {
	out := make([][]string, len(cs))
	for ci, c := range cs {
		out[ci] = make([]string, len(qs))
		for qi, q := range qs {
			out[ci][qi] = s.Ask(q, c, amb)
		}
	}
	return out
}
