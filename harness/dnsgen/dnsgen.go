// Package dnsgen is the shared data-file / query generator of the serve-path
// differential and metamorphic checks (C02, C04). It emits every alphabet item
// both as data-file text and as structured records, the closed query-name
// universe, the query types and the clients. It contains no oracle and no
// expectation about any response; the only "semantic" help it gives is the
// list of (owner, family) pairs at which the server's additional-section
// processing makes a weighted *random* pick (more than one visible address of
// one family), so that the checks can leave exactly that rdata out of their
// comparisons.
package dnsgen

import (
	"fmt"
	"net"
	"sort"
	"strings"

	"github.com/miekg/dns"
)

// Rec is one structured resource record declared by a line.
type Rec struct {
	Owner string // lower case, no trailing dot; "" is the root
	Wild  bool   // the record belongs to "*.Owner"
	Type  uint16
	Loc   string // "" = untagged
	Rdata string // informational
}

// Line is one data-file line with the records it declares.
type Line struct {
	Text string
	Loc  string // location tag of the line ("" for untagged and for M/8/% lines)
	Recs []Rec
	// Alt is the same line with different rdata / TTL (same owner, type and tag);
	// "" where no variant is defined.
	Alt string
}

// A builds a '+' line. weight "" = default.
func A(owner, ip, ttl, loc, weight string) Line {
	t := fmt.Sprintf("+%s,%s,%s,,%s", owner, ip, ttl, loc)
	if weight != "" {
		t += "," + weight
	}
	typ := dns.TypeA
	if strings.Contains(ip, ":") {
		typ = dns.TypeAAAA
	}
	o, w := splitWild(owner)
	altIP := "198.51.100.200"
	if typ == dns.TypeAAAA {
		altIP = "2001:db8::c8"
	}
	return Line{Text: t, Loc: loc, Recs: []Rec{{Owner: o, Wild: w, Type: typ, Loc: loc, Rdata: ip}},
		Alt: fmt.Sprintf("+%s,%s,777,,%s", owner, altIP, loc)}
}

func splitWild(owner string) (string, bool) {
	if strings.HasPrefix(owner, "*.") {
		return strings.ToLower(owner[2:]), true
	}
	return strings.ToLower(owner), false
}

func addrRec(owner, ip, loc string) []Rec {
	if ip == "" {
		return nil
	}
	typ := dns.TypeA
	if strings.Contains(ip, ":") {
		typ = dns.TypeAAAA
	}
	return []Rec{{Owner: strings.ToLower(owner), Type: typ, Loc: loc, Rdata: ip}}
}

func expand(host, mid, zone string) string {
	if strings.Contains(host, ".") {
		return host
	}
	if zone == "" {
		return host + "." + mid
	}
	return host + "." + mid + "." + zone
}

// NS builds an '&' line (NS record plus, when ip is given, the address of the server name).
func NS(zone, ip, ns, ttl, loc string) Line {
	host := expand(ns, "ns", zone)
	recs := []Rec{{Owner: strings.ToLower(zone), Type: dns.TypeNS, Loc: loc, Rdata: host}}
	recs = append(recs, addrRec(host, ip, loc)...)
	return Line{Text: fmt.Sprintf("&%s,%s,%s,%s,,%s", zone, ip, ns, ttl, loc), Loc: loc, Recs: recs,
		Alt: fmt.Sprintf("&%s,,changed.other.org,777,,%s", zone, loc)}
}

// Dot builds a '.' line (derived SOA + NS + optional address).
func Dot(zone, ip, ns, ttl, loc string) Line {
	host := expand(ns, "ns", zone)
	recs := []Rec{
		{Owner: strings.ToLower(zone), Type: dns.TypeSOA, Loc: loc},
		{Owner: strings.ToLower(zone), Type: dns.TypeNS, Loc: loc, Rdata: host},
	}
	recs = append(recs, addrRec(host, ip, loc)...)
	return Line{Text: fmt.Sprintf(".%s,%s,%s,%s,,%s", zone, ip, ns, ttl, loc), Loc: loc, Recs: recs}
}

// SOA2 builds a 'Z' line whose every rdata field and TTL differ from SOA's: the
// second SOA of a name that has one tagged and one untagged.
func SOA2(zone, loc string) Line {
	return Line{Text: fmt.Sprintf("Z%s,b.ns.example.com,second.example.com,22,7222,1822,604822,122,322,,%s", zone, loc), Loc: loc,
		Recs: []Rec{{Owner: strings.ToLower(zone), Type: dns.TypeSOA, Loc: loc}},
		Alt:  fmt.Sprintf("Z%s,changed.other.org,hostmaster.example.com,2,7200,1800,604800,120,777,,%s", zone, loc)}
}

// SOA builds a 'Z' line.
func SOA(zone, loc string) Line {
	return Line{Text: fmt.Sprintf("Z%s,a.ns.example.com,hostmaster.example.com,1,7200,1800,604800,120,300,,%s", zone, loc), Loc: loc,
		Recs: []Rec{{Owner: strings.ToLower(zone), Type: dns.TypeSOA, Loc: loc}},
		Alt:  fmt.Sprintf("Z%s,changed.other.org,hostmaster.example.com,2,7200,1800,604800,120,777,,%s", zone, loc)}
}

// MX builds an '@' line.
func MX(owner, ip, host, dist, ttl, loc string) Line {
	h := expand(host, "mx", owner)
	recs := []Rec{{Owner: strings.ToLower(owner), Type: dns.TypeMX, Loc: loc, Rdata: h}}
	recs = append(recs, addrRec(h, ip, loc)...)
	return Line{Text: fmt.Sprintf("@%s,%s,%s,%s,%s,,%s", owner, ip, host, dist, ttl, loc), Loc: loc, Recs: recs}
}

// CNAME builds a 'C' line.
func CNAME(owner, target, ttl, loc string) Line {
	o, w := splitWild(owner)
	return Line{Text: fmt.Sprintf("C%s,%s,%s,,%s", owner, target, ttl, loc), Loc: loc,
		Recs: []Rec{{Owner: o, Wild: w, Type: dns.TypeCNAME, Loc: loc, Rdata: target}},
		Alt:  fmt.Sprintf("C%s,changed.other.org,777,,%s", owner, loc)}
}

// TXT builds a TXT (') line.
func TXT(owner, text, ttl, loc string) Line {
	o, w := splitWild(owner)
	return Line{Text: fmt.Sprintf("'%s,%s,%s,,%s", owner, text, ttl, loc), Loc: loc,
		Recs: []Rec{{Owner: o, Wild: w, Type: dns.TypeTXT, Loc: loc, Rdata: text}},
		Alt:  fmt.Sprintf("'%s,changed,777,,%s", owner, loc)}
}

// HTTPS builds an 'H' line.
func HTTPS(owner, target, ttl, loc, prio, params string) Line {
	o, w := splitWild(owner)
	return Line{Text: fmt.Sprintf("H%s,%s,%s,%s,%s,%s", owner, target, ttl, loc, prio, params), Loc: loc,
		Recs: []Rec{{Owner: o, Wild: w, Type: dns.TypeHTTPS, Loc: loc, Rdata: target}}}
}

// Map builds an 'M' (kind 'M') or '8' (kind '8') line.
func Map(kind byte, owner, id string) Line {
	return Line{Text: fmt.Sprintf("%c%s,%s", kind, owner, id)}
}

// Net builds a '%' line.
func Net(loc, cidr, id string) Line {
	return Line{Text: fmt.Sprintf("%%%s,%s,%s", loc, cidr, id)}
}

// Item is one element of the optional-line alphabet: a line or a small group of
// lines that must appear together, or the removal of a skeleton line.
type Item struct {
	ID     string
	Lines  []Line
	Remove []string // exact text of skeleton lines this item removes
	Why    string
	// Core items take part in the largest subsets of the thorough tier, Quick
	// items (a subset of Core) in the largest subsets of the quick tier.
	Core  bool
	Quick bool
	// ECSMap: the item declares a client-subnet ('8') map, ECS clients are added.
	ECSMap bool
	// XLoc: the item puts resolvers into the locations XLocations; those clients are added.
	XLoc bool
	// MayLocate lists (client id -> location) assignments this item can cause
	// in addition to the skeleton's; used only to decide conservatively
	// whether an edit is foreign to a client (C04).
	MayLocate map[string][]string
	// Conflicts lists item ids that would make the file ill-formed together with this one.
	Conflicts []string
}

// Locations used by the alphabet.
var Locations = []string{"aa", "bb", "cc"}

// Location ids outside [a-z][a-z], in the text form a data file holds them in
// (a location id is any two bytes). Each is the twin of another id of the
// alphabet under some byte transformation a key builder or a lookup could apply
// by mistake, or looks like another part of a key.
const (
	LocUp  = "AA"       // ASCII upper case twin of aa
	LocHi  = `\341\341` // aa with the high bits set; not valid UTF-8
	LocNul = `\000\001` // leading NUL: twin of "untagged" (\000\000) when only the first byte is looked at, and the byte that ends a name
	LocSep = `\003\054` // a byte that reads as a label length, and the field separator ','
)

// XLocations are the ids above.
var XLocations = []string{LocUp, LocHi, LocNul, LocSep}

// AllLocations is Locations + XLocations.
func AllLocations() []string { return append(append([]string(nil), Locations...), XLocations...) }

// LocSlug renders a location id for fingerprints and edit ids: [A-Za-z0-9] as
// they are, every other byte of the text form dropped except octal digits
// (\341\341 -> o341341).
func LocSlug(loc string) string {
	if !strings.Contains(loc, `\`) {
		return loc
	}
	return "o" + strings.ReplaceAll(loc, `\`, "")
}

// Skeleton is present in every file: the apex of example.com (explicit SOA and
// NS form), the location plumbing, and one address per location at a probe
// name so that the location a client was put into is observable in every file.
func Skeleton() []Line {
	return []Line{
		SOA("example.com", ""),
		NS("example.com", "192.0.2.53", "a.ns.example.com", "3600", ""),
		Map('M', "example.com", "m1"),
		Map('M', "*.example.com", "m1"),
		Net("aa", "10.0.0.0/8", "m1"),
		Net("bb", "192.168.0.0/16", "m1"),
		A("probe.example.com", "192.0.2.101", "300", "aa", ""),
		A("probe.example.com", "192.0.2.102", "300", "bb", ""),
		A("probe.example.com", "192.0.2.103", "300", "cc", ""),
	}
}

// Client ids.
const (
	ClAA   = "10.1.1.1"
	ClBB   = "192.168.1.1"
	ClNone = "8.8.8.8"
	ClV6   = "2001:db8::1"
	ClEcsA = "8.8.8.8~ecs=10.1.1.0-24"
	ClEcsB = "8.8.8.8~ecs=192.168.1.0-24"
	ClEcs6 = "8.8.8.8~ecs=2001:db8::-56"
	// resolvers that item xloc puts into the locations XLocations
	ClXUp  = "172.16.1.1"
	ClXHi  = "172.17.1.1"
	ClXNul = "172.18.1.1"
	ClXSep = "172.19.1.1"
)

var allClients = []string{ClAA, ClBB, ClNone, ClV6, ClEcsA, ClEcsB, ClEcs6, ClXUp, ClXHi, ClXNul, ClXSep}

func everyClient(loc string) map[string][]string {
	m := map[string][]string{}
	for _, c := range allClients {
		m[c] = []string{loc}
	}
	return m
}

// Items returns the optional alphabet, simplest first (DESIGN appendix C; the
// numbers in Why refer to its table).
func Items() []Item {
	it := []Item{
		{ID: "w1", Quick: true, Core: true, Why: "1 plain A, explicit TTL", Lines: []Line{A("www.example.com", "192.0.2.1", "300", "", "")}},
		{ID: "w2aa", Quick: true, Core: true, Why: "2 default TTL, located: second candidate for an aa client", Lines: []Line{A("www.example.com", "192.0.2.2", "", "aa", "")}},
		{ID: "w3bb", Why: "3 other location", Lines: []Line{A("www.example.com", "192.0.2.3", "300", "bb", "")}},
		{ID: "w6", Why: "4 AAAA", Lines: []Line{A("www.example.com", "2001:db8::1", "300", "", "")}},
		{ID: "w0", Why: "5 weight 0", Lines: []Line{A("www.example.com", "192.0.2.9", "300", "", "0")}},
		{ID: "cn", Quick: true, Core: true, Why: "6 CNAME", Lines: []Line{CNAME("c.example.com", "www.example.com", "300", "")}},
		{ID: "wild", Quick: true, Core: true, Why: "7 wildcard under w", Lines: []Line{A("*.w.example.com", "192.0.2.10", "300", "", "")}},
		{ID: "wildaa", Quick: true, Core: true, Why: "8 located wildcard", Lines: []Line{A("*.w.example.com", "192.0.2.11", "300", "aa", "")}},
		{ID: "wildbb", Why: "8' wildcard of the other location (visible through the closer map of item 30)", Lines: []Line{A("*.w.example.com", "192.0.2.14", "300", "bb", "")}},
		{ID: "xw", Why: "9 own record beats the wildcard", Lines: []Line{A("x.w.example.com", "192.0.2.12", "300", "", "")}},
		{ID: "wildapex", Quick: true, Core: true, Why: "10 wildcard at the zone cut; must not reach into sub. or deleg.", Lines: []Line{TXT("*.example.com", "wild", "300", "")}},
		{ID: "ab", Why: "11 empty non-terminal b", Lines: []Line{A("a.b.example.com", "192.0.2.20", "300", "", "")}},
		{ID: "sub", Quick: true, Core: true, Why: "12 nested authoritative zone", Lines: []Line{Dot("sub.example.com", "192.0.2.54", "a", "3600", "")}},
		{ID: "xsub", Quick: true, Core: true, Why: "13 data in (or, without 12, at the place of) the nested zone", Lines: []Line{A("x.sub.example.com", "192.0.2.30", "300", "", "")}},
		{ID: "wildsub", Why: "14 wildcard of the nested zone", Lines: []Line{A("*.sub.example.com", "192.0.2.31", "300", "", "")}},
		{ID: "deleg", Quick: true, Core: true, Why: "15 delegation with in-bailiwick glue", Lines: []Line{NS("deleg.example.com", "192.0.2.55", "ns.deleg.example.com", "3600", "")}},
		{ID: "delegaa", Quick: true, Core: true, Why: "16 located NS, out-of-zone target", Lines: []Line{NS("deleg.example.com", "", "ns2.other.org", "3600", "aa")}},
		{ID: "below", Why: "17 occluded data below the cut", Lines: []Line{A("below.deleg.example.com", "192.0.2.40", "300", "", "")}},
		{ID: "mx", Why: "18 MX with expansion and address (additional)", Lines: []Line{MX("example.com", "192.0.2.60", "mx1", "10", "300", "")}},
		{ID: "txt", Why: "23 TXT", Lines: []Line{TXT("txt.example.com", "hello world", "300", "")}},
		{ID: "https", Why: "26 HTTPS with root target; owner-address additional processing", Lines: []Line{HTTPS("www.example.com", ".", "300", "", "1", "alpn=h2")}},
		// 28: byte-order neighbours for the v2 closest-key walk, same-name-other-location neighbours
		{ID: "na", Quick: true, Core: true, Why: "28 neighbour a", Lines: []Line{A("a.example.com", "192.0.2.81", "300", "", "")}},
		{ID: "nb", Why: "28 neighbour b", Lines: []Line{A("b.example.com", "192.0.2.82", "300", "", "")}},
		{ID: "na-", Why: "28 neighbour a-", Lines: []Line{A("a-.example.com", "192.0.2.83", "300", "", "")}},
		{ID: "na0", Why: "28 neighbour a0", Lines: []Line{A("a0.example.com", "192.0.2.84", "300", "", "")}},
		{ID: "naa", Why: "28 neighbour aa", Lines: []Line{A("aa.example.com", "192.0.2.85", "300", "", "")}},
		{ID: "naba", Quick: true, Core: true, Why: "28 neighbour ab.a (below a)", Lines: []Line{A("ab.a.example.com", "192.0.2.86", "300", "", "")}},
		{ID: "na_aa", Quick: true, Core: true, Why: "28 a tagged aa", Lines: []Line{A("a.example.com", "192.0.2.87", "300", "aa", "")}},
		{ID: "na_bb", Why: "28 a tagged bb", Lines: []Line{A("a.example.com", "192.0.2.88", "300", "bb", "")}},
		{ID: "ecs", Quick: true, Core: true, ECSMap: true, Why: "29 client-subnet map",
			Lines:     []Line{Map('8', "example.com", "c1"), Map('8', "*.example.com", "c1"), Net("aa", "10.0.0.0/8", "c1"), Net("bb", "2001:db8::/32", "c1")},
			MayLocate: map[string][]string{ClEcsA: {"aa"}, ClEcs6: {"bb"}}},
		{ID: "m2", Quick: true, Core: true, Why: "30 closer wildcard map that re-locates the aa client under w",
			Lines:     []Line{Map('M', "*.w.example.com", "m2"), Net("bb", "10.0.0.0/8", "m2")},
			MayLocate: map[string][]string{ClAA: {"bb"}, ClEcsA: {"bb"}}},
		{ID: "mxw", Why: "30' closer exact map below a wildcard map",
			Lines:     []Line{Map('M', "x.w.example.com", "m3"), Net("bb", "10.0.0.0/8", "m3")},
			MayLocate: map[string][]string{ClAA: {"bb"}, ClEcsA: {"bb"}}},
		{ID: "locz", Quick: true, Core: true, Why: "31 zone that exists only for one location",
			Lines: []Line{SOA("loc.example.com", "aa"), NS("loc.example.com", "", "a.ns.example.com", "3600", "aa")}},
		{ID: "hloc", Why: "31' data in the located zone", Lines: []Line{A("h.loc.example.com", "192.0.2.90", "300", "aa", "")}},
		{ID: "aplusb", Why: "32 owner with a non-wild-safe label", Lines: []Line{A("a+b.w.example.com", "192.0.2.13", "300", "", "")}},
		{ID: "no_mwild", Quick: true, Core: true, Why: "33 wildcard map removed: names below the apex have no map", Remove: []string{"M*.example.com,m1"}},
		{ID: "no_mexact", Quick: true, Core: true, Why: "33 exact map removed: wildcard map at the queried name without exact map", Remove: []string{"Mexample.com,m1"}},
		{ID: "no_m1nets", Quick: true, Core: true, Why: "C03 surrounding: a map that names select but that holds no subnet at all (its lookups must not stray into a neighbouring map)",
			Remove: []string{"%aa,10.0.0.0/8,m1", "%bb,192.168.0.0/16,m1"}},
		{ID: "d6m1", Quick: true, Core: true, Why: "34 lone IPv6 default route in the applicable map", Lines: []Line{Net("cc", "::/0", "m1")}, MayLocate: everyClient("cc")},
		{ID: "d4m1", Why: "34 IPv4 default route in the applicable map", Lines: []Line{Net("cc", "0.0.0.0/0", "m1")}, MayLocate: everyClient("cc")},
		{ID: "d6c1", Quick: true, Core: true, Why: "34 IPv6 default route in a map sorting before the applicable one (the client-subnet map when 29 is present)", Lines: []Line{Net("cc", "::/0", "c1")}, MayLocate: everyClient("cc")},
		{ID: "d4c1", Why: "34 IPv4 default route in c1", Lines: []Line{Net("cc", "0.0.0.0/0", "c1")}, MayLocate: everyClient("cc")},
		{ID: "d6z1", Why: "34 IPv6 default route in a map sorting after the applicable one", Lines: []Line{Net("cc", "::/0", "z1")}, MayLocate: everyClient("cc")},
		{ID: "rootns", Quick: true, Core: true, Why: "35 root delegation (also: a root-owned record next to the range points on v1 keys)",
			Lines: []Line{NS("", "", "a.root-servers.net", "3600", "")}, Conflicts: []string{"rootz"}},
		{ID: "rootz", Why: "35 root zone", Lines: []Line{Dot("", "", "a.root-servers.net", "3600", "")}},
		// 36: one owner and type both tagged and untagged (whatever keeps the first match is sensitive to the order
		// "location, then untagged"), and zone-cut data split between a location and the untagged set
		{ID: "soaaa", Quick: true, Core: true, Why: "36 second SOA at the apex, tagged aa and different in every field: negative answers of an aa client carry it",
			Lines: []Line{SOA2("example.com", "aa")}},
		{ID: "nsaa", Quick: true, Core: true, Why: "36 NS at the apex tagged aa: for an aa client the apex is made of a tagged NS and the untagged SOA and NS",
			Lines: []Line{NS("example.com", "", "nsaa.other.org", "3600", "aa")}},
		{ID: "subsoaaa", Quick: true, Why: "36 SOA at sub tagged aa (with 12: second SOA; with subns: cut split between aa and untagged; alone: SOA without NS)",
			Lines: []Line{SOA2("sub.example.com", "aa")}},
		{ID: "subnsaa", Quick: true, Why: "36 NS at sub tagged aa (with 12: tagged NS next to untagged SOA+NS; with subsoa: split cut; alone: delegation for aa only)",
			Lines: []Line{NS("sub.example.com", "", "nsaa.other.org", "3600", "aa")}},
		{ID: "subsoa", Why: "36 untagged SOA at sub without NS", Lines: []Line{SOA("sub.example.com", "")}, Conflicts: []string{"sub"}},
		{ID: "subns", Quick: true, Why: "36 untagged NS at sub without SOA: a delegation, with subsoaaa a zone for aa only",
			Lines: []Line{NS("sub.example.com", "192.0.2.56", "ns.sub.example.com", "3600", "")}},
		{ID: "cndup", Why: "36 CNAME both untagged and tagged aa", Conflicts: []string{"cn"},
			Lines: []Line{CNAME("c.example.com", "www.example.com", "300", ""), CNAME("c.example.com", "a.example.com", "300", "aa")}},
		{ID: "wildapexaa", Why: "36 apex wildcard tagged aa (with 10: both)", Lines: []Line{TXT("*.example.com", "wildaa", "300", "aa")}},
		// 37: maps on the root and on a top level domain
		{ID: "mrootw", Quick: true, Core: true, Why: "37 catch-all resolver map (root wildcard): applies to every name without a closer map",
			Lines:     []Line{Map('M', "*.", "r1"), Net("bb", "10.0.0.0/8", "r1"), Net("aa", "192.168.0.0/16", "r1")},
			MayLocate: map[string][]string{ClAA: {"bb"}, ClEcsA: {"bb"}, ClBB: {"aa"}, ClEcsB: {"aa"}}},
		{ID: "8rootw", Quick: true, Core: true, ECSMap: true, Why: "37 catch-all client-subnet map (root wildcard)",
			Lines:     []Line{Map('8', "*.", "e9"), Net("bb", "10.0.0.0/8", "e9"), Net("aa", "2001:db8::/32", "e9")},
			MayLocate: map[string][]string{ClEcsA: {"bb"}, ClEcs6: {"aa"}}},
		{ID: "mroot", Why: "37 exact resolver map on the root: applies to the root only",
			Lines:     []Line{Map('M', ".", "r2"), Net("bb", "10.0.0.0/8", "r2")},
			MayLocate: map[string][]string{ClAA: {"bb"}, ClEcsA: {"bb"}}},
		{ID: "mcomw", Why: "37 wildcard resolver map on the top level domain",
			Lines:     []Line{Map('M', "*.com", "r3"), Net("bb", "10.0.0.0/8", "r3")},
			MayLocate: map[string][]string{ClAA: {"bb"}, ClEcsA: {"bb"}}},
		// 38: location ids outside [a-z][a-z]
		{ID: "xloc", Quick: true, XLoc: true, Why: "38 resolvers in the locations AA, \\341\\341, \\000\\001, \\003\\054 and one probe address for each",
			Lines: []Line{Net(LocUp, "172.16.0.0/16", "m1"), Net(LocHi, "172.17.0.0/16", "m1"), Net(LocNul, "172.18.0.0/16", "m1"), Net(LocSep, "172.19.0.0/16", "m1"),
				A("probe.example.com", "192.0.2.104", "300", LocUp, ""), A("probe.example.com", "192.0.2.105", "300", LocHi, ""),
				A("probe.example.com", "192.0.2.106", "300", LocNul, ""), A("probe.example.com", "192.0.2.107", "300", LocSep, "")}},
		{ID: "na_AA", Why: "38 a tagged AA: its v2 key sorts between the untagged and the aa key of the name", Lines: []Line{A("a.example.com", "192.0.2.89", "300", LocUp, "")}},
		{ID: "na_01", Why: "38 a tagged \\000\\001", Lines: []Line{A("a.example.com", "192.0.2.91", "300", LocNul, "")}},
		// 39: an owner 13 labels below the apex, sibling of a queried name
		{ID: "deepsib", Why: "39 deep owner: sibling of the 12-label-deep query name under w", Lines: []Line{A("k."+Deep(11, "w.example.com"), "192.0.2.92", "300", "", "")}},
	}
	seen := map[string]bool{}
	for _, x := range it {
		if seen[x.ID] {
			panic("dnsgen: duplicate item id " + x.ID)
		}
		seen[x.ID] = true
	}
	return it
}

// ItemIndex maps item ids to their index.
func ItemIndex(items []Item) map[string]int {
	m := map[string]int{}
	for i, x := range items {
		m[x.ID] = i
	}
	return m
}

// File is one generated data file.
type File struct {
	Sel    []int    // selected item indices, ascending
	IDs    []string // sorted item ids
	Lines  []Line
	HasECS bool
	HasX   bool
}

// Clients are the clients that query this file.
func (f *File) Clients() []Client { return ClientsX(f.HasECS, f.HasX) }

// Key is the canonical name of the item set ("-" for the empty set).
func (f *File) Key() string {
	if len(f.IDs) == 0 {
		return "-"
	}
	return strings.Join(f.IDs, ",")
}

// Text renders the file.
func (f *File) Text() []byte {
	var sb strings.Builder
	for _, l := range f.Lines {
		sb.WriteString(l.Text)
		sb.WriteByte('\n')
	}
	return []byte(sb.String())
}

// Build makes the file skeleton + selected items.
func Build(items []Item, sel []int) *File {
	f := &File{Sel: append([]int(nil), sel...)}
	sort.Ints(f.Sel)
	removed := map[string]bool{}
	for _, i := range f.Sel {
		for _, r := range items[i].Remove {
			removed[r] = true
		}
		f.IDs = append(f.IDs, items[i].ID)
		if items[i].ECSMap {
			f.HasECS = true
		}
		if items[i].XLoc {
			f.HasX = true
		}
	}
	sort.Strings(f.IDs)
	for _, l := range Skeleton() {
		if !removed[l.Text] {
			f.Lines = append(f.Lines, l)
		}
	}
	for _, i := range f.Sel {
		f.Lines = append(f.Lines, items[i].Lines...)
	}
	return f
}

// WithLines returns a copy of f with its line list replaced.
func (f *File) WithLines(lines []Line) *File {
	g := *f
	g.Lines = lines
	return &g
}

// Compatible reports whether the selection has no declared conflict.
func Compatible(items []Item, sel []int) bool {
	for _, i := range sel {
		for _, c := range items[i].Conflicts {
			for _, j := range sel {
				if items[j].ID == c {
					return false
				}
			}
		}
	}
	return true
}

// Subsets returns all subsets of pool (item indices) of size exactly k, in
// lexicographic order of positions in pool.
func Subsets(pool []int, k int) [][]int {
	var out [][]int
	cur := make([]int, 0, k)
	var rec func(start int)
	rec = func(start int) {
		if len(cur) == k {
			out = append(out, append([]int(nil), cur...))
			return
		}
		for i := start; i < len(pool); i++ {
			cur = append(cur, pool[i])
			rec(i + 1)
			cur = cur[:len(cur)-1]
		}
	}
	rec(0)
	return out
}

// Mask is the bit set of a selection.
func Mask(sel []int) uint64 {
	var m uint64
	for _, i := range sel {
		m |= 1 << uint(i)
	}
	return m
}

// AmbiguousTargets returns the set "owner/type" of (name, address family)
// pairs at which a client whose location is one of locs (plus the untagged
// records every client sees) has more than one exact-owner address record of
// that family. The server's additional-section processing keeps ONE of them by
// a weighted random draw (db.AdditionalSectionForRecords, Wrs{MaxAnswers: 1}),
// so the address chosen there is not a function of the data file.
func AmbiguousTargets(lines []Line, locs []string) map[string]bool {
	type k struct {
		owner string
		typ   uint16
		loc   string
	}
	cnt := map[k]int{}
	owners := map[string]bool{}
	for _, l := range lines {
		for _, r := range l.Recs {
			if r.Wild || (r.Type != dns.TypeA && r.Type != dns.TypeAAAA) {
				continue
			}
			cnt[k{r.Owner, r.Type, r.Loc}]++
			owners[r.Owner] = true
		}
	}
	out := map[string]bool{}
	for o := range owners {
		for _, t := range []uint16{dns.TypeA, dns.TypeAAAA} {
			worst := 0
			for _, lc := range locs {
				if lc == "" {
					continue
				}
				if c := cnt[k{o, t, lc}]; c > worst {
					worst = c
				}
			}
			if cnt[k{o, t, ""}]+worst > 1 {
				out[fmt.Sprintf("%s/%d", o, t)] = true
			}
		}
	}
	return out
}

// Deep is the name n labels below zone: l<n>.l<n-1>. ... .l1.zone.
func Deep(n int, zone string) string {
	var sb strings.Builder
	for i := n; i >= 1; i-- {
		fmt.Fprintf(&sb, "l%d.", i)
	}
	return sb.String() + zone
}

// DeepNames are query names with many labels (every per-label loop of the
// lookup code runs far more often than for any owner of the alphabet): 12
// labels below the apex (and so below the owner of the skeleton's wildcard
// map), below the wildcard under w, below the nested zone and below the
// delegation.
func DeepNames() []string {
	return []string{Deep(12, "example.com"), Deep(12, "w.example.com"), Deep(12, "sub.example.com"), Deep(12, "deleg.example.com")}
}

// VeryDeepNames are asked for VeryDeepQTypes only: 32 labels below w, an
// ip6.arpa name (34 labels, outside every zone but the root's), the name with
// the most labels a 255-octet name can have below w (120 one-letter labels) and
// a 255-octet name of 63-octet labels below w.
func VeryDeepNames() []string {
	l63 := func(c string) string { return strings.Repeat(c, 63) }
	return []string{
		Deep(32, "w.example.com"),
		"b.a.9.8.7.6.5.0.4.0.0.0.3.0.0.0.2.0.0.0.1.0.0.0.0.0.0.0.1.2.3.4.ip6.arpa",
		strings.Repeat("z.", 120) + "w.example.com",
		l63("p") + "." + l63("q") + "." + l63("r") + "." + strings.Repeat("s", 47) + ".w.example.com",
	}
}

// VeryDeepQTypes are the query types of VeryDeepNames.
func VeryDeepQTypes() []uint16 { return []uint16{dns.TypeA, dns.TypeTXT} }

// Names is the closed query-name universe (DESIGN section 2): every owner of the
// alphabet, every ancestor, fresh siblings, the under-wildcard names, an
// out-of-zone name, two upper-case variants and DeepNames.
func Names() []string {
	return append(shallowNames(), DeepNames()...)
}

func shallowNames() []string {
	return []string{
		".", "com", "example.com",
		"www.example.com", "c.example.com", "nx.example.com", "txt.example.com", "probe.example.com",
		"ns.example.com", "a.ns.example.com", "mx1.mx.example.com",
		"w.example.com", "*.w.example.com", "x.w.example.com", "y.x.w.example.com", "q.w.example.com", "r.q.w.example.com",
		"a+b.w.example.com", "c+d.w.example.com",
		"b.example.com", "a.b.example.com",
		"sub.example.com", "x.sub.example.com", "nx.sub.example.com", "a.ns.sub.example.com",
		"deleg.example.com", "ns.deleg.example.com", "below.deleg.example.com",
		"a.example.com", "a-.example.com", "a0.example.com", "aa.example.com", "ab.a.example.com", "nx.a.example.com",
		"loc.example.com", "h.loc.example.com",
		"other.org", "org",
		"WWW.EXAMPLE.COM", "Q.W.Example.Com",
	}
}

// QTypes is the query-type list of C02/C04.
func QTypes() []uint16 {
	return []uint16{dns.TypeA, dns.TypeAAAA, dns.TypeNS, dns.TypeSOA, dns.TypeMX, dns.TypeTXT, dns.TypeCNAME, dns.TypeDS, dns.TypeANY}
}

// Client is one querying party.
type Client struct {
	ID       string
	Resolver string // source address of the query
	ECS      bool
	Family   uint16
	SrcLen   uint8
	Addr     net.IP
	// Nominal is the location the skeleton's plumbing (plus the ECS map item,
	// for ECS clients) assigns: "none", "aa" or "bb".
	Nominal string
}

// ClientsX is Clients plus, when withX, the resolvers of the locations XLocations.
func ClientsX(withECS, withX bool) []Client {
	c := Clients(withECS)
	if withX {
		c = append(c,
			Client{ID: ClXUp, Resolver: ClXUp, Nominal: LocUp},
			Client{ID: ClXHi, Resolver: ClXHi, Nominal: LocHi},
			Client{ID: ClXNul, Resolver: ClXNul, Nominal: LocNul},
			Client{ID: ClXSep, Resolver: ClXSep, Nominal: LocSep},
		)
	}
	return c
}

// Clients returns the resolver clients and, when withECS, the ECS variants.
func Clients(withECS bool) []Client {
	c := []Client{
		{ID: ClAA, Resolver: "10.1.1.1", Nominal: "aa"},
		{ID: ClBB, Resolver: "192.168.1.1", Nominal: "bb"},
		{ID: ClNone, Resolver: "8.8.8.8", Nominal: "none"},
		{ID: ClV6, Resolver: "2001:db8::1", Nominal: "none"},
	}
	if withECS {
		c = append(c,
			Client{ID: ClEcsA, Resolver: "8.8.8.8", ECS: true, Family: 1, SrcLen: 24, Addr: net.ParseIP("10.1.1.0").To4(), Nominal: "aa"},
			Client{ID: ClEcsB, Resolver: "8.8.8.8", ECS: true, Family: 1, SrcLen: 24, Addr: net.ParseIP("192.168.1.0").To4(), Nominal: "none"},
			Client{ID: ClEcs6, Resolver: "8.8.8.8", ECS: true, Family: 2, SrcLen: 56, Addr: net.ParseIP("2001:db8::"), Nominal: "bb"},
		)
	}
	return c
}

// PossibleLocs is a conservative superset of the locations the files built
// from sel can put client c into (skeleton assignment + every item's MayLocate).
func PossibleLocs(items []Item, sel []int, c Client) map[string]bool {
	p := map[string]bool{}
	if c.Nominal != "none" {
		p[c.Nominal] = true
	}
	for _, i := range sel {
		for _, l := range items[i].MayLocate[c.ID] {
			p[l] = true
		}
	}
	return p
}
