package dnsgen

import (
	"sort"
	"sync"
)

// Failure is one failing comparison: Key names the observation (everything of
// the fingerprint except the item set), Mask the item set of the file.
type Failure struct {
	Key    string
	Mask   uint64
	FP     string
	Detail string
	Replay interface{}
}

// Minimizer collects failing comparisons of files enumerated over ALL subsets
// of an alphabet and keeps the minimal ones: a failure is minimal when no file
// whose item set is a proper subset fails with the same Key.
type Minimizer struct {
	mu      sync.Mutex
	base    map[string]bool // keys failing on the empty item set
	byKey   map[string][]Failure
	Failing int64 // all failing comparisons reported
	Covered int64 // dropped at once because the empty set already fails that way
}

func NewMinimizer() *Minimizer {
	return &Minimizer{base: map[string]bool{}, byKey: map[string][]Failure{}}
}

// Report records one failing comparison.
func (m *Minimizer) Report(f Failure) {
	m.mu.Lock()
	defer m.mu.Unlock()
	m.Failing++
	if f.Mask != 0 && m.base[f.Key] {
		m.Covered++
		return
	}
	if len(f.Detail) > 1500 {
		f.Detail = f.Detail[:1500] + " ..."
	}
	m.byKey[f.Key] = append(m.byKey[f.Key], f)
}

// SealBase is called once the file with the empty item set has been checked:
// from now on failures with a key that already fails there are not stored.
func (m *Minimizer) SealBase() {
	m.mu.Lock()
	defer m.mu.Unlock()
	for k, l := range m.byKey {
		for _, f := range l {
			if f.Mask == 0 {
				m.base[k] = true
			}
		}
	}
}

// Minimal returns the minimal failures sorted by fingerprint, and the number
// of stored failures that were not minimal.
func (m *Minimizer) Minimal() (out []Failure, nonMinimal int64) {
	m.mu.Lock()
	defer m.mu.Unlock()
	for _, l := range m.byKey {
		for i, f := range l {
			min := true
			for j, g := range l {
				if i != j && g.Mask&f.Mask == g.Mask && g.Mask != f.Mask {
					min = false
					break
				}
			}
			if min {
				out = append(out, f)
			} else {
				nonMinimal++
			}
		}
	}
	sort.Slice(out, func(i, j int) bool { return out[i].FP < out[j].FP })
	return out, nonMinimal + m.Covered
}
