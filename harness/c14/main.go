// C14: serving and reloading concurrently is free of data races, deadlocks and crashes.
//
// The REAL handler over REAL backends (a RocksDB directory with v2 keys opened
// as secondary, and a CDB file), instrumented; query workers, a reloader, a
// statistics reporter and shutdown run as scheduler threads and every
// interleaving within the preemption bound is executed. On every execution a
// vector-clock happens-before analysis (edges only from the synchronisation
// actually performed: locks, channels, wait groups, goroutine start/join)
// checks every access to the watch-listed shared fields; deadlocks and panics
// are detected by the scheduler.
package main

import (
	"context"
	"errors"
	"runtime/pprof"
	"time"
	"fmt"
	"os"
	"os/exec"
	"path/filepath"
	"runtime"
	"sort"
	"strings"

	rocksdb "github.com/facebookincubator/dns/dnsrocks/cgo-rocksdb"
	"github.com/facebookincubator/dns/dnsrocks/db"
	"github.com/facebookincubator/dns/dnsrocks/dnsdata/rdb"
	"github.com/facebookincubator/dns/dnsrocks/dnsserver"
	"github.com/facebookincubator/dns/dnsrocks/dnsserver/stats"
	"github.com/facebookincubator/dns/dnsrocks/metrics"
	"github.com/facebookincubator/dns/dnsrocks/zzverif/vsched"
	"github.com/miekg/dns"

	"verifharness/dnsfix"
	"verifharness/srvfix"
	"verifharness/vlib"
)

const data = `Zexample.com,ns.example.com,hostmaster.example.com,1,7200,1800,604800,120,300,,
&example.com,198.51.100.1,ns.example.com,3600,,
Mexample.com,m1
M*.example.com,m1
%aa,10.0.0.0/8,m1
+www.example.com,192.0.2.1,300,,
+www.example.com,192.0.2.2,300,,aa
+*.w.example.com,192.0.2.3,300,,
&deleg.example.com,198.51.101.1,ns.deleg.example.com,3600,,
`

var paths = map[string][2]string{} // backend -> two database paths

var sharedRocks *rocksdb.RocksDB

type scen struct {
	name      string
	backend   dnsfix.Backend
	cache     bool
	realStats bool // the handler counts into a real metrics.Stats (many more lock operations per query)
	threads   [][]string
	bound     [2]int // quick, thorough
}

var scens = []scen{
	{"cdb: query x query", dnsfix.CDB, false, false, [][]string{{"q"}, {"q2"}}, [2]int{1, 2}},
	{"cdb: query x same query (cache on)", dnsfix.CDB, true, false, [][]string{{"q"}, {"q"}}, [2]int{1, 2}},
	{"rdb-v2: query x query", dnsfix.RDBv2, false, false, [][]string{{"q"}, {"q2"}}, [2]int{1, 2}},
	{"cdb: unusual queries x unusual queries (real metrics)", dnsfix.CDB, true, true, [][]string{{"qx"}, {"qy"}}, [2]int{1, 2}},
	{"cdb: query x full reload", dnsfix.CDB, true, false, [][]string{{"q"}, {"reload-full"}}, [2]int{2, 3}},
	{"cdb: 2 queries x full reload x shutdown", dnsfix.CDB, false, false, [][]string{{"q", "q2"}, {"reload-full"}, {"shutdown"}}, [2]int{1, 2}},
	{"cdb: query x stats export (real metrics)", dnsfix.CDB, false, true, [][]string{{"q"}, {"stats"}}, [2]int{1, 2}},
	{"rdb-v2: query x partial reload", dnsfix.RDBv2, false, false, [][]string{{"q"}, {"reload-partial"}}, [2]int{1, 2}},
	{"rdb-v2: 2 queries (cache on) x partial reload", dnsfix.RDBv2, true, false, [][]string{{"q", "q2"}, {"reload-partial"}}, [2]int{1, 2}},
	{"rdb-v2: 2 queries x shutdown", dnsfix.RDBv2, false, false, [][]string{{"q", "q2"}, {"shutdown"}}, [2]int{2, 3}},
	{"rdb-v2: stats export x shutdown", dnsfix.RDBv2, false, false, [][]string{{"stats"}, {"shutdown"}}, [2]int{1, 2}},
	{"cdb: stats export x query x shutdown", dnsfix.CDB, false, false, [][]string{{"stats"}, {"q"}, {"shutdown"}}, [2]int{1, 2}},
	{"rdb-v2: stats export x partial reload (real metrics)", dnsfix.RDBv2, false, true, [][]string{{"stats"}, {"reload-partial"}}, [2]int{1, 2}},
}

// package-level state of the code under test survives an execution (e.g. a memo table keyed by query type):
// "unusual" queries use types no earlier execution of this process has asked for
var buildN int

func build(sc scen) (func(), func(*vsched.Result) []string) {
	buildN++
	freshType := uint16(60000 + 2*(buildN%2500))
	var notes []string
	var reg *srvfix.Registry
	body := func() {
		st := metrics.NewStats()
		var hs stats.Stats = &stats.DummyStats{}
		if sc.realStats {
			hs = st
		}
		p := paths[sc.backend.String()]
		h, err := dnsserver.NewFBDNSDBBasic(dnsserver.HandlerConfig{}, dnsserver.DBConfig{Path: p[0], Driver: sc.backend.Driver(), ReloadTimeout: 1 << 40},
			dnsserver.CacheConfig{Enabled: sc.cache, LRUSize: 16}, &dnsserver.DummyLogger{}, hs)
		if err != nil {
			panic(err)
		}
		// real backend, opened by the repository's own driver, behind a tracking wrapper so that
		// executions cut short by pruning do not leak mappings / RocksDB handles
		reg = &srvfix.Registry{}
		vsched.AtEnd(reg.CloseAll)
		var inner db.DBI
		if sc.backend == dnsfix.CDB {
			inner, err = db.OpenDBIForVerif(p[0], sc.backend.Driver())
			if err != nil {
				panic(err)
			}
		} else {
			// one real RocksDB secondary handle per process; each execution builds its own reader state
			// (read options, iterator pool filled under the scheduler, driver) around it
			rd := rdb.NewReaderOnSharedForVerif(sharedRocks)
			inner = db.NewRDBDriverForVerif(rd, p[0])
			vsched.AtEnd(func(normalEnd bool) {
				if !normalEnd {
					rd.FreePooledIteratorsForVerif() // idle pooled iterators of a cut execution
				}
			})
		}
		h.SetDBForVerif(db.NewDBForVerif(reg.Track(inner)))
		// the sliding-window cleaner is a forever-running service goroutine
		vsched.SetGoDaemon(true)
		st.AddSample("DNS.responsetime_us", 1)
		vsched.SetGoDaemon(false)
		closed := false
		query := func(name, ip string, qt ...uint16) {
			m := new(dns.Msg)
			m.SetQuestion(name, dns.TypeA)
			if len(qt) > 0 {
				m.Question[0].Qtype = qt[0]
			}
			w := dnsfix.NewWriter(ip, false)
			h.ServeDNS(dnsserver.WithMaxAnswer(context.Background(), 8), w, m)
		}
		var ts []*vsched.Thread
		for i, ops := range sc.threads {
			i, ops := i, ops
			ts = append(ts, vsched.GoNamed(fmt.Sprintf("T%d", i), false, func() {
				for _, op := range ops {
					switch op {
					case "q":
						query("www.example.com.", "10.1.1.1")
					case "q2":
						query("x.w.example.com.", "8.8.8.8")
					case "qx": // a type without a mnemonic, a name that does not exist, a name below the delegation
						query("www.example.com.", "10.1.1.1", freshType)
						query("nx.example.com.", "10.1.1.1")
					case "qy":
						query("www.example.com.", "8.8.8.8", freshType+1)
						query("a.deleg.example.com.", "8.8.8.8")
					case "reload-full":
						if err := h.Reload(*dnsserver.NewFullReloadSignal(p[1])); err != nil && !strings.Contains(err.Error(), "closed") && !errors.Is(err, db.ErrReloadTimeout) {
							notes = append(notes, "reload-full failed: "+err.Error())
						}
					case "reload-partial":
						if err := h.Reload(*dnsserver.NewPartialReloadSignal()); err != nil && !strings.Contains(err.Error(), "closed") && !errors.Is(err, db.ErrReloadTimeout) {
							notes = append(notes, "reload-partial failed: "+err.Error())
						}
					case "stats":
						h.ReportBackendStats()
						st.Get()
						st.IncrementCounter("x")
					case "shutdown":
						h.Close()
						closed = true
					}
				}
			}))
		}
		vsched.Join(ts...)
		vsched.Quiesce()
		if !closed {
			h.Close()
		}
	}
	check := func(res *vsched.Result) []string {
		bad := append([]string{}, notes...)
		if reg != nil {
			bad = append(bad, reg.Faults...) // would be a crash of the process on the real backend
		}
		for _, p := range res.Problems() {
			// normalise thread names out of race reports: one fingerprint per racing field and access pair
			bad = append(bad, p)
		}
		sort.Strings(bad)
		var o []string
		for i, b := range bad {
			if i == 0 || b != bad[i-1] {
				o = append(o, b)
			}
		}
		return o
	}
	return body, check
}

func main() {
	runtime.GOMAXPROCS(1)
	r := vlib.Start("C14")
	dir, clean := vlib.Scratch("c14")
	defer clean()
	dnsfix.Quiet(dir)
	idx, n, isShard := r.Shard()
	if !isShard {
		r.ForkShards(len(scens))
		raceSupplement(r, dir)
	} else {
		for _, b := range []dnsfix.Backend{dnsfix.CDB, dnsfix.RDBv2} {
			var pp [2]string
			for i := range pp {
				p, err := dnsfix.Compile(dir, b, []byte(data))
				if err != nil {
					panic(err)
				}
				pp[i] = p
			}
			paths[b.String()] = pp
		}
		var oerr error
		if sharedRocks, oerr = rdb.OpenSharedForVerif(paths[dnsfix.RDBv2.String()][0]); oerr != nil {
			panic(oerr)
		}
		for u := idx; u < len(scens); u += n {
			sc := scens[u]
			bound := sc.bound[0]
			if r.Thorough() {
				bound = sc.bound[1]
			}
			outcomes := map[string]bool{}
			// an execution cut by state pruning in the middle of a query leaves native RocksDB iterators behind;
			// such handles cannot be closed (RocksDB asserts) and are leaked until the shard process exits
			st := vsched.Explore(vsched.Config{Bound: bound, MaxSteps: 50000, AccessPts: r.Thorough()}, func() (func(), func(*vsched.Result)) {
				body, check := build(sc)
				return body, func(res *vsched.Result) {
					bad := check(res)
					outcomes[strings.Join(bad, "+")] = true
					for _, b := range bad {
						fp := fingerprint(sc, b)
						if !r.Has(fp) {
							body2, _ := build(sc)
							lr := vsched.RunOnce(vsched.Config{LogEvents: true, MaxSteps: 50000}, res.Choices, body2)
							ev := lr.EventLog()
							if len(ev) > 400 {
								ev = ev[len(ev)-400:]
							}
							r.Violate(fp, fmt.Sprintf("scenario %q: %s (choices %v)", sc.name, b, res.Choices),
								map[string]interface{}{"scenario": sc.name, "choices": res.Choices, "events_tail": ev})
						}
					}
				}
			})
			r.Add("schedule_executions", st.Execs)
			r.Add("schedule_steps", st.Transitions)
			r.Add("schedule_distinct_states", st.States)
			r.Add("schedule_pruned_subtrees", st.Pruned)
			r.Add("schedule_distinct_outcomes", int64(len(outcomes)))
			if st.Capped || st.BoundCompleted < bound {
				r.Exhaustive = false
			}
			if os.Getenv("C14_DEBUG") != "" {
				fmt.Fprintf(os.Stderr, "c14 debug: scenario %q outcomes %q\n", sc.name, outcomes)
			}
			r.Note("scenario %q: preemption bound %d, executions %d, distinct states %d, steps %d", sc.name, bound, st.Execs, st.States, st.Transitions)
			r.Sample(map[string]interface{}{"scenario": sc.name, "threads": sc.threads, "bound": bound, "executions": st.Execs})
		}
		r.Finish()
	}
	r.Set("states", r.Int("schedule_distinct_states"))
	r.Set("transitions", r.Int("schedule_steps"))
	r.Set("evaluations", r.Int("schedule_executions"))
	r.Set("traces_validated_against_impl", r.Int("schedule_executions"))
	r.Set("distinct_nontrivial", r.Int("schedule_distinct_states"))
	r.Set("watch_list", "scheduling-point watch-list (thorough): rdb.IteratorPool.enabled; dnsserver.FBDNSDB.dnsdb, FBDNSDB.cacheGen, DBConfig.Path; db.DB.refCount, DB.destroyable; metrics.Stats.values, Stats.windows, slidingWindow.samples. Blanket happens-before events (no scheduling point): every addressable struct field of a type declared in the module, every package-level variable of the module, every local captured by a function literal, every slice/array element access x[i], the backing-array writes of append/copy, every map read/write, in packages db, dnsserver, dnsdata, dnsdata/rdb, dnsdata/cdb, metrics")
	r.Set("rule", "every interleaving within the per-scenario preemption bound of the listed thread sets (query x query, query x same query with the cache on, unusual queries - a type never asked before in this process, a non-existent name, a name below a delegation - x unusual queries with real metrics, queries x full reload, x partial reload, x shutdown, x statistics export) on the real instrumented handler over real CDB / RocksDB(v2, secondary) backends opened inside each execution; on each execution: vector-clock happens-before race check (edges from locks, channels, wait groups, sync.Pool, sync.Once, the LRU's internal lock, goroutine start/join only - the scheduler's own hand-offs are not edges) of every access the blanket instrumentation records, deadlock and panic detection, and use-after-close / double close of the real backend (recorded by a tracking wrapper instead of executed: on the real backend it is a crash of the process); states = distinct state signatures, nontrivial = the same (every explored state has at least two live threads)")
	r.Assume = []string{"race-checked are the accesses the instrumenter can see in the six instrumented packages: struct fields, package variables, captured locals, slice/array elements indexed in those packages, append/copy, maps; accesses made inside third-party code, the cgo wrappers and RocksDB (and through slices handed to library functions) are not (no free-running -race pass is part of the verdict)",
		"the happens-before check is per explored schedule: a race whose two accesses are ordered by an unrelated lock in every explored schedule is not reported (preemption bound)",
		"package-level state of the code under test survives from one execution to the next in a shard process (unusual queries use a type no earlier execution asked for)",
		"weak-memory behaviours beyond data-race-freedom are not modelled", "schedules beyond the preemption bound are not covered"}
	r.Finish()
}

// fingerprint: scenario-independent for races (one defect = one racing field), scenario-specific otherwise.
func fingerprint(sc scen, problem string) string {
	if strings.HasPrefix(problem, "race: ") {
		f := strings.SplitN(strings.TrimPrefix(problem, "race: "), ":", 2)[0]
		kind := "read-write"
		if strings.Contains(problem, ": write by") {
			kind = "write-write-or-write-read"
		}
		return "race/" + f + "/" + kind
	}
	p := problem
	if i := strings.IndexByte(p, '\n'); i > 0 {
		p = p[:i]
	}
	return "sched/" + sc.name + "/" + p
}

func init() {
	if f := os.Getenv("C14_PROF"); f != "" && os.Getenv("VERIF_SHARD_IDX") != "" {
		fh, _ := os.Create(f)
		pprof.StartCPUProfile(fh)
		go func() {
			time.Sleep(40 * time.Second)
			pprof.StopCPUProfile()
			fh.Close()
			os.Exit(3)
		}()
	}
}

// raceSupplement runs the free-running -race build of the same kinds of thread sets (harness/c14_race) and
// turns what the Go race detector wrote, or a crash of that process, into violations. It samples the runtime's
// schedules: it can add true reports, it never decides that the property holds.
func raceSupplement(r *vlib.Run, dir string) {
	bin := os.Getenv("VERIF_AUX_RACE")
	if bin == "" {
		vlib.Infra("auxiliary binary c14_race was not built (VERIF_AUX_RACE unset)")
	}
	rdir := filepath.Join(dir, "race")
	os.MkdirAll(rdir, 0o755)
	iters := "12"
	if r.Thorough() {
		iters = "100"
	}
	cmd := exec.Command(bin, rdir, iters)
	cmd.Env = append(os.Environ(), "GORACE=log_path="+filepath.Join(rdir, "report")+" exitcode=0 history_size=5", "TMPDIR="+rdir)
	out, err := cmd.CombinedOutput()
	reports := 0
	files, _ := filepath.Glob(filepath.Join(rdir, "report.*"))
	sort.Strings(files)
	for _, f := range files {
		b, _ := os.ReadFile(f)
		for _, rep := range strings.Split(string(b), "==================") {
			if !strings.Contains(rep, "WARNING: DATA RACE") {
				continue
			}
			reports++
			fp := "race-detector/" + raceFrames(rep)
			if !r.Has(fp) {
				r.Violate(fp, "Go race detector, free-running run of the uninstrumented code:\n"+clip(rep, 4000), map[string]interface{}{"part": "race-supplement", "report": clip(rep, 8000)})
			}
		}
	}
	if err != nil {
		o := string(out)
		if strings.Contains(o, "INFRA-ERROR") {
			vlib.Infra("c14_race: %s", clip(o, 2000))
		}
		if i := strings.Index(o, "C14-RACE-HANG:"); i >= 0 {
			r.Violate("hang/free-running", "the free-running run of the uninstrumented code hung (all its goroutines are in the dump):\n"+clip(o[i:], 6000), map[string]interface{}{"part": "race-supplement", "output": clip(o[i:], 12000)})
			return
		}
		fp := "crash/" + crashFrame(o)
		r.Violate(fp, "the free-running run of the uninstrumented code crashed ("+err.Error()+"):\n"+clip(o, 4000), map[string]interface{}{"part": "race-supplement", "output": clip(o, 8000)})
	}
	r.Set("race_supplement_iterations_per_configuration", iters)
	r.Set("race_supplement_reports", reports)
	r.Note("free-running -race supplement: 2 backends x cache off/on x %s iterations of {3 query threads, reload (full/partial alternating), statistics export, shutdown every third iteration} on the uninstrumented code; reports of the Go race detector: %d", iters, reports)
}

func clip(s string, n int) string {
	if len(s) > n {
		return s[:n] + "..."
	}
	return s
}

// raceFrames names a race report by the first repository (or other non-runtime) function of each of its two stacks.
func raceFrames(rep string) string {
	var tops []string
	lines := strings.Split(rep, "\n")
	for i, l := range lines {
		t := strings.TrimSpace(l)
		if (strings.HasPrefix(t, "Read at") || strings.HasPrefix(t, "Write at") || strings.HasPrefix(t, "Previous read at") || strings.HasPrefix(t, "Previous write at")) && len(tops) < 2 {
			for _, m := range lines[i+1:] {
				m = strings.TrimSpace(m)
				if m == "" {
					break
				}
				if strings.HasPrefix(m, "runtime.") || strings.HasPrefix(m, "/") || strings.HasPrefix(m, "sync.") {
					continue
				}
				if j := strings.IndexByte(m, '('); j > 0 {
					m = m[:j]
				}
				tops = append(tops, m)
				break
			}
		}
	}
	return strings.Join(tops, "|")
}

// crashFrame names a crash by its signal/fatal line and the first repository frame.
func crashFrame(out string) string {
	head, frame := "", ""
	for _, l := range strings.Split(out, "\n") {
		t := strings.TrimSpace(l)
		if head == "" && (strings.HasPrefix(t, "SIGSEGV") || strings.HasPrefix(t, "fatal error") || strings.HasPrefix(t, "panic:") || strings.HasPrefix(t, "SIGABRT") || strings.HasPrefix(t, "SIGBUS")) {
			head = t
		}
		if frame == "" && strings.HasPrefix(t, "github.com/facebookincubator/dns/dnsrocks/") && !strings.Contains(t, "cgo-rocksdb._Cfunc") {
			if j := strings.IndexByte(t, '('); j > 0 {
				t = t[:j]
			}
			frame = strings.TrimPrefix(t, "github.com/facebookincubator/dns/dnsrocks/")
		}
	}
	if len(head) > 60 {
		head = head[:60]
	}
	return head + "/" + frame
}
