package main

import (
	"encoding/json"
	"fmt"
	"os"
	"strings"

	"github.com/miekg/dns"

	"verifharness/dnsgen"
	"verifharness/vlib"
)

// runReplay re-executes one (base, edit, query, client, backend) case as a plain
// deterministic test: exit 1 if the response still changes, 0 otherwise.
func runReplay(c *checker, path string) {
	b, err := os.ReadFile(path)
	if err != nil {
		vlib.Infra("replay: %v", err)
	}
	var art struct {
		Fingerprint string `json:"fingerprint"`
		Replay      struct {
			Base    []string `json:"base_items"`
			Edit    string   `json:"edit"`
			QName   string   `json:"qname"`
			QType   string   `json:"qtype"`
			Loc     string   `json:"client_location"`
			Backend string   `json:"backend"`
		} `json:"replay"`
	}
	if err := json.Unmarshal(b, &art); err != nil {
		vlib.Infra("replay: %v", err)
	}
	rp := art.Replay
	sel := selByIDs(c.items, rp.Base)
	base := dnsgen.Build(c.items, sel)
	var ed *dnsgen.Edit
	for _, e := range editsFor(base, true) {
		if e.ID == rp.Edit {
			e := e
			ed = &e
		}
	}
	if ed == nil {
		vlib.Infra("replay: unknown edit %q", rp.Edit)
	}
	var cl *dnsgen.Client
	for _, x := range dnsgen.ClientsX(true, true) {
		if locName(x) == rp.Loc {
			x := x
			cl = &x
		}
	}
	var v *dnsgen.Variant
	for _, x := range dnsgen.BaseVariants() {
		if x.Name == rp.Backend {
			x := x
			v = &x
		}
	}
	if cl == nil || v == nil {
		vlib.Infra("replay: unknown client %q or backend %q", rp.Loc, rp.Backend)
	}
	amb := dnsgen.AmbiguousTargets(base.Lines, locList(dnsgen.PossibleLocs(c.items, sel, *cl)))
	q := dnsgen.Query{Name: rp.QName, Type: dns.StringToType[rp.QType]}
	fmt.Printf("replaying %s\n%s%s\n", art.Fingerprint, base.Text(), ed.Describe())
	var res [2]string
	for i, f := range []*dnsgen.File{base, base.WithLines(ed.Apply(base.Lines))} {
		st, err := dnsgen.OpenStore(c.dir, *v, f.Text())
		if err != nil {
			res[i] = "<compile/open error: " + err.Error() + ">"
			continue
		}
		res[i] = st.Ask(q, *cl, amb)
		st.Close()
		fmt.Printf("--- %s\n%s\n", []string{"before", "after"}[i], strings.TrimSpace(res[i]))
	}
	if !dnsgen.Equal(res[0], res[1]) {
		fmt.Println("REPLAY: response still changes")
		os.Exit(1)
	}
	fmt.Println("REPLAY: unchanged")
	os.Exit(0)
}
