// C04: a client sees its own location's records plus the untagged ones, nothing
// else (metamorphic).
//
// For every base data file F, every foreign edit e (one line tagged with a
// location the client cannot be in is added, deleted or changed; or a subnet is
// added to a map that no name selects), every query and every storage
// configuration: response(F, client, query) == response(e(F), client, query).
// Both sides are produced by the real compilers and the real handler; there is
// no expected response.
package main

import (
	"fmt"
	"math/rand"
	"os"
	"runtime/debug"
	"sort"
	"strings"
	"sync/atomic"

	"github.com/facebookincubator/dns/dnsrocks/db"

	"verifharness/dnsfix"
	"verifharness/dnsgen"
	"verifharness/vlib"
)

// see c02: every weighted draw is the same mid-range number.
type constSource struct{}

func (constSource) Int63() int64   { return int64(0x80000001) << 31 }
func (constSource) Uint64() uint64 { return uint64(0x80000001) << 32 }
func (constSource) Seed(int64)     {}

type checker struct {
	r       *vlib.Run
	dir     string
	items   []dnsgen.Item
	queries []dnsgen.Query
	min     *dnsgen.Minimizer

	bases, edited, stores, serves, evals, nontriv int64
	tagged, taggedVisible, notForeign             int64
}

var canonical = map[string]string{"aa": dnsgen.ClAA, "bb": dnsgen.ClBB, "none": dnsgen.ClNone}

// locName is the <client-location> part of a fingerprint.
func locName(c dnsgen.Client) string {
	if canonical[c.Nominal] == c.ID {
		return c.Nominal
	}
	return dnsgen.LocSlug(c.Nominal) + "@" + c.ID
}

type unit struct {
	sel   []int
	edits []dnsgen.Edit
}

// foreignClients are the clients for which e is foreign in files built from sel:
// the edited line's tag is outside every location the file can put the client into.
func foreignClients(items []dnsgen.Item, sel []int, clients []dnsgen.Client, e dnsgen.Edit) []int {
	var out []int
	for i, c := range clients {
		if e.Tag == "" || !dnsgen.PossibleLocs(items, sel, c)[e.Tag] {
			out = append(out, i)
		}
	}
	return out
}

func locList(m map[string]bool) []string {
	var l []string
	for k := range m {
		l = append(l, k)
	}
	sort.Strings(l)
	return l
}

// askClients serves all queries for the selected clients: out[clientIndex][query] (nil for unselected clients).
func (c *checker) askClients(st *dnsgen.Store, clients []dnsgen.Client, which []int, amb []map[string]bool) [][]string {
	out := make([][]string, len(clients))
	for _, ci := range which {
		out[ci] = make([]string, len(c.queries))
		for qi, q := range c.queries {
			out[ci][qi] = st.Ask(q, clients[ci], amb[ci])
		}
	}
	atomic.AddInt64(&c.serves, int64(len(which)*len(c.queries)))
	return out
}

func (c *checker) runUnit(u unit) (sample interface{}) {
	base := dnsgen.Build(c.items, u.sel)
	clients := base.Clients()
	amb := make([]map[string]bool, len(clients))
	allIdx := make([]int, len(clients))
	for i, cl := range clients {
		amb[i] = dnsgen.AmbiguousTargets(base.Lines, locList(dnsgen.PossibleLocs(c.items, u.sel, cl)))
		allIdx[i] = i
	}
	variants := dnsgen.BaseVariants()
	// base responses, per backend
	baseResp := make([][][]string, len(variants))
	need := map[int]bool{}
	for _, e := range u.edits {
		for _, ci := range foreignClients(c.items, u.sel, clients, e) {
			need[ci] = true
		}
	}
	var needIdx []int
	for i := range clients {
		if need[i] {
			needIdx = append(needIdx, i)
		}
	}
	// on CDB also the clients of the edited lines' own locations (to show that the edits are not vacuous)
	ownIdx := append([]int(nil), needIdx...)
	for i, cl := range clients {
		if need[i] {
			continue
		}
		for _, e := range u.edits {
			if e.Tag != "" && e.Tag == cl.Nominal {
				ownIdx = append(ownIdx, i)
				break
			}
		}
	}
	for vi, v := range variants {
		st, err := dnsgen.OpenStore(c.dir, v, base.Text())
		if err != nil {
			vlib.Infra("base file %s does not compile on %s: %v", base.Key(), v.Name, err)
		}
		atomic.AddInt64(&c.stores, 1)
		which := needIdx
		if vi == 0 {
			which = ownIdx
		}
		baseResp[vi] = c.askClients(st, clients, which, amb)
		st.Close()
	}
	mask := dnsgen.Mask(u.sel)
	for _, e := range u.edits {
		fc := foreignClients(c.items, u.sel, clients, e)
		if len(fc) == 0 {
			atomic.AddInt64(&c.notForeign, 1)
			continue
		}
		atomic.AddInt64(&c.edited, 1)
		ef := base.WithLines(e.Apply(base.Lines))
		text := ef.Text()
		for vi, v := range variants {
			st, err := dnsgen.OpenStore(c.dir, v, text)
			if err != nil {
				c.report(base, mask, e, v.Name, "compile", "-", "-", "-", fmt.Sprintf("edited file does not compile: %v", err))
				continue
			}
			atomic.AddInt64(&c.stores, 1)
			got := c.askClients(st, clients, fc, amb)
			// is the edit real? (CDB only) it should change some response for a client of the edited location
			if vi == 0 && e.Tag != "" {
				atomic.AddInt64(&c.tagged, 1)
				visible := false
				for ci, cl := range clients {
					if cl.Nominal != e.Tag || contains(fc, ci) || baseResp[0][ci] == nil {
						continue
					}
					for qi, q := range c.queries {
						if st.Ask(q, cl, amb[ci]) != baseResp[0][ci][qi] {
							visible = true
							break
						}
					}
					atomic.AddInt64(&c.serves, int64(len(c.queries)))
				}
				if visible {
					atomic.AddInt64(&c.taggedVisible, 1)
				}
			}
			st.Close()
			if sample == nil && vi == 2 {
				qi := int((mask*31 + uint64(len(e.ID))*7) % uint64(len(c.queries)))
				sample = map[string]string{"base": base.Key(), "edit": e.ID, "diff": e.Describe(), "backend": v.Name, "client": clients[fc[0]].ID,
					"query": c.queries[qi].Name + " " + dnsgen.TypeName(c.queries[qi].Type), "response_before_and_after": got[fc[0]][qi]}
			}
			for _, ci := range fc {
				cl := clients[ci]
				for qi, q := range c.queries {
					before, after := baseResp[vi][ci][qi], got[ci][qi]
					atomic.AddInt64(&c.evals, 1)
					if !strings.HasPrefix(before, "rcode=REFUSED") {
						atomic.AddInt64(&c.nontriv, 1)
					}
					if dnsgen.Equal(before, after) {
						continue
					}
					c.report(base, mask, e, v.Name, dnsgen.Kind(before, after), q.Name, dnsgen.TypeName(q.Type), locName(cl),
						fmt.Sprintf("client %s (location %s)\nbefore: %s\nafter:  %s", cl.ID, cl.Nominal, before, after))
				}
			}
		}
	}
	atomic.AddInt64(&c.bases, 1)
	return sample
}

func contains(l []int, x int) bool {
	for _, y := range l {
		if y == x {
			return true
		}
	}
	return false
}

func (c *checker) report(base *dnsgen.File, mask uint64, e dnsgen.Edit, backend, kind, qname, qtype, loc, detail string) {
	c.min.Report(dnsgen.Failure{
		Key:    fmt.Sprintf("%s/%s/%s/%s/%s/%s", backend, kind, e.ID, qname, qtype, loc),
		Mask:   mask,
		FP:     fmt.Sprintf("leak/%s/%s/%s/%s/%s/%s/%s", backend, kind, base.Key(), e.ID, qname, qtype, loc),
		Detail: fmt.Sprintf("base items=%s edit=%s (%s)\n%s\nquery=%s %s backend=%s\n%s", base.Key(), e.ID, e.Why, e.Describe(), qname, qtype, backend, detail),
		Replay: map[string]interface{}{"base_items": base.IDs, "edit": e.ID, "qname": qname, "qtype": qtype, "client_location": loc, "backend": backend, "base_file": string(base.Text()), "edit_diff": e.Describe()},
	})
}

// editsFor lists every edit offered to base file f.
func editsFor(f *dnsgen.File, thorough bool) []dnsgen.Edit {
	var all, e []dnsgen.Edit
	for _, t := range []string{"aa", "bb"} {
		all = append(all, dnsgen.AddEdits(t)...)
	}
	for _, t := range dnsgen.XLocations {
		all = append(all, dnsgen.XAddEdits(t)...)
	}
	all = append(all, dnsgen.MapEdits()...)
	all = append(all, dnsgen.LineEdits(f.Lines)...)
	for _, x := range all {
		if thorough || x.Quick {
			e = append(e, x)
		}
	}
	return e
}

// C04 base pool: the items that shape visibility (located records, zone cuts,
// wildcards, neighbours, maps); quick uses the first nQuick of them.
var basePool = []string{
	"deleg", "delegaa", "sub", "locz", "wildapex", "wildaa", "w2aa", "xloc", "na_aa", "ecs", "m2", "no_m1nets",
	"wild", "w1", "na", "no_mexact", "cn", "naba", "mx", "rootns", "d6m1", "d6c1", "no_mwild", "xsub", "below",
	"soaaa", "nsaa", "subnsaa", "subsoaaa", "mrootw", "8rootw", "na_AA", "na_01", "cndup",
}

const (
	nQuick = 12 // quick: singles of the first nQuick pool items
	nPair  = 8  // thorough: pairs of the first nPair pool items
)

func main() {
	r := vlib.Start("C04")
	debug.SetGCPercent(400)
	db.SetRandForVerif(rand.New(constSource{}))
	dir, clean := vlib.Scratch("c04")
	dnsfix.Quiet(dir)
	items := dnsgen.Items()
	c := &checker{r: r, dir: dir, items: items, queries: dnsgen.Queries(), min: dnsgen.NewMinimizer()}

	for i, a := range os.Args {
		if a == "--replay" && i+1 < len(os.Args) {
			runReplay(c, os.Args[i+1])
			clean()
			return
		}
	}

	idx := dnsgen.ItemIndex(items)
	var pool1, pool2 []int // singles, pair members
	for i, id := range basePool {
		j, ok := idx[id]
		if !ok {
			vlib.Infra("base pool names unknown item %q", id)
		}
		if r.Thorough() || i < nQuick {
			pool1 = append(pool1, j)
		}
		if r.Thorough() && i < nPair {
			pool2 = append(pool2, j)
		}
	}
	sort.Ints(pool1)
	sort.Ints(pool2)
	levels := [][][]int{{{}}, dnsgen.Subsets(pool1, 1)}
	if r.Thorough() {
		levels = append(levels, dnsgen.Subsets(pool2, 2))
	}
	if only := os.Getenv("C04_ONLY"); only != "" { // debugging aid: one base
		levels = [][][]int{{selByIDs(items, strings.Split(only, ","))}}
	}
	var basesBySize, editsPerBase []int
	editIDs := map[string]bool{}
	// edits of one base are split into chunks (each chunk recompiles the base)
	mkUnits := func(sets [][]int, chunk int) []unit {
		var units []unit
		n := 0
		for _, sel := range sets {
			if !dnsgen.Compatible(items, sel) {
				continue
			}
			n++
			es := editsFor(dnsgen.Build(items, sel), r.Thorough() || os.Getenv("C04_ALL_EDITS") != "")
			editsPerBase = append(editsPerBase, len(es))
			for _, e := range es {
				editIDs[e.ID] = true
			}
			for i := 0; i < len(es); i += chunk {
				j := i + chunk
				if j > len(es) {
					j = len(es)
				}
				units = append(units, unit{sel: sel, edits: es[i:j]})
			}
		}
		basesBySize = append(basesBySize, n)
		return units
	}
	// the base without optional items first (small chunks: all workers busy); if an
	// edit leaks there, no larger base can be a minimal case for that observation
	u0 := mkUnits(levels[0], 2)
	s0 := make([]interface{}, len(u0))
	vlib.ParallelFor(len(u0), func(i int) { s0[i] = c.runUnit(u0[i]) })
	c.min.SealBase()
	var rest []unit
	for _, sets := range levels[1:] {
		rest = append(rest, mkUnits(sets, 8)...)
	}
	s1 := make([]interface{}, len(rest))
	vlib.ParallelFor(len(rest), func(i int) { s1[i] = c.runUnit(rest[i]) })
	for _, x := range append(s0, s1...) {
		if x != nil {
			r.Sample(x)
		}
	}
	minimal, nonmin := c.min.Minimal()
	for _, f := range minimal {
		r.Violate(f.FP, f.Detail, f.Replay)
	}
	clean()
	if os.Getenv("C04_ONLY") != "" {
		r.Exhaustive = false
	}

	nb := 0
	for _, n := range basesBySize {
		nb += n
	}
	sort.Ints(editsPerBase)
	r.Set("states", int64(nb)+c.edited)
	r.Set("transitions", c.serves)
	r.Set("evaluations", c.evals)
	r.Set("traces_validated_against_impl", c.serves)
	r.Set("distinct_nontrivial", c.nontriv)
	r.Set("base_files", nb)
	r.Set("base_files_by_size", fmt.Sprint(basesBySize))
	r.Set("base_pool", strings.Join(basePool, ","))
	r.Set("edited_files", c.edited)
	r.Set("distinct_edits", len(editIDs))
	if len(editsPerBase) > 0 {
		r.Set("edits_per_base_min_max", fmt.Sprintf("%d..%d", editsPerBase[0], editsPerBase[len(editsPerBase)-1]))
	}
	r.Set("edits_skipped_not_foreign_to_any_client", c.notForeign)
	r.Set("tagged_edits_applied", c.tagged)
	r.Set("tagged_edits_that_change_a_response_for_their_own_location_on_cdb", c.taggedVisible)
	r.Set("stores_compiled_and_opened", c.stores)
	r.Set("backends", "cdb, rdb-v1, rdb-v2 for EVERY base and EVERY edited file (RocksDB covers the whole product)")
	r.Set("query_names", len(dnsgen.Names()))
	r.Set("query_types", len(dnsgen.QTypes()))
	r.Set("failing_comparisons", c.min.Failing)
	r.Set("failing_comparisons_not_minimal", nonmin)
	r.Set("rule", fmt.Sprintf("base file = skeleton + every subset of <=1 item of the first %d pool items (quick) / <=1 of all %d and <=2 of the first %d (thorough); edits per base (thorough; quick applies a fixed sub-list, see distinct_edits): 17 added lines x tags {aa, bb} (address at the queried name, apex, glue host, apex server host, MX host, neighbour; NS at apex / delegation point / queried leaf / com / root; SOA at apex; nested zone; wildcards at apex and under w; CNAME; MX), 6 of them (leaf address, NS and SOA at the apex, apex wildcard, nested zone, glue address) x tags {AA, \\341\\341, \\000\\001, \\003\\054} = location ids that are the upper-case / high-bit twin of aa, start with NUL, or look like a label length and a field separator (foreign to every client but the resolver that base item xloc puts into that very location; base xloc also makes every aa/bb-tagged edit foreign to resolvers in those four locations), 12 subnets added to maps no name selects (ids b1 < c1,e9,m1,m2,r1 < z1: ::/0, 0.0.0.0/0, a subnet holding the unlocated client, a subnet holding the aa client; ids M1 and \\355\\061 = upper-case and high-bit twin of the skeleton's map id m1: the last two subnets), and delete / change-rdata-and-TTL of every tagged line the base holds (probe addresses of the skeleton, tagged items). An edit tagged T is applied for a client only if T is outside every location the base's maps can put that client into (skeleton assignment + the items' declared re-locations, a conservative superset); map edits are applied for all clients. Each base and each edited file is compiled to cdb, rdb-v1, rdb-v2 and served by the real handler (maxAnswer=%d, constant random source) for every (name of the %d-name universe, which holds names 12 labels below the apex, the wildcard under w, the nested zone and the delegation) x (9 qtypes) x (applicable client), and 4 names of 32..121 labels / 255 octets x (A, TXT) x (applicable client); states = base + edited files; transitions = queries served; evaluations = before/after comparisons; nontrivial = comparisons whose 'before' response is not REFUSED. Only minimal cases are reported (no sub-base leaks for the same backend, kind, edit, query, client).", nQuick, len(basePool), nPair, dnsgen.MaxAnswer, len(dnsgen.Names())))
	r.Assume = []string{
		"which locations a client can be in is taken from the generator's declaration of the maps (skeleton: 10/8->aa, 192.168/16->bb; items ecs, m2, mxw, d*), not from the server",
		"the db package's random source is replaced by a constant; additional-section addresses at names with more than one visible address are compared by owner/type/count only",
		"bases with more than 2 optional items, edits of more than one line, and cc-tagged added lines are outside the bound (cc-tagged lines are covered by delete/change of the skeleton's cc probe)",
		"only edits of FOREIGN records are applied: how the records of the client's own location and the untagged ones are combined (order, split zone cuts, which of two SOAs) is not observable by this relation; it is compared across readers by C02 and against the reference interpreter by C01",
		"location and map ids other than aa, bb, cc, AA, \\341\\341, \\000\\001, \\003\\054 / b1, c1, e9, m1..m3, r1, z1, M1, \\355\\061 are outside the alphabet",
	}
	r.Finish()
}

func selByIDs(items []dnsgen.Item, ids []string) []int {
	idx := dnsgen.ItemIndex(items)
	var sel []int
	for _, id := range ids {
		if id == "" || id == "-" {
			continue
		}
		i, ok := idx[id]
		if !ok {
			vlib.Infra("unknown item id %q", id)
		}
		sel = append(sel, i)
	}
	sort.Ints(sel)
	return sel
}
