package main

import (
	"fmt"
	"net"
	"os"
	"sort"
	"strings"

	"github.com/miekg/dns"

	"verifharness/dnsfix"
	"verifharness/vlib"
)

// ---- part 1: bounded / sound / exact count, through the real serve path ----

// a semantic case: a candidate set, every candidate carrying the draw(s) its
// row(s) receive, asked through one slot by one client with one maxAnswer.
type ecase struct {
	Set     []sym      `json:"set"`
	Backend string     `json:"backend"`
	Sect    string     `json:"section"`
	Fam     int        `json:"family"`
	Client  string     `json:"client_location"`
	M       int        `json:"max_answer"`
	Draws   [][]string `json:"draws_per_candidate"` // per candidate: draws of its visible rows ("-" = row not visible/no draw), v4 then v6
	Shuffle []uint32   `json:"shuffle_draws"`
}

type observation struct {
	Rcode    string
	Addrs    []string // selected addresses (answer section, or additional section for the slot's target)
	Kinds    []string // violated clauses
	Want     int
	Visible  int
	Positive int
	Taken    int
	Canon    string
	msg      *dns.Msg
	NonTriv  bool
}

// query builds a plain query message (dns.Msg.SetQuestion would take a fresh
// message id from crypto/rand - one getrandom system call per query).
func query(name string, qtype uint16) *dns.Msg {
	m := new(dns.Msg)
	m.Id = 4242
	m.Question = []dns.Question{{Name: name, Qtype: qtype, Qclass: dns.ClassINET}}
	return m
}

func backendOf(name string) dnsfix.Backend {
	for _, b := range dnsfix.Backends {
		if b.String() == name {
			return b
		}
	}
	vlib.Infra("unknown backend %q", name)
	return 0
}

// keyDraws is the number of key draws the HANDLER takes for a slot (measured by
// a probe query with maxAnswer 1, so that nothing is shuffled) and whether that
// is the number of rows a fresh reader enumerates for the slot's targets. When
// the two differ the configuration is "misaligned": draws can no longer be
// attributed to candidates, but every sequence over the draws actually taken
// is still enumerated and every response judged. That happens on the unchanged
// tree where the serve path selects twice for one name (a target named by two
// records none of whose candidates has a positive weight; a RocksDB reader
// that returns the rows of another key after a miss) - and it is what a
// changed tree that draws differently looks like: its responses are judged
// all the same (never an infrastructure error).
func (w *world) keyDraws(s slot, cl string) (int, bool) {
	k := cfgKey{s, cl}
	if v, ok := w.nk[k]; ok {
		return v, v == len(w.drawRows(s, cl))
	}
	if w.h == nil {
		vlib.Infra("harness: world %s used after it was closed", setKey(w.set))
	}
	src.load(nil)
	qn, qt := s.query(w.zone)
	w.h.Serve(query(qn, qt), clientIP[cl], false, 1)
	v := src.taken()
	if w.nk == nil {
		w.nk = map[cfgKey]int{}
	}
	w.nk[k] = v
	return v, v == len(w.drawRows(s, cl))
}

// serve runs one query with the scripted draws (keys in the order the draws
// are taken, then shuffle draws) and judges the response against the statement.
func serve(w *world, s slot, cl string, m int, keys, shuffle []uint32) observation {
	mm := m
	if s.Sect != "answer" {
		mm = 3 // the additional section is limited to one per family whatever the context says
	}
	return serveOn(w.h, w, s, cl, mm, keys, shuffle)
}

// serveOn: the same through a given handler of the world, with maxAnswer mm in the request context.
func serveOn(h *dnsfix.Handler, w *world, s slot, cl string, mm int, keys, shuffle []uint32) observation {
	if h == nil {
		vlib.Infra("harness: world %s used after it was closed", setKey(w.set))
	}
	script := make([]uint32, 0, len(keys)+len(shuffle))
	script = append(script, keys...)
	script = append(script, shuffle...)
	src.load(script)
	qn, qt := s.query(w.zone)
	res := h.Serve(query(qn, qt), clientIP[cl], false, mm)
	o := observation{Taken: src.taken()}
	if res.Panicked == nil && h == w.h {
		// the draws the code took should be the ones the script was written for: one key draw per row,
		// then the shuffle of the kept items (at most one per row, each step taking one draw, or two
		// when int31n rejects the first). How many items are kept is the code's business (and judged
		// through the answer), so the bound does not depend on maxAnswer. An evaluation outside that
		// range is judged as it is and counted (0 on the unchanged tree for CDB; RocksDB stores: an NS
		// RRset duplicated in the authority section makes the glue selection run again when the first
		// run served nothing).
		if maxShuffle := 2 * len(keys); o.Taken < len(keys) || o.Taken > len(keys)+maxShuffle {
			if w.backend == dnsfix.CDB {
				deviationsCDB++
			} else {
				deviations++
			}
		}
	}
	limit := mm
	if s.Sect != "answer" {
		limit = 1
	}
	judge(w, s, cl, limit, res, &o)
	return o
}

// judge: limit is the statement's maximum per family and name for this request (the configured maximum
// for the answer section, 1 for the additional section).
func judge(w *world, s slot, cl string, limit int, res dnsfix.Result, o *observation) {
	if res.Panicked != nil || len(res.Msgs) != 1 {
		o.Kinds = append(o.Kinds, "noresponse")
		o.Canon = dnsfix.CanonResult(res)
		return
	}
	msg := res.Msgs[0]
	o.msg = msg
	o.Rcode = dns.RcodeToString[msg.Rcode]
	section := msg.Answer
	if s.Sect != "answer" {
		section = msg.Extra
	}
	var bad [6]bool // foreign, repeat, weight0-served, short, long
	// declared, visible candidates per family: address -> weight
	vi := w.visible(cl)
	tgs := s.targets(w.zone)
	want := make([][2]int, len(tgs))
	got := make([][2]int, len(tgs))
	for t, tg := range tgs {
		for k := range vi.weight {
			if !tg.fams[k] {
				continue
			}
			o.Visible += len(vi.weight[k])
			o.Positive += vi.pos[k]
			want[t][k] = limit
			if vi.pos[k] < limit {
				want[t][k] = vi.pos[k]
			}
			o.Want += want[t][k]
			if len(vi.weight[k]) > want[t][k] {
				o.NonTriv = true
			}
		}
	}
	seen := map[string]bool{}
	for _, rr := range section {
		var ip net.IP
		k := 0
		switch x := rr.(type) {
		case *dns.A:
			ip = x.A
		case *dns.AAAA:
			ip, k = x.AAAA, 1
		default:
			continue // MX/NS/... records are not this property's business
		}
		a := ip.String()
		o.Addrs = append(o.Addrs, a)
		t := -1
		for i, tg := range tgs {
			if strings.EqualFold(rr.Header().Name, tg.owner) {
				t = i
			}
		}
		if t < 0 || !tgs[t].fams[k] {
			bad[0] = true // address record of a family or owner that was not asked for
			continue
		}
		got[t][k]++
		wt, declared := vi.weight[k][a]
		if !declared {
			bad[0] = true // not a declared address of this name visible to this client
			continue
		}
		if key := fmt.Sprint(t, "|", a); seen[key] {
			bad[1] = true
		} else {
			seen[key] = true
		}
		if wt == 0 && msg.Rcode == dns.RcodeSuccess {
			bad[2] = true
		}
	}
	for t, tg := range tgs {
		for k := range want[t] {
			if !tg.fams[k] {
				continue
			}
			if got[t][k] < want[t][k] && s.exact() {
				bad[3] = true
			}
			if got[t][k] > want[t][k] {
				bad[4] = true
			}
		}
	}
	for i, name := range []string{"foreign", "repeat", "weight0-served", "count/short", "count/long"} {
		if bad[i] {
			o.Kinds = append(o.Kinds, name)
		}
	}
}

func (o *observation) canon() string {
	if o.Canon == "" && o.msg != nil {
		o.Canon = dnsfix.Canon(o.msg)
	}
	return o.Canon
}

// attach labels the draws of a served case with the candidates whose rows received them.
func attach(w *world, s slot, cl string, m int, keys, shuffle []uint32) ecase {
	c := ecase{Set: w.set, Backend: w.backend.String(), Sect: s.Sect, Fam: s.Fam, Client: cl, M: m, Shuffle: shuffle}
	c.Draws = make([][]string, len(w.set))
	nf := 1
	if s.Fam == 0 {
		nf = 2
	}
	for i := range c.Draws {
		c.Draws[i] = make([]string, nf)
		for j := range c.Draws[i] {
			c.Draws[i][j] = "-"
		}
	}
	for j, r := range w.drawRows(s, cl) {
		if r.Cand < 0 {
			continue
		}
		k := 0
		if s.Fam == 0 && r.Fam == 6 {
			k = 1
		}
		c.Draws[r.Cand][k] = fmt.Sprint(keys[j])
	}
	return c
}

// candText is the canonical rendering of a case's candidates: sorted "w@tag:draw[+draw6]".
func (c ecase) candText() string {
	p := make([]string, len(c.Set))
	for i, s := range c.Set {
		p[i] = s.String() + ":" + strings.Join(c.Draws[i], "+")
	}
	sort.Strings(p)
	return fmt.Sprintf("n=%d/%s", len(c.Set), strings.Join(p, ","))
}

func (c ecase) key() string {
	return fmt.Sprintf("%s/%s/fam%d/cl=%s/m=%d/%s/shuf=%v", c.Backend, c.Sect, c.Fam, c.Client, c.M, c.candText(), c.Shuffle)
}

// run executes a semantic case (used for sub-cases and replay): builds the
// world of its set and translates candidate-attached draws to row order.
func (c ecase) run() observation {
	type cd struct {
		s sym
		d []string
	}
	cs := make([]cd, len(c.Set))
	for i := range c.Set {
		cs[i] = cd{c.Set[i], c.Draws[i]}
	}
	sort.SliceStable(cs, func(i, j int) bool {
		a, b := cs[i], cs[j]
		if a.s.Tag != b.s.Tag {
			return a.s.Tag < b.s.Tag
		}
		if a.s.W != b.s.W {
			return a.s.W < b.s.W
		}
		return strings.Join(a.d, "+") < strings.Join(b.d, "+")
	})
	set := make([]sym, len(cs))
	for i := range cs {
		set[i] = cs[i].s
	}
	w := getWorld(set, backendOf(c.Backend))
	s := slot{c.Sect, c.Fam}
	rows := w.drawRows(s, c.Client)
	nk, _ := w.keyDraws(s, c.Client)
	keys := make([]uint32, nk)
	for j := range keys {
		keys[j] = 1 << 31
		if j >= len(rows) || rows[j].Cand < 0 {
			continue // a draw that cannot be attributed to a candidate (misaligned configuration)
		}
		r := rows[j]
		k := 0
		if c.Fam == 0 && r.Fam == 6 {
			k = 1
		}
		var v uint64
		if _, err := fmt.Sscan(cs[r.Cand].d[k], &v); err == nil {
			keys[j] = uint32(v)
		}
	}
	return serve(w, s, c.Client, c.M, keys, c.Shuffle)
}

func (o observation) has(kind string) bool {
	for _, k := range o.Kinds {
		if k == kind {
			return true
		}
	}
	return false
}

var failMemo = map[string]bool{}

// evaluations in which the number of draws taken was outside the scripted range (RocksDB; CDB: never on the unchanged tree)
var deviations, deviationsCDB int64

func (c ecase) fails(kind string) bool {
	k := kind + "|" + c.key()
	if v, ok := failMemo[k]; ok {
		return v
	}
	v := c.run().has(kind)
	failMemo[k] = v
	return v
}

func (c ecase) sub(idx []int) ecase {
	d := c
	d.Set, d.Draws = nil, nil
	for _, i := range idx {
		d.Set = append(d.Set, c.Set[i])
		d.Draws = append(d.Draws, c.Draws[i])
	}
	return d
}

// minimise returns a sub-case of smallest cardinality that fails the same
// clause (all subsets are tried in increasing size; the case itself if none).
func (c ecase) minimise(kind string) ecase {
	// a case asked of a target that carries both families first shrinks to the
	// same candidates declared in one family only (its own slot of the data file)
	if c.Fam == 0 && c.Sect != "mxmulti" {
		for _, f := range []int{4, 6} {
			if p := c.project(f); p.fails(kind) {
				return p.minimise(kind)
			}
		}
	}
	n := len(c.Set)
	for size := 1; size < n; size++ {
		idx := make([]int, size)
		var rec func(pos, from int) *ecase
		rec = func(pos, from int) *ecase {
			if pos == size {
				s := c.sub(idx)
				if s.fails(kind) {
					return &s
				}
				return nil
			}
			for i := from; i < n; i++ {
				idx[pos] = i
				if r := rec(pos+1, i+1); r != nil {
					return r
				}
			}
			return nil
		}
		if r := rec(0, 0); r != nil {
			if c.Fam == 0 {
				return r.minimise(kind)
			}
			return *r
		}
	}
	return c
}

// project keeps the rows of one family of a both-family case.
func (c ecase) project(f int) ecase {
	d := c
	d.Fam = f
	d.Draws = make([][]string, len(c.Draws))
	k := 0
	if f == 6 {
		k = 1
	}
	for i := range c.Draws {
		d.Draws[i] = []string{c.Draws[i][k]}
	}
	return d
}

// ---- enumeration ----

type e2eStats struct {
	evals, nontrivial, worlds, failing, shuffleEvals, configs, misaligned, misalignedCDB, reduced, beyond int64
	cacheEvals, cacheSeqs, cacheHits, cacheWorlds, cacheAlsoPlain                                         int64
	bySize                                                                                                [6]int64
}

type e2ePlan struct {
	set     []sym
	backend dnsfix.Backend
	ms      []int    // maxAnswer values for the answer section
	fams    []int    // families for the answer section
	clients []string // client locations
	addl    bool     // additional-section slots too
	shuffle bool     // shuffle-draw variation
	cache   bool     // this unit is the cache-enabled part (cache.go) of the set, not the draw enumeration
	cost    int64
}

func pow5(n int) int64 {
	p := int64(1)
	for i := 0; i < n; i++ {
		p *= 5
	}
	return p
}

func emit(r *vlib.Run, mc ecase, kind string, larger string) {
	fp := fmt.Sprintf("e2e/%s/%s/%s/%s", kind, sectName(slot{mc.Sect, mc.Fam}), mc.Backend, mc.candText())
	if mc.Shuffle != nil {
		fp += fmt.Sprintf("/shuffle-draws=%v", mc.Shuffle)
	}
	if r.Has(fp) {
		return
	}
	mo := mc.run()
	r.Violate(fp, fmt.Sprintf("clause %q violated in the %s section (backend %s, client location %q, family %d, maxAnswer %d): candidates %s [weight@tag:draw]; visible=%d positive-weight=%d want %d address(es), got %v; rcode %s\n%s\n(first seen in the larger case %s)",
		kind, mc.Sect, mc.Backend, mc.Client, mc.Fam, mc.M, mc.candText(), mo.Visible, mo.Positive, mo.Want, mo.Addrs, mo.Rcode, mo.canon(), larger),
		map[string]interface{}{"part": "e2e", "kind": kind, "case": mc})
}

var kindIndex = map[string]uint64{"foreign": 1, "repeat": 2, "weight0-served": 3, "count/short": 4, "count/long": 5, "noresponse": 6}
var sectIndex = map[string]uint8{"answer": 0, "mx": 1, "ns": 2, "mx2": 3, "ns2": 4, "nsself": 5, "https": 6, "https2": 7, "mxmulti": 8}

// memo key of a compact case
type ckey struct {
	k    uint64
	sect uint8
}

var drawIndex = map[uint32]uint8{0: 1, 1: 2, 1 << 31: 3, 1<<32 - 2: 4, 1<<32 - 1: 5}
var symIndex = func() map[sym]uint8 {
	m := map[sym]uint8{}
	for i, a := range alphabet {
		m[a] = uint8(i)
	}
	return m
}()

// draws from the most ordinary to the most extreme (index into drawAlphabet, 1-based)
var drawSimplicity = []uint8{3, 2, 4, 1, 5}

// ccase is the compact form of a semantic case over the part-1 alphabets
// (candidate = alphabet symbol + index of the draw of its v4 / v6 row, 0 = no
// visible row): sub-cases are memoised by a 64-bit key instead of text.
type ccand struct{ sym, d4, d6 uint8 }

type ccase struct {
	backend dnsfix.Backend
	sect    string
	fam     int
	cl      string
	m       int
	cands   []ccand
}

func (c ccase) pack(kind string) ckey {
	codes := make([]int, len(c.cands))
	for i, x := range c.cands {
		codes[i] = int(x.sym)<<6 | int(x.d4)<<3 | int(x.d6)
	}
	sort.Ints(codes)
	clb := uint64(0)
	if c.cl != "" {
		clb = 1
	}
	si, ok := sectIndex[c.sect]
	if !ok {
		vlib.Infra("harness: no index for section shape %q", c.sect)
	}
	k := uint64(c.backend)<<62 | uint64(c.fam&3)<<58 | uint64(c.fam>>2)<<57 | clb<<56 | uint64(c.m)<<52 | kindIndex[kind]<<49 | uint64(len(codes))<<46
	for i, x := range codes {
		k |= uint64(x) << (9 * uint(i))
	}
	return ckey{k, si}
}

func (c ccase) toE() ecase {
	e := ecase{Backend: c.backend.String(), Sect: c.sect, Fam: c.fam, Client: c.cl, M: c.m}
	txt := func(d uint8) string {
		if d == 0 {
			return "-"
		}
		return fmt.Sprint(drawAlphabet[d-1])
	}
	for _, x := range c.cands {
		e.Set = append(e.Set, alphabet[x.sym])
		switch c.fam {
		case 4:
			e.Draws = append(e.Draws, []string{txt(x.d4)})
		case 6:
			e.Draws = append(e.Draws, []string{txt(x.d6)})
		default:
			e.Draws = append(e.Draws, []string{txt(x.d4), txt(x.d6)})
		}
	}
	return e
}

// 1 = fails, 2 = passes
var cMemo = map[ckey]uint8{}

func (c ccase) fails(kind string) bool {
	if len(c.cands) > 5 {
		vlib.Infra("compact case with %d candidates", len(c.cands))
	}
	k := c.pack(kind)
	if v, ok := cMemo[k]; ok {
		return v == 1
	}
	v := uint8(2)
	if c.toE().run().has(kind) {
		v = 1
	}
	cMemo[k] = v
	return v == 1
}

func (c ccase) with(cands []ccand) ccase {
	d := c
	d.cands = cands
	return d
}

// minimise: smallest sub-multiset of the candidates (and, for a both-family
// target, one family only) that still violates the clause.
func (c ccase) minimise(kind string) ccase {
	if c.fam == 0 && c.sect != "mxmulti" {
		for _, f := range []int{4, 6} {
			p := c.with(append([]ccand(nil), c.cands...))
			p.fam = f
			for i := range p.cands {
				if f == 4 {
					p.cands[i].d6 = 0
				} else {
					p.cands[i].d4 = 0
				}
			}
			if p.fails(kind) {
				return p.minimise(kind)
			}
		}
	}
	n := len(c.cands)
	for size := 1; size < n; size++ {
		idx := make([]int, size)
		var found *ccase
		var rec func(pos, from int) bool
		rec = func(pos, from int) bool {
			if pos == size {
				sub := make([]ccand, size)
				for i, j := range idx {
					sub[i] = c.cands[j]
				}
				s := c.with(sub)
				if s.fails(kind) {
					found = &s
					return true
				}
				return false
			}
			for i := from; i < n; i++ {
				idx[pos] = i
				if rec(pos+1, i+1) {
					return true
				}
			}
			return false
		}
		if rec(0, 0) {
			if c.fam == 0 {
				return found.minimise(kind)
			}
			return *found
		}
	}
	return c
}

// simplify replaces, one value at a time, a candidate's symbol by a simpler
// symbol of the alphabet and its draw by a more ordinary draw while the clause
// stays violated (the simplified case is itself a case of the enumeration).
func (c ccase) simplify(kind string) ccase {
	c = c.with(append([]ccand(nil), c.cands...))
	for changed := true; changed; {
		changed = false
		for i := range c.cands {
			for sy := uint8(0); sy < c.cands[i].sym; sy++ {
				t := c.with(append([]ccand(nil), c.cands...))
				t.cands[i].sym = sy
				if t.fails(kind) {
					c, changed = t, true
					break
				}
			}
			for _, which := range []int{4, 6} {
				cur := c.cands[i].d4
				if which == 6 {
					cur = c.cands[i].d6
				}
				if cur == 0 {
					continue
				}
				for _, d := range drawSimplicity {
					if d == cur {
						break
					}
					t := c.with(append([]ccand(nil), c.cands...))
					if which == 4 {
						t.cands[i].d4 = d
					} else {
						t.cands[i].d6 = d
					}
					if t.fails(kind) {
						c, changed = t, true
						break
					}
				}
			}
		}
	}
	return c
}

// compact converts a served case to the compact form (false: not over the part-1 alphabets).
func compact(w *world, s slot, cl string, m int, keys []uint32) (ccase, bool) {
	c := ccase{backend: w.backend, sect: s.Sect, fam: s.Fam, cl: cl, m: m, cands: make([]ccand, len(w.set))}
	if len(w.set) > 5 {
		return c, false
	}
	for i, x := range w.set {
		si, ok := symIndex[x]
		if !ok {
			return c, false
		}
		c.cands[i].sym = si
	}
	for j, rw := range w.drawRows(s, cl) {
		if rw.Cand < 0 {
			continue
		}
		d, ok := drawIndex[keys[j]]
		if !ok {
			return c, false
		}
		if rw.Fam == 6 {
			c.cands[rw.Cand].d6 = d
		} else {
			c.cands[rw.Cand].d4 = d
		}
	}
	return c, true
}

func report(r *vlib.Run, w *world, s slot, cl string, m int, keys, shuffle []uint32, o observation) {
	var c *ecase
	larger := func() string {
		if c == nil {
			x := attach(w, s, cl, m, keys, shuffle)
			c = &x
		}
		return c.candText()
	}
	for _, kind := range o.Kinds {
		// (a case seen while a shuffle draw was varied is first re-judged with the default shuffle
		// draws: if it fails all the same, the shuffle is not part of the minimal case)
		if cc, ok := compact(w, s, cl, m, keys); ok && (shuffle == nil || cc.fails(kind)) {
			mc := cc
			for {
				nx := mc.minimise(kind).simplify(kind)
				if nx.pack(kind) == mc.pack(kind) {
					break
				}
				mc = nx
			}
			pk := mc.pack(kind)
			if !reported[pk] {
				reported[pk] = true
				emit(r, mc.toE(), kind, larger())
			}
			continue
		}
		larger()
		emit(r, c.minimise(kind), kind, c.candText())
	}
}

var reported = map[ckey]bool{}

func sectName(s slot) string {
	if s.Sect == "answer" {
		return "answer"
	}
	return s.Sect + "-additional"
}

// The draw sequences of one configuration (slot, client, maxAnswer) are bounded whatever the code under test
// does: all sequences over the 5-value alphabet when there are at most seqBudget of them (always, when the code
// takes one draw per row: at most 6 rows); otherwise over the largest of the smaller alphabets below that fits.
// A misaligned configuration (draws not one per row: on the unchanged tree a target named twice with no
// positive-weight candidate, where which draw goes where matters least) has the smaller budget, so that a tree
// that takes more draws than rows is still judged in bounded time. Beyond that only the first draws are varied.
const seqBudget, seqBudgetMisaligned = 15625, 2048

var smallerAlphabets = [][]uint32{{0, 1 << 31, 1<<32 - 1}, {0, 1<<32 - 1}}

// drawPlan: the alphabet and the number of leading draws varied over it (the others are 2^31).
func drawPlan(nk int, aligned bool) ([]uint32, int) {
	budget := int64(seqBudget)
	if !aligned {
		budget = seqBudgetMisaligned
	}
	fits := func(a, n int) bool {
		p := int64(1)
		for i := 0; i < n; i++ {
			if p *= int64(a); p > budget {
				return false
			}
		}
		return true
	}
	for _, alpha := range append([][]uint32{drawAlphabet}, smallerAlphabets...) {
		if fits(len(alpha), nk) {
			return alpha, nk
		}
	}
	last := smallerAlphabets[len(smallerAlphabets)-1]
	n := nk
	for !fits(len(last), n) {
		n--
	}
	return last, n
}

// enumerate serves, for one slot and client of a world, every maxAnswer in ms
// and every sequence of key draws over the draw alphabet (shuffle draws
// defaulted), then - if asked - each shuffle draw varied over the alphabet with
// the keys fixed. visit returns false to stop.
func enumerate(w *world, s slot, cl string, ms []int, shuffle bool, visit func(m int, keys, shuf []uint32, shuffled bool, o observation) bool) {
	nk, aligned := w.keyDraws(s, cl)
	if s.Sect != "answer" {
		ms = []int{1}
	}
	alpha, varied := drawPlan(nk, aligned)
	keys := make([]uint32, nk)
	for i := range keys {
		keys[i] = 1 << 31
	}
	digits := make([]int, varied)
	for _, m := range ms {
		for i := range digits {
			digits[i] = 0
		}
		for {
			for i, d := range digits {
				keys[i] = alpha[d]
			}
			if !visit(m, keys, nil, false, serve(w, s, cl, m, keys, nil)) {
				return
			}
			i := 0
			for i < varied {
				digits[i]++
				if digits[i] < len(alpha) {
					break
				}
				digits[i] = 0
				i++
			}
			if i == varied {
				break
			}
		}
		if shuffle && s.Sect == "answer" {
			items := nk
			if m < items {
				items = m
			}
			for _, kv := range keyVectors(nk) {
				for pos := 0; pos < items-1; pos++ {
					for _, d := range drawAlphabet {
						sh := make([]uint32, items-1)
						for i := range sh {
							sh[i] = filler
						}
						sh[pos] = d
						if !visit(m, kv, sh, true, serve(w, s, cl, m, kv, sh)) {
							return
						}
					}
				}
			}
		}
	}
}

// addlSlots lists the additional-section shapes of a world.
func addlSlots(w *world) []slot {
	var slots []slot
	for _, f := range []int{4, 6, 0} {
		if f == 0 && !w.both {
			continue
		}
		for _, sect := range addlSects {
			slots = append(slots, slot{sect, f})
		}
	}
	if len(w.set) <= multiMaxSize {
		slots = append(slots, slot{"mxmulti", 0})
	}
	return slots
}

// the several-targets shape takes two key draws per candidate: explored for sets up to this size
var multiMaxSize = 2

// runPlan enumerates every draw sequence for one candidate set.
func runPlan(r *vlib.Run, p e2ePlan, st *e2eStats) {
	w := getWorld(p.set, p.backend)
	w.pins++
	defer func() { w.pins-- }()
	st.worlds++
	var slots []slot
	for _, f := range p.fams {
		slots = append(slots, slot{"answer", f})
	}
	if p.addl {
		slots = append(slots, addlSlots(w)...)
	}
	first := true
	misSeen := map[string]bool{}
	for _, cl := range p.clients {
		for _, s := range slots {
			nk, aligned := w.keyDraws(s, cl)
			if !aligned {
				st.misaligned++
				if w.backend == dnsfix.CDB {
					st.misalignedCDB++
					if os.Getenv("VERIF_DEBUG") != "" {
						fmt.Fprintf(os.Stderr, "MISALIGNED cdb %s %s cl=%q: %d draws, %d rows\n", setKey(w.set), s, cl, nk, len(w.drawRows(s, cl)))
					}
				}
			}
			if alpha, varied := drawPlan(nk, aligned); len(alpha) < len(drawAlphabet) || varied < nk {
				st.reduced++
				if varied < nk {
					st.beyond++
				}
			}
			lastM := 0
			enumerate(w, s, cl, p.ms, p.shuffle, func(m int, keys, shuf []uint32, shuffled bool, o observation) bool {
				if m != lastM {
					lastM = m
					st.configs++
				}
				if shuffled {
					st.shuffleEvals++
				} else {
					st.evals++
					st.bySize[len(p.set)]++
				}
				if o.NonTriv {
					st.nontrivial++
				}
				if len(o.Kinds) > 0 {
					st.failing++
					if aligned {
						report(r, w, s, cl, m, append([]uint32(nil), keys...), shuf, o)
					} else {
						// (one report per configuration and clause: the minimal failing set is the same for all of them)
						var fresh []string
						for _, kind := range o.Kinds {
							if k := kind + "|" + s.String() + "|" + cl; !misSeen[k] {
								misSeen[k] = true
								fresh = append(fresh, kind)
							}
						}
						if len(fresh) > 0 {
							oo := o
							oo.Kinds = fresh
							reportMisaligned(r, p, w, s, cl, m, keys, oo)
						}
					}
				}
				if !shuffled && (first && st.evals == 1 || st.evals == 5000) {
					first = false
					cands := setKey(w.set) + fmt.Sprintf(" draws=%v (not attributable)", keys)
					if aligned {
						cands = attach(w, s, cl, m, keys, nil).candText()
					}
					r.Sample(map[string]interface{}{"part": "e2e", "candidates": cands, "backend": w.backend.String(), "slot": s.String(), "client": cl, "max_answer": m, "want": o.Want, "served": o.Addrs, "rcode": o.Rcode, "verdict": o.Kinds})
				}
				return true
			})
		}
	}
}

// ---- misaligned configurations: minimise over candidate sets only ----

type setFailure struct {
	found bool
	m     int
	keys  []uint32
	o     observation
}

var setFailMemo = map[string]setFailure{}

// firstFailure enumerates a (set, slot, client) configuration until a response violates the clause.
func firstFailure(set []sym, p e2ePlan, s slot, cl string, kind string) setFailure {
	k := fmt.Sprintf("%s|%s|%s|%s|%s", p.backend, setKey(set), s, cl, kind)
	if v, ok := setFailMemo[k]; ok {
		return v
	}
	w := getWorld(set, p.backend)
	var f setFailure
	enumerate(w, s, cl, p.ms, false, func(m int, keys, _ []uint32, _ bool, o observation) bool {
		if o.has(kind) {
			f = setFailure{true, m, append([]uint32(nil), keys...), o}
			return false
		}
		return true
	})
	setFailMemo[k] = f
	return f
}

// simplifySet replaces, one at a time, a candidate of a failing set by a simpler symbol of the alphabet while
// the set still fails (the result is itself a set of the enumeration, in canonical order).
func simplifySet(set []sym, fails func([]sym) bool) []sym {
	set = append([]sym(nil), set...)
	for changed := true; changed; {
		changed = false
		for i := range set {
			si, ok := symIndex[set[i]]
			if !ok {
				continue
			}
			for sy := uint8(0); sy < si; sy++ {
				t := append([]sym(nil), set...)
				t[i] = alphabet[sy]
				sortSyms(t)
				if fails(t) {
					set, changed = t, true
					break
				}
			}
			if changed {
				break
			}
		}
	}
	return set
}

func reportMisaligned(r *vlib.Run, p e2ePlan, w *world, s slot, cl string, m int, keys []uint32, o observation) {
	for _, kind := range o.Kinds {
		// smallest sub-multiset of the set that violates the same clause for some maxAnswer and draw sequence
		best := append([]sym(nil), w.set...)
		n := len(w.set)
	search:
		for size := 1; size < n; size++ {
			idx := make([]int, size)
			var rec func(pos, from int) bool
			rec = func(pos, from int) bool {
				if pos == size {
					sub := make([]sym, size)
					for i, j := range idx {
						sub[i] = w.set[j]
					}
					if firstFailure(sub, p, s, cl, kind).found {
						best = sub
						return true
					}
					return false
				}
				for i := from; i < n; i++ {
					idx[pos] = i
					if rec(pos+1, i+1) {
						return true
					}
				}
				return false
			}
			if rec(0, 0) {
				break search
			}
		}
		best = simplifySet(best, func(t []sym) bool { return firstFailure(t, p, s, cl, kind).found })
		f := firstFailure(best, p, s, cl, kind)
		if !f.found {
			f = setFailure{true, m, append([]uint32(nil), keys...), o}
		}
		bw := getWorld(best, p.backend)
		nk, _ := bw.keyDraws(s, cl)
		ds := make([]string, len(f.keys))
		for i, d := range f.keys {
			ds[i] = fmt.Sprint(d)
		}
		fp := fmt.Sprintf("e2e/%s/%s/%s/rows-enumerated-differently/n=%d/%s/cl=%s/draws=%s", kind, sectName(s), p.backend, len(best), setKey(best), cl, strings.Join(ds, ","))
		if r.Has(fp) {
			continue
		}
		r.Violate(fp, fmt.Sprintf("clause %q violated in the %s section (backend %s, client location %q, family %d, maxAnswer %d): candidates %s [weight@tag]; serving this query takes %d key draws although a fresh reader enumerates %d candidate rows for this client (rows are enumerated differently inside the serve path, so draws cannot be attributed to candidates); draws in the order taken %v; visible=%d positive-weight=%d want %d address(es), got %v; rcode %s\n%s",
			kind, s.Sect, p.backend, cl, s.Fam, f.m, setKey(best), nk, len(bw.drawRows(s, cl)), f.keys, f.o.Visible, f.o.Positive, f.o.Want, f.o.Addrs, f.o.Rcode, f.o.canon()),
			map[string]interface{}{"part": "e2e-misaligned", "kind": kind, "set": best, "backend": p.backend.String(), "section": s.Sect, "family": s.Fam, "client_location": cl, "max_answer": f.m, "draws": f.keys})
	}
}

// the fixed key vectors used while the shuffle draws are varied
func keyVectors(n int) [][]uint32 {
	mid := make([]uint32, n)
	ladder := make([]uint32, n)
	for i := range mid {
		mid[i] = 1 << 31
		ladder[i] = []uint32{1<<32 - 2, 1, 1 << 31, 1<<32 - 2, 1}[i%5]
	}
	return [][]uint32{mid, ladder}
}

// multisets of size k over the alphabet (non-decreasing index sequences)
func multisets(alpha []sym, k int) [][]sym {
	var out [][]sym
	idx := make([]int, k)
	var rec func(pos, from int)
	rec = func(pos, from int) {
		if pos == k {
			s := make([]sym, k)
			for i, j := range idx {
				s[i] = alpha[j]
			}
			sortSyms(s)
			out = append(out, s)
			return
		}
		for i := from; i < len(alpha); i++ {
			idx[pos] = i
			rec(pos+1, i)
		}
	}
	rec(0, 0)
	return out
}
