package main

import (
	"fmt"
	"net"
	"sort"
	"strings"

	"github.com/miekg/dns"

	"verifharness/dnsfix"
	"verifharness/vlib"
)

// ---- part 1: bounded / sound / exact count, through the real serve path ----

// a semantic case: a candidate set, every candidate carrying the draw(s) its
// row(s) receive, asked through one slot by one client with one maxAnswer.
type ecase struct {
	Set     []sym      `json:"set"`
	Backend string     `json:"backend"`
	Sect    string     `json:"section"`
	Fam     int        `json:"family"`
	Client  string     `json:"client_location"`
	M       int        `json:"max_answer"`
	Draws   [][]string `json:"draws_per_candidate"` // per candidate: draws of its visible rows ("-" = row not visible/no draw), v4 then v6
	Shuffle []uint32   `json:"shuffle_draws"`
}

type observation struct {
	Rcode     string
	Addrs     []string // selected addresses (answer section, or additional section for the slot's target)
	Kinds     []string // violated clauses
	Want      int
	Visible   int
	Positive  int
	Taken     int
	Canon     string
	NonTriv   bool
}

func backendOf(name string) dnsfix.Backend {
	for _, b := range dnsfix.Backends {
		if b.String() == name {
			return b
		}
	}
	vlib.Infra("unknown backend %q", name)
	return 0
}

// serve runs one query with the scripted draws (keys in row order, then
// shuffle draws) and judges the response against the statement.
func serve(w *world, s slot, cl string, m int, keys, shuffle []uint32) observation {
	rows := w.drawRows(s, cl)
	if len(keys) != len(rows) {
		vlib.Infra("harness: %d key draws for %d rows", len(keys), len(rows))
	}
	script := make([]uint32, 0, len(keys)+len(shuffle))
	script = append(script, keys...)
	script = append(script, shuffle...)
	src.load(script)
	qn, qt := s.query()
	mm := m
	if s.Sect != "answer" {
		mm = 3 // the additional section is limited to one per family whatever the context says
	}
	res := w.h.Serve(dnsfix.Query(qn, qt), clientIP[cl], false, mm)
	o := observation{Taken: src.taken()}
	// the draws the code took must be the ones the script was written for
	items := len(rows)
	if s.Sect != "answer" {
		items = 1
	} else if m < items {
		items = m
	}
	maxShuffle := 0
	if items > 1 {
		maxShuffle = 2 * (items - 1) // each shuffle step takes one draw, or two when the first is rejected by int31n
	}
	if o.Taken < len(keys) || o.Taken > len(keys)+maxShuffle {
		vlib.Infra("the code under test took %d draws where the script provides %d key draws (+ at most %d shuffle draws): the scripted source no longer addresses the draws as the code sees them (set %s %s client=%q m=%d)",
			o.Taken, len(keys), maxShuffle, setKey(w.set), s, cl, m)
	}
	judge(w, s, cl, m, res, &o)
	return o
}

func judge(w *world, s slot, cl string, m int, res dnsfix.Result, o *observation) {
	if res.Panicked != nil || len(res.Msgs) != 1 {
		o.Kinds = append(o.Kinds, "noresponse")
		o.Canon = dnsfix.CanonResult(res)
		return
	}
	msg := res.Msgs[0]
	o.Rcode = dns.RcodeToString[msg.Rcode]
	o.Canon = dnsfix.Canon(msg)
	fams := []int{s.Fam}
	if s.Fam == 0 {
		fams = []int{4, 6}
	}
	limit := m
	section := msg.Answer
	if s.Sect != "answer" {
		limit = 1
		section = msg.Extra
	}
	owner := s.owner()
	kinds := map[string]bool{}
	for _, f := range fams {
		// declared, visible candidates of this family
		weight := map[string]uint32{}
		pos := 0
		for i, c := range w.set {
			if c.Tag != "" && c.Tag != cl {
				continue
			}
			ip := addr4(i)
			if f == 6 {
				ip = addr6(i)
			}
			weight[ip.String()] = c.W
			if c.W > 0 {
				pos++
			}
		}
		o.Visible += len(weight)
		o.Positive += pos
		want := limit
		if pos < want {
			want = pos
		}
		o.Want += want
		if len(weight) > want {
			o.NonTriv = true
		}
		seen := map[string]bool{}
		got := 0
		for _, rr := range section {
			var ip net.IP
			switch x := rr.(type) {
			case *dns.A:
				if f != 4 {
					continue
				}
				ip = x.A
			case *dns.AAAA:
				if f != 6 {
					continue
				}
				ip = x.AAAA
			default:
				continue
			}
			if s.Sect != "answer" && !strings.EqualFold(rr.Header().Name, owner) {
				continue // address of some other additional-section name: not this slot's business
			}
			got++
			a := ip.String()
			o.Addrs = append(o.Addrs, a)
			wt, declared := weight[a]
			if !declared || !strings.EqualFold(rr.Header().Name, owner) {
				kinds["foreign"] = true
				continue
			}
			if seen[a] {
				kinds["repeat"] = true
			}
			seen[a] = true
			if wt == 0 && msg.Rcode == dns.RcodeSuccess {
				kinds["weight0-served"] = true
			}
		}
		if got < want {
			kinds["count/short"] = true
		}
		if got > want {
			kinds["count/long"] = true
		}
	}
	if s.Sect == "answer" && s.Fam != 0 {
		// an address query must not carry addresses of the other family in its answer
		for _, rr := range msg.Answer {
			t := rr.Header().Rrtype
			if (s.Fam == 4 && t == dns.TypeAAAA) || (s.Fam == 6 && t == dns.TypeA) {
				kinds["foreign"] = true
			}
		}
	}
	for k := range kinds {
		o.Kinds = append(o.Kinds, k)
	}
	sort.Strings(o.Kinds)
}

// attach labels the draws of a served case with the candidates whose rows received them.
func attach(w *world, s slot, cl string, m int, keys, shuffle []uint32) ecase {
	c := ecase{Set: w.set, Backend: w.backend.String(), Sect: s.Sect, Fam: s.Fam, Client: cl, M: m, Shuffle: shuffle}
	c.Draws = make([][]string, len(w.set))
	nf := 1
	if s.Fam == 0 {
		nf = 2
	}
	for i := range c.Draws {
		c.Draws[i] = make([]string, nf)
		for j := range c.Draws[i] {
			c.Draws[i][j] = "-"
		}
	}
	for j, r := range w.drawRows(s, cl) {
		if r.Cand < 0 {
			continue
		}
		k := 0
		if s.Fam == 0 && r.Fam == 6 {
			k = 1
		}
		c.Draws[r.Cand][k] = fmt.Sprint(keys[j])
	}
	return c
}

// candText is the canonical rendering of a case's candidates: sorted "w@tag:draw[+draw6]".
func (c ecase) candText() string {
	p := make([]string, len(c.Set))
	for i, s := range c.Set {
		p[i] = s.String() + ":" + strings.Join(c.Draws[i], "+")
	}
	sort.Strings(p)
	return fmt.Sprintf("n=%d/%s", len(c.Set), strings.Join(p, ","))
}

func (c ecase) key() string {
	return fmt.Sprintf("%s/%s/fam%d/cl=%s/m=%d/%s/shuf=%v", c.Backend, c.Sect, c.Fam, c.Client, c.M, c.candText(), c.Shuffle)
}

// run executes a semantic case (used for sub-cases and replay): builds the
// world of its set and translates candidate-attached draws to row order.
func (c ecase) run() observation {
	type cd struct {
		s sym
		d []string
	}
	cs := make([]cd, len(c.Set))
	for i := range c.Set {
		cs[i] = cd{c.Set[i], c.Draws[i]}
	}
	sort.SliceStable(cs, func(i, j int) bool {
		a, b := cs[i], cs[j]
		if a.s.Tag != b.s.Tag {
			return a.s.Tag < b.s.Tag
		}
		if a.s.W != b.s.W {
			return a.s.W < b.s.W
		}
		return strings.Join(a.d, "+") < strings.Join(b.d, "+")
	})
	set := make([]sym, len(cs))
	for i := range cs {
		set[i] = cs[i].s
	}
	w := getWorld(set, backendOf(c.Backend))
	s := slot{c.Sect, c.Fam}
	rows := w.drawRows(s, c.Client)
	keys := make([]uint32, len(rows))
	for j, r := range rows {
		keys[j] = 1 << 31
		if r.Cand < 0 {
			continue
		}
		k := 0
		if c.Fam == 0 && r.Fam == 6 {
			k = 1
		}
		var v uint64
		if _, err := fmt.Sscan(cs[r.Cand].d[k], &v); err == nil {
			keys[j] = uint32(v)
		}
	}
	return serve(w, s, c.Client, c.M, keys, c.Shuffle)
}

func (o observation) has(kind string) bool {
	for _, k := range o.Kinds {
		if k == kind {
			return true
		}
	}
	return false
}

var failMemo = map[string]bool{}

func (c ecase) fails(kind string) bool {
	k := kind + "|" + c.key()
	if v, ok := failMemo[k]; ok {
		return v
	}
	v := c.run().has(kind)
	failMemo[k] = v
	return v
}

func (c ecase) sub(idx []int) ecase {
	d := c
	d.Set, d.Draws = nil, nil
	for _, i := range idx {
		d.Set = append(d.Set, c.Set[i])
		d.Draws = append(d.Draws, c.Draws[i])
	}
	return d
}

// minimise returns a sub-case of smallest cardinality that fails the same
// clause (all subsets are tried in increasing size; the case itself if none).
func (c ecase) minimise(kind string) ecase {
	n := len(c.Set)
	for size := 1; size < n; size++ {
		idx := make([]int, size)
		var rec func(pos, from int) *ecase
		rec = func(pos, from int) *ecase {
			if pos == size {
				s := c.sub(idx)
				if s.fails(kind) {
					return &s
				}
				return nil
			}
			for i := from; i < n; i++ {
				idx[pos] = i
				if r := rec(pos+1, i+1); r != nil {
					return r
				}
			}
			return nil
		}
		if r := rec(0, 0); r != nil {
			return *r
		}
	}
	return c
}

// ---- enumeration ----

type e2eStats struct {
	evals, nontrivial, worlds, failing, shuffleEvals, configs int64
	bySize                                                   [6]int64
}

type e2ePlan struct {
	set     []sym
	backend dnsfix.Backend
	ms      []int    // maxAnswer values for the answer section
	fams    []int    // families for the answer section
	clients []string // client locations
	addl    bool     // additional-section slots too
	shuffle bool     // shuffle-draw variation
	cost    int64
}

func pow5(n int) int64 {
	p := int64(1)
	for i := 0; i < n; i++ {
		p *= 5
	}
	return p
}

func report(r *vlib.Run, w *world, s slot, cl string, m int, keys, shuffle []uint32, o observation) {
	c := attach(w, s, cl, m, keys, shuffle)
	for _, kind := range o.Kinds {
		mc := c
		if kind != "noresponse" {
			mc = c.minimise(kind)
		}
		fp := fmt.Sprintf("e2e/%s/%s/%s/%s", kind, sectName(s), mc.Backend, mc.candText())
		if r.Has(fp) {
			continue
		}
		mo := mc.run()
		r.Violate(fp, fmt.Sprintf("clause %q violated in the %s section (backend %s, client location %q, family %d, maxAnswer %d): candidates %s [weight@tag:draw]; visible=%d positive-weight=%d want %d address(es), got %v; rcode %s\n%s\n(first seen in the larger case %s)",
			kind, mc.Sect, mc.Backend, mc.Client, mc.Fam, mc.M, mc.candText(), mo.Visible, mo.Positive, mo.Want, mo.Addrs, mo.Rcode, mo.Canon, c.candText()),
			map[string]interface{}{"part": "e2e", "kind": kind, "case": mc})
	}
}

func sectName(s slot) string {
	if s.Sect == "answer" {
		return "answer"
	}
	return s.Sect + "-additional"
}

// runPlan enumerates every draw sequence for one candidate set.
func runPlan(r *vlib.Run, p e2ePlan, st *e2eStats) {
	w := getWorld(p.set, p.backend)
	st.worlds++
	var slots []slot
	for _, f := range p.fams {
		slots = append(slots, slot{"answer", f})
	}
	if p.addl {
		for _, f := range []int{4, 6, 0} {
			if f == 0 && !w.both {
				continue
			}
			slots = append(slots, slot{"mx", f}, slot{"ns", f})
		}
	}
	first := true
	for _, cl := range p.clients {
		for _, s := range slots {
			rows := w.drawRows(s, cl)
			nk := len(rows)
			ms := p.ms
			if s.Sect != "answer" {
				ms = []int{1}
			}
			keys := make([]uint32, nk)
			digits := make([]int, nk)
			for _, m := range ms {
				st.configs++
				for i := range digits {
					digits[i] = 0
				}
				for {
					for i, d := range digits {
						keys[i] = drawAlphabet[d]
					}
					o := serve(w, s, cl, m, keys, nil)
					st.evals++
					st.bySize[len(p.set)]++
					if o.NonTriv {
						st.nontrivial++
					}
					if len(o.Kinds) > 0 {
						st.failing++
						report(r, w, s, cl, m, append([]uint32(nil), keys...), nil, o)
					}
					if first || (st.evals&(st.evals-1)) == 0 {
						first = false
						r.Sample(map[string]interface{}{"part": "e2e", "candidates": attach(w, s, cl, m, keys, nil).candText(), "backend": w.backend.String(), "slot": s.String(), "client": cl, "max_answer": m, "want": o.Want, "served": o.Addrs, "rcode": o.Rcode, "verdict": o.Kinds})
					}
					// next sequence
					i := 0
					for i < nk {
						digits[i]++
						if digits[i] < len(drawAlphabet) {
							break
						}
						digits[i] = 0
						i++
					}
					if i == nk {
						break
					}
				}
				// shuffle draws varied one at a time over the alphabet, keys fixed
				if p.shuffle && s.Sect == "answer" {
					items := nk
					if m < items {
						items = m
					}
					for _, kv := range keyVectors(nk) {
						for pos := 0; pos < items-1; pos++ {
							for _, d := range drawAlphabet {
								sh := make([]uint32, items-1)
								for i := range sh {
									sh[i] = filler
								}
								sh[pos] = d
								o := serve(w, s, cl, m, kv, sh)
								st.shuffleEvals++
								if o.NonTriv {
									st.nontrivial++
								}
								if len(o.Kinds) > 0 {
									st.failing++
									report(r, w, s, cl, m, kv, sh, o)
								}
							}
						}
					}
				}
			}
		}
	}
}

// the fixed key vectors used while the shuffle draws are varied
func keyVectors(n int) [][]uint32 {
	mid := make([]uint32, n)
	ladder := make([]uint32, n)
	for i := range mid {
		mid[i] = 1 << 31
		ladder[i] = []uint32{1, 1 << 31, 1<<32 - 2, 1 << 30, 3 << 30}[i%5]
	}
	return [][]uint32{mid, ladder}
}

// multisets of size k over the alphabet (non-decreasing index sequences)
func multisets(alpha []sym, k int) [][]sym {
	var out [][]sym
	idx := make([]int, k)
	var rec func(pos, from int)
	rec = func(pos, from int) {
		if pos == k {
			s := make([]sym, k)
			for i, j := range idx {
				s[i] = alpha[j]
			}
			sortSyms(s)
			out = append(out, s)
			return
		}
		for i := from; i < len(alpha); i++ {
			idx[pos] = i
			rec(pos+1, i)
		}
	}
	rec(0, 0)
	return out
}
