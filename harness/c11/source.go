package main

import (
	"math/rand"

	"github.com/facebookincubator/dns/dnsrocks/db"
)

// scripted is the random source OWNED by the harness. It is a rand.Source64
// whose outputs are taken from a script of 32-bit *draws as the code sees
// them*: wrs.go calls localRand.Uint32() (one per candidate row) and
// localRand.Shuffle(), and math/rand derives both from Int63():
//
//	Uint32()        = uint32(Int63() >> 31)
//	Shuffle -> int31n(n): v := Uint32(); accepted unless uint32(v*n) < (2^32-n)%n, else redrawn
//
// so a scripted draw d is delivered as Int63() = d<<31 (| all-ones in the low
// 31 bits when d = 2^32-1, so that any other derivation - Int63, Float64 -
// also sees the extreme value). Uint64 delivers the same draw in the top 32
// bits. Calls per method are counted: the harness reports which methods the
// code under test used and rejects a run in which the number of draws taken is
// not the number the script was written for.
type scripted struct {
	script   []uint32
	pos      int
	overflow int // draws taken after the script ran out (answered with filler)
	nInt63   int64
	nUint64  int64
	nSeed    int64
}

// filler is accepted by int31n for every n in 2..8 (uint32(filler*n) >= n), so
// a shuffle never loops on it.
const filler = uint32(1<<31 + 1)

const maxDraw = uint32(1<<32 - 1)

func (s *scripted) next() uint32 {
	if s.pos < len(s.script) {
		v := s.script[s.pos]
		s.pos++
		return v
	}
	s.pos++
	s.overflow++
	return filler
}

func (s *scripted) Int63() int64 {
	s.nInt63++
	v := s.next()
	x := int64(v) << 31
	if v == maxDraw {
		x |= 1<<31 - 1
	}
	return x
}

func (s *scripted) Uint64() uint64 {
	s.nUint64++
	v := s.next()
	x := uint64(v) << 32
	if v == maxDraw {
		x |= 1<<32 - 1
	}
	return x
}

func (s *scripted) Seed(int64) { s.nSeed++ }

// load replaces the script and rewinds.
func (s *scripted) load(script []uint32) {
	s.script = script
	s.pos = 0
	s.overflow = 0
}

// taken is the number of draws consumed since load.
func (s *scripted) taken() int { return s.pos }

var src = &scripted{}

// installSource makes the scripted source the package's generator (every
// wrs.Add / Shuffle in this process now reads the script).
func installSource() {
	db.SetRandForVerif(rand.New(src))
}
