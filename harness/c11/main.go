package main

import (
	"os"
	"runtime"
	"runtime/pprof"
	"fmt"
	"math"
	"time"

	"github.com/facebookincubator/dns/dnsrocks/db"
	"github.com/miekg/dns"

	"verifharness/dnsfix"
	"verifharness/vlib"
)

const skeleton = "Zexample.com,a.ns.example.com,hostmaster.example.com,1,7200,1800,604800,120,300,,\n" +
	"&example.com,,a.ns.example.com,3600,,\n" +
	"Mexample.com,m1\nM*.example.com,m1\n%aa,10.0.0.0/8,m1\n%bb,192.168.0.0/16,m1\n"

func main() {
	runtime.GOMAXPROCS(1)
	pf, _ := os.Create("/tmp/c11.prof")
	pprof.StartCPUProfile(pf)
	defer pprof.StopCPUProfile()
	dir, clean := vlib.Scratch("c11")
	defer clean()
	dnsfix.Quiet(dir)
	installSource()
	for _, d := range []uint32{0, 1, 1 << 31, 1<<32 - 2, 1<<32 - 1} {
		u := float64(d) * float64(1.0/math.MaxUint32)
		for _, w := range []uint32{0, 1, 2, 1<<32 - 1} {
			fmt.Printf("d=%d u=%v w=%d key=%v\n", d, u, w, math.Pow(u, 1.0/float64(w)))
		}
	}
	text := skeleton +
		"+www.example.com,192.0.2.10,300,,aa,0\n" +
		"+www.example.com,192.0.2.11,300,,,1\n" +
		"+www.example.com,192.0.2.13,300,,,2\n" +
		"+www.example.com,192.0.2.12,300,,,1\n" +
		"+www.example.com,192.0.2.14,300,,aa,4294967295\n" +
		"+www.example.com,2001:db8::10,300,,aa,1\n" +
		"+www.example.com,192.0.2.201,300,,bb,1\n" +
		"@m.example.com,,mx.example.com,10,300,,\n" +
		"+mx.example.com,192.0.2.10,300,,aa,0\n" +
		"+mx.example.com,2001:db8::10,300,,aa,1\n" +
		"&d.example.com,,ns.d.example.com,3600,,\n" +
		"+ns.d.example.com,192.0.2.10,300,,aa,1\n" +
		"+ns.d.example.com,2001:db8::10,300,,,1\n"
	for _, b := range []dnsfix.Backend{dnsfix.CDB} {
		p, err := dnsfix.Compile(dir, b, []byte(text))
		if err != nil {
			panic(err)
		}
		h, err := dnsfix.OpenHandler(b, p, dnsfix.HandlerOpts{})
		if err != nil {
			panic(err)
		}
		for _, cl := range []string{"10.1.1.1", "8.8.8.8"} {
			for _, q := range []struct {
				n string
				t uint16
			}{{"www.example.com", dns.TypeA}, {"www.example.com", dns.TypeAAAA}, {"m.example.com", dns.TypeMX}, {"x.d.example.com", dns.TypeA}} {
				src.load([]uint32{1 << 31, 1 << 31, 1 << 31, 1 << 31, 1 << 31, 5, 6, 7})
				res := h.Serve(dnsfix.Query(q.n, q.t), cl, false, 3)
				_ = fmt.Sprintf("%s %s %s/%d: taken=%d\n%s\n", b, cl, q.n, q.t, src.taken(), dnsfix.CanonResult(res))
			}
		}
		// row order through the reader
		d, err := db.Open(p, b.Driver())
		if err != nil {
			panic(err)
		}
		rd, _ := db.NewReader(d)
		name := make([]byte, 255)
		off, _ := dns.PackDomainName("www.example.com.", name, 0, nil, false)
		rd.ForEachResourceRecord(name[:off], &db.Location{LocID: [2]byte{'a', 'a'}}, func(row []byte) error {
			rr, err := db.ExtractRRFromRow(row, false)
			fmt.Printf("  row type=%d w=%d addr=%x err=%v\n", rr.Qtype, rr.Weight, row[rr.Offset:], err)
			return nil
		})
		rd.Close()
		d.Destroy()
		t0 := time.Now()
		n := 20000
		for i := 0; i < n; i++ {
			src.load([]uint32{1 << 31, 1, 1 << 31, 1 << 31, 1 << 31, 5, 6, 7})
			h.Serve(dnsfix.Query("www.example.com", dns.TypeA), "10.1.1.1", false, 3)
		}
		fmt.Printf("%s per query %v\n", b, time.Since(t0)/time.Duration(n))
		h.Close()
	}
	t0 := time.Now()
	n := 1000000
	ip := []byte{192, 0, 2, 1}
	for i := 0; i < n; i++ {
		src.load([]uint32{1 << 31, 1, 1 << 30})
		w := db.Wrs{MaxAnswers: 1}
		w.Add(db.ResourceRecord{Weight: 1, Qtype: dns.TypeA, TTL: 1}, ip)
		w.Add(db.ResourceRecord{Weight: 2, Qtype: dns.TypeA, TTL: 1}, ip)
		w.Add(db.ResourceRecord{Weight: 3, Qtype: dns.TypeA, TTL: 1}, ip)
		w.ARecord("x.", 1)
	}
	fmt.Printf("direct per eval %v\n", time.Since(t0)/time.Duration(n))
}
