// C11: weighted address selection is bounded, sound and proportional.
//
// The random source is OWNED by the harness: db.SetRandForVerif installs
// rand.New(scripted), a rand.Source64 that answers every draw from a script
// (source.go). A draw is an environment answer, enumerated like any other input.
//
// Part 1 (venum, e2e.go): every candidate set over {weight 0,1,2,2^32-1} x
// {untagged, aa} up to the size bound, every maxAnswer, EVERY sequence of key
// draws over {0,1,2^31,2^32-2,2^32-1} (one draw per stored row, as wrs.go takes
// them), shuffle draws defaulted and then varied one at a time; compiled with
// the real compilers and asked through the real handler (CDB; RocksDB v2 for
// small sets) as A, AAAA, MX (additional) and referral (glue) queries; the
// additional section also in the shapes in which one target is named by two
// records (two MX preferences, two NS records, two HTTPS records of one
// owner), the glue name is the queried name, or one RRset names several targets.
// Part 1b (cache.go): the same oracle with the response cache enabled and
// weighted answers cached: from an empty cache every ordered pair of distinct
// requests (client location x family x maxAnswer, additional-section shapes),
// served first, then, first again.
// Part 2 (prop.go): win probabilities of the real Wrs.Add/ARecord bracketed
// rigorously by evaluating the two extreme corners of every cell of an N^n grid
// over the draw space.
// Part 3 (vsched, shared.go): all interleavings within the preemption bound of
// threads drawing from the package's locked source.
package main

import (
	"fmt"
	"os"
	"runtime"
	"runtime/debug"
	"runtime/pprof"
	"sort"
	"time"

	"verifharness/dnsfix"
	"verifharness/vlib"
)

type unit struct {
	kind string // "e2e" | "prop" | "cross" | "sched" | "teeth"
	cost int64
	plan e2ePlan
	vec  []uint32
	cand int
	sc   sharedScen
	ord  int
}

const propLogN = 6  // N = 64 cells per draw
const crossLogN = 3 // N = 8 for the serve-path cross-check

func hasTag(set []sym) bool {
	for _, s := range set {
		if s.Tag != "" {
			return true
		}
	}
	return false
}

func seq(a, b int) []int {
	var o []int
	for i := a; i <= b; i++ {
		o = append(o, i)
	}
	return o
}

// planUnits lists the work of a tier. Everything listed is executed; nothing is sampled.
func planUnits(thorough bool) (units []unit, bounds map[string]interface{}) {
	bounds = map[string]interface{}{}
	addPlan := func(p e2ePlan) {
		n := len(p.set)
		per := int64(0)
		if p.cache {
			nreq := int64(4*len(p.ms) + 12)
			per = nreq * nreq * 6 * 2
		}
		for range p.clients {
			if p.cache {
				break
			}
			per += int64(len(p.ms)*len(p.fams)) * pow5(n)
			if p.addl {
				per += 2 * int64(len(addlSects)) * pow5(n)
				if n <= 2 || thorough {
					per += pow5(2 * n)
				}
				if bothFor(p.set, p.backend) {
					per += int64(len(addlSects)) * pow5(2*n)
				}
			}
		}
		if p.backend != dnsfix.CDB {
			per = per*3 + 2000 // RocksDB queries are slower; the store itself is shared by all sets of a shard
		}
		p.cost = per
		units = append(units, unit{kind: "e2e", cost: per * 20, plan: p})
	}
	both := []string{"aa", ""}
	for n := 1; n <= 5; n++ {
		for _, set := range multisets(alphabet, n) {
			switch {
			case n <= 3 || (thorough && n == 4):
				addPlan(e2ePlan{set: set, backend: dnsfix.CDB, ms: seq(1, 8), fams: []int{4, 6}, clients: both, addl: true, shuffle: true})
			case n == 4:
				addPlan(e2ePlan{set: set, backend: dnsfix.CDB, ms: []int{1, 2, 4, 8}, fams: []int{4}, clients: []string{"aa"}, shuffle: true})
			case thorough:
				fams := []int{4}
				if !hasTag(set) {
					fams = []int{4, 6}
				}
				addPlan(e2ePlan{set: set, backend: dnsfix.CDB, ms: seq(1, 8), fams: fams, clients: []string{"aa"}, shuffle: true})
			case !hasTag(set):
				addPlan(e2ePlan{set: set, backend: dnsfix.CDB, ms: []int{1, 4}, fams: []int{4}, clients: []string{"aa"}})
			}
			if thorough && n <= 3 {
				addPlan(e2ePlan{set: set, backend: dnsfix.RDBv2, ms: seq(1, 8), fams: []int{4, 6}, clients: both, addl: true, shuffle: true})
			} else if n <= 2 {
				addPlan(e2ePlan{set: set, backend: dnsfix.RDBv2, ms: []int{1, 2, 3, 8}, fams: []int{4, 6}, clients: both, addl: true, shuffle: true})
			}
			if thorough && n <= 2 {
				addPlan(e2ePlan{set: set, backend: dnsfix.RDBv1, ms: seq(1, 8), fams: []int{4, 6}, clients: both, addl: true, shuffle: true})
			}
			// part 1b: response cache enabled
			cms := []int{1, 2, 3, 8}
			if thorough {
				cms = seq(1, 8)
			}
			if n <= 3 || (thorough && n == 4) {
				addPlan(e2ePlan{set: set, backend: dnsfix.CDB, ms: cms, cache: true})
			}
			if n <= 2 {
				addPlan(e2ePlan{set: set, backend: dnsfix.RDBv2, ms: cms, cache: true})
			}
		}
	}
	shapes := fmt.Sprintf("additional-section shapes %v per family 4 and 6 (and both families at one target for CDB sets of size <= 2, RocksDB size 1) plus mxmulti (sets of size <= %d)", addlSects, multiMaxSize)
	if thorough {
		bounds["e2e_bounds"] = "CDB: sets of size 1-4: maxAnswer 1..8, A and AAAA, clients aa and unlocated, " + shapes + ", shuffle variation; size 5 (all 792 sets): maxAnswer 1..8, A (AAAA for untagged sets), client aa, shuffle variation. RocksDB v2: sizes 1-3, RocksDB v1: sizes 1-2 (full configuration)"
		bounds["cache_bounds"] = "response cache enabled, WRSTimeout > 0: CDB sets of size 1-4, RocksDB v2 sizes 1-2; requests = {A, AAAA} x {aa, unlocated} x maxAnswer 1..8, plus mx/fam4, ns/fam6 (and mx2/both) x {aa, unlocated} x maxAnswer {1, 8}; every ordered pair of distinct requests x 2 assignments of the two fixed key-draw vectors; 3 responses judged per sequence"
	} else {
		bounds["e2e_bounds"] = "CDB: sets of size 1-3: maxAnswer 1..8, A and AAAA, clients aa and unlocated, " + shapes + ", shuffle variation; size 4 (all 330 sets): maxAnswer {1,2,4,8}, A, client aa, shuffle variation; size 5: the 56 untagged sets, maxAnswer {1,4}, A. RocksDB v2: sizes 1-2 (maxAnswer {1,2,3,8}, otherwise the full configuration)"
		bounds["cache_bounds"] = "response cache enabled, WRSTimeout > 0: CDB sets of size 1-3, RocksDB v2 sizes 1-2; requests = {A, AAAA} x {aa, unlocated} x maxAnswer {1,2,3,8}, plus mx/fam4, ns/fam6 (and mx2/both) x {aa, unlocated} x maxAnswer {1, 8}; every ordered pair of distinct requests x 2 assignments of the two fixed key-draw vectors; 3 responses judged per sequence"
	}
	// part 2
	for n := 2; n <= 3; n++ {
		vecs := propVectors(n, thorough || n == 2)
		if n == 3 && !thorough {
			vecs = nil
			for _, v := range propVectors(3, false) {
				uses3 := v[0] == 3 || v[1] == 3 || v[2] == 3
				if !uses3 || vecText(v) == "1,2,3" || vecText(v) == "1,3,10" {
					vecs = append(vecs, v)
				}
			}
		}
		for _, v := range vecs {
			for i := range v {
				c := int64(1)
				for j := 0; j < n; j++ {
					c *= 1 << propLogN
				}
				units = append(units, unit{kind: "prop", cost: 2 * c / 2, vec: v, cand: i})
			}
		}
		for _, v := range propVectors(n, false) {
			c := int64(1)
			for j := 0; j < n; j++ {
				c *= 1 << crossLogN
			}
			units = append(units, unit{kind: "cross", cost: 2 * int64(n) * c * 25, vec: v})
		}
	}
	units = append(units, unit{kind: "teeth", cost: 16 * 4 * 2 * 2 * 4096 / 10})
	bounds["prop_cells_per_draw"] = 1 << propLogN
	bounds["prop_weight_alphabet"] = propWeights
	if thorough {
		bounds["prop_vectors"] = "all 16 ordered pairs and all 64 ordered triples"
	} else {
		bounds["prop_vectors"] = "all 16 ordered pairs; 12 non-decreasing triples (the 10 over {1,2,10}, and 1,2,3 and 1,3,10)"
	}
	// part 3
	scs := []sharedScen{{"probe", 2, 2, false}, {"probe", 3, 2, false}, {"probe", 3, 2, true}, {"runtime", 2, 2, false}, {"runtime", 3, 2, false}}
	if thorough {
		scs = append(scs, sharedScen{"probe", 2, 3, false}, sharedScen{"probe", 3, 3, false})
	}
	for _, sc := range scs {
		units = append(units, unit{kind: "sched", cost: 2000000, sc: sc})
	}
	for i := range units {
		units[i].ord = i
	}
	return
}

// assign distributes units over shards: largest first onto the least loaded shard (deterministic).
func assign(units []unit, n int) [][]unit {
	idx := make([]int, len(units))
	for i := range idx {
		idx[i] = i
	}
	sort.SliceStable(idx, func(a, b int) bool { return units[idx[a]].cost > units[idx[b]].cost })
	load := make([]int64, n)
	out := make([][]unit, n)
	// RocksDB units first, onto three eighths of the shards only (their sub-case databases are then shared)
	sort.SliceStable(idx, func(a, b int) bool {
		ra := units[idx[a]].kind == "e2e" && units[idx[a]].plan.backend != dnsfix.CDB
		rb := units[idx[b]].kind == "e2e" && units[idx[b]].plan.backend != dnsfix.CDB
		return ra && !rb
	})
	for _, i := range idx {
		lim := n
		if units[i].kind == "e2e" && units[i].plan.backend != dnsfix.CDB {
			lim = (3*n + 7) / 8 // (6 of 16 shards)
		}
		best := 0
		for s := 1; s < lim; s++ {
			if load[s] < load[best] {
				best = s
			}
		}
		load[best] += units[i].cost
		out[best] = append(out[best], units[i])
	}
	for s := range out {
		sort.SliceStable(out[s], func(a, b int) bool { return out[s][a].ord < out[s][b].ord })
	}
	return out
}

const schedBound = 3

func main() {
	runtime.GOMAXPROCS(1)
	debug.SetGCPercent(400)
	r := vlib.Start("C11")
	if p := replayArg(); p != "" {
		dir, clean := vlib.Scratch("c11")
		scratchDir = dir
		dnsfix.Quiet(dir)
		installSource()
		code := doReplay(p)
		closeWorlds()
		clean()
		os.Exit(code)
	}
	if r.Thorough() {
		universeMaxSize = 3
		multiMaxSize = 3
	}
	units, bounds := planUnits(r.Thorough())
	idx, n, isShard := r.Shard()
	if isShard {
		dir, clean := vlib.Scratch("c11")
		scratchDir = dir
		dnsfix.Quiet(dir)
		installSource()
		if pf := os.Getenv("VERIF_CPUPROFILE"); pf != "" {
			f, _ := os.Create(pf)
			pprof.StartCPUProfile(f)
			defer pprof.StopCPUProfile()
		}
		var es e2eStats
		var ps propStats
		var ss sharedStats
		spent := map[string]time.Duration{}
		for _, u := range assign(units, n)[idx] {
			if f := os.Getenv("VERIF_DEBUG_ONLY"); f != "" && !(f == u.kind || (f == "rdb" && u.kind == "e2e" && u.plan.backend != dnsfix.CDB)) {
				continue // debugging aid: run a single kind of unit
			}
			t0 := time.Now() // reporting only (VERIF_DEBUG); nothing depends on it
			switch u.kind {
			case "e2e":
				if u.plan.cache {
					runCachePlan(r, u.plan, &es)
				} else {
					runPlan(r, u.plan, &es)
				}
			case "prop":
				propUnit(r, u.vec, u.cand, propLogN, &ps)
				ps.vectors++
			case "cross":
				propCross(r, u.vec, crossLogN, &ps)
			case "teeth":
				propTeeth(r, propLogN)
			case "sched":
				runShared(r, u.sc, schedBound, &ss)
			}
			spent[u.kind] += time.Since(t0)
		}
		closeWorlds()
		clean()
		pprof.StopCPUProfile()
		if os.Getenv("VERIF_DEBUG") != "" {
			fmt.Fprintf(os.Stderr, "shard %d: %v\n", idx, spent)
		}
		r.Add("e2e_evaluations", es.evals)
		r.Add("e2e_shuffle_evaluations", es.shuffleEvals)
		r.Add("e2e_nontrivial", es.nontrivial)
		r.Add("e2e_failing_evaluations", es.failing)
		r.Add("e2e_compiled_databases", es.worlds)
		r.Add("e2e_configurations", es.configs)
		r.Add("e2e_misaligned_slot_client_configurations", es.misaligned)
		r.Add("e2e_rocksdb_evaluations_outside_scripted_draw_range", deviations)
		r.Add("e2e_cdb_evaluations_outside_scripted_draw_range", deviationsCDB)
		r.Add("e2e_cdb_misaligned_slot_client_configurations", es.misalignedCDB)
		r.Add("e2e_configurations_on_reduced_draw_alphabet", es.reduced)
		r.Add("e2e_configurations_with_unvaried_trailing_draws", es.beyond)
		r.Add("cache_evaluations", es.cacheEvals)
		r.Add("cache_sequences", es.cacheSeqs)
		r.Add("cache_responses_served_without_a_draw", es.cacheHits)
		r.Add("cache_candidate_sets", es.cacheWorlds)
		r.Add("cache_verdicts_left_to_part1_same_without_cache", es.cacheAlsoPlain)
		r.Add("prop_vectors_off_grid", ps.offGrid)
		r.Add("prop_cross_vectors_judged_without_row_order", ps.crossSkipped)
		for k := 1; k <= 5; k++ {
			r.Add(fmt.Sprintf("e2e_evaluations_size%d", k), es.bySize[k])
		}
		r.Add("prop_corner_evaluations", ps.evals)
		r.Add("prop_cells", ps.cells)
		r.Add("prop_vector_candidate_pairs", ps.vectors)
		r.Add("prop_serve_path_cross_evaluations", ps.crossEvals)
		r.Add("max_prop_bracket_width_n2_ppm", int64(ps.maxWidth[2]*1e6))
		r.Add("max_prop_bracket_width_n3_ppm", int64(ps.maxWidth[3]*1e6))
		r.Add("sched_executions", ss.execs)
		r.Add("sched_steps", ss.steps)
		r.Add("sched_distinct_states", ss.states)
		r.Add("sched_scenarios", ss.scenarios)
		r.Add("sched_distinct_outcomes", ss.outcomes)
		r.Add("source_calls_Int63", src.nInt63)
		r.Add("source_calls_Uint64", src.nUint64)
		r.Add("source_calls_Seed", src.nSeed)
		if ss.capped {
			r.Exhaustive = false
		}
		r.Finish()
	}
	r.ForkShards(vlib.Workers())
	for k, v := range bounds {
		r.Set(k, v)
	}
	evals := r.Int("e2e_evaluations") + r.Int("e2e_shuffle_evaluations") + r.Int("cache_evaluations") + r.Int("prop_corner_evaluations") + r.Int("prop_serve_path_cross_evaluations") + r.Int("sched_executions")
	r.Set("evaluations", evals)
	r.Set("traces_validated_against_impl", evals)
	r.Set("states", r.Int("e2e_configurations")+r.Int("cache_sequences")+r.Int("prop_cells")+r.Int("sched_distinct_states"))
	r.Set("transitions", evals+r.Int("sched_steps"))
	r.Set("distinct_nontrivial", r.Int("e2e_nontrivial")+r.Int("prop_cells")+r.Int("sched_distinct_outcomes"))
	r.Set("sched_preemption_bound", schedBound)
	r.Set("candidate_alphabet", fmt.Sprint(alphabet))
	r.Set("draw_alphabet", drawAlphabet)
	r.Set("rule", "part 1: every multiset of candidates over {weight 0,1,2,2^32-1}x{untagged,aa} up to the size bound (see e2e_bounds), declared in a data file (plus records tagged bb that no client may see), compiled by the real compiler, served by the real handler with the scripted source: for every maxAnswer and EVERY sequence of key draws over the 5-value draw alphabet, one per draw the code takes (shuffle draws defaulted, then each varied over the alphabet with keys fixed; a configuration in which the code does not take one draw per row is bounded to 2048 sequences: the largest of the alphabets 5-value, {0,2^31,2^32-1}, {0,2^32-1} that fits - see e2e_configurations_on_reduced_draw_alphabet), the address records of the response are judged: A and AAAA answers; additional-section addresses of an MX target (mx), of delegation glue (ns), of a target named by TWO records of the RRset (mx2: two MX preferences, ns2: two NS records, https2: two HTTPS records of one owner), of glue whose name is the queried name (nsself), of the owner of an HTTPS answer (https), and of an MX RRset naming an IPv4-only target twice and an IPv6-only target once (mxmulti); targets declare one family or both, and every candidate set includes those with no visible / no positive-weight candidate. Clauses, per target name and family: count = min(max, positive-weight visible candidates) with max = maxAnswer in the answer section and 1 in the additional section (for https/https2 only the upper bound: the statement demands addresses for NS/MX targets), addresses subset of the declared ones visible to the client and of a family the target declares, no repetition, no weight-0 address in a NOERROR response; a panic or a missing response is a violation too. Failing cases are minimised over all candidate sub-sets (and simpler symbols / draws) and reported once. When the code takes a number of key draws other than one per row of the slot's targets (on the unchanged tree: a target named twice none of whose candidates has a positive weight is selected for twice; RocksDB referrals for located clients) draws are not attributed to candidates: every sequence over the draws actually taken is still enumerated and judged, minimisation is over candidate sets only. part 1b: the same clauses with the response cache enabled and weighted answers cached (see cache_bounds): from an empty cache, every ordered pair of distinct requests is served first, then, first again, and each of the three responses is judged against the maximum, family and client location of ITS OWN request (a clause that the same request with the same draws violates without the cache too is part 1's finding and not reported again). states = (set, client, slot, maxAnswer) configurations + cache sequences + grid cells + scheduler states; nontrivial = evaluations in which at least one visible candidate had to be left out. part 2: for every weight vector, every candidate and every cell of the N^n grid over the draws, the real Wrs.Add/ARecord is evaluated at the cell's two extreme corners; cells won at the worst corner bound P(served) from below, cells won at the best corner from above; the statement's w_i/sum(w) must lie in the bracket (exact integer comparison); a selection that does not take one draw per candidate, panics or fails is a violation (the bracket then bounds nothing); a coarse grid is also served through the real handler and compared with the direct selection. part 3: every interleaving within the preemption bound of 2-3 threads taking 2 draws each from rand.New(&lockedSource{...}) over a deliberately non-atomic probe source (and over the runtime source re-seeded through the locked Seed): multiset of values = first n outputs, no race on the underlying state, no deadlock")
	r.Assume = []string{
		"part 2 relies on the key being monotone in the draw (checked at every evaluated corner pair: a cell won at its worst corner must be won at its best corner); deviations of a selection rule smaller than the reported bracket width are not detected",
		"a uniform 32-bit draw is assumed for the probabilities (each grid cell has probability exactly N^-n); the quality of math/rand's generator is not examined",
		"candidate sets beyond the size bound, weights outside {0,1,2,3,10,2^32-1}, draws outside the 5-value alphabet (part 1) are outside the claim; row order inside a store is whatever the real compiler produces (all draw sequences are enumerated, so every assignment of draws to candidates is covered for that order)",
		"part 1b: cache sequences longer than first/then/first-again, expiry of cached entries (the lifetime is set beyond any run), reloads, and key draws other than the two fixed vectors per request are outside the claim (which address a cached response holds is not judged, only that it is a valid response to the request it is served to); whether a response should have been served from the cache at all is C12/C20's business",
		"additional-section shapes: at most two records naming one target and at most two distinct targets per response; SVCB answers (the code selects nothing for them) and ANY questions are not explored",
		"part 3: schedules beyond 3 preemptions and scheduling points other than the lockedSource mutex operations and the probe's explicit point are outside the claim",
	}
	r.Finish()
}

func replayArg() string {
	for i, a := range os.Args {
		if a == "--replay" && i+1 < len(os.Args) {
			return os.Args[i+1]
		}
	}
	return ""
}
