package main

import (
	"fmt"
	"net"
	"os"
	"sort"
	"strings"

	"github.com/facebookincubator/dns/dnsrocks/db"
	"github.com/facebookincubator/dns/dnsrocks/dnsserver"
	"github.com/miekg/dns"

	"verifharness/dnsfix"
	"verifharness/vlib"
)

// A candidate symbol: weight and location tag of one declared address record.
type sym struct {
	W   uint32 `json:"w"`
	Tag string `json:"tag"` // "" (untagged) or "aa"
}

func (s sym) String() string {
	t := s.Tag
	if t == "" {
		t = "-"
	}
	return fmt.Sprintf("%d@%s", s.W, t)
}

const wMax = uint32(1<<32 - 1)

// the candidate alphabet of part 1, simplest first
var alphabet = []sym{{1, ""}, {2, ""}, {wMax, ""}, {0, ""}, {1, "aa"}, {2, "aa"}, {wMax, "aa"}, {0, "aa"}}

// the draw alphabet of part 1
var drawAlphabet = []uint32{0, 1, 1 << 31, 1<<32 - 2, 1<<32 - 1}

const skeleton = "Zexample.com,a.ns.example.com,hostmaster.example.com,1,7200,1800,604800,120,300,,\n" +
	"&example.com,,a.ns.example.com,3600,,\n" +
	"Mexample.com,m1\nM*.example.com,m1\n%aa,10.0.0.0/8,m1\n%bb,192.168.0.0/16,m1\n"

// clients: resolver address -> location
var clientIP = map[string]string{"aa": "10.1.1.1", "": "8.8.8.8"}

// sections observed and the names that carry the candidate set for them.
// fam: 4, 6, or 0 = both families at the target (additional section only).
type cfgKey struct {
	s  slot
	cl string
}

// Sect is the shape of the response the candidates are selected for:
//
//	answer   www A / AAAA                          candidates in the answer section
//	mx       m<f> MX -> one MX naming mx<f>         candidates at the MX target
//	ns       x.d<f> A -> referral, NS ns.d<f>       candidates are the glue
//	mx2      r<f> MX -> TWO MX (preferences 10, 20) naming the same target mx<f>
//	ns2      x.e<f> A -> referral with TWO NS records (different TTLs) naming the same target ns.d<f>
//	nsself   ns.d<f> A -> referral whose glue name is the queried name itself
//	https    h<f> HTTPS -> one HTTPS record; its "target" is the queried name, which carries the candidates
//	https2   g<f> HTTPS -> two HTTPS records (priorities 1, 2) of one owner
//	mxmulti  c MX -> MX 10 mx4, MX 20 mx6, MX 30 mx4: distinct targets of one family each, one of them repeated
type slot struct {
	Sect string
	Fam  int
}

func (s slot) String() string { return fmt.Sprintf("%s/fam%d", s.Sect, s.Fam) }

// the additional-section shapes (every one exists per family 4, 6 and - small sets - 0 = both, except mxmulti)
var addlSects = []string{"mx", "ns", "mx2", "ns2", "nsself", "https", "https2"}

// a name of a response whose address records are judged, and the families it declares
type target struct {
	owner string
	fams  [2]bool // v4, v6
}

func famsOf(f int) [2]bool { return [2]bool{f == 4 || f == 0, f == 6 || f == 0} }

// targets of a slot: the names for which the response may (and, for NS/MX, must) carry selected addresses.
func (s slot) targets(zone string) []target {
	switch s.Sect {
	case "mxmulti":
		return []target{{"mx4." + zone, famsOf(4)}, {"mx6." + zone, famsOf(6)}}
	}
	return []target{{s.owner(zone), famsOf(s.Fam)}}
}

// exact: the statement demands exactly min(limit, positive-weight candidates) addresses (answer section, NS and
// MX targets). For the owner of an HTTPS answer it only demands nothing wrong: at most one per family, declared,
// visible, positive weight.
func (s slot) exact() bool { return s.Sect != "https" && s.Sect != "https2" }

// owner of the candidate rows for a slot; zone is "example.com." or, inside a
// multi-set RocksDB store, "p<k>.example.com." (an empty non-terminal of the zone)
func (s slot) owner(zone string) string {
	switch s.Sect {
	case "answer":
		return "www." + zone
	case "mx", "mx2":
		return fmt.Sprintf("mx%d.%s", s.Fam, zone)
	case "https":
		return fmt.Sprintf("h%d.%s", s.Fam, zone)
	case "https2":
		return fmt.Sprintf("g%d.%s", s.Fam, zone)
	case "mxmulti":
		return "mx4." + zone // (first target; see targets)
	default: // ns, ns2, nsself
		return fmt.Sprintf("ns.d%d.%s", s.Fam, zone)
	}
}

// the query that makes the server select among the slot's rows
func (s slot) query(zone string) (string, uint16) {
	switch s.Sect {
	case "answer":
		if s.Fam == 6 {
			return "www." + zone, dns.TypeAAAA
		}
		return "www." + zone, dns.TypeA
	case "mx":
		return fmt.Sprintf("m%d.%s", s.Fam, zone), dns.TypeMX
	case "mx2":
		return fmt.Sprintf("r%d.%s", s.Fam, zone), dns.TypeMX
	case "mxmulti":
		return "c." + zone, dns.TypeMX
	case "ns2":
		return fmt.Sprintf("x.e%d.%s", s.Fam, zone), dns.TypeA
	case "nsself":
		return fmt.Sprintf("ns.d%d.%s", s.Fam, zone), dns.TypeA
	case "https":
		return fmt.Sprintf("h%d.%s", s.Fam, zone), dns.TypeHTTPS
	case "https2":
		return fmt.Sprintf("g%d.%s", s.Fam, zone), dns.TypeHTTPS
	default:
		return fmt.Sprintf("x.d%d.%s", s.Fam, zone), dns.TypeA
	}
}

func addr4(i int) net.IP { return net.IPv4(192, 0, 2, byte(10+i)).To4() }
func addr6(i int) net.IP {
	ip := net.ParseIP("2001:db8::")
	ip[15] = byte(0x10 + i)
	return ip
}

// one stored row as the server enumerates it
type row struct {
	Cand int // index into world.set, -1 = decoy / unknown
	Fam  int
	W    uint32
}

type world struct {
	set     []sym
	backend dnsfix.Backend
	zone    string // names of this set live under this name
	shared  bool   // the database belongs to a universe (several sets in one store)
	text    string
	path    string
	h       *dnsfix.Handler
	both    bool              // the both-family targets exist
	rows    map[string][]row  // owner|clientloc -> rows in the order the server's reader enumerates them
	byAddr  map[string][2]int // address text -> (candidate index, family)
	vis     map[string]*visInfo
	nk      map[cfgKey]int // key draws the handler takes
	dr      map[cfgKey][]row
	hc      *dnsfix.Handler // the same database behind a handler with the response cache enabled (cache.go)
	pins    int             // > 0: in use by an enumeration, not to be evicted from the world cache
}

func setKey(set []sym) string {
	p := make([]string, len(set))
	for i, s := range set {
		p[i] = s.String()
	}
	return strings.Join(p, ",")
}

func sortSyms(set []sym) {
	sort.SliceStable(set, func(i, j int) bool {
		if set[i].Tag != set[j].Tag {
			return set[i].Tag < set[j].Tag
		}
		return set[i].W < set[j].W
	})
}

// setText renders the records of a candidate set below zone: the set is
// declared, in both address families, at www (answer section), and per family
// (and, for small sets, in both families together) at an MX target, at the
// glue name of a delegation and at two owners of HTTPS records; further MX
// owners and a delegation name the same targets twice or several of them (see
// slot). Every address owner also carries two records tagged for another
// location (bb), which no client of this check may ever be served.
func setText(set []sym, both bool, zone string) string {
	var sb strings.Builder
	z := strings.TrimSuffix(zone, ".")
	put := func(label string, fams ...int) {
		o := label + "." + z
		for _, f := range fams {
			for i, s := range set {
				ip := addr4(i)
				if f == 6 {
					ip = addr6(i)
				}
				fmt.Fprintf(&sb, "+%s,%s,300,,%s,%d\n", o, ip, s.Tag, s.W)
			}
			if f == 4 {
				fmt.Fprintf(&sb, "+%s,192.0.2.201,300,,bb,1\n+%s,192.0.2.202,300,,bb,%d\n", o, o, wMax)
			} else {
				fmt.Fprintf(&sb, "+%s,2001:db8::c9,300,,bb,1\n+%s,2001:db8::ca,300,,bb,%d\n", o, o, wMax)
			}
		}
	}
	put("www", 4, 6)
	fams := []int{4, 6}
	if both {
		fams = append(fams, 0)
	}
	for _, f := range fams {
		fmt.Fprintf(&sb, "@m%d.%s,,mx%d.%s,10,300,,\n", f, z, f, z)
		fmt.Fprintf(&sb, "&d%d.%s,,ns.d%d.%s,3600,,\n", f, z, f, z)
		// the same target named twice
		fmt.Fprintf(&sb, "@r%d.%s,,mx%d.%s,10,300,,\n@r%d.%s,,mx%d.%s,20,300,,\n", f, z, f, z, f, z, f, z)
		fmt.Fprintf(&sb, "&e%d.%s,,ns.d%d.%s,3600,,\n&e%d.%s,,ns.d%d.%s,7200,,\n", f, z, f, z, f, z, f, z)
		// HTTPS records: the addresses of their owner go to the additional section
		fmt.Fprintf(&sb, "Hh%d.%s,.,300,,1,alpn=h2\n", f, z)
		fmt.Fprintf(&sb, "Hg%d.%s,.,300,,1,alpn=h2\nHg%d.%s,.,300,,2,alpn=h3\n", f, z, f, z)
		ff := []int{f}
		if f == 0 {
			ff = []int{4, 6}
		}
		put(fmt.Sprintf("mx%d", f), ff...)
		put(fmt.Sprintf("ns.d%d", f), ff...)
		put(fmt.Sprintf("h%d", f), ff...)
		put(fmt.Sprintf("g%d", f), ff...)
	}
	// several targets in one MX RRset, one of them twice
	fmt.Fprintf(&sb, "@c.%s,,mx4.%s,10,300,,\n@c.%s,,mx6.%s,20,300,,\n@c.%s,,mx4.%s,30,300,,\n", z, z, z, z, z, z)
	return sb.String()
}

var scratchDir string

func bothFor(set []sym, b dnsfix.Backend) bool {
	return len(set) <= 2 && (b == dnsfix.CDB || len(set) == 1)
}

// openWorld compiles the data file of one candidate set (CDB: one database per set).
func openWorld(set []sym, b dnsfix.Backend) *world {
	w := &world{set: set, backend: b, zone: "example.com.", both: bothFor(set, b)}
	w.text = skeleton + setText(set, w.both, w.zone)
	p, err := dnsfix.Compile(scratchDir, b, []byte(w.text))
	if err != nil {
		vlib.Infra("compile of a generated data file failed (%v):\n%s", err, w.text)
	}
	w.path = p
	h, err := dnsfix.OpenHandler(b, p, dnsfix.HandlerOpts{})
	if err != nil {
		vlib.Infra("handler %s: %v", p, err)
	}
	w.h = h
	w.calibrate()
	return w
}

// calibrate reads the row order of the set's owners as the handler's own
// reader enumerates it (it labels draws with candidates; the oracle's verdicts
// do not depend on it).
func (w *world) calibrate() {
	w.rows, w.byAddr = map[string][]row{}, map[string][2]int{}
	for i := range w.set {
		w.byAddr[addr4(i).String()] = [2]int{i, 4}
		w.byAddr[addr6(i).String()] = [2]int{i, 6}
	}
	rd, err := w.h.H.AcquireReader()
	if err != nil {
		vlib.Infra("reader %s: %v", w.path, err)
	}
	defer rd.Close()
	owners := []string{"www." + w.zone}
	for _, f := range []int{4, 6, 0} {
		if f == 0 && !w.both {
			continue
		}
		for _, sect := range []string{"mx", "ns", "https", "https2"} {
			owners = append(owners, slot{sect, f}.owner(w.zone))
		}
	}
	buf := make([]byte, 255)
	for _, o := range owners {
		off, err := dns.PackDomainName(o, buf, 0, nil, false)
		if err != nil {
			vlib.Infra("pack %s: %v", o, err)
		}
		for _, cl := range []string{"aa", ""} {
			loc := &db.Location{}
			copy(loc.LocID[:], cl)
			var rows []row
			rd.ForEachResourceRecord(buf[:off], loc, func(v []byte) error {
				rr, err := db.ExtractRRFromRow(v, false)
				if err != nil || (rr.Qtype != dns.TypeA && rr.Qtype != dns.TypeAAAA) {
					return nil
				}
				ip := net.IP(v[rr.Offset:])
				r := row{Cand: -1, Fam: 4, W: rr.Weight}
				if rr.Qtype == dns.TypeAAAA {
					r.Fam = 6
				}
				if c, ok := w.byAddr[ip.String()]; ok {
					r.Cand = c[0]
				}
				rows = append(rows, r)
				return nil
			})
			w.rows[o+"|"+cl] = rows
		}
	}
}

// ---- universes: one RocksDB store holding every candidate set up to a size (each under its own label) ----

type universe struct {
	backend dnsfix.Backend
	path    string
	h       *dnsfix.Handler
	hc      *dnsfix.Handler   // second handler on the same store, response cache enabled
	zones   map[string]string // set key -> zone
	texts   map[string]string
}

var universes = map[dnsfix.Backend]*universe{}
var universeMaxSize = 2

func getUniverse(b dnsfix.Backend) *universe {
	if u, ok := universes[b]; ok {
		return u
	}
	u := &universe{backend: b, zones: map[string]string{}, texts: map[string]string{}}
	var sb strings.Builder
	sb.WriteString(skeleton)
	k := 0
	for n := 1; n <= universeMaxSize; n++ {
		for _, set := range multisets(alphabet, n) {
			zone := fmt.Sprintf("p%d.example.com.", k)
			k++
			u.zones[setKey(set)] = zone
			t := setText(set, bothFor(set, b), zone)
			u.texts[setKey(set)] = t
			sb.WriteString(t)
		}
	}
	p, err := dnsfix.Compile(scratchDir, b, []byte(sb.String()))
	if err != nil {
		vlib.Infra("compile of the %s universe failed: %v", b, err)
	}
	u.path = p
	h, err := dnsfix.OpenHandler(b, p, dnsfix.HandlerOpts{})
	if err != nil {
		vlib.Infra("handler %s: %v", p, err)
	}
	u.h = h
	universes[b] = u
	return u
}

func (u *universe) world(set []sym) *world {
	zone, ok := u.zones[setKey(set)]
	if !ok {
		vlib.Infra("set %s is not part of the %s universe (size bound %d)", setKey(set), u.backend, universeMaxSize)
	}
	w := &world{set: set, backend: u.backend, zone: zone, shared: true, both: bothFor(set, u.backend), path: u.path, h: u.h}
	w.text = skeleton + u.texts[setKey(set)] + "(... the records of the other candidate sets of this store, each below its own p<k>.example.com ...)\n"
	w.calibrate()
	return w
}

// the response-cache configuration of part 1b: enabled, weighted answers cached too (WRSTimeout > 0), and a
// lifetime that no run reaches (nothing depends on the wall clock)
var cacheCfg = dnsserver.CacheConfig{Enabled: true, LRUSize: 1 << 12, WRSTimeout: 1 << 40}

// cached returns the handler with the response cache enabled over the world's database (opened on first use).
func (w *world) cached() *dnsfix.Handler {
	if w.shared {
		u := universes[w.backend]
		if u.hc == nil {
			h, err := dnsfix.OpenHandler(w.backend, u.path, dnsfix.HandlerOpts{Cache: cacheCfg})
			if err != nil {
				vlib.Infra("cache-enabled handler %s: %v", u.path, err)
			}
			u.hc = h
		}
		return u.hc
	}
	if w.hc == nil {
		h, err := dnsfix.OpenHandler(w.backend, w.path, dnsfix.HandlerOpts{Cache: cacheCfg})
		if err != nil {
			vlib.Infra("cache-enabled handler %s: %v", w.path, err)
		}
		w.hc = h
	}
	return w.hc
}

func (w *world) close() {
	if w.shared {
		return
	}
	if w.pins > 0 {
		vlib.Infra("harness: world %s closed while an enumeration is using it", setKey(w.set))
	}
	if w.hc != nil {
		w.hc.Close()
		w.hc = nil
	}
	if w.h != nil {
		w.h.Close()
		w.h = nil
	}
	os.RemoveAll(w.path)
}

// drawRows are the rows that consume one key draw each, in order, when the
// slot's query is served for a client in location cl.
func (w *world) drawRows(s slot, cl string) []row {
	ck := cfgKey{s, cl}
	if v, ok := w.dr[ck]; ok {
		return v
	}
	if w.dr == nil {
		w.dr = map[cfgKey][]row{}
	}
	out := []row{}
	for _, t := range s.targets(w.zone) {
		for _, r := range w.rows[t.owner+"|"+cl] {
			if (r.Fam == 4 && t.fams[0]) || (r.Fam == 6 && t.fams[1]) {
				out = append(out, r)
			}
		}
	}
	w.dr[ck] = out
	return out
}

// ---- world cache (the enumeration visits one set at a time; minimisation visits sub-sets) ----

type worldCache struct {
	m     map[string]*world
	order []string
	cap   int
}

var cache = &worldCache{m: map[string]*world{}, cap: 48}

// views into a RocksDB universe are cheap and few: never evicted
var rdbCache = &worldCache{m: map[string]*world{}, cap: 1 << 30}

func getWorld(set []sym, b dnsfix.Backend) *world {
	cache := cache
	if b != dnsfix.CDB {
		cache = rdbCache
	}
	k := b.String() + "|" + setKey(set)
	if w, ok := cache.m[k]; ok {
		return w
	}
	for len(cache.order) >= cache.cap {
		// evict the oldest world that no enumeration is using (a world being enumerated stays open while the
		// minimisation of a failing case visits the worlds of its sub-sets)
		vi := -1
		for i, k := range cache.order {
			if cache.m[k].pins == 0 {
				vi = i
				break
			}
		}
		if vi < 0 {
			break
		}
		old := cache.order[vi]
		cache.order = append(cache.order[:vi:vi], cache.order[vi+1:]...)
		cache.m[old].close()
		delete(cache.m, old)
	}
	var w *world
	if b == dnsfix.CDB {
		w = openWorld(append([]sym(nil), set...), b)
	} else {
		w = getUniverse(b).world(append([]sym(nil), set...))
	}
	cache.m[k] = w
	cache.order = append(cache.order, k)
	return w
}

func closeWorlds() {
	for _, cache := range []*worldCache{cache, rdbCache} {
		for _, k := range cache.order {
			cache.m[k].pins = 0
			cache.m[k].close()
		}
		cache.m, cache.order = map[string]*world{}, nil
	}
	for b, u := range universes {
		if u.hc != nil {
			u.hc.Close()
		}
		u.h.Close()
		os.RemoveAll(u.path)
		delete(universes, b)
	}
}

// visInfo: the declared candidates that a client location may see, per family
// (0: v4, 1: v6): address -> weight, and the number with weight > 0. Every
// address owner of a world declares the same candidate set.
type visInfo struct {
	weight [2]map[string]uint32
	pos    [2]int
}

func (w *world) visible(cl string) *visInfo {
	if v, ok := w.vis[cl]; ok {
		return v
	}
	v := &visInfo{}
	for k, f := range []int{4, 6} {
		v.weight[k] = map[string]uint32{}
		for i, c := range w.set {
			if c.Tag != "" && c.Tag != cl {
				continue
			}
			ip := addr4(i)
			if f == 6 {
				ip = addr6(i)
			}
			v.weight[k][ip.String()] = c.W
			if c.W > 0 {
				v.pos[k]++
			}
		}
	}
	if w.vis == nil {
		w.vis = map[string]*visInfo{}
	}
	w.vis[cl] = v
	return v
}
