package main

import (
	"fmt"
	"net"
	"os"
	"sort"
	"strings"

	"github.com/facebookincubator/dns/dnsrocks/db"
	"github.com/miekg/dns"

	"verifharness/dnsfix"
	"verifharness/vlib"
)

// A candidate symbol: weight and location tag of one declared address record.
type sym struct {
	W   uint32 `json:"w"`
	Tag string `json:"tag"` // "" (untagged) or "aa"
}

func (s sym) String() string {
	t := s.Tag
	if t == "" {
		t = "-"
	}
	return fmt.Sprintf("%d@%s", s.W, t)
}

const wMax = uint32(1<<32 - 1)

// the candidate alphabet of part 1, simplest first
var alphabet = []sym{{1, ""}, {2, ""}, {wMax, ""}, {0, ""}, {1, "aa"}, {2, "aa"}, {wMax, "aa"}, {0, "aa"}}

// the draw alphabet of part 1
var drawAlphabet = []uint32{0, 1, 1 << 31, 1<<32 - 2, 1<<32 - 1}

const skeleton = "Zexample.com,a.ns.example.com,hostmaster.example.com,1,7200,1800,604800,120,300,,\n" +
	"&example.com,,a.ns.example.com,3600,,\n" +
	"Mexample.com,m1\nM*.example.com,m1\n%aa,10.0.0.0/8,m1\n%bb,192.168.0.0/16,m1\n"

// clients: resolver address -> location
var clientIP = map[string]string{"aa": "10.1.1.1", "": "8.8.8.8"}

// sections observed and the names that carry the candidate set for them.
// fam: 4, 6, or 0 = both families at the target (additional section only).
type slot struct {
	Sect string // "answer", "mx", "ns"
	Fam  int
}

func (s slot) String() string { return fmt.Sprintf("%s/fam%d", s.Sect, s.Fam) }

// owner of the candidate rows for a slot
func (s slot) owner() string {
	switch s.Sect {
	case "answer":
		return "www.example.com."
	case "mx":
		return fmt.Sprintf("mx%d.example.com.", s.Fam)
	default:
		return fmt.Sprintf("ns.d%d.example.com.", s.Fam)
	}
}

// the query that makes the server select among the slot's rows
func (s slot) query() (string, uint16) {
	switch s.Sect {
	case "answer":
		if s.Fam == 6 {
			return "www.example.com.", dns.TypeAAAA
		}
		return "www.example.com.", dns.TypeA
	case "mx":
		return fmt.Sprintf("m%d.example.com.", s.Fam), dns.TypeMX
	default:
		return fmt.Sprintf("x.d%d.example.com.", s.Fam), dns.TypeA
	}
}

func addr4(i int) net.IP { return net.IPv4(192, 0, 2, byte(10+i)).To4() }
func addr6(i int) net.IP {
	ip := net.ParseIP("2001:db8::")
	ip[15] = byte(0x10 + i)
	return ip
}

// one stored row as the server enumerates it
type row struct {
	Cand int // index into world.set, -1 = decoy / unknown
	Fam  int
	W    uint32
}

type world struct {
	set     []sym
	backend dnsfix.Backend
	text    string
	path    string
	h       *dnsfix.Handler
	both    bool                 // the both-family targets exist
	rows    map[string][]row     // owner|clientloc -> rows in the order the server's reader enumerates them
	byAddr  map[string][2]int    // address text -> (candidate index, family)
	vis     map[string]*visInfo
	nk      map[string]int // slot|client -> key draws the handler takes
	dr      map[string][]row
}

func setKey(set []sym) string {
	p := make([]string, len(set))
	for i, s := range set {
		p[i] = s.String()
	}
	return strings.Join(p, ",")
}

func sortSyms(set []sym) {
	sort.SliceStable(set, func(i, j int) bool {
		if set[i].Tag != set[j].Tag {
			return set[i].Tag < set[j].Tag
		}
		return set[i].W < set[j].W
	})
}

// fileText renders the data file of a candidate set: the set is declared, in
// both address families, at www (answer section), and per family (and, for
// small sets, in both families together) at an MX target and at the glue name
// of a delegation. Every owner also carries two records tagged for another
// location (bb), which no client of this check may ever be served.
func fileText(set []sym, both bool) string {
	var sb strings.Builder
	sb.WriteString(skeleton)
	put := func(owner string, fams ...int) {
		o := strings.TrimSuffix(owner, ".")
		for _, f := range fams {
			for i, s := range set {
				ip := addr4(i)
				if f == 6 {
					ip = addr6(i)
				}
				fmt.Fprintf(&sb, "+%s,%s,300,,%s,%d\n", o, ip, s.Tag, s.W)
			}
			if f == 4 {
				fmt.Fprintf(&sb, "+%s,192.0.2.201,300,,bb,1\n+%s,192.0.2.202,300,,bb,%d\n", o, o, wMax)
			} else {
				fmt.Fprintf(&sb, "+%s,2001:db8::c9,300,,bb,1\n+%s,2001:db8::ca,300,,bb,%d\n", o, o, wMax)
			}
		}
	}
	put("www.example.com.", 4, 6)
	fams := []int{4, 6}
	if both {
		fams = append(fams, 0)
	}
	for _, f := range fams {
		fmt.Fprintf(&sb, "@m%d.example.com,,mx%d.example.com,10,300,,\n", f, f)
		fmt.Fprintf(&sb, "&d%d.example.com,,ns.d%d.example.com,3600,,\n", f, f)
		ff := []int{f}
		if f == 0 {
			ff = []int{4, 6}
		}
		put(fmt.Sprintf("mx%d.example.com.", f), ff...)
		put(fmt.Sprintf("ns.d%d.example.com.", f), ff...)
	}
	return sb.String()
}

var scratchDir string

func openWorld(set []sym, b dnsfix.Backend) *world {
	w := &world{set: set, backend: b, both: len(set) <= 2 && (b == dnsfix.CDB || len(set) == 1), rows: map[string][]row{}, byAddr: map[string][2]int{}}
	w.text = fileText(set, w.both)
	p, err := dnsfix.Compile(scratchDir, b, []byte(w.text))
	if err != nil {
		vlib.Infra("compile of a generated data file failed (%v):\n%s", err, w.text)
	}
	w.path = p
	for i := range set {
		w.byAddr[addr4(i).String()] = [2]int{i, 4}
		w.byAddr[addr6(i).String()] = [2]int{i, 6}
	}
	// row order as the server's own reader enumerates it (labels draws with candidates; the
	// oracle's verdicts do not depend on it)
	d, err := db.Open(p, b.Driver())
	if err != nil {
		vlib.Infra("open %s: %v", p, err)
	}
	rd, err := db.NewReader(d)
	if err != nil {
		vlib.Infra("reader %s: %v", p, err)
	}
	owners := []string{"www.example.com."}
	for _, f := range []int{4, 6, 0} {
		if f == 0 && !w.both {
			continue
		}
		owners = append(owners, fmt.Sprintf("mx%d.example.com.", f), fmt.Sprintf("ns.d%d.example.com.", f))
	}
	buf := make([]byte, 255)
	for _, o := range owners {
		off, err := dns.PackDomainName(o, buf, 0, nil, false)
		if err != nil {
			vlib.Infra("pack %s: %v", o, err)
		}
		for _, cl := range []string{"aa", ""} {
			loc := &db.Location{}
			copy(loc.LocID[:], cl)
			var rows []row
			rd.ForEachResourceRecord(buf[:off], loc, func(v []byte) error {
				rr, err := db.ExtractRRFromRow(v, false)
				if err != nil || (rr.Qtype != dns.TypeA && rr.Qtype != dns.TypeAAAA) {
					return nil
				}
				ip := net.IP(v[rr.Offset:])
				r := row{Cand: -1, Fam: 4, W: rr.Weight}
				if rr.Qtype == dns.TypeAAAA {
					r.Fam = 6
				}
				if c, ok := w.byAddr[ip.String()]; ok {
					r.Cand = c[0]
				}
				rows = append(rows, r)
				return nil
			})
			w.rows[o+"|"+cl] = rows
		}
	}
	rd.Close()
	d.Destroy()
	h, err := dnsfix.OpenHandler(b, p, dnsfix.HandlerOpts{})
	if err != nil {
		vlib.Infra("handler %s: %v", p, err)
	}
	w.h = h
	return w
}

func (w *world) close() {
	if w.h != nil {
		w.h.Close()
		w.h = nil
	}
	os.RemoveAll(w.path)
}

// drawRows are the rows that consume one key draw each, in order, when the
// slot's query is served for a client in location cl.
func (w *world) drawRows(s slot, cl string) []row {
	ck := s.String() + "|" + cl
	if v, ok := w.dr[ck]; ok {
		return v
	}
	if w.dr == nil {
		w.dr = map[string][]row{}
	}
	out := []row{}
	for _, r := range w.rows[s.owner()+"|"+cl] {
		if s.Fam == 0 || r.Fam == s.Fam {
			out = append(out, r)
		}
	}
	w.dr[ck] = out
	return out
}

// ---- world cache (the enumeration visits one set at a time; minimisation visits sub-sets) ----

type worldCache struct {
	m     map[string]*world
	order []string
	cap   int
}

var cache = &worldCache{m: map[string]*world{}, cap: 48}

// RocksDB worlds are expensive to build (every compile allocates two 100000-entry batches) and few: kept apart
var rdbCache = &worldCache{m: map[string]*world{}, cap: 200}

func getWorld(set []sym, b dnsfix.Backend) *world {
	cache := cache
	if b != dnsfix.CDB {
		cache = rdbCache
	}
	k := b.String() + "|" + setKey(set)
	if w, ok := cache.m[k]; ok {
		return w
	}
	capacity := cache.cap
	for len(cache.order) >= capacity {
		old := cache.order[0]
		cache.order = cache.order[1:]
		cache.m[old].close()
		delete(cache.m, old)
	}
	w := openWorld(append([]sym(nil), set...), b)
	cache.m[k] = w
	cache.order = append(cache.order, k)
	return w
}

func closeWorlds() {
	for _, cache := range []*worldCache{cache, rdbCache} {
		for _, k := range cache.order {
			cache.m[k].close()
		}
		cache.m, cache.order = map[string]*world{}, nil
	}
}

// visInfo: the declared candidates of a slot that a client location may see,
// per family (0: v4, 1: v6): address -> weight, and the number with weight > 0.
type visInfo struct {
	weight [2]map[string]uint32
	pos    [2]int
}

func (w *world) visible(s slot, cl string) *visInfo {
	k := s.String() + "|" + cl
	if v, ok := w.vis[k]; ok {
		return v
	}
	v := &visInfo{}
	for k, f := range []int{4, 6} {
		if s.Fam != 0 && s.Fam != f {
			continue
		}
		v.weight[k] = map[string]uint32{}
		for i, c := range w.set {
			if c.Tag != "" && c.Tag != cl {
				continue
			}
			ip := addr4(i)
			if f == 6 {
				ip = addr6(i)
			}
			v.weight[k][ip.String()] = c.W
			if c.W > 0 {
				v.pos[k]++
			}
		}
	}
	if w.vis == nil {
		w.vis = map[string]*visInfo{}
	}
	w.vis[k] = v
	return v
}
