package main

import (
	"fmt"

	"verifharness/dnsfix"
	"verifharness/vlib"
)

// ---- part 1b: the same statement with the response cache enabled ----
//
// One FBDNSDB (and so one response cache) serves every listener, and listeners
// differ in their max-answer value; clients differ in location, questions in
// type and name. With the cache enabled and weighted answers cached
// (WRSTimeout > 0) a response may be the replay of one computed for ANOTHER
// request; the statement is about every response all the same: at most the
// maximum configured for THIS request, exactly min(maximum, positive-weight
// candidates visible to THIS client), of the family asked.
//
// Explored: from an empty cache, every ordered pair (first, then) of distinct
// requests of a candidate set, served as first, then, first again (the third
// response shows an entry overwritten by the second request), each response
// judged by the oracle of part 1 with the maximum of its own request. Key draws
// are fixed to the two vectors of keyVectors (which address is selected is not
// what the cache can get wrong; every draw sequence is part 1's business, and
// a verdict that the same request gets without the cache too is left to part 1).

type creq struct {
	S  slot   `json:"slot"`
	Cl string `json:"client_location"`
	M  int    `json:"max_answer"`
}

func (q creq) String() string { return fmt.Sprintf("%s/cl=%s/m=%d", q.S, q.Cl, q.M) }

// cacheRequests lists the requests of a world: the address questions for both families, both clients and every
// maxAnswer of the plan, and three additional-section shapes under the smallest and the largest maximum.
func cacheRequests(w *world, ms []int) []creq {
	var out []creq
	lo, hi := ms[0], ms[len(ms)-1]
	for _, cl := range []string{"aa", ""} {
		for _, f := range []int{4, 6} {
			for _, m := range ms {
				out = append(out, creq{slot{"answer", f}, cl, m})
			}
		}
		ad := []slot{{"mx", 4}, {"ns", 6}}
		if w.both {
			ad = append(ad, slot{"mx2", 0})
		}
		am := []int{lo}
		if hi != lo {
			am = append(am, hi)
		}
		for _, s := range ad {
			for _, m := range am {
				out = append(out, creq{s, cl, m})
			}
		}
	}
	return out
}

// the two (first, then) assignments of the fixed key vectors
var cacheCombos = [][2]int{{0, 1}, {1, 0}}

var stepName = []string{"first", "then", "first-again"}

// cacheSeq serves first, then, first again from an empty cache and returns the three observations.
func cacheSeq(w *world, r1, r2 creq, combo int, st *e2eStats) [3]observation {
	h := w.cached()
	h.H.PurgeCacheForC11()
	var out [3]observation
	for step, q := range []creq{r1, r2, r1} {
		nk, _ := w.keyDraws(q.S, q.Cl)
		kv := keyVectors(nk)[cacheCombos[combo][step&1]]
		out[step] = serveOn(h, w, q.S, q.Cl, q.M, kv, nil)
		if len(out[step].Kinds) > 0 {
			// a clause that the same request with the same draws violates without the cache as well is part 1's
			// finding (part 1 serves these sets with every draw sequence), not the cache's
			plain := serveOn(w.h, w, q.S, q.Cl, q.M, kv, nil)
			var own []string
			for _, k := range out[step].Kinds {
				if !plain.has(k) {
					own = append(own, k)
				} else if st != nil {
					st.cacheAlsoPlain++
				}
			}
			out[step].Kinds = own
		}
		if st != nil {
			st.cacheEvals++
			if out[step].NonTriv {
				st.nontrivial++
			}
			if out[step].Taken == 0 && nk > 0 {
				st.cacheHits++
			}
		}
	}
	if st != nil {
		st.cacheSeqs++
	}
	return out
}

type cacheFailure struct {
	found  bool
	r1, r2 creq
	step   int
	combo  int
	o      observation
}

// cacheScan runs every sequence of a world in a fixed order; visit returns false to stop.
func cacheScan(w *world, ms []int, st *e2eStats, visit func(r1, r2 creq, combo, step int, o observation) bool) {
	w.pins++
	defer func() { w.pins-- }()
	reqs := cacheRequests(w, ms)
	for _, r1 := range reqs {
		for _, r2 := range reqs {
			if r1 == r2 {
				continue
			}
			for combo := range cacheCombos {
				obs := cacheSeq(w, r1, r2, combo, st)
				for step, o := range obs {
					if !visit(r1, r2, combo, step, o) {
						return
					}
				}
			}
		}
	}
}

var cacheSampled bool // one sample per shard

var cacheFailMemo = map[string]cacheFailure{}

// cacheFirstFailure: the first sequence (in scan order) of a set one of whose responses violates the clause.
func cacheFirstFailure(set []sym, b dnsfix.Backend, ms []int, kind string) cacheFailure {
	k := fmt.Sprintf("%s|%s|%v|%s", b, setKey(set), ms, kind)
	if v, ok := cacheFailMemo[k]; ok {
		return v
	}
	var f cacheFailure
	cacheScan(getWorld(set, b), ms, nil, func(r1, r2 creq, combo, step int, o observation) bool {
		if o.has(kind) {
			f = cacheFailure{true, r1, r2, step, combo, o}
			return false
		}
		return true
	})
	cacheFailMemo[k] = f
	return f
}

// runCachePlan explores the cache-enabled sequences of one candidate set.
func runCachePlan(r *vlib.Run, p e2ePlan, st *e2eStats) {
	w := getWorld(p.set, p.backend)
	st.cacheWorlds++
	seen := map[string]bool{}
	sampled := false
	cacheScan(w, p.ms, st, func(r1, r2 creq, combo, step int, o observation) bool {
		if !sampled && !cacheSampled && step == 1 && o.NonTriv && r1.S == r2.S && r1.Cl == r2.Cl {
			sampled, cacheSampled = true, true
			r.Sample(map[string]interface{}{"part": "e2e-cache", "candidates": setKey(w.set), "backend": w.backend.String(), "first": r1.String(), "then": r2.String(), "judged": stepName[step], "want": o.Want, "served": o.Addrs, "rcode": o.Rcode, "draws_taken": o.Taken, "verdict": o.Kinds})
		}
		for _, kind := range o.Kinds {
			st.failing++
			if seen[kind] {
				continue
			}
			seen[kind] = true
			reportCache(r, p, kind, cacheFailure{true, r1, r2, step, combo, o})
		}
		return true
	})
}

// reportCache reports the smallest sub-multiset of the set that has a failing sequence, with ITS first failing
// sequence (so that one defect gives the same fingerprint whichever larger set it was first seen in).
func reportCache(r *vlib.Run, p e2ePlan, kind string, seenAs cacheFailure) {
	best := append([]sym(nil), p.set...)
	n := len(p.set)
search:
	for size := 1; size < n; size++ {
		idx := make([]int, size)
		var rec func(pos, from int) bool
		rec = func(pos, from int) bool {
			if pos == size {
				sub := make([]sym, size)
				for i, j := range idx {
					sub[i] = p.set[j]
				}
				if cacheFirstFailure(sub, p.backend, p.ms, kind).found {
					best = sub
					return true
				}
				return false
			}
			for i := from; i < n; i++ {
				idx[pos] = i
				if rec(pos+1, i+1) {
					return true
				}
			}
			return false
		}
		if rec(0, 0) {
			break search
		}
	}
	best = simplifySet(best, func(t []sym) bool { return cacheFirstFailure(t, p.backend, p.ms, kind).found })
	f := cacheFirstFailure(best, p.backend, p.ms, kind)
	if !f.found {
		f = seenAs // (a verdict that does not repeat: reported as seen)
	}
	judged := []creq{f.r1, f.r2, f.r1}[f.step]
	fp := fmt.Sprintf("e2e-cache/%s/%s/%s/n=%d/%s/first=%s/then=%s/judged=%s", kind, sectName(judged.S), p.backend, len(best), setKey(best), f.r1, f.r2, stepName[f.step])
	if r.Has(fp) {
		return
	}
	r.Violate(fp, fmt.Sprintf("response cache enabled (weighted answers cached): candidates %s [weight@tag], backend %s; from an empty cache the requests %s, then %s, then the first again were served; the response to the %q request (%s) violates clause %q: visible=%d positive-weight=%d want %d address(es), got %v; rcode %s; key draws taken for it: %d\n%s\n(first seen in the set %s)",
		setKey(best), p.backend, f.r1, f.r2, stepName[f.step], judged, kind, f.o.Visible, f.o.Positive, f.o.Want, f.o.Addrs, f.o.Rcode, f.o.Taken, f.o.canon(), setKey(p.set)),
		map[string]interface{}{"part": "e2e-cache", "kind": kind, "set": best, "backend": p.backend.String(), "first": f.r1, "then": f.r2, "combo": f.combo, "step": f.step})
}
