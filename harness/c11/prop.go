package main

import (
	"fmt"
	"math"
	"strings"

	"github.com/facebookincubator/dns/dnsrocks/db"
	"github.com/miekg/dns"

	"verifharness/dnsfix"
	"verifharness/vlib"
)

// ---- part 2: proportionality, exhaustive over a grid of draw cells ----
//
// The 2^32 values of one draw are cut into N cells of 2^32/N consecutive
// values; a cell of the n-dimensional draw space has probability exactly N^-n
// under a uniform source. "Candidate i is the one served" is non-decreasing in
// i's own draw and non-increasing in every other draw (key = u^(1/w), largest
// key wins), so
//   i wins at the corner (own draw lowest, others highest)  => i wins everywhere in the cell
//   i loses at the corner (own draw highest, others lowest) => i loses everywhere in the cell
// and counting the cells gives   lower_i <= P(i is served) <= upper_i   rigorously.
// The statement demands P = w_i / sum(w), so lower_i <= w_i/sum(w) <= upper_i must hold.

var propWeights = []uint32{1, 2, 3, 10}

type selector func(vec []uint32, draws []uint32) int

var propIPs = [][]byte{{198, 51, 100, 1}, {198, 51, 100, 2}, {198, 51, 100, 3}, {198, 51, 100, 4}}

// realSelect runs the repository's selection (Wrs.Add per candidate in order,
// then Wrs.ARecord) with the scripted draws; returns the index served, -1 if none.
//
// Whatever the code under test does here is a verdict, never an infrastructure
// error: a panic or an error of Add/ARecord serves nothing (-3: the candidate
// is then "served too rarely"), and a selection that does not take exactly one
// draw per candidate is recorded in offGrid: the grid over n draws then does not
// describe its probabilities, which is reported as such (propUnit).
func realSelect(vec []uint32, draws []uint32) (sel int) {
	src.load(draws)
	defer func() {
		if p := recover(); p != nil {
			sel = -3
			if offGrid.what == "" {
				offGrid = offGridInfo{fmt.Sprintf("panic: %v", p), append([]uint32(nil), vec...), append([]uint32(nil), draws...)}
			}
		}
	}()
	w := db.Wrs{MaxAnswers: 1}
	for j, wt := range vec {
		if err := w.Add(db.ResourceRecord{Weight: wt, Qtype: dns.TypeA, TTL: 60}, propIPs[j]); err != nil {
			return -3
		}
	}
	rrs, err := w.ARecord("p.example.com.", dns.ClassINET)
	if err != nil {
		return -3
	}
	if src.taken() != len(vec) && offGrid.what == "" {
		offGrid = offGridInfo{fmt.Sprintf("%d draws taken for %d candidates with MaxAnswers=1", src.taken(), len(vec)), append([]uint32(nil), vec...), append([]uint32(nil), draws...)}
	}
	switch len(rrs) {
	case 0:
		return -1
	case 1:
		if a, ok := rrs[0].(*dns.A); ok && a.A.To4() != nil {
			return int(a.A.To4()[3]) - 1
		}
		return -3
	}
	return -2 // more than one record with MaxAnswers=1
}

// the first evaluation in which the real selection left the model the grid is built on (one draw per candidate)
type offGridInfo struct {
	what  string
	vec   []uint32
	draws []uint32
}

var offGrid offGridInfo

// harness-side wrong rules: the bracket test must reject each of them (the oracle has teeth)
func ruleSelect(key func(u float64, w uint32) float64) selector {
	return func(vec []uint32, draws []uint32) int {
		best, bk := -1, 0.0
		for j, w := range vec {
			k := key(float64(draws[j])/float64(math.MaxUint32), w)
			if best < 0 || k > bk {
				best, bk = j, k
			}
		}
		return best
	}
}

var wrongRules = map[string]selector{
	"key=u*w":     ruleSelect(func(u float64, w uint32) float64 { return u * float64(w) }),
	"key=u^w":     ruleSelect(func(u float64, w uint32) float64 { return math.Pow(u, float64(w)) }),
	"key=u":       ruleSelect(func(u float64, w uint32) float64 { return u }),
	"key=u^(1/w)": ruleSelect(func(u float64, w uint32) float64 { return math.Pow(u, 1/float64(w)) }), // the right rule: must be accepted
}

type bracket struct {
	lower, upper, cells int64
	nonMonotone         int64
	multi               int64
}

func (b bracket) width() float64 { return float64(b.upper-b.lower) / float64(b.cells) }

// bracketOf evaluates sel at the two extreme corners of every cell for candidate i.
func bracketOf(vec []uint32, i, logN int, sel selector) bracket {
	n := len(vec)
	N := 1 << logN
	shift := uint(32 - logN)
	lo := func(c int) uint32 { return uint32(c) << shift }
	hi := func(c int) uint32 { return uint32(c)<<shift | (1<<shift - 1) }
	cells := 1
	for j := 0; j < n; j++ {
		cells *= N
	}
	b := bracket{cells: int64(cells)}
	draws := make([]uint32, n)
	c := make([]int, n)
	for cell := 0; cell < cells; cell++ {
		x := cell
		for j := 0; j < n; j++ {
			c[j] = x & (N - 1)
			x >>= uint(logN)
		}
		for j := 0; j < n; j++ {
			if j == i {
				draws[j] = lo(c[j])
			} else {
				draws[j] = hi(c[j])
			}
		}
		wl := sel(vec, draws)
		for j := 0; j < n; j++ {
			if j == i {
				draws[j] = hi(c[j])
			} else {
				draws[j] = lo(c[j])
			}
		}
		wu := sel(vec, draws)
		if wl == -2 || wu == -2 {
			b.multi++
		}
		if wl == i {
			b.lower++
			if wu != i {
				b.nonMonotone++
			}
		}
		if wu == i {
			b.upper++
		}
	}
	return b
}

// verdict compares the bracket with w_i/sum(w) in exact integer arithmetic.
func (b bracket) verdict(vec []uint32, i int) string {
	var sum int64
	for _, w := range vec {
		sum += int64(w)
	}
	wi := int64(vec[i])
	switch {
	case b.multi > 0:
		return "several-records-for-max-1"
	case b.nonMonotone > 0:
		return "non-monotone"
	case b.lower*sum > wi*b.cells:
		return "served-too-often" // even the guaranteed wins exceed w_i/sum(w)
	case b.upper*sum < wi*b.cells:
		return "served-too-rarely" // even the possible wins fall short of w_i/sum(w)
	}
	return ""
}

func vecText(vec []uint32) string {
	p := make([]string, len(vec))
	for i, w := range vec {
		p[i] = fmt.Sprint(w)
	}
	return strings.Join(p, ",")
}

type propStats struct {
	evals, cells, vectors, crossEvals, offGrid, crossSkipped int64
	maxWidth                                                 [4]float64 // by n
}

// propUnit checks one (weight vector, candidate) on the real selection.
func propUnit(r *vlib.Run, vec []uint32, i, logN int, st *propStats) {
	offGrid = offGridInfo{}
	b := bracketOf(vec, i, logN, realSelect)
	if offGrid.what != "" {
		// (on the unchanged tree: never) the bracket below is still computed and judged, but it no longer bounds the
		// probabilities, so the proportionality clause is not established for this vector: reported, not assumed
		st.offGrid++
		r.Violate(fmt.Sprintf("prop/selection-off-grid/w=%s", vecText(vec)),
			fmt.Sprintf("weights %s: the real Wrs.Add/ARecord leaves the model the grid is built on - exactly one draw per candidate, no panic (%s; first seen with draws %v): the grid over %d draws does not bound its probabilities, so P(served) = w_i/sum(w) cannot be established for this weight vector",
				vecText(vec), offGrid.what, offGrid.draws, len(vec)),
			map[string]interface{}{"part": "prop", "weights": vec, "candidate": i, "logN": logN})
	}
	st.evals += 2 * b.cells
	st.cells += b.cells
	if w := b.width(); w > st.maxWidth[len(vec)] {
		st.maxWidth[len(vec)] = w
	}
	var sum int64
	for _, w := range vec {
		sum += int64(w)
	}
	exp := float64(vec[i]) / float64(sum)
	lo, up := float64(b.lower)/float64(b.cells), float64(b.upper)/float64(b.cells)
	if v := b.verdict(vec, i); v != "" {
		r.Violate(fmt.Sprintf("prop/%s/w=%s/cand=%d", v, vecText(vec), i),
			fmt.Sprintf("weights %s, candidate %d (weight %d): the statement demands P(served) = %d/%d = %.4f; the real selection wins in every point of %d and in some point of at most %d of the %d draw cells (N=%d per draw), i.e. %.4f <= P <= %.4f (%s)",
				vecText(vec), i, vec[i], vec[i], sum, exp, b.lower, b.upper, b.cells, 1<<logN, lo, up, v),
			map[string]interface{}{"part": "prop", "weights": vec, "candidate": i, "logN": logN})
	}
	if st.vectors == 0 {
		r.Sample(map[string]interface{}{"part": "prop", "weights": vecText(vec), "candidate": i, "expected": exp, "lower": lo, "upper": up, "cells": b.cells})
	}
}

// propTeeth runs the same bracket test on harness-side wrong selection rules.
func propTeeth(r *vlib.Run, logN int) {
	vecs := propVectors(2, true)
	var rejected, accepted []string
	for _, name := range []string{"key=u*w", "key=u^w", "key=u", "key=u^(1/w)"} {
		rej := 0
		for _, v := range vecs {
			for i := range v {
				if bracketOf(v, i, logN, wrongRules[name]).verdict(v, i) != "" {
					rej++
				}
			}
		}
		if rej > 0 {
			rejected = append(rejected, fmt.Sprintf("%s (%d of %d vector/candidate pairs)", name, rej, 2*len(vecs)))
		} else {
			accepted = append(accepted, name)
		}
	}
	if len(accepted) != 1 || accepted[0] != "key=u^(1/w)" || len(rejected) != 3 {
		vlib.Infra("bracket oracle self-test failed: rejected=%v accepted=%v", rejected, accepted)
	}
	r.Set("prop_oracle_selftest", map[string]interface{}{"wrong_rules_rejected": rejected, "right_rule_accepted": accepted})
}

// propVectors lists weight vectors of length n over propWeights (all, or only non-decreasing ones).
func propVectors(n int, all bool) [][]uint32 {
	var out [][]uint32
	idx := make([]int, n)
	var rec func(pos int)
	rec = func(pos int) {
		if pos == n {
			v := make([]uint32, n)
			for i, j := range idx {
				v[i] = propWeights[j]
			}
			out = append(out, v)
			return
		}
		from := 0
		if !all && pos > 0 {
			from = idx[pos-1]
		}
		for j := from; j < len(propWeights); j++ {
			idx[pos] = j
			rec(pos + 1)
		}
	}
	rec(0)
	return out
}

// propCross serves the corner draws of a coarse grid through the real handler
// (CDB, maxAnswer 1) and demands the address served to be the one the direct
// selection picks for the same draws in the same row order.
func propCross(r *vlib.Run, vec []uint32, logN int, st *propStats) {
	set := make([]sym, len(vec))
	for i, w := range vec {
		set[i] = sym{W: w}
	}
	w := getWorld(set, dnsfix.CDB)
	s := slot{"answer", 4}
	w.pins++
	defer func() { w.pins-- }()
	rows := w.drawRows(s, "")
	nk, aligned := w.keyDraws(s, "")
	usable := aligned && nk == len(vec) && len(rows) == len(vec)
	rowVec := make([]uint32, len(rows))
	for j, rw := range rows {
		if rw.Cand < 0 || rw.W != vec[rw.Cand] {
			usable = false
			break
		}
		rowVec[j] = rw.W
	}
	if !usable {
		// (on the unchanged tree: never) the store's reader does not enumerate one row per declared record, or the
		// handler does not take one draw per row: there is no row order to compare selections in. The responses
		// themselves are judged (every draw sequence, maxAnswer 1 and 8) like those of part 1.
		st.crossSkipped++
		enumerate(w, s, "", []int{1, 8}, false, func(m int, keys, _ []uint32, _ bool, o observation) bool {
			st.crossEvals++
			for _, kind := range o.Kinds {
				fp := fmt.Sprintf("prop/serve-path/%s/w=%s", kind, vecText(vec))
				if !r.Has(fp) {
					r.Violate(fp, fmt.Sprintf("weights %s draws (in the order taken) %v maxAnswer %d: clause %q violated; want %d address(es), got %v; rcode %s (the reader enumerates %d rows and the handler takes %d key draws for %d declared records, so the served row cannot be compared with the direct selection)\n%s",
						vecText(vec), keys, m, kind, o.Want, o.Addrs, o.Rcode, len(rows), nk, len(vec), o.canon()),
						map[string]interface{}{"part": "e2e-misaligned", "kind": kind, "set": set, "backend": dnsfix.CDB.String(), "section": s.Sect, "family": s.Fam, "client_location": "", "max_answer": m, "draws": append([]uint32(nil), keys...)})
				}
			}
			return true
		})
		return
	}
	n := len(vec)
	N := 1 << logN
	shift := uint(32 - logN)
	cells := 1
	for j := 0; j < n; j++ {
		cells *= N
	}
	keys := make([]uint32, n)
	for i := 0; i < n; i++ {
		for _, low := range []bool{true, false} {
			for cell := 0; cell < cells; cell++ {
				x := cell
				for j := 0; j < n; j++ {
					c := x & (N - 1)
					x >>= uint(logN)
					if (rows[j].Cand == i) == low {
						keys[j] = uint32(c) << shift
					} else {
						keys[j] = uint32(c)<<shift | (1<<shift - 1)
					}
				}
				direct := realSelect(rowVec, keys)
				o := serve(w, s, "", 1, keys, nil)
				st.crossEvals++
				served := -1
				if len(o.Addrs) == 1 {
					if c, ok := w.byAddr[o.Addrs[0]]; ok {
						for j, rw := range rows {
							if rw.Cand == c[0] {
								served = j
							}
						}
					}
				}
				if len(o.Addrs) > 1 {
					served = -2
				}
				if served != direct {
					fp := fmt.Sprintf("prop/serve-path-differs/w=%s", vecText(vec))
					if !r.Has(fp) {
						r.Violate(fp, fmt.Sprintf("weights (row order) %s draws %v maxAnswer 1: the handler served row %d (%v, verdict %v), Wrs.Add/ARecord on the same draws selects row %d\n%s", vecText(rowVec), keys, served, o.Addrs, o.Kinds, direct, o.canon()),
							map[string]interface{}{"part": "prop-cross", "weights": vec, "draws": append([]uint32(nil), keys...)})
					}
				}
			}
		}
	}
}
