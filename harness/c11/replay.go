package main

import (
	"encoding/json"
	"fmt"
	"os"
	"strings"

	"github.com/facebookincubator/dns/dnsrocks/zzverif/vsched"
)

// doReplay re-executes one recorded failing case as a plain deterministic test.
func doReplay(path string) int {
	b, err := os.ReadFile(path)
	if err != nil {
		fmt.Fprintln(os.Stderr, err)
		return 2
	}
	var f struct {
		Fingerprint string `json:"fingerprint"`
		Replay      struct {
			Part      string     `json:"part"`
			Kind      string     `json:"kind"`
			Case      ecase      `json:"case"`
			Weights   []uint32   `json:"weights"`
			Candidate int        `json:"candidate"`
			LogN      int        `json:"logN"`
			Draws     []uint32   `json:"draws"`
			Scenario  sharedScen `json:"scenario"`
			Choices   []int      `json:"choices"`
			Set       []sym      `json:"set"`
			Backend   string     `json:"backend"`
			Section   string     `json:"section"`
			Family    int        `json:"family"`
			Client    string     `json:"client_location"`
			MaxAnswer int        `json:"max_answer"`
			First     creq       `json:"first"`
			Then      creq       `json:"then"`
			Combo     int        `json:"combo"`
			Step      int        `json:"step"`
		} `json:"replay"`
	}
	if err := json.Unmarshal(b, &f); err != nil {
		fmt.Fprintln(os.Stderr, err)
		return 2
	}
	bad := false
	switch f.Replay.Part {
	case "e2e":
		o := f.Replay.Case.run()
		fmt.Printf("case %s\nwant %d address(es), served %v, rcode %s, violated clauses %v\n%s\n", f.Replay.Case.key(), o.Want, o.Addrs, o.Rcode, o.Kinds, o.canon())
		bad = o.has(f.Replay.Kind)
	case "e2e-misaligned":
		w := getWorld(f.Replay.Set, backendOf(f.Replay.Backend))
		o := serve(w, slot{f.Replay.Section, f.Replay.Family}, f.Replay.Client, f.Replay.MaxAnswer, f.Replay.Draws, nil)
		fmt.Printf("set %s draws %v: want %d address(es), served %v, rcode %s, violated clauses %v\n%s\n", setKey(f.Replay.Set), f.Replay.Draws, o.Want, o.Addrs, o.Rcode, o.Kinds, o.canon())
		bad = o.has(f.Replay.Kind)
	case "e2e-cache":
		w := getWorld(f.Replay.Set, backendOf(f.Replay.Backend))
		obs := cacheSeq(w, f.Replay.First, f.Replay.Then, f.Replay.Combo, nil)
		for step, o := range obs {
			q := []creq{f.Replay.First, f.Replay.Then, f.Replay.First}[step]
			fmt.Printf("%s request %s: want %d address(es), served %v, rcode %s, key draws taken %d, violated clauses %v\n%s\n", stepName[step], q, o.Want, o.Addrs, o.Rcode, o.Taken, o.Kinds, o.canon())
		}
		if f.Replay.Step >= 0 && f.Replay.Step < 3 {
			bad = obs[f.Replay.Step].has(f.Replay.Kind)
		}
	case "prop":
		br := bracketOf(f.Replay.Weights, f.Replay.Candidate, f.Replay.LogN, realSelect)
		v := br.verdict(f.Replay.Weights, f.Replay.Candidate)
		fmt.Printf("weights %v candidate %d: lower %d upper %d of %d cells: %q\n", f.Replay.Weights, f.Replay.Candidate, br.lower, br.upper, br.cells, v)
		bad = v != ""
	case "prop-cross":
		fmt.Printf("weights %v draws %v: direct selection picks row %d (re-run the check for the handler side)\n", f.Replay.Weights, f.Replay.Draws, realSelect(f.Replay.Weights, f.Replay.Draws))
	case "sched":
		body, check := buildShared(f.Replay.Scenario)
		res := vsched.RunOnce(vsched.Config{LogEvents: true, MaxSteps: 5000}, f.Replay.Choices, body)
		p := check(res)
		fmt.Println(strings.Join(res.EventLog(), "\n"))
		fmt.Printf("scenario %s choices %v -> %v\n", f.Replay.Scenario, f.Replay.Choices, p)
		bad = len(p) > 0
	default:
		fmt.Fprintf(os.Stderr, "unknown replay part %q\n", f.Replay.Part)
		return 2
	}
	if bad {
		fmt.Printf("VIOLATION property=C11 replay=%s\n", path)
		return 1
	}
	return 0
}
