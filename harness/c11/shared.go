package main

import (
	"fmt"
	"math/rand"
	"sort"
	"strings"

	"github.com/facebookincubator/dns/dnsrocks/db"
	"github.com/facebookincubator/dns/dnsrocks/zzverif/vsched"

	"verifharness/vlib"
)

// ---- part 3: concurrent use of the package's shared generator ----
//
// The generator is rand.New(&lockedSource{src: ...}) (db/rand.go, instrumented:
// its mutex is a scheduling point). Two underlying sources are used:
//   probe   - a counter whose Int63 is deliberately NOT atomic: it loads its
//             state, offers a scheduling point, then stores state+1; state
//             accesses are reported to the scheduler's happens-before checker.
//             Only the lock of lockedSource makes it safe, so a missing or
//             misplaced lock shows up as a duplicated/lost value and as a race.
//   runtime - the source NewRand really uses (db.NewRand(), re-seeded through
//             the locked Seed), compared with an independent generator of the
//             same seed.

type probe struct {
	state int
	seeds int
}

func probeOut(i int) int64 { return int64(uint32(i+1)*2654435761)<<31 | int64(i) }

func (p *probe) Int63() int64 {
	i := *vsched.R(&p.state, "underlying-source.state")
	vsched.Yield(p, "underlying-source: state loaded", false)
	*vsched.W(&p.state, "underlying-source.state") = i + 1
	return probeOut(i)
}
func (p *probe) Uint64() uint64 { return uint64(p.Int63()) }
func (p *probe) Seed(int64)     { p.seeds++ }

type sharedScen struct {
	Source  string `json:"source"` // "probe" | "runtime"
	Threads int    `json:"threads"`
	Draws   int    `json:"draws_per_thread"`
	Shuffle bool   `json:"last_thread_shuffles"` // the last thread takes its draws through Shuffle (as Wrs.record does)
}

func (s sharedScen) String() string {
	sh := ""
	if s.Shuffle {
		sh = "+shuffle"
	}
	return fmt.Sprintf("%s/t%dx%d%s", s.Source, s.Threads, s.Draws, sh)
}

const sharedSeed = 20260923

// buildShared returns the body of one execution and its check.
func buildShared(sc sharedScen) (func(), func(*vsched.Result) []string) {
	var got [][]uint32
	var p *probe
	body := func() {
		var g *rand.Rand
		if sc.Source == "probe" {
			p = &probe{}
			g = db.NewLockedRandForVerif(p)
		} else {
			g = db.NewRand()
			g.Seed(sharedSeed)
		}
		got = make([][]uint32, sc.Threads)
		var ts []*vsched.Thread
		for t := 0; t < sc.Threads; t++ {
			t := t
			ts = append(ts, vsched.GoNamed(fmt.Sprintf("T%d", t+1), false, func() {
				if sc.Shuffle && t == sc.Threads-1 {
					// Shuffle(n) takes n-1 draws (values below are never rejected by int31n for the probe/runtime outputs checked here)
					g.Shuffle(sc.Draws+1, func(i, j int) {})
					return
				}
				for i := 0; i < sc.Draws; i++ {
					got[t] = append(got[t], g.Uint32())
				}
			}))
		}
		vsched.Join(ts...)
	}
	check := func(res *vsched.Result) []string {
		var bad []string
		for _, pr := range res.Problems() {
			k := pr
			if i := strings.Index(k, ":"); i > 0 {
				k = k[:i]
			}
			bad = append(bad, "scheduler-"+k)
		}
		if res.Deadlock != "" || res.Livelock || len(res.Panics) > 0 {
			return dedup(bad) // the execution did not complete: values are not judged
		}
		n := sc.Threads * sc.Draws
		want := make([]uint32, 0, n)
		if sc.Source == "probe" {
			for i := 0; i < n; i++ {
				want = append(want, uint32(probeOut(i)>>31))
			}
			if p.state != n {
				bad = append(bad, "lost-or-extra-state") // the underlying source advanced p.state times for n draws
			}
		} else {
			ref := rand.New(rand.NewSource(sharedSeed))
			for i := 0; i < n; i++ {
				want = append(want, ref.Uint32())
			}
		}
		var have []uint32
		for _, g := range got {
			have = append(have, g...)
		}
		if sc.Shuffle {
			// the shuffling thread's draws are consumed inside math/rand: the other threads' values must be a
			// sub-multiset of the first n outputs, with exactly Draws of them missing
			wantSet := map[uint32]int{}
			for _, v := range want {
				wantSet[v]++
			}
			for _, v := range have {
				wantSet[v]--
				if wantSet[v] < 0 {
					bad = append(bad, "value-not-among-first-outputs-or-duplicated")
				}
			}
			if p != nil && p.state != n {
				bad = append(bad, "lost-or-extra-state")
			}
			return dedup(bad)
		}
		sort.Slice(have, func(i, j int) bool { return have[i] < have[j] })
		sort.Slice(want, func(i, j int) bool { return want[i] < want[j] })
		if len(have) != len(want) {
			bad = append(bad, "wrong-number-of-values")
		} else {
			for i := range have {
				if have[i] != want[i] {
					dup := false
					for j := 1; j < len(have); j++ {
						if have[j] == have[j-1] {
							dup = true
						}
					}
					if dup {
						bad = append(bad, "duplicate-value")
					} else {
						bad = append(bad, "values-differ-from-first-outputs")
					}
					break
				}
			}
		}
		return dedup(bad)
	}
	return body, check
}

func dedup(a []string) []string {
	sort.Strings(a)
	var o []string
	for i, x := range a {
		if i == 0 || x != a[i-1] {
			o = append(o, x)
		}
	}
	return o
}

type sharedStats struct {
	execs, steps, states, pruned, scenarios, outcomes int64
	capped                                            bool
}

func runShared(r *vlib.Run, sc sharedScen, bound int, st *sharedStats) {
	outcomes := map[string]bool{}
	s := vsched.Explore(vsched.Config{Bound: bound, MaxSteps: 5000}, func() (func(), func(*vsched.Result)) {
		body, check := buildShared(sc)
		return body, func(res *vsched.Result) {
			bad := check(res)
			outcomes[strings.Join(bad, "+")] = true
			for _, b := range bad {
				fp := fmt.Sprintf("sched/%s/%s", sc, b)
				if !r.Has(fp) {
					body2, check2 := buildShared(sc)
					lr := vsched.RunOnce(vsched.Config{LogEvents: true, MaxSteps: 5000}, res.Choices, body2)
					r.Violate(fp, fmt.Sprintf("scenario %s: %s (all problems of this execution: %v; scheduler: %v)", sc, b, check2(lr), lr.Problems()),
						map[string]interface{}{"part": "sched", "scenario": sc, "choices": res.Choices, "events": lr.EventLog()})
				}
			}
		}
	})
	st.execs += s.Execs
	st.steps += s.Transitions
	st.states += s.States
	st.pruned += s.Pruned
	st.scenarios++
	st.outcomes += int64(len(outcomes))
	if s.Capped || s.BoundCompleted < bound {
		st.capped = true
	}
	var oc []string
	for k := range outcomes {
		oc = append(oc, k)
	}
	sort.Strings(oc)
	r.Sample(map[string]interface{}{"part": "sched", "scenario": sc.String(), "preemption_bound": bound, "executions": s.Execs, "distinct_states": s.States, "outcomes": oc})
}
