// C09, schedules part (auxiliary binary of ./check C09): the preprocessor's goroutines under the controlled
// scheduler.
//
// Codec.Preprocess reads the data file on the caller's goroutine; at the end of the input it opens the
// accumulator's scanner, which starts one producer goroutine per map (range points of the map rendered as '!'
// lines, handed over in chunks of maxChunkSize = 100 lines through a channel of capacity = number of maps) and a
// closer goroutine; the caller consumes the chunks line by line. For data files chosen so that one map has fewer
// than, exactly, one more than and several times 100 range points, several maps, and pass-through output beyond
// the reader's 512-byte buffer, the REAL instrumented code is executed on every interleaving within the
// preemption bound. On every execution the happens-before analysis (edges only from the synchronisation really
// performed: channel operations, locks, goroutine start) checks every access to a struct field, package
// variable, captured local, slice element, append/copy target and map of package dnsdata; deadlock and panics
// are detected by the scheduler; and on every complete execution the preprocessed text must compile (real
// dnsdata.Parse with the RocksDB compiler's codec, v1 and v2 keys) to the same records as the original.
package main

import (
	"bytes"
	"fmt"
	"runtime"
	"sort"
	"strings"

	"github.com/facebookincubator/dns/dnsrocks/dnsdata"
	"github.com/facebookincubator/dns/dnsrocks/zzverif/vsched"

	"verifharness/dnsfix"
	"verifharness/vlib"
)

type scen struct {
	name  string
	why   string
	text  string
	bound [2]int // quick, thorough
}

// subnets writes n disjoint, non-adjacent /24 subnets of map m (locations alternating), second octet o.
func subnets(m string, o, n int) string {
	var sb strings.Builder
	for i := 0; i < n; i++ {
		fmt.Fprintf(&sb, "%%%s,10.%d.%d.0/24,%s\n", []string{"aa", "bb", "cc"}[i%3], o, 2*i, m)
	}
	return sb.String()
}

const soa = "Zexample.com,ns.example.com,adm.example.com,,7200,1800,604800,120,300,,\n"

func ordinary(n int) string {
	var sb strings.Builder
	for i := 0; i < n; i++ {
		fmt.Fprintf(&sb, "+h%02d.example.com,192.0.2.%d,300\n", i, i)
	}
	return sb.String()
}

// The scenarios. With one map the program is deterministic and every interleaving within the bound is
// enumerated; with several maps the producers are started in Go's map iteration order, which differs from one
// execution to the next, so those scenarios run the one default schedule (bound 0: no replay of a schedule
// prefix is needed) over maps of identical shape - the happens-before check does not need the racing accesses
// to be adjacent, only to happen.
func scenarios() []scen {
	return []scen{
		{"no-subnets", "no map at all: the scanner's channel has capacity 0 and only the closer runs", soa + ordinary(3), [2]int{2, 3}},
		{"one-map-2", "one map, 2 subnets: a single short chunk", subnets("m1", 0, 2) + ordinary(1), [2]int{2, 3}},
		{"one-map-48", "one map, 48 subnets: 99 range points, one chunk that is not full", subnets("m1", 0, 48), [2]int{1, 1}},
		{"one-map-48+last", "one map, 48 subnets and the last /24 of the IPv4 space (its end coincides with the end of the implicit IPv4 range): exactly 100 range points, one full chunk and nothing after it", subnets("m1", 0, 48) + "%cc,255.255.255.0/24,m1\n", [2]int{1, 1}},
		{"one-map-49", "one map, 49 subnets: 101 range points, a full chunk and a chunk of one line", subnets("m1", 0, 49), [2]int{1, 1}},
		{"one-map-60", "one map, 60 subnets: 123 range points", soa + subnets("m1", 0, 60) + ordinary(2), [2]int{0, 1}},
		{"one-map-120", "one map, 120 subnets: 243 range points, three chunks through a channel of capacity 1 (the producer waits for the consumer)", subnets("m1", 0, 120), [2]int{0, 1}},
		{"two-maps-2", "two maps of 2 subnets each", subnets("m1", 0, 2) + subnets("m2", 0, 2) + ordinary(1), [2]int{0, 0}},
		{"three-maps-60", "three maps of 60 subnets each: two chunks per map through a channel of capacity 3", subnets("m1", 0, 60) + subnets("m2", 0, 60) + subnets("m3", 0, 60), [2]int{0, 0}},
		{"long-pass-through", "40 ordinary lines and two SOA lines (output well beyond the reader's 512-byte buffer) around one map of 60 subnets", soa + ordinary(20) + subnets("m1", 0, 60) + "Zexample.org,ns.example.org,adm.example.org,42\n" + ordinary(20), [2]int{0, 1}},
	}
}

func newCodec(v2 bool) *dnsdata.Codec {
	c := new(dnsdata.Codec)
	c.Serial = dnsfix.Serial
	c.Acc.Ranger.Enable()
	c.Acc.NoPrefixSets = true
	c.NoRnetOutput = true
	c.Features.UseV2Keys = v2
	return c
}

// parseAll is the RocksDB compiler's front half (initCodec + dnsdata.Parse), one worker.
func parseAll(text []byte, v2 bool) (d dnsfix.Dump, err error) {
	defer func() {
		if p := recover(); p != nil {
			err = fmt.Errorf("panic: %v", p)
		}
	}()
	recs, err := dnsdata.Parse(bytes.NewReader(text), newCodec(v2), 1)
	if err != nil {
		return nil, err
	}
	d = dnsfix.Dump{}
	for _, m := range recs {
		d[string(m.Key)] = append(d[string(m.Key)], string(m.Value))
	}
	for k := range d {
		sort.Strings(d[k])
	}
	return d, nil
}

func main() {
	runtime.GOMAXPROCS(1)
	r := vlib.Start("C09")
	dir, clean := vlib.Scratch("c09sched")
	defer clean()
	dnsfix.Quiet(dir)
	idx, n, isShard := r.Shard()
	if !isShard {
		vlib.Infra("c09_sched is an auxiliary binary: run ./check C09")
	}
	scs := scenarios()
	for u := idx; u < len(scs); u += n {
		sc := scs[u]
		bound := sc.bound[0]
		if r.Thorough() {
			bound = sc.bound[1]
		}
		var want [2]dnsfix.Dump
		for v := 0; v < 2; v++ {
			d, err := parseAll([]byte(sc.text), v == 1)
			if err != nil {
				vlib.Infra("harness: scenario %q does not compile: %v", sc.name, err)
			}
			want[v] = d
		}
		outcomes := map[string]bool{}
		points, maps, outBytes := int64(-1), int64(0), int64(0)
		st := vsched.Explore(vsched.Config{Bound: bound, MaxSteps: 400000}, func() (func(), func(*vsched.Result)) {
			var out bytes.Buffer
			var perr error
			done := false
			body := func() {
				defer func() {
					if p := recover(); p != nil {
						perr = fmt.Errorf("panic: %v", p)
						done = true
					}
				}()
				// configured exactly as cmd/dnsrocks-preproc does
				codec := newCodec(false)
				perr = codec.Preprocess(strings.NewReader(sc.text), &out)
				done = true
			}
			check := func(res *vsched.Result) {
				var bad []string
				bad = append(bad, res.Problems()...)
				if done && res.Deadlock == "" && !res.Livelock && len(res.Panics) == 0 {
					switch {
					case perr != nil:
						bad = append(bad, "preprocessing of a file that compiles failed: "+perr.Error())
					default:
						if points < 0 {
							points = 0
							ms := map[string]bool{}
							for _, l := range strings.Split(out.String(), "\n") {
								if strings.HasPrefix(l, "!") {
									points++
									ms[strings.SplitN(l, ",", 2)[0]] = true
								}
							}
							maps, outBytes = int64(len(ms)), int64(out.Len())
						}
						for v := 0; v < 2; v++ {
							got, err := parseAll(out.Bytes(), v == 1)
							if err != nil {
								bad = append(bad, "the preprocessed file does not compile: "+err.Error())
							} else if d := want[v].Diff(got); d != "" {
								bad = append(bad, "the preprocessed file compiles to other records than the original: "+firstLine(d))
							}
							if len(bad) > 0 {
								break
							}
						}
					}
				}
				outcomes[strings.Join(bad, "+")] = true
				for _, b := range bad {
					fp := "sched/" + sc.name + "/" + kindOf(b)
					if !r.Has(fp) {
						r.Violate(fp, fmt.Sprintf("scenario %q (%s): %s (%s)", sc.name, sc.why, b, choicesText(res.Choices)),
							map[string]interface{}{"part": "schedules", "file": sc.text, "choices": res.Choices, "problem": b, "preprocessed": out.String()})
					}
				}
			}
			return body, check
		})
		r.Add("schedule_executions", st.Execs)
		r.Add("schedule_steps", st.Transitions)
		r.Add("schedule_distinct_states", st.States)
		r.Add("schedule_pruned_subtrees", st.Pruned)
		r.Add("schedule_distinct_outcomes", int64(len(outcomes)))
		r.Add("schedule_scenarios", 1)
		if points > 100 && maps == 1 || points > 300 {
			r.Add("schedule_scenarios_with_a_map_of_more_than_100_range_points", 1)
		}
		if points == 100 && maps == 1 {
			r.Add("schedule_scenarios_with_a_map_of_exactly_100_range_points", 1)
		}
		if st.Capped || st.BoundCompleted < bound {
			r.Exhaustive = false
		}
		r.Note("schedules: %q (%s): %d range-point lines for %d map(s), %d bytes of output; preemption bound %d, executions %d, distinct states %d, steps %d", sc.name, sc.why, points, maps, outBytes, bound, st.Execs, st.States, st.Transitions)
		r.Sample(map[string]interface{}{"part": "schedules", "scenario": sc.name, "range_point_lines": points, "maps": maps, "bound": bound, "executions": st.Execs})
	}
	r.Finish()
}

// choicesText names a schedule by its deviations from the default one.
func choicesText(ch []int) string {
	var dev []string
	for i, c := range ch {
		if c != 0 {
			dev = append(dev, fmt.Sprintf("%d:%d", i, c))
		}
	}
	if len(dev) == 0 {
		return fmt.Sprintf("the default schedule, %d choice points", len(ch))
	}
	return fmt.Sprintf("schedule with %d choice points, non-default choices point:alternative %s", len(ch), strings.Join(dev, " "))
}

func kindOf(problem string) string {
	p := firstLine(problem)
	if strings.HasPrefix(p, "race: ") {
		// one fingerprint per racing location and access pair, whatever the thread names
		f := strings.SplitN(strings.TrimPrefix(p, "race: "), ":", 2)[0]
		return "race/" + f
	}
	if i := strings.Index(p, ": "); i > 0 && !strings.HasPrefix(p, "deadlock") {
		p = p[:i]
	}
	if len(p) > 120 {
		p = p[:120]
	}
	return p
}

func firstLine(s string) string {
	if i := strings.IndexByte(s, '\n'); i >= 0 {
		return s[:i]
	}
	return s
}
