// C16: a written CDB file returns every value, in order, and nothing else;
// Dump then Make reproduces the file.
//
// Every case is a sequence of (key, value) records. The real go-cdb-mods writer
// builds a file from it; the real reader (Find/FindNext, Data, ForEachKeys,
// Reader.First/Exists) is interrogated for every written key and for absent
// keys and compared with an insertion-ordered multimap; the real Dump and Make
// are run over the file and the result compared byte for byte.
//
// Families (all enumerated exhaustively, no sampling):
//
//	a  every sequence of <=L records over keys {"",a,b,ab} x values {"",x,xy}
//	b  generated databases of n keys with 1-3 values each, n from a size ladder
//	c  crafted hash collisions from an exhaustive hash index of all keys <=3 bytes
//	d  key/value lengths around 4096/8192/65536 at varying file offsets
//	e  key-length and value-length sweeps (every length 0..E)
package main

import (
	"encoding/gob"
	"flag"
	"fmt"
	"os"
	"os/exec"
	"path/filepath"
	"runtime"
	"sort"
	"strconv"
	"strings"
	"sync"
	"time"

	"verifharness/vlib"
)

// collectGarbage lets finalizers close the files the writer leaves open.
func collectGarbage() { runtime.GC(); runtime.Gosched() }

type family struct {
	name string
	n    int
	gen  func(i int) *kase
}

func fill(n, seed int) []byte {
	b := make([]byte, n)
	for i := range b {
		b[i] = byte(i*167 + seed*13 + (i>>8)*5 + 1)
	}
	return b
}

func clone(b []byte) []byte { return append([]byte(nil), b...) }

func pow(b, e int) int {
	r := 1
	for ; e > 0; e-- {
		r *= b
	}
	return r
}

// seqCount is the number of digit sequences base p with length in [minL,maxL];
// seqAt decodes index i into the i-th of them (shorter first).
func seqCount(p, minL, maxL int) int {
	t := 0
	for l := minL; l <= maxL; l++ {
		t += pow(p, l)
	}
	return t
}

func seqAt(p, minL, maxL, i int) []int {
	for l := minL; l <= maxL; l++ {
		c := pow(p, l)
		if i < c {
			d := make([]int, l)
			for j := l - 1; j >= 0; j-- {
				d[j] = i % p
				i /= p
			}
			return d
		}
		i -= c
	}
	panic("seqAt: index out of range")
}

func mutants(k []byte) [][]byte {
	if len(k) == 0 {
		return [][]byte{{0}}
	}
	a := clone(k)
	a[len(a)-1] ^= 1
	b := clone(k)
	b[0] ^= 0x80
	return [][]byte{a, b, clone(k[:len(k)-1]), append(clone(k), 'q')}
}

// ---------------------------------------------------------------- family a

var keysA = []string{"", "a", "b", "ab"}
var valsA = []string{"", "x", "xy"}

func familyA(maxLen int) family {
	p := len(keysA) * len(valsA)
	probes := [][]byte{[]byte(""), []byte("a"), []byte("b"), []byte("ab"), []byte("c"), []byte("ba"), []byte("abc"), {0}, []byte("aa")}
	return family{"a", seqCount(p, 0, maxLen), func(i int) *kase {
		d := seqAt(p, 0, maxLen, i)
		c := &kase{fam: "a", probes: probes, first: len(d) <= 3}
		parts := make([]string, len(d))
		for j, x := range d {
			k, v := keysA[x/len(valsA)], valsA[x%len(valsA)]
			c.recs = append(c.recs, rec{[]byte(k), []byte(v)})
			parts[j] = k + "=" + v
		}
		c.id = "[" + strings.Join(parts, ";") + "]"
		if len(d) <= 2 {
			c.chunks = []int{1, 3, 7}
		}
		return c
	}}
}

// ---------------------------------------------------------------- family b

func genKey(i int) []byte {
	return []byte(strconv.Itoa(i*7919) + strings.Repeat("k", i%5))
}

func genVal(i, j int) []byte {
	if (i+j)%13 == 0 {
		return []byte{}
	}
	return []byte(strconv.Itoa(i) + "." + strconv.Itoa(j) + strings.Repeat("v", (i+3*j)%11))
}

func familyB(sizes []int) family {
	layouts := []string{"grouped", "interleaved"}
	return family{"b", len(sizes) * len(layouts), func(i int) *kase {
		n, lay := sizes[i/len(layouts)], layouts[i%len(layouts)]
		c := &kase{fam: "b", id: fmt.Sprintf("n=%d,%s", n, lay), single: true,
			recipe: "key i = itoa(i*7919)+'k'*(i%5); key i has 1+i%3 values; value j of key i = '' if (i+j)%13==0 else itoa(i)+'.'+itoa(j)+'v'*((i+3j)%11); grouped: all values of key 0, then key 1, ...; interleaved: value 0 of every key, then value 1 of every key that has one, then value 2"}
		if lay == "grouped" {
			for k := 0; k < n; k++ {
				for j := 0; j < 1+k%3; j++ {
					c.recs = append(c.recs, rec{genKey(k), genVal(k, j)})
				}
			}
		} else {
			for j := 0; j < 3; j++ {
				for k := 0; k < n; k++ {
					if j < 1+k%3 {
						c.recs = append(c.recs, rec{genKey(k), genVal(k, j)})
					}
				}
			}
		}
		for k := 0; k < n || k < 64; k++ {
			c.probes = append(c.probes, genKey(n+k), []byte("absent-"+strconv.Itoa(k)))
		}
		return c
	}}
}

// ---------------------------------------------------------------- family d

var bigLens = []int{4095, 4096, 4097, 8191, 8193, 65537}

func familyD0(pads []int) family {
	return family{"d", len(pads), func(i int) *kase {
		p := pads[i]
		return &kase{fam: "d", id: fmt.Sprintf("pad=%d", p), single: true,
			recs:   []rec{{[]byte{}, fill(p, 1)}, {[]byte("kk"), []byte("vv")}, {[]byte{}, []byte{}}},
			probes: [][]byte{[]byte("k"), []byte("kkk"), []byte("vv")},
			recipe: "records: (\"\", fill(pad,1)), (\"kk\",\"vv\"), (\"\",\"\"); fill(n,seed)[i] = byte(i*167+seed*13+(i>>8)*5+1)"}
	}}
}

func familyD1(pads []int) family {
	lens := append([]int{0, 1}, bigLens...)
	per := len(lens) * len(lens)
	return family{"d", len(pads) * per, func(i int) *kase {
		p := pads[i/per]
		kl, vl := lens[(i%per)/len(lens)], lens[i%len(lens)]
		c := &kase{fam: "d", single: true, recipe: "records: optional (\"\", fill(pad,1)); (fill(k,2), fill(v,3)); (\"t\",\"u\"); (\"\",\"\"); fill(n,seed)[i] = byte(i*167+seed*13+(i>>8)*5+1)"}
		ps := "none"
		if p >= 0 {
			ps = strconv.Itoa(p)
			c.recs = append(c.recs, rec{[]byte{}, fill(p, 1)})
		}
		c.id = fmt.Sprintf("pad=%s,k=%d,v=%d", ps, kl, vl)
		key := fill(kl, 2)
		c.recs = append(c.recs, rec{key, fill(vl, 3)}, rec{[]byte("t"), []byte("u")}, rec{[]byte{}, []byte{}})
		c.probes = mutants(key)
		return c
	}}
}

func familyD2() family {
	lens := append([]int{0, 1}, bigLens...)
	return family{"d", len(lens) * len(lens), func(i int) *kase {
		kl, vl := lens[i/len(lens)], lens[i%len(lens)]
		k1, k2 := fill(kl, 4), fill(vl, 5)
		c := &kase{fam: "d", single: true, id: fmt.Sprintf("two-big,k=%d,v=%d", kl, vl),
			recs:   []rec{{k1, fill(vl, 6)}, {k2, fill(kl, 7)}, {[]byte("t"), []byte("u")}, {k1, []byte("again")}},
			recipe: "records: (fill(k,4), fill(v,6)); (fill(v,5), fill(k,7)); (\"t\",\"u\"); (fill(k,4),\"again\")"}
		c.probes = append(mutants(k1), mutants(k2)...)
		return c
	}}
}

// ---------------------------------------------------------------- family e

func familyE(maxLen int) family {
	klens := rng(0, maxLen)
	vlens := rng(0, maxLen)
	if maxLen < 2050 {
		// the window in which the second record's header straddles the first 4096-byte boundary
		vlens = append(vlens, rng(2020, 2050)...)
	}
	nk := len(klens)
	return family{"e", 2*nk + len(vlens), func(i int) *kase {
		c := &kase{fam: "e", single: true, first: true, recipe: "fill(n,seed)[i] = byte(i*167+seed*13+(i>>8)*5+1); key = fill(klen,8); value = fill(vlen,9)"}
		switch {
		case i < nk:
			n := klens[i]
			k := fill(n, 8)
			c.id = fmt.Sprintf("klen=%d", n)
			c.recs = []rec{{k, []byte("v")}}
			c.probes = mutants(k)
		case i < 2*nk:
			n := klens[i-nk]
			k := fill(n, 8)
			c.id = fmt.Sprintf("klen=%d,twice", n)
			c.recs = []rec{{k, []byte("v1")}, {[]byte("z"), []byte("w")}, {k, []byte("v2")}}
			c.probes = mutants(k)
		default:
			n := vlens[i-2*nk]
			c.id = fmt.Sprintf("vlen=%d", n)
			c.recs = []rec{{[]byte("k"), fill(n, 9)}, {[]byte("k"), []byte("2")}}
			c.probes = [][]byte{[]byte("K"), {}}
		}
		return c
	}}
}

// ---------------------------------------------------------------- family c (crafted collisions)

// Plan is what the parent derives from the hash index and hands to the shards.
type Plan struct {
	Pools     []Pool
	Chains    []Chain
	Groups    [][]Hent
	Indexed   int64
	AllGroups int
	Triples   int
	MixedLen  int
}

type Hent struct{ H, Code uint32 }

type Pool struct {
	T, M   int
	Keys   [][]byte // present candidates: two per start slot
	Absent [][]byte // never written: one per start slot
	Slots  []int
}

type Chain struct {
	T, M, S int
	Keys    [][]byte // M+3 keys that all start at slot S of a 2M-slot table
	Mid     [][]byte // absent keys that start inside / right behind the chain
}

func dedupInts(a []int, mod int) []int {
	var out []int
	seen := map[int]bool{}
	for _, x := range a {
		if x >= 0 && x < mod && !seen[x] {
			seen[x] = true
			out = append(out, x)
		}
	}
	return out
}

// pickSlot returns the first n keys of tk (all in one table) whose start slot
// modulo mod is s, with pairwise different hashes.
func pickSlot(tk []hent, mod, s, n int) [][]byte {
	var out [][]byte
	seen := map[uint32]bool{}
	for _, e := range tk {
		if int((e.h>>8)%uint32(mod)) == s && !seen[e.h] {
			seen[e.h] = true
			out = append(out, codeKey(e.code))
			if len(out) == n {
				break
			}
		}
	}
	return out
}

func buildPlan(thorough bool) *Plan {
	ix := buildIndex()
	pl := &Plan{Indexed: ix.keys}
	groups := ix.collisionGroups()
	pl.AllGroups = len(groups)
	for i, g := range groups {
		if len(g) >= 3 {
			pl.Triples++
		}
		if g[0].code>>24 != g[len(g)-1].code>>24 {
			pl.MixedLen++
		}
		// the first 600 (quick) / 12000 (thorough) groups, shortest keys first, and every group of three or more
		if (thorough && i < 12000) || i < 600 || len(g) >= 3 {
			hg := make([]Hent, len(g))
			for j, e := range g {
				hg[j] = Hent{e.h, e.code}
			}
			pl.Groups = append(pl.Groups, hg)
		}
	}
	// first and last table of the header everywhere; a middle one in thorough
	tables := []int{0, 255}
	maxMs := []int{4, 4}
	if thorough {
		tables = []int{0, 255, 129}
		maxMs = []int{6, 6, 5}
	}
	tks := ix.tablesKeys(tables)
	for ti, t := range tables {
		tk := tks[ti]
		for m := 1; m <= maxMs[ti]; m++ {
			p := Pool{T: t, M: m, Slots: dedupInts([]int{0, 1, 2*m - 2, 2*m - 1}, 2*m)}
			for _, s := range p.Slots {
				ks := pickSlot(tk, 2*m, s, 3)
				if len(ks) < 3 {
					vlib.Infra("hash index has too few keys for table %d slot %d mod %d", t, s, 2*m)
				}
				p.Keys = append(p.Keys, ks[0], ks[1])
				p.Absent = append(p.Absent, ks[2])
			}
			pl.Pools = append(pl.Pools, p)
		}
		for _, m := range []int{16, 50, 128} {
			mod := 2 * m
			for _, s := range dedupInts([]int{mod - 1, mod - 3, m, 0}, mod) {
				ch := Chain{T: t, M: m, S: s, Keys: pickSlot(tk, mod, s, m+3)}
				if len(ch.Keys) < m+3 {
					vlib.Infra("hash index has too few keys for a chain of %d in table %d", m, t)
				}
				for _, s2 := range []int{(s + 1) % mod, (s + m/2) % mod, (s + m - 1) % mod, (s + m) % mod} {
					ch.Mid = append(ch.Mid, pickSlot(tk, mod, s2, 1)...)
				}
				pl.Chains = append(pl.Chains, ch)
			}
		}
	}
	return pl
}

func familyC1(pools []Pool) family {
	type seg struct{ base, n int }
	segs := make([]seg, len(pools))
	total := 0
	for i, p := range pools {
		segs[i] = seg{total, pow(len(p.Keys), p.M)}
		total += segs[i].n
	}
	return family{"c", total, func(i int) *kase {
		j := sort.Search(len(segs), func(j int) bool { return segs[j].base+segs[j].n > i })
		p := &pools[j]
		d := seqAt(len(p.Keys), p.M, p.M, i-segs[j].base)
		c := &kase{fam: "c", first: p.M <= 3}
		var sb strings.Builder
		for pos, x := range d {
			c.recs = append(c.recs, rec{p.Keys[x], []byte("v" + strconv.Itoa(pos))})
			sb.WriteByte(byte('0' + x))
		}
		c.id = fmt.Sprintf("slots/t%d/m%d/%s", p.T, p.M, sb.String())
		c.probes = append(append([][]byte{}, p.Keys...), p.Absent...)
		return c
	}}
}

func familyCGroups(groups [][]Hent) family {
	type seg struct{ base, n, g, l int }
	segs := make([]seg, len(groups))
	total := 0
	for i, g := range groups {
		l := 4
		if len(g) > 2 {
			l = 3
		}
		if len(g) > 4 {
			l = 2
		}
		segs[i] = seg{total, seqCount(len(g), 1, l), len(g), l}
		total += segs[i].n
	}
	return family{"c", total, func(i int) *kase {
		j := sort.Search(len(segs), func(j int) bool { return segs[j].base+segs[j].n > i })
		s, g := segs[j], groups[j]
		d := seqAt(s.g, 1, s.l, i-s.base)
		c := &kase{fam: "c", first: len(d) <= 2}
		var sb strings.Builder
		for pos, x := range d {
			c.recs = append(c.recs, rec{codeKey(g[x].Code), []byte("v" + strconv.Itoa(pos))})
			sb.WriteByte(byte('0' + x))
		}
		var names []string
		for _, e := range g {
			k := codeKey(e.Code)
			c.probes = append(c.probes, k)
			names = append(names, fmt.Sprintf("%x", k))
		}
		c.id = fmt.Sprintf("samehash/%08x/%s/%s", g[0].H, strings.Join(names, ","), sb.String())
		return c
	}}
}

func familyC2(chains []Chain) family {
	return family{"c", 2 * len(chains), func(i int) *kase {
		ch := &chains[i/2]
		m, ks := ch.M, ch.Keys
		probes := append(append([][]byte{}, ks[m:]...), ch.Mid...)
		recipe := fmt.Sprintf("the first %d keys (length-major, then lexicographic) over all byte strings of <=3 bytes with spooky.Hash32 %% 256 == %d and (h>>8) %% %d == %d, value 'v<i>'", m, ch.T, 2*m, ch.S)
		if i%2 == 0 {
			a := &kase{fam: "c", single: true, id: fmt.Sprintf("chain/t%d/m%d/s%d/distinct", ch.T, m, ch.S), probes: probes, recipe: recipe}
			for i := 0; i < m; i++ {
				a.recs = append(a.recs, rec{ks[i], []byte("v" + strconv.Itoa(i))})
			}
			return a
		}
		b := &kase{fam: "c", single: true, id: fmt.Sprintf("chain/t%d/m%d/s%d/repeat", ch.T, m, ch.S), recipe: recipe + "; positions 0, m/2 and m-1 all use the first key"}
		for i := 0; i < m; i++ {
			k := ks[i]
			if i == m/2 || i == m-1 {
				k = ks[0]
			}
			b.recs = append(b.recs, rec{k, []byte("v" + strconv.Itoa(i))})
		}
		b.probes = append(probes, ks[m/2], ks[m-1])
		return b
	}}
}

// ---------------------------------------------------------------- families of a tier

type labelled struct {
	label string
	f     family
}

func rng(lo, hi int) []int {
	var out []int
	for i := lo; i <= hi; i++ {
		out = append(out, i)
	}
	return out
}

type bounds struct {
	MaxA, MaxE int
	Sizes      []int
	Pads0      int
	Pads1      int
}

func families(thorough bool, pl *Plan) ([]labelled, bounds) {
	b := bounds{MaxA: 4, MaxE: 700, Sizes: []int{0, 1, 2, 3, 255, 256, 257, 1000, 5000}}
	pads0 := append(rng(2020, 2050), rng(6116, 6146)...)
	pads1 := append([]int{-1, 0, 1, 2, 3, 5}, rng(2029, 2040)...)
	if thorough {
		b.MaxA, b.MaxE = 5, 2500
		b.Sizes = append(b.Sizes, 40000)
		pads0 = append(append(rng(1990, 2080), rng(6086, 6176)...), rng(10182, 10272)...)
		pads1 = append(pads1, rng(6125, 6136)...)
	}
	b.Pads0, b.Pads1 = len(pads0), len(pads1)
	return []labelled{
		{"b_sizes", familyB(b.Sizes)}, // heaviest single cases first
		{"a_sequences", familyA(b.MaxA)},
		{"e_length_sweeps", familyE(b.MaxE)},
		{"d_pad_sweep", familyD0(pads0)},
		{"d_big_lengths", familyD1(pads1)},
		{"d_two_big", familyD2()},
		{"c_slot_collisions", familyC1(pl.Pools)},
		{"c_long_chains", familyC2(pl.Chains)},
		{"c_same_hash_groups", familyCGroups(pl.Groups)},
	}, b
}

func blockSize(n int) int {
	b := n / 1024
	if b < 1 {
		b = 1
	}
	if b > 64 {
		b = 64
	}
	return b
}

// ---------------------------------------------------------------- shard process

// ShardResult is what one shard process reports back.
type ShardResult struct {
	St        stats
	Nontriv   int64
	Splits    map[string]int64
	PerFamily map[string]int64
	Fails     []Failure
	GroupN    map[string]int
	Seconds   map[string]float64
}

const keepPerGroup = 40

func shardMain() {
	r := vlib.Start("C16")
	shard, _ := strconv.Atoi(os.Getenv("VERIF_C16_SHARD"))
	shards, _ := strconv.Atoi(os.Getenv("VERIF_C16_SHARDS"))
	dir := os.Getenv("VERIF_C16_DIR")
	quiet(dir)
	var pl Plan
	pf, err := os.Open(filepath.Join(dir, "plan.gob"))
	if err != nil {
		vlib.Infra("shard %d: %v", shard, err)
	}
	if err := gob.NewDecoder(pf).Decode(&pl); err != nil {
		vlib.Infra("shard %d: plan: %v", shard, err)
	}
	pf.Close()
	st := &stats{}
	col := &collector{splits: map[string]int64{}}
	w := &worker{path: filepath.Join(dir, fmt.Sprintf("w%d.cdb", shard)), ctx: newCtx(), st: st, col: col}
	res := ShardResult{PerFamily: map[string]int64{}, Seconds: map[string]float64{}}
	fams, _ := families(r.Thorough(), &pl)
	only := os.Getenv("VERIF_C16_ONLY") // debugging aid: run only families whose label has this prefix
	for _, lf := range fams {
		if only != "" && !strings.HasPrefix(lf.label, only) {
			continue
		}
		t0 := time.Now()
		before := st.Files
		bs := blockSize(lf.f.n)
		nb := (lf.f.n + bs - 1) / bs
		for b := shard; b < nb; b += shards {
			hi := (b + 1) * bs
			if hi > lf.f.n {
				hi = lf.f.n
			}
			for i := b * bs; i < hi; i++ {
				w.run(lf.f.gen(i))
			}
		}
		res.PerFamily[lf.label] = st.Files - before
		res.Seconds[lf.label] = time.Since(t0).Seconds()
	}
	os.Remove(w.path)
	res.St = *st
	res.Nontriv = col.nontriv
	res.Splits = col.splits
	// keep the smallest failing cases of every group
	res.GroupN = map[string]int{}
	by := map[string][]Failure{}
	for _, f := range col.fails {
		by[f.Group] = append(by[f.Group], f)
	}
	for g, fs := range by {
		res.GroupN[g] = len(fs)
		sortFailures(fs)
		if len(fs) > keepPerGroup {
			fs = fs[:keepPerGroup]
		}
		res.Fails = append(res.Fails, fs...)
	}
	out, err := os.Create(filepath.Join(dir, fmt.Sprintf("result%d.gob", shard)))
	if err != nil {
		vlib.Infra("shard %d: %v", shard, err)
	}
	if err := gob.NewEncoder(out).Encode(&res); err != nil {
		vlib.Infra("shard %d: result: %v", shard, err)
	}
	out.Close()
	os.Exit(0)
}

func sortFailures(fs []Failure) {
	sort.Slice(fs, func(i, j int) bool {
		if fs[i].Nrec != fs[j].Nrec {
			return fs[i].Nrec < fs[j].Nrec
		}
		if fs[i].Size != fs[j].Size {
			return fs[i].Size < fs[j].Size
		}
		return fs[i].ID < fs[j].ID
	})
}

func quiet(dir string) {
	flag.Set("logtostderr", "false")
	flag.Set("alsologtostderr", "false")
	flag.Set("stderrthreshold", "FATAL")
	flag.Set("log_dir", dir)
}

// ---------------------------------------------------------------- parent

func main() {
	if os.Getenv("VERIF_C16_SHARD") != "" {
		shardMain()
		return
	}
	r := vlib.Start("C16")
	dir, clean := vlib.Scratch("c16")
	defer clean()
	quiet(dir)
	timing := os.Getenv("VERIF_C16_TIMING") != ""

	t0 := time.Now()
	pl := buildPlan(r.Thorough())
	pf, err := os.Create(filepath.Join(dir, "plan.gob"))
	if err != nil {
		vlib.Infra("%v", err)
	}
	if err := gob.NewEncoder(pf).Encode(pl); err != nil {
		vlib.Infra("plan: %v", err)
	}
	pf.Close()
	if timing {
		fmt.Fprintf(os.Stderr, "timing: hash index and plan %.2fs\n", time.Since(t0).Seconds())
	}
	runtime.GC()

	// One single-threaded process per shard: every case maps and unmaps a file,
	// and address-space operations serialise (and broadcast TLB flushes) inside
	// a multi-threaded process.
	shards := vlib.Workers()
	errs := make([]error, shards)
	outs := make([][]byte, shards)
	var wg sync.WaitGroup
	for i := 0; i < shards; i++ {
		wg.Add(1)
		go func(i int) {
			defer wg.Done()
			cmd := exec.Command(os.Args[0], r.Tier)
			cmd.Env = append(os.Environ(), "VERIF_C16_SHARD="+strconv.Itoa(i), "VERIF_C16_SHARDS="+strconv.Itoa(shards),
				"VERIF_C16_DIR="+dir, "VERIF_TIER="+r.Tier, "GOMAXPROCS=1")
			outs[i], errs[i] = cmd.CombinedOutput()
		}(i)
	}
	wg.Wait()
	for i := range errs {
		if errs[i] != nil {
			clean()
			vlib.Infra("shard %d failed: %v\n%s", i, errs[i], outs[i])
		}
	}
	if timing {
		fmt.Fprintf(os.Stderr, "timing: shards done at %.2fs\n", time.Since(t0).Seconds())
	}

	var st stats
	nontriv := int64(0)
	splits := map[string]int64{}
	perFamily := map[string]int64{}
	groupN := map[string]int{}
	byGroup := map[string][]Failure{}
	maxSec := map[string]float64{}
	for i := 0; i < shards; i++ {
		var res ShardResult
		f, err := os.Open(filepath.Join(dir, fmt.Sprintf("result%d.gob", i)))
		if err != nil {
			vlib.Infra("shard %d left no result: %v\n%s", i, err, outs[i])
		}
		if err := gob.NewDecoder(f).Decode(&res); err != nil {
			vlib.Infra("shard %d result: %v", i, err)
		}
		f.Close()
		st.add(&res.St)
		nontriv += res.Nontriv
		for k, v := range res.Splits {
			splits[k] += v
		}
		for k, v := range res.PerFamily {
			perFamily[k] += v
		}
		for k, v := range res.GroupN {
			groupN[k] += v
		}
		for k, v := range res.Seconds {
			if v > maxSec[k] {
				maxSec[k] = v
			}
		}
		for _, fl := range res.Fails {
			byGroup[fl.Group] = append(byGroup[fl.Group], fl)
		}
	}
	fams, bnd := families(r.Thorough(), pl)
	if timing {
		for _, lf := range fams {
			fmt.Fprintf(os.Stderr, "timing: %-22s %8d files, slowest shard %6.2fs\n", lf.label, perFamily[lf.label], maxSec[lf.label])
		}
	}
	for _, lf := range fams {
		if perFamily[lf.label] != int64(lf.f.n) {
			if os.Getenv("VERIF_C16_ONLY") == "" {
				vlib.Infra("family %s: %d cases enumerated, %d executed", lf.label, lf.f.n, perFamily[lf.label])
			}
			r.Exhaustive = false
		}
		for _, i := range []int{0, lf.f.n / 2, lf.f.n - 1} {
			if i >= 0 && i < lf.f.n {
				c := lf.f.gen(i)
				r.Sample(fmt.Sprintf("%s:%s (%d records)", c.fam, c.id, len(c.recs)))
			}
		}
	}

	// ------------------------------------------------------------ violations: minimal cases per group
	gnames := make([]string, 0, len(byGroup))
	for g := range byGroup {
		gnames = append(gnames, g)
	}
	sort.Strings(gnames)
	for _, g := range gnames {
		fs := byGroup[g]
		sortFailures(fs)
		var kept []Failure
		for _, f := range fs {
			if len(kept) >= 4 || (len(kept) >= 1 && (f.Single || kept[0].Single)) {
				break
			}
			minimal := true
			for _, k := range kept {
				if isSubseq(k.Recs, f.Recs) {
					minimal = false
					break
				}
			}
			if minimal {
				kept = append(kept, f)
			}
		}
		var others []string
		for _, f := range fs {
			if len(others) >= 12 {
				break
			}
			others = append(others, f.ID)
		}
		for _, k := range kept {
			r.Violate(g+"/"+k.ID, fmt.Sprintf("%s\n%d cases fail in group %s; smallest: %s", k.Detail, groupN[g], g, strings.Join(others, " ")), k.Replay)
		}
	}

	// ------------------------------------------------------------ evidence
	lookups := st.LookupsPresent + st.LookupsAbsent
	evals := lookups + st.DataCalls + st.FirstCalls + st.Files /*foreach*/ + st.RoundtripsFile + st.RoundtripsChunked + st.MakeFromText
	r.Set("states", st.Files)
	r.Set("transitions", st.Records)
	r.Set("evaluations", evals)
	r.Set("traces_validated_against_impl", st.Files)
	r.Set("distinct_nontrivial", nontriv)
	r.Set("files_per_family", perFamily)
	r.Set("records_written", st.Records)
	r.Set("bytes_written", st.BytesWritten)
	r.Set("lookups_present_keys", st.LookupsPresent)
	r.Set("lookups_absent_keys", st.LookupsAbsent)
	r.Set("values_compared", st.ValuesCompared)
	r.Set("data_calls", st.DataCalls)
	r.Set("reader_first_exists_calls", st.FirstCalls)
	r.Set("foreach_records_enumerated", st.ForeachRecords)
	r.Set("stored_hashes_compared_with_reader_hash", st.StoredHashChecked)
	r.Set("dump_make_roundtrips_file_reader", st.RoundtripsFile)
	r.Set("dump_make_roundtrips_chunked_reader", st.RoundtripsChunked)
	r.Set("make_runs_on_model_text_after_dump_failure", st.MakeFromText)
	r.Set("files_with_multi_value_key", st.FilesMultiValue)
	r.Set("files_with_displaced_record", st.FilesDisplaced)
	r.Set("files_with_probe_chain_wrapping_table_end", st.FilesWrapped)
	r.Set("max_probe_displacement", st.MaxDisplacement)
	r.Set("absent_lookups_starting_on_occupied_slot", st.AbsentHitOccupied)
	r.Set("absent_lookups_with_present_full_hash_twin", st.AbsentFullHashTwin)
	r.Set("number_fields_split_by_read_boundary", splits)
	r.Set("roundtrips_with_split_failed", st.SplitsFailed)
	r.Set("roundtrips_with_split_masked", st.SplitsMasked)
	r.Set("failing_cases_per_group", groupN)
	r.Set("hash_index_keys", pl.Indexed)
	r.Set("hash_index_full_collision_groups", pl.AllGroups)
	r.Set("hash_index_groups_of_three_or_more", pl.Triples)
	r.Set("hash_index_groups_mixing_key_lengths", pl.MixedLen)
	r.Set("collision_groups_used", len(pl.Groups))
	r.Set("slot_pools", len(pl.Pools))
	r.Set("long_chains", len(pl.Chains))
	r.Set("family_a_max_records", bnd.MaxA)
	r.Set("family_b_sizes", bnd.Sizes)
	r.Set("family_e_max_length", bnd.MaxE)
	r.Set("family_d_lengths", bigLens)
	r.Set("family_d_pad_positions", []int{bnd.Pads0, bnd.Pads1})
	r.Set("rule", "states = files built by the real writer, one per enumerated record sequence; transitions = records written; "+
		"evaluations = per-key Find/FindNext sequences + Data calls + Reader.First/Exists calls + one ForEachKeys multiset comparison per file + Dump->Make round trips; "+
		"a: every sequence (order matters) of <=L records over 4 keys x 3 values; b: ladder of generated databases in two insertion layouts, n absent probes each; "+
		"c: from the hashes of ALL byte strings of <=3 bytes: per table and table size m every length-m sequence over 2 keys per start slot in {0,1,2m-2,2m-1} (+1 absent key per slot), chains of 16/50/128 keys on one start slot at the table end/middle/start, and every sequence of <=4 (pairs) / <=3 (triples) records over sets of keys with identical 32-bit hash (the first collision_groups_used of hash_index_full_collision_groups sets, shortest keys first, plus every set of three or more); "+
		"d: records of length {0,1,4095,4096,4097,8191,8193,65537} behind pads that place every header byte phase on a 4096 boundary (number_fields_split_by_read_boundary lists the phases actually observed on the reader Dump wraps); e: every key length and value length 0..E (plus value lengths 2020..2050). "+
		"nontrivial = the file has a key with several values, or a record displaced from its start slot, or an absent probe that starts on an occupied slot")
	r.Assume = []string{
		"files below 4 GiB (32-bit offsets are not exercised near overflow)",
		"the writer's output is read back through the file system (mmap) on the scratch directory",
		"Dump is fed an *os.File (and, for small cases, readers returning at most 1/3/7 bytes per Read); Make writes into an in-memory io.WriteSeeker",
		"crafted collisions are limited to keys of <=3 bytes; longer keys collide only by chance in family b",
	}
	if !r.Thorough() {
		r.Note("quick tier: family a up to %d records, sizes up to %d, %d of %d full-hash collision groups, slot pools up to m=4 (thorough: 5 records, 40000 keys, all groups, m up to 6)", bnd.MaxA, bnd.Sizes[len(bnd.Sizes)-1], len(pl.Groups), pl.AllGroups)
	}
	clean()
	r.Finish()
}
