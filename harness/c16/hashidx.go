package main

// Deterministic search for hash collisions: the reader's hash (spooky.Hash32,
// cdb.go) of every key of length <= maxLen over the full byte alphabet, sorted
// by hash. From it: keys that share a table (h mod 256) and a start slot
// ((h>>8) mod 2m), and groups of keys with identical 32-bit hashes.

import (
	"sort"

	spooky "github.com/dgryski/go-spooky"

	"verifharness/vlib"
)

type hent struct {
	h    uint32
	code uint32 // len<<24 | b0<<16 | b1<<8 | b2
}

func codeKey(code uint32) []byte {
	l := int(code >> 24)
	b := []byte{byte(code >> 16), byte(code >> 8), byte(code)}
	return b[:l:l]
}

type hashIndex struct {
	buckets [256][]uint64 // h<<32|code sorted; bucket = h>>24
	keys    int64
}

func buildIndex() *hashIndex {
	const per = 1 + 256 + 65536 // keys starting with one given byte
	all := make([]uint64, 1+256*per)
	all[0] = uint64(spooky.Hash32([]byte{}))<<32 | 0
	var counts [256][256]int32 // producer x bucket
	vlib.ParallelFor(256, func(b0 int) {
		seg := all[1+b0*per : 1+(b0+1)*per]
		n := 0
		cnt := &counts[b0]
		add := func(k []byte) {
			h := spooky.Hash32(k)
			code := uint32(len(k)) << 24
			for i, c := range k {
				code |= uint32(c) << (16 - 8*uint(i))
			}
			seg[n] = uint64(h)<<32 | uint64(code)
			n++
			cnt[h>>24]++
		}
		var kb [3]byte
		kb[0] = byte(b0)
		add(kb[:1])
		for b1 := 0; b1 < 256; b1++ {
			kb[1] = byte(b1)
			add(kb[:2])
			for b2 := 0; b2 < 256; b2++ {
				kb[2] = byte(b2)
				add(kb[:3])
			}
		}
	})
	counts[0][all[0]>>56]++
	// scatter into buckets (stable: producer order, then enumeration order)
	ix := &hashIndex{keys: int64(len(all))}
	var offs [256][256]int32 // producer x bucket -> write offset inside the bucket
	for j := 0; j < 256; j++ {
		t := int32(0)
		for p := 0; p < 256; p++ {
			offs[p][j] = t
			t += counts[p][j]
		}
		ix.buckets[j] = make([]uint64, t)
	}
	e0 := all[0]
	ix.buckets[e0>>56][offs[0][e0>>56]] = e0
	offs[0][e0>>56]++
	vlib.ParallelFor(256, func(p int) {
		of := &offs[p]
		for _, e := range all[1+p*per : 1+(p+1)*per] {
			j := e >> 56
			ix.buckets[j][of[j]] = e
			of[j]++
		}
	})
	vlib.ParallelFor(256, func(j int) {
		b := ix.buckets[j]
		sort.Slice(b, func(x, y int) bool { return b[x] < b[y] })
	})
	return ix
}

// tablesKeys returns, for each requested table t, every indexed key whose hash
// selects t (h mod 256), shortest and lexicographically smallest first.
func (ix *hashIndex) tablesKeys(tables []int) [][]hent {
	want := map[uint32]int{}
	for i, t := range tables {
		want[uint32(t)] = i
	}
	var per [256][][]hent
	vlib.ParallelFor(256, func(j int) {
		loc := make([][]hent, len(tables))
		for _, e := range ix.buckets[j] {
			if i, ok := want[uint32(e>>32)&255]; ok {
				loc[i] = append(loc[i], hent{uint32(e >> 32), uint32(e)})
			}
		}
		per[j] = loc
	})
	out := make([][]hent, len(tables))
	for i := range tables {
		for j := 0; j < 256; j++ {
			out[i] = append(out[i], per[j][i]...)
		}
		o := out[i]
		sort.Slice(o, func(x, y int) bool { return o[x].code < o[y].code })
	}
	return out
}

// collisionGroups returns all sets of >=2 indexed keys with the same 32-bit
// hash, ordered by their smallest key (so groups with short keys come first).
func (ix *hashIndex) collisionGroups() [][]hent {
	var per [256][][]hent
	vlib.ParallelFor(256, func(j int) {
		b := ix.buckets[j]
		for i := 0; i < len(b); {
			k := i + 1
			for k < len(b) && b[k]>>32 == b[i]>>32 {
				k++
			}
			if k-i >= 2 {
				g := make([]hent, 0, k-i)
				for _, e := range b[i:k] {
					g = append(g, hent{uint32(e >> 32), uint32(e)})
				}
				per[j] = append(per[j], g)
			}
			i = k
		}
	})
	var out [][]hent
	for j := range per {
		out = append(out, per[j]...)
	}
	sort.Slice(out, func(x, y int) bool { return out[x][0].code < out[y][0].code })
	return out
}
