package main

// The oracle: an insertion-ordered multimap model of a CDB file, the real
// writer / reader / Dump / Make of go-cdb-mods executed on every case, and the
// comparison between the two.

import (
	"bytes"
	"encoding/binary"
	"encoding/hex"
	"encoding/json"
	"fmt"
	"io"
	"os"
	"sort"
	"strconv"
	"strings"

	spooky "github.com/dgryski/go-spooky"
	cdb "github.com/repustate/go-cdb"
)

type rec struct{ K, V []byte }

// kase is one file to build and interrogate.
type kase struct {
	fam    string   // family: a, b, c, d, e
	id     string   // canonical id inside the family
	recs   []rec    // records in insertion order
	probes [][]byte // additional keys to look up (the model decides present/absent)
	chunks []int    // extra Dump/Make round trips through readers that return at most this many bytes per Read
	first  bool     // also exercise Reader.First / Reader.Exists (tagged API)
	recipe string   // how a large generated case is rebuilt (replay)
	single bool     // parameter sweep: report one minimal case per failure group
}

// Failure is one failing case as a shard reports it.
type Failure struct {
	Group  string // kind[/diagnosis]/family
	ID     string
	Nrec   int
	Size   int
	Detail string
	Recs   []rec // only for enumerated-subset families (minimality by subsequence)
	Single bool
	Replay json.RawMessage
}

type stats struct {
	Files, Records, LookupsPresent, LookupsAbsent, ValuesCompared int64
	ForeachRecords, FirstCalls, DataCalls                         int64
	RoundtripsFile, RoundtripsChunked, MakeFromText               int64
	FilesDisplaced, FilesWrapped, FilesMultiValue                 int64
	AbsentHitOccupied, AbsentFullHashTwin                         int64
	SplitsFailed, SplitsMasked                                    int64
	MaxDisplacement                                               int64
	BytesWritten                                                  int64
	StoredHashChecked                                             int64
}

func (s *stats) add(o *stats) {
	s.Files += o.Files
	s.Records += o.Records
	s.LookupsPresent += o.LookupsPresent
	s.LookupsAbsent += o.LookupsAbsent
	s.ValuesCompared += o.ValuesCompared
	s.ForeachRecords += o.ForeachRecords
	s.FirstCalls += o.FirstCalls
	s.DataCalls += o.DataCalls
	s.RoundtripsFile += o.RoundtripsFile
	s.RoundtripsChunked += o.RoundtripsChunked
	s.MakeFromText += o.MakeFromText
	s.FilesDisplaced += o.FilesDisplaced
	s.FilesWrapped += o.FilesWrapped
	s.FilesMultiValue += o.FilesMultiValue
	s.AbsentHitOccupied += o.AbsentHitOccupied
	s.AbsentFullHashTwin += o.AbsentFullHashTwin
	s.SplitsFailed += o.SplitsFailed
	s.SplitsMasked += o.SplitsMasked
	if o.MaxDisplacement > s.MaxDisplacement {
		s.MaxDisplacement = o.MaxDisplacement
	}
	s.BytesWritten += o.BytesWritten
	s.StoredHashChecked += o.StoredHashChecked
}

// collector gathers what one (single-threaded) shard process found.
type collector struct {
	fails    []Failure
	splits   map[string]int64 // reader/field+phase -> number of round trips in which it was the first split
	nontriv  int64
	gcTicker int64
}

func (c *collector) fail(f Failure) { c.fails = append(c.fails, f) }

func (c *collector) split(key string) { c.splits[key]++ }

type worker struct {
	path string
	ctx  *cdb.Context
	st   *stats
	col  *collector
}

// ---------------------------------------------------------------- model

type layout struct {
	pos  []uint32 // file offset of each record header
	eod  uint32   // end of data = start of the hash tables
	size int      // expected file size
}

func layoutOf(recs []rec) layout {
	l := layout{pos: make([]uint32, len(recs))}
	p := uint32(2048)
	for i, r := range recs {
		l.pos[i] = p
		p += 8 + uint32(len(r.K)) + uint32(len(r.V))
	}
	l.eod = p
	l.size = int(p) + 16*len(recs)
	return l
}

// modelText is the documented text form (+klen,dlen:key->data\n ... \n).
func modelText(recs []rec) []byte {
	var b bytes.Buffer
	for _, r := range recs {
		b.WriteByte('+')
		b.WriteString(strconv.Itoa(len(r.K)))
		b.WriteByte(',')
		b.WriteString(strconv.Itoa(len(r.V)))
		b.WriteByte(':')
		b.Write(r.K)
		b.WriteString("->")
		b.Write(r.V)
		b.WriteByte('\n')
	}
	b.WriteByte('\n')
	return b.Bytes()
}

// ---------------------------------------------------------------- raw file view (evidence and diagnosis only)

type rawInfo struct {
	ok        bool
	displaced int
	wrapped   int
	maxDisp   int
	hpos      [256]uint32
	hslots    [256]uint32
}

func parseRaw(raw []byte) (ri rawInfo) {
	if len(raw) < 2048 {
		return
	}
	for t := 0; t < 256; t++ {
		hpos := binary.LittleEndian.Uint32(raw[t*8:])
		hs := binary.LittleEndian.Uint32(raw[t*8+4:])
		ri.hpos[t], ri.hslots[t] = hpos, hs
		if uint64(hpos)+8*uint64(hs) > uint64(len(raw)) {
			return
		}
		for s := uint32(0); s < hs; s++ {
			h := binary.LittleEndian.Uint32(raw[hpos+8*s:])
			p := binary.LittleEndian.Uint32(raw[hpos+8*s+4:])
			if p == 0 {
				continue
			}
			start := (h >> 8) % hs
			if start != s {
				ri.displaced++
				d := int(s) - int(start)
				if s < start {
					ri.wrapped++
					d += int(hs)
				}
				if d > ri.maxDisp {
					ri.maxDisp = d
				}
			}
		}
	}
	ri.ok = true
	return
}

// startSlotOccupied says whether the reader's first probe for key lands on an
// occupied slot, and whether that slot carries the same full hash.
func startSlotOccupied(raw []byte, ri *rawInfo, key []byte) (occupied, sameHash bool) {
	if !ri.ok {
		return
	}
	h := spooky.Hash32(key)
	t := h & 255
	hs := ri.hslots[t]
	if hs == 0 {
		return
	}
	s := (h >> 8) % hs
	sh := binary.LittleEndian.Uint32(raw[ri.hpos[t]+8*s:])
	p := binary.LittleEndian.Uint32(raw[ri.hpos[t]+8*s+4:])
	return p != 0, p != 0 && sh == h
}

// ---------------------------------------------------------------- readers / writers handed to Dump and Make

// trackReader records the stream offset at which every underlying Read starts.
type trackReader struct {
	r      io.Reader
	off    int64
	chunk  int
	starts []int64
}

func (t *trackReader) Read(p []byte) (int, error) {
	if t.chunk > 0 && len(p) > t.chunk {
		p = p[:t.chunk]
	}
	t.starts = append(t.starts, t.off)
	n, err := t.r.Read(p)
	t.off += int64(n)
	return n, err
}

type memWS struct {
	buf []byte
	pos int64
}

func (m *memWS) Write(p []byte) (int, error) {
	end := m.pos + int64(len(p))
	if end > int64(len(m.buf)) {
		if end > int64(cap(m.buf)) {
			nb := make([]byte, end, end*2+4096)
			copy(nb, m.buf)
			m.buf = nb
		} else {
			m.buf = m.buf[:end]
		}
	}
	copy(m.buf[m.pos:], p)
	m.pos = end
	return len(p), nil
}

func (m *memWS) Seek(off int64, whence int) (int64, error) {
	switch whence {
	case 0:
		m.pos = off
	case 1:
		m.pos += off
	case 2:
		m.pos = int64(len(m.buf)) + off
	}
	if m.pos < 0 {
		return 0, fmt.Errorf("negative seek")
	}
	return m.pos, nil
}

// firstSplit finds the first underlying read that started strictly inside a
// 4-byte number the dumper had to read (header word, klen or dlen).
func firstSplit(starts []int64, lay *layout) (field string, phase int, at int64) {
	for _, b := range starts {
		if b <= 0 || b >= int64(lay.eod) {
			continue
		}
		if b < 2048 {
			if b%4 != 0 {
				return "hdr", int(b % 4), b
			}
			continue
		}
		i := sort.Search(len(lay.pos), func(i int) bool { return int64(lay.pos[i]) > b }) - 1
		if i < 0 {
			continue
		}
		d := b - int64(lay.pos[i])
		switch {
		case d > 0 && d < 4:
			return "klen", int(d), b
		case d > 4 && d < 8:
			return "dlen", int(d - 4), b
		}
	}
	return "", 0, 0
}

func safeDump(w io.Writer, r io.Reader) (err error) {
	defer func() {
		if e := recover(); e != nil {
			err = fmt.Errorf("panic: %v", e)
		}
	}()
	return cdb.Dump(w, r)
}

func safeMake(w io.WriteSeeker, r io.Reader) (err error) {
	defer func() {
		if e := recover(); e != nil {
			err = fmt.Errorf("panic: %v", e)
		}
	}()
	return cdb.Make(w, r)
}

// ---------------------------------------------------------------- the check of one case

func hx(b []byte) string {
	if len(b) == 0 {
		return `""`
	}
	if len(b) > 40 {
		return fmt.Sprintf("%s..(%d bytes)", hex.EncodeToString(b[:16]), len(b))
	}
	return hex.EncodeToString(b)
}

func (w *worker) replayOf(c *kase) json.RawMessage {
	m := map[string]interface{}{"family": c.fam, "case": c.id}
	total := 0
	for _, r := range c.recs {
		total += len(r.K) + len(r.V)
	}
	if total <= 8192 && len(c.recs) <= 64 {
		var rs [][2]string
		for _, r := range c.recs {
			rs = append(rs, [2]string{hex.EncodeToString(r.K), hex.EncodeToString(r.V)})
		}
		m["records_hex_key_value"] = rs
	}
	if c.recipe != "" {
		m["recipe"] = c.recipe
	}
	m["how"] = "cdb.NewWriter(path); Put each record in order; Close; cdb.Open(path); Find/FindNext per key; cdb.Dump(file) then cdb.Make"
	b, _ := json.Marshal(m)
	return b
}

func (w *worker) report(c *kase, group, detail string, size int) {
	f := Failure{Group: group + "/" + c.fam, ID: c.id, Nrec: len(c.recs), Size: size, Detail: detail, Single: c.single, Replay: w.replayOf(c)}
	if !c.single {
		f.Recs = c.recs
	}
	w.col.fail(f)
}

func writeFile(path string, recs []rec) (err error) {
	defer func() {
		if e := recover(); e != nil {
			err = fmt.Errorf("panic: %v", e)
		}
	}()
	wr, err := cdb.NewWriter(path)
	if err != nil {
		return err
	}
	for _, r := range recs {
		if err := wr.Put(r.K, r.V); err != nil {
			return err
		}
	}
	return wr.Close()
}

// lookup runs Find then FindNext until an error; it stops after limit values.
func (w *worker) lookup(db *cdb.Cdb, key []byte, limit int) (vals [][]byte, err error) {
	defer func() {
		if e := recover(); e != nil {
			err = fmt.Errorf("panic: %v", e)
		}
	}()
	v, err := db.Find(key, w.ctx)
	for err == nil {
		vals = append(vals, v)
		if len(vals) >= limit {
			return vals, nil
		}
		v, err = db.FindNext(key, w.ctx)
	}
	return vals, err
}

func (w *worker) run(c *kase) {
	st := w.st
	defer func() {
		if e := recover(); e != nil {
			w.report(c, "panic/outside-lookups", fmt.Sprintf("the library panicked while the case was being written, opened or closed: %v", e), 0)
		}
	}()
	st.Files += 1
	st.Records += int64(len(c.recs))
	if w.col.gcTicker++; w.col.gcTicker%1000 == 0 {
		collectGarbage() // the writer never closes its *os.File; finalizers do
	}

	// model
	model := make(map[string][][]byte, len(c.recs))
	order := make([]string, 0, len(c.recs))
	multi := false
	for _, r := range c.recs {
		ks := string(r.K)
		if _, ok := model[ks]; !ok {
			order = append(order, ks)
		} else {
			multi = true
		}
		model[ks] = append(model[ks], r.V)
	}
	if multi {
		st.FilesMultiValue += 1
	}
	lay := layoutOf(c.recs)

	// the real writer
	if err := writeFile(w.path, c.recs); err != nil {
		w.report(c, "write/error", fmt.Sprintf("writer failed: %v", err), lay.size)
		return
	}
	raw, err := os.ReadFile(w.path)
	if err != nil {
		w.report(c, "write/unreadable", err.Error(), lay.size)
		return
	}
	st.BytesWritten += int64(len(raw))
	ri := parseRaw(raw)
	nontrivial := multi
	if ri.displaced > 0 {
		st.FilesDisplaced += 1
		nontrivial = true
	}
	if ri.wrapped > 0 {
		st.FilesWrapped += 1
	}
	if int64(ri.maxDisp) > st.MaxDisplacement {
		st.MaxDisplacement = int64(ri.maxDisp)
	}

	// the real reader
	db, err := cdb.Open(w.path)
	if err != nil {
		w.report(c, "open/error", err.Error(), len(raw))
		return
	}
	closed := false
	defer func() {
		if !closed {
			db.Close()
		}
	}()

	// every record as the reader enumerates it (also gives the stored hash per record)
	type ent struct {
		h    uint32
		k, v string
	}
	var seen []ent
	var ferr error
	func() {
		defer func() {
			if e := recover(); e != nil {
				ferr = fmt.Errorf("panic: %v", e)
			}
		}()
		ferr = db.ForEachKeys(func(h uint32, k, v []byte) { seen = append(seen, ent{h, string(k), string(v)}) })
	}()
	st.ForeachRecords += int64(len(seen))
	storedDiffers := map[string]bool{}
	for _, e := range seen {
		st.StoredHashChecked += 1
		if spooky.Hash32([]byte(e.k)) != e.h {
			storedDiffers[e.k] = true
		}
	}
	{
		want := make([]string, 0, len(c.recs))
		for _, r := range c.recs {
			want = append(want, strconv.Itoa(len(r.K))+":"+string(r.K)+string(r.V))
		}
		got := make([]string, 0, len(seen))
		for _, e := range seen {
			got = append(got, strconv.Itoa(len(e.k))+":"+e.k+e.v)
		}
		sort.Strings(want)
		sort.Strings(got)
		same := ferr == nil && len(want) == len(got)
		if same {
			for i := range want {
				if want[i] != got[i] {
					same = false
					break
				}
			}
		}
		if !same {
			w.report(c, "foreach/mismatch", fmt.Sprintf("ForEachKeys enumerated %d records (err=%v), the file was written with %d; multisets differ", len(got), ferr, len(want)), len(raw))
		}
	}

	// lookups
	keys := make([][]byte, 0, len(order)+len(c.probes))
	seenKey := make(map[string]bool, len(order)+len(c.probes))
	for _, k := range order {
		keys = append(keys, []byte(k))
		seenKey[k] = true
	}
	for _, p := range c.probes {
		if !seenKey[string(p)] {
			seenKey[string(p)] = true
			keys = append(keys, p)
		}
	}
	for _, key := range keys {
		want := model[string(key)]
		if want == nil {
			st.LookupsAbsent += 1
			occ, same := startSlotOccupied(raw, &ri, key)
			if occ {
				st.AbsentHitOccupied += 1
				nontrivial = true
			}
			if same {
				st.AbsentFullHashTwin += 1
			}
		} else {
			st.LookupsPresent += 1
		}
		got, gerr := w.lookup(db, key, len(want)+2)
		st.ValuesCompared += int64(len(got) + 1)
		kind := ""
		common := 0
		for common < len(got) && common < len(want) && bytes.Equal(got[common], want[common]) {
			common++
		}
		switch {
		case gerr != nil && gerr != io.EOF && strings.HasPrefix(gerr.Error(), "panic: "):
			kind = "find/panic"
		case gerr != nil && gerr != io.EOF:
			kind = "find/error"
		case common == len(want) && len(got) == len(want) && gerr == io.EOF:
		case common == len(got) && len(got) < len(want):
			kind = "find/missing"
		case common == len(want) && len(got) > len(want):
			if len(want) == 0 {
				kind = "find/absent-found"
			} else {
				kind = "find/extra"
			}
		default:
			kind = "find/wrong-value-or-order"
		}
		if kind != "" {
			if storedDiffers[string(key)] {
				kind += "/stored-hash-differs"
			}
			var gs, ws []string
			for _, g := range got {
				gs = append(gs, hx(g))
			}
			for _, x := range want {
				ws = append(ws, hx(x))
			}
			w.report(c, kind, fmt.Sprintf("key %s (len %d, reader hash %08x): Find/FindNext gave %v then err=%v; written values in order: %v", hx(key), len(key), spooky.Hash32(key), gs, gerr, ws), len(raw))
		}
		// Data = first value or EOF
		func() {
			defer func() {
				if e := recover(); e != nil {
					w.report(c, "data/panic", fmt.Sprintf("Data(%s) panicked: %v", hx(key), e), len(raw))
				}
			}()
			st.DataCalls += 1
			d, derr := db.Data(key, w.ctx)
			bad := false
			if len(want) == 0 {
				bad = derr != io.EOF
			} else {
				bad = derr != nil || !bytes.Equal(d, want[0])
			}
			if bad && kind == "" {
				w.report(c, "data/mismatch", fmt.Sprintf("Data(%s) = %s, err=%v; model has %d values", hx(key), hx(d), derr, len(want)), len(raw))
			}
		}()
	}
	closed = true
	if err := db.Close(); err != nil {
		w.report(c, "close/error", err.Error(), len(raw))
	}

	// tagged reader API
	if c.first {
		rd, err := cdb.NewReader(w.path)
		if err != nil {
			w.report(c, "open/error", "NewReader: "+err.Error(), len(raw))
		} else {
			for _, key := range keys {
				if len(key) == 0 {
					continue
				}
				want := model[string(key)]
				st.FirstCalls += 2
				func() {
					defer func() {
						if e := recover(); e != nil {
							w.report(c, "first/panic", fmt.Sprintf("Reader.First/Exists(%s, tag %02x) panicked: %v", hx(key[1:]), key[0], e), len(raw))
						}
					}()
					v, ok := rd.First(key[1:], key[0])
					ex := rd.Exists(key[1:], key[0])
					if ok != (len(want) > 0) || ex != ok || (ok && !bytes.Equal(v, want[0])) {
						g := "first/mismatch"
						if storedDiffers[string(key)] {
							g += "/stored-hash-differs"
						}
						w.report(c, g, fmt.Sprintf("Reader.First(%s, tag %02x) = %s, %v; Exists = %v; model has %d values", hx(key[1:]), key[0], hx(v), ok, ex, len(want)), len(raw))
					}
				}()
			}
			rd.Close()
		}
	}

	// Dump then Make
	var text []byte
	w.roundtrip(c, raw, &lay, &text, 0)
	for _, ch := range c.chunks {
		w.roundtrip(c, raw, &lay, &text, ch)
	}
	if nontrivial {
		w.col.nontriv++
	}
}

func (w *worker) roundtrip(c *kase, raw []byte, lay *layout, text *[]byte, chunk int) {
	st := w.st
	rname := "file"
	if chunk > 0 {
		rname = "chunk" + strconv.Itoa(chunk)
		st.RoundtripsChunked += 1
	} else {
		st.RoundtripsFile += 1
	}
	f, err := os.Open(w.path)
	if err != nil {
		w.report(c, "open/error", err.Error(), len(raw))
		return
	}
	tr := &trackReader{r: f, chunk: chunk}
	var out bytes.Buffer
	derr := safeDump(&out, tr)
	f.Close()
	var made memWS
	var merr error
	ok := false
	if derr == nil {
		var src io.Reader = bytes.NewReader(out.Bytes())
		if chunk > 0 {
			src = &trackReader{r: src, chunk: chunk}
		}
		merr = safeMake(&made, src)
		ok = merr == nil && bytes.Equal(made.buf, raw)
	}
	field, phase, at := firstSplit(tr.starts, lay)
	if field != "" {
		w.col.split(fmt.Sprintf("%s/%s+%d", rname, field, phase))
	}
	if ok {
		if field != "" {
			st.SplitsMasked += 1
		}
		return
	}
	if *text == nil {
		*text = modelText(c.recs)
	}
	dumpSide := true
	switch {
	case field != "":
		st.SplitsFailed += 1
		w.col.fail(Failure{Group: fmt.Sprintf("dumpmake/split/%s/%s+%d", rname, field, phase), ID: c.fam + ":" + c.id, Nrec: len(c.recs), Size: len(raw),
			Detail: fmt.Sprintf("Dump of the %d-byte file (%d records) through reader %q: the %s number at file offset %d had only %d of its 4 bytes buffered (next underlying read started at %d); Dump err=%v, output %d bytes (expected %d), Make err=%v, rebuilt file equal=%v", len(raw), len(c.recs), rname, field, at-int64(phase), phase, at, derr, out.Len(), len(*text), merr, ok),
			Single: true, Replay: w.replayOf(c)})
	case derr != nil:
		w.report(c, "dumpmake/dump-error/"+rname, fmt.Sprintf("Dump failed: %v (no number field was split by a read boundary)", derr), len(raw))
	case !bytes.Equal(out.Bytes(), *text):
		w.report(c, "dumpmake/dump-text/"+rname, fmt.Sprintf("Dump output (%d bytes) is not the documented text of the records (%d bytes); first difference at %d", out.Len(), len(*text), firstDiff(out.Bytes(), *text)), len(raw))
	case merr != nil:
		dumpSide = false
		w.report(c, "dumpmake/make-error/"+rname, fmt.Sprintf("Make on a correct dump failed: %v", merr), len(raw))
	default:
		dumpSide = false
		w.report(c, "dumpmake/make-differs/"+rname, fmt.Sprintf("Make on a correct dump produced %d bytes, file has %d; first difference at offset %d", len(made.buf), len(raw), firstDiff(made.buf, raw)), len(raw))
	}
	if dumpSide {
		// Dump did not deliver; still exercise Make on the text Dump is documented to produce.
		st.MakeFromText += 1
		var m2 memWS
		var src io.Reader = bytes.NewReader(*text)
		if chunk > 0 {
			src = &trackReader{r: src, chunk: chunk}
		}
		e2 := safeMake(&m2, src)
		if e2 != nil || !bytes.Equal(m2.buf, raw) {
			w.report(c, "make-from-text/"+rname, fmt.Sprintf("Make on the documented dump text: err=%v, %d bytes vs file %d bytes, first difference at %d", e2, len(m2.buf), len(raw), firstDiff(m2.buf, raw)), len(raw))
		}
	}
}

func firstDiff(a, b []byte) int {
	n := len(a)
	if len(b) < n {
		n = len(b)
	}
	for i := 0; i < n; i++ {
		if a[i] != b[i] {
			return i
		}
	}
	if len(a) != len(b) {
		return n
	}
	return -1
}

// isSubseq reports whether a is a subsequence of b (records compared by value).
func isSubseq(a, b []rec) bool {
	if len(a) > len(b) {
		return false
	}
	i := 0
	for _, r := range b {
		if i < len(a) && bytes.Equal(a[i].K, r.K) && bytes.Equal(a[i].V, r.V) {
			i++
		}
	}
	return i == len(a)
}

func newCtx() *cdb.Context { return cdb.NewContext() }
