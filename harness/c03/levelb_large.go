package main

// Level B, large maps: a few fixed maps with MORE than 100 range points (the
// subnet sets of the enumerated part have at most 2 members, i.e. at most a
// handful of range points: nothing there crosses a chunk, batch or buffer
// boundary of the compilers). Each is compiled by the real compilers to the four
// stores and looked up for the first/last/just-outside addresses of every one of
// its subnets, against the same brute-force longest-prefix oracle.

import (
	"bytes"
	"fmt"
	"os"
	"strings"
	"sync/atomic"

	"github.com/facebookincubator/dns/dnsrocks/db"
	"github.com/facebookincubator/dns/dnsrocks/dnsdata"

	"verifharness/dnsfix"
	"verifharness/vlib"
)

type largeMap struct {
	name     string
	doc      string
	prefixes []prefix
	set      []decl
	clients  []client
}

func (m *largeMap) add(text string, loc int) {
	m.prefixes = append(m.prefixes, parsePrefix(text))
	m.set = append(m.set, decl{nil, loc}) // the pointer is set once the slice is complete
}

func (m *largeMap) finish() {
	for i := range m.set {
		m.set[i].p = &m.prefixes[i]
	}
	m.clients = buildClients(m.prefixes)
}

func largeMaps() []*largeMap {
	var out []*largeMap
	mk := func(name, doc string) *largeMap {
		m := &largeMap{name: name, doc: doc}
		out = append(out, m)
		return m
	}
	m := mk("v4-60-disjoint", "10.k.0.0/24 for k=1..60, locations alternating (a start and an end point each: >=120 range points)")
	for k := 1; k <= 60; k++ {
		m.add(fmt.Sprintf("10.%d.0.0/24", k), k%2)
	}
	m = mk("v4-130-adjacent", "11.0.k.0/24 for k=0..129, locations alternating (adjacent: one point per subnet plus the end), inside 11.0.0.0/8 and the IPv4 default route")
	m.add("0.0.0.0/0", 1)
	m.add("11.0.0.0/8", 0)
	for k := 0; k < 130; k++ {
		m.add(fmt.Sprintf("11.0.%d.0/24", k), k%2)
	}
	m = mk("v6-60-disjoint", "2001:db8:k::/48 for k=1..60 (hex), locations alternating, plus the IPv6 default route")
	m.add("::/0", 1)
	for k := 1; k <= 60; k++ {
		m.add(fmt.Sprintf("2001:db8:%x::/48", k), k%2)
	}
	m = mk("mixed-nested", "both default routes; 12.k.0.0/16 (k=1..30) each holding 12.k.128.0/17 of the other location; 2001:db9:k::/48 (k=1..30) each holding 2001:db9:k:8000::/49")
	m.add("0.0.0.0/0", 0)
	m.add("::/0", 1)
	for k := 1; k <= 30; k++ {
		m.add(fmt.Sprintf("12.%d.0.0/16", k), k%2)
		m.add(fmt.Sprintf("12.%d.128.0/17", k), (k+1)%2)
		m.add(fmt.Sprintf("2001:db9:%x::/48", k), k%2)
		m.add(fmt.Sprintf("2001:db9:%x:8000::/49", k), (k+1)%2)
	}
	for _, m := range out {
		m.finish()
	}
	return out
}

type largeFail struct {
	store, path, qclass, kind uint8
	fam                       uint8
}

type largeResult struct {
	first map[largeFail]string // description of the first failing client
	n     map[largeFail]int
	order []largeFail
	panic string
}

// largeStore: a store configuration, optionally behind the preprocessor (the
// production pipeline: dnsrocks-preproc turns the '%' lines into range-point
// lines through SubnetRanger.OpenScanner, and the RocksDB compiler compiles those;
// without it rdb.Compile derives the points itself through Accum.MarshalMap).
type largeStore struct {
	storeCfg
	preproc bool
}

var storesLarge = []largeStore{
	{storeCfg{"cdb-combined", dnsfix.CDB, false}, false},
	{storeCfg{"cdb-perfamily", dnsfix.CDB, true}, false},
	{storeCfg{"rdb-v1", dnsfix.RDBv1, false}, false},
	{storeCfg{"rdb-v2", dnsfix.RDBv2, false}, false},
	{storeCfg{"rdb-v1-preproc", dnsfix.RDBv1, false}, true},
	{storeCfg{"rdb-v2-preproc", dnsfix.RDBv2, false}, true},
}

// preprocessText runs the data file through the preprocessor configured as
// cmd/dnsrocks-preproc configures it.
func preprocessText(text []byte) ([]byte, error) {
	codec := new(dnsdata.Codec)
	codec.Acc.Ranger.Enable()
	codec.Acc.NoPrefixSets = true
	codec.NoRnetOutput = true
	var out bytes.Buffer
	if err := codec.Preprocess(bytes.NewReader(text), &out); err != nil {
		return nil, err
	}
	return out.Bytes(), nil
}

// runLarge compiles every large map to every store (one store configuration at a
// time: db.SeparateBitMap is a package variable) and compares every lookup.
func (b *levelB) runLarge(r *vlib.Run, dir string) {
	maps := largeMaps()
	results := make([]largeResult, len(maps))
	for i := range results {
		results[i] = largeResult{first: map[largeFail]string{}, n: map[largeFail]int{}}
		if msg := preflight(maps[i].set); msg != "" {
			results[i].panic = msg
		}
	}
	for _, st := range storesLarge {
		db.SeparateBitMap = st.separate
		st := st
		var fails = make([][]struct {
			f    largeFail
			desc string
		}, len(maps))
		vlib.ParallelFor(len(maps), func(mi int) {
			m := maps[mi]
			if results[mi].panic != "" {
				return
			}
			text := []byte(mapHeader + setLines(m.set, "m1"))
			if st.preproc {
				var err error
				if text, err = preprocessText(text); err != nil {
					vlib.Infra("level B large: preprocessing map %s failed: %v", m.name, err)
				}
			}
			path, err := dnsfix.Compile(dir, st.backend, text)
			if err != nil {
				vlib.Infra("level B large: compile %s of map %s failed: %v", st.name, m.name, err)
			}
			atomic.AddInt64(&b.dbs, 1)
			d, err := db.Open(path, st.backend.Driver())
			if err != nil {
				vlib.Infra("level B large: open %s: %v", path, err)
			}
			si := storeIndex(st.name)
			var evals, nontriv, failing int64
			for qc, q := range [][]byte{qnameM1, qnameNoMap} {
				for p := 0; p < 2; p++ {
					for k := range m.clients {
						cl := &m.clients[k]
						if p == 0 && !cl.full {
							continue
						}
						want := -1
						if qc == 0 {
							want = oracle(m.set, cl)
						}
						got, desc, _, panicked := lookup(d, p, q, cl)
						evals++
						if want >= 0 {
							nontriv++
						}
						kind := classify(want, got)
						if panicked {
							kind = kPanic
						} else if got == gotOther {
							if want < 0 {
								kind = kWantNoneGotLoc
							} else {
								kind = kWrongLoc
							}
						}
						if kind >= 0 {
							failing++
							w := "no location"
							if want >= 0 {
								w = locNames[want]
							}
							fails[mi] = append(fails[mi], struct {
								f    largeFail
								desc string
							}{largeFail{store: si, path: uint8(p), qclass: uint8(qc), kind: uint8(kind), fam: uint8(cl.fam)},
								fmt.Sprintf("client %s: oracle says %s, the reader returned %s", cl.text, w, desc)})
						}
					}
				}
			}
			atomic.AddInt64(&b.evals, evals)
			atomic.AddInt64(&b.nontrivial, nontriv)
			atomic.AddInt64(&b.failing, failing)
			d.Destroy()
			os.RemoveAll(path)
		})
		for mi := range maps {
			for _, x := range fails[mi] {
				if _, ok := results[mi].first[x.f]; !ok {
					results[mi].first[x.f] = x.desc
					results[mi].order = append(results[mi].order, x.f)
				}
				results[mi].n[x.f]++
			}
		}
	}
	db.SeparateBitMap = false

	var docs []string
	minPoints := -1
	for mi, m := range maps {
		np := countRangePoints(m)
		if minPoints < 0 || np < minPoints {
			minPoints = np
		}
		docs = append(docs, fmt.Sprintf("%s (%d subnets, %d range points, %d clients): %s", m.name, len(m.set), np, len(m.clients), m.doc))
		text := mapHeader + setLines(m.set, "m1")
		if results[mi].panic != "" {
			violate(r, fmt.Sprintf("lpm-store/rdb-compile/large/panic/%s", m.name),
				fmt.Sprintf("Rearranger.AddLocation/Rearrange panics on this map (%s)\ndata file:\n%s", results[mi].panic, text),
				map[string]interface{}{"level": "A", "lines": strings.Split(strings.TrimSpace(setLines(m.set, "m1")), "\n"), "client": "0.0.0.0/0"})
			continue
		}
		for _, f := range results[mi].order {
			qn := "example.com"
			if f.qclass == 1 {
				qn = "nomap.org"
			}
			fp := fmt.Sprintf("lpm-store/%s/%s/large/%s/%s/v%d/%s", storeNames[f.store], pathNames[f.path], qclassNames[f.qclass], kindNamesB[f.kind], f.fam, m.name)
			first := results[mi].first[f]
			cl := strings.TrimPrefix(first[:strings.Index(first, ": oracle says")], "client ")
			violate(r, fp, fmt.Sprintf("store %s, %s path, query name %s, large map %s (%s); first of %d clients of this family failing this way: %s\ndata file:\n%s",
				storeNames[f.store], pathNames[f.path], qn, m.name, m.doc, results[mi].n[f], first, text),
				map[string]interface{}{"level": "B", "store": storeNames[f.store], "path": pathNames[f.path], "qname": qn, "client": cl, "data": text, "got": first})
		}
	}
	b.largeDoc = strings.Join(docs, "; ")
	b.nLarge = len(maps)
	b.largeMinPoints = minPoints
	r.Sample(map[string]interface{}{"level": "B", "surrounding": "large map", "set": maps[0].name, "subnets": len(maps[0].set), "range_points": countRangePoints(maps[0]), "clients": len(maps[0].clients)})
}

// countRangePoints counts the range points the real codec path derives from the
// map (the same path level A reads its tables from).
func countRangePoints(m *largeMap) int {
	pts, err := rangePoints(m.set)
	if err != nil {
		vlib.Infra("level B large: codec path on map %s: %v", m.name, err)
	}
	return len(pts)
}
